#!/bin/sh
# Builds the framework from files on disk only (offline): Lean models, theorems and driver; harness.
set -e
cd "$(dirname "$0")"
export CARGO_NET_OFFLINE=true
python3 tools/extract_consts.py all || true
(cd lean && lake build)
(cd harness && RUSTFLAGS="--cfg metrique_verif" cargo build --offline --bins && RUSTFLAGS="--cfg metrique_verif" cargo build --offline --release --bins)
