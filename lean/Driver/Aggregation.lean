import Model.Aggregation
/-!
Line protocol of engine `aggregation` (one case per line, the whole operation sequence in the line):

  request: `<pipeline> <tok> <tok> …`
  input   `<endpoint hex|->:<shard>:<bytes>:<last>:<obs v*c+v*c…|->:<opt|->:<inner>`

  A merge-on-drop guard is created by `g…=<input>` (`CloseAndMergeOnDrop`) or `h…=<input>` (`MergeOnDrop`)
  and goes out of scope by `d<g>` (plain drop), `u<g>` (dropped by an unwinding panic that is caught on
  the same thread) or `j<g>` (by an unwinding panic on a spawned thread that is joined). In the model a
  guard drop is ONE event — the merge of its entry — whatever its kind and whatever caused the drop.

  pipeline `keyed`    toks `m=<input>` (merge) `r=<input>` (merge_ref) `f` (flush) and guards `g=`/`h=`, `d/u/j<g>`
                      over a `RootSink` in front of the aggregator
           `tee`      toks `m=<input>` `f`            (A keyed by (endpoint, shard), B by endpoint, C raw)
           `embedded` toks `i=<input>` `t=<input>` `m=<input>` `r=<input>`   (key-less `Aggregate<T>`)
           `mutex`    handle 0 is the `MutexSink<Aggregate<..>>` field flattened into a parent entry, further handles are
                      clones; toks `m=<input>`/`m<h>=<input>` (merge through a handle) `g…`/`h…` (guard through a handle)
                      `d/u/j<g>` `c<h>` (clone) `x<h>` (drop a clone, h > 0) `C`/`C<h>` (close the parent / the clone
                      standalone: one observation, the closed aggregate); ops on closed/dropped handles are skipped;
                      at the end remaining guards are dropped in order, then the parent is closed if it still
                      is open, then the lowest live clone (the "next" aggregate)
           `worker`   toks `s<h>=<input>` `g<h>=<input>` `d<g>` `F<h>` `c<h>` `x<h>`; ops on dead handles /
                      guards are skipped; at the end remaining guards, then handles are dropped
           `gated`    the worker with an inner sink whose `flush` the harness can hold at a gate (a gate only
                      restricts the schedule: while it is closed the model's worker takes no step); toks
                      `s<h>=<input>` `c<h>` `x<h>` `A<h>` (start a flush request through a clone of handle h and leave it
                      in flight; while the gate is closed: observation `f<k>:pending`) `P` (gate closed: every flush in
                      flight is still pending, observation `P:<pending>/<in flight>`) `G0` (wait for the flushes in
                      flight, then close the gate; ignored while it is closed) `G1` (open the gate, wait for the flushes in flight, observation
                      `G:A[..]B[..]` = everything emitted since the last observation, all epochs together)
           `cap`      toks `i=<input>`: a struct whose distribution fields use `SortAndMerge<0>`, `<1>`, `<2>` (inline
                      capacity boundary); reply = the one distribution all of them must show
           `keyonly`  toks `m=<input>` `f`: an `#[aggregate]` struct with a key and no aggregated field at all;
                      reply per flush = the distinct endpoints
           `trace`    toks `in=<input>` … `out=<aggregate>` …   (T-trace: totals of a concurrent run)

  reply: observations joined by ` | `; an observation is what one flush emitted: aggregates
  `<endpoint>:<shard|->:<bytes>:<last|->:<dist v*c+…|->:<opt>:<inner>` sorted as strings, joined by `;`
  (`-` when empty); tee/worker observations are `A[..]B[..]`.
-/
namespace Driver.Aggregation
open _root_.Aggregation

def hexDigit (c : Char) : Option Nat :=
  if '0' ≤ c ∧ c ≤ '9' then some (c.toNat - '0'.toNat)
  else if 'a' ≤ c ∧ c ≤ 'f' then some (c.toNat - 'a'.toNat + 10)
  else none

def unhexAux : List Char → Option (List Nat)
  | [] => some []
  | [_] => none
  | a :: b :: rest => do
    let x ← hexDigit a
    let y ← hexDigit b
    let r ← unhexAux rest
    pure ((x * 16 + y) :: r)

def unhex (s : String) : Option (List Nat) :=
  if s == "-" then some [] else unhexAux s.toList

def hexChar (n : Nat) : Char := if n < 10 then Char.ofNat (n + 48) else Char.ofNat (n - 10 + 97)

def hex (bs : List Nat) : String :=
  if bs.isEmpty then "-" else String.ofList (bs.flatMap fun b => [hexChar (b / 16), hexChar (b % 16)])

def parsePair (s : String) : Option (Nat × Nat) :=
  match s.splitOn "*" with
  | [a, b] => do pure ((← a.toNat?), (← b.toNat?))
  | _ => none

def parseObs (s : String) : Option (List (Nat × Nat)) :=
  if s == "-" then some [] else (s.splitOn "+").mapM parsePair

def parseOpt (s : String) : Option (Option Nat) :=
  if s == "-" then some none else s.toNat?.map some

def parseInput (s : String) : Option Input :=
  match s.splitOn ":" with
  | [ep, sh, by_, la, ob, op, inn] => do
    pure { key := { endpoint := (← unhex ep), shard := (← sh.toNat?) }, bytes := (← by_.toNat?),
           last := (← la.toNat?), obs := (← parseObs ob), opt := (← parseOpt op), inner := (← inn.toNat?) }
  | _ => none

def showDist (d : List (Nat × Nat)) : String :=
  if d.isEmpty then "-" else "+".intercalate (d.map fun p => s!"{p.1}*{p.2}")

def showClosed (ep : String) (sh : String) (c : Closed) : String :=
  let last := match c.last with | some v => toString v | none => "-"
  s!"{ep}:{sh}:{c.bytes}:{last}:{showDist c.dist}:{c.opt}:{c.inner}"

def insertStr (x : String) : List String → List String
  | [] => [x]
  | y :: ys => if x < y then x :: y :: ys else y :: insertStr x ys

def sortStr (l : List String) : List String := l.foldr insertStr []

def showList (l : List String) : String := if l.isEmpty then "-" else ";".intercalate (sortStr l)

def showA (aggs : List (Key × Accum)) : String :=
  showList (aggs.map fun p => showClosed (hex p.1.endpoint) (toString p.1.shard) (close p.2))

def showB (aggs : List (List Nat × Accum)) : String :=
  showList (aggs.map fun p => showClosed (hex p.1) "-" (close p.2))

def showRaw (l : List Input) : String :=
  if l.isEmpty then "-" else ";".intercalate (l.map fun e => s!"{hex e.key.endpoint}:{e.key.shard}:{e.bytes}")

def join (obs : List String) : String := if obs.isEmpty then "none" else " | ".intercalate obs

/-- token `<tag>=<input>` -/
def splitTok (t : String) : Option (String × Input) :=
  match t.splitOn "=" with
  | [tag, inp] => (parseInput inp).map fun e => (tag, e)
  | _ => none

/-! ### merge-on-drop guards: a drop is a merge, whatever its cause -/

def isDropTok (t : String) : Bool :=
  (t.startsWith "d" || t.startsWith "u" || t.startsWith "j") && ((t.drop 1).toNat?).isSome

/-- replaces guard creation / drop tokens of the sequential pipelines by the merge they amount to
(`m=<input>` at the point of the drop); guards alive at the end are dropped in order -/
def resolveGuards : List String → List (Option String) → List String → Option (List String)
  | [], guards, out => some (out ++ (guards.filterMap id).map ("m=" ++ ·))
  | t :: ts, guards, out =>
    if isDropTok t then
      match (t.drop 1).toNat? with
      | none => none
      | some g =>
        match guards[g]? with
        | some (some inp) => resolveGuards ts (guards.set g none) (out ++ ["m=" ++ inp])
        | _ => resolveGuards ts guards out          -- dead / unknown guard: skipped
    else match t.splitOn "=" with
      | [tag, inp] =>
        if tag == "g" || tag == "h" then resolveGuards ts (guards ++ [some inp]) out
        else resolveGuards ts guards (out ++ [t])
      | _ => resolveGuards ts guards (out ++ [t])

/-! ### keyed / tee -/

def parseKOp (allowRef : Bool) (t : String) : Option (Op Input) :=
  if t == "f" then some .flush else
  match splitTok t with
  | some ("m", e) => some (.merge e)
  | some ("r", e) => if allowRef then some (.merge e) else none
  | _ => none

def keyA (e : Input) : Key := e.key

def handleKeyed (toks : List String) : String :=
  match (resolveGuards toks [] []).bind fun ts => ts.mapM (parseKOp true) with
  | none => "bad-op"
  | some ops =>
    let r := krun callStrat keyA {} ops
    join (r.emitted.map showA)

abbrev TeeState := KState Key Accum × (KState (List Nat) Accum × List Input)

def teeStepAll : TeeState → Op Input → TeeState :=
  teeStep (kstep callStrat keyA) (teeStep (kstep callStrat keyB) rawStep)

def showTeeObs (a : List (Key × Accum)) (b : List (List Nat × Accum)) : String :=
  s!"A[{showA a}]B[{showB b}]"

def showTee (s : TeeState) : List String :=
  (List.zip s.1.emitted s.2.1.emitted).map fun p => showTeeObs p.1 p.2

def handleTee (toks : List String) : String :=
  match toks.mapM (parseKOp false) with
  | none => "bad-op"
  | some ops =>
    let s : TeeState := ops.foldl teeStepAll ({}, ({}, []))
    join (showTee s ++ [s!"raw={showRaw s.2.2}"])

/-! ### degenerate shapes: inline capacity 0/1/2, no aggregated field -/

def handleCap (toks : List String) : String :=
  match toks.mapM fun t => match splitTok t with
    | some ("i", e) => some e
    | _ => none with
  | none => "bad-op"
  | some l => showDist (close (embedded callStrat l)).dist

/-- the `Merge` impl of a struct without aggregated fields -/
def unitStrat : Strat Input Unit := { empty := (), merge := fun _ _ => () }

def handleKeyOnly (toks : List String) : String :=
  match toks.mapM (parseKOp false) with
  | none => "bad-op"
  | some ops =>
    let r := krun unitStrat keyB {} ops
    join (r.emitted.map fun ep => showList (ep.map fun p => hex p.1))

/-! ### embedded / mutex -/

def handleEmbedded (toks : List String) : String :=
  let parsed := toks.mapM fun t => match splitTok t with
    | some (tag, e) => if tag == "i" || tag == "m" || tag == "r" then some (e, false)
                       else if tag == "t" then some (e, true) else none
    | none => none
  match parsed with
  | none => "bad-op"
  | some l =>
    let a := embedded callStrat (l.map (·.1))
    let raw := (l.filter (·.2)).map fun p => s!"-:-:{p.1.bytes}"
    s!"{showClosed "-" "-" (close a)} | raw={if raw.isEmpty then "-" else ";".intercalate raw}"

def alive (l : List Bool) (h : Nat) : Bool := l[h]? == some true

structure MDrv where
  m : MState Accum := { shared := callStrat.empty }
  /-- handle 0 = the parent's field, others = clones -/
  handles : List Bool := [true]
  guards : List (Option Input) := []
  bad : Bool := false

def MDrv.step (d : MDrv) (op : MOp Input) : MDrv := { d with m := mstep callStrat d.m op }

def mtokHandle (t : String) : Nat := ((t.drop 1).toNat?).getD 0

def mtok (d : MDrv) (t : String) : MDrv :=
  if isDropTok t then
    match (t.drop 1).toNat? with
    | none => { d with bad := true }
    | some g =>
      match d.guards[g]? with
      | some (some e) => { (d.step (.merge e)).step .dropHandle with guards := d.guards.set g none }
      | _ => d
  else if t.startsWith "C" then
    let h := mtokHandle t
    if alive d.handles h then { d.step .close with handles := d.handles.set h false } else d
  else if t.startsWith "c" && !(t.contains '=') then
    let h := mtokHandle t
    if alive d.handles h then { d.step .clone with handles := d.handles ++ [true] } else d
  else if t.startsWith "x" then
    let h := mtokHandle t
    if h ≠ 0 && alive d.handles h then { d.step .dropHandle with handles := d.handles.set h false } else d
  else match t.splitOn "=" with
    | [tag, inp] =>
      match parseInput inp with
      | none => { d with bad := true }
      | some e =>
        let h := mtokHandle tag
        if tag.startsWith "m" then (if alive d.handles h then d.step (.merge e) else d)
        else if tag.startsWith "g" || tag.startsWith "h" then
          (if alive d.handles h then { d.step .clone with guards := d.guards ++ [some e] } else d)
        else { d with bad := true }
    | _ => { d with bad := true }

def handleMutex (toks : List String) : String :=
  let d := toks.foldl mtok {}
  let d := d.guards.foldl (fun d g => match g with
    | some e => (d.step (.merge e)).step .dropHandle
    | none => d) d
  let d := if alive d.handles 0 then { d.step .close with handles := d.handles.set 0 false } else d
  let d := match (List.range d.handles.length).find? (alive d.handles) with
    | some h => { d.step .close with handles := d.handles.set h false }
    | none => d
  if d.bad then "bad-op" else
  join (d.m.emitted.map fun a => showClosed "-" "-" (close a))

/-! ### worker -/

structure WDrv where
  w : WState Input := {}
  handles : List Bool := [true]
  guards : List (Option Input) := []
  obs : List String := []
  /-- number of inner flushes already reported -/
  seen : Nat := 0
  bad : Bool := false

def innerTee (ops : List (IOp Input)) : TeeState :=
  (ops.map IOp.toOp).foldl teeStepAll ({}, ({}, []))

/-- apply events; the generator only produces enabled ones, a disabled one marks the case bad -/
def WDrv.events (d : WDrv) (evs : List (Event Input)) : WDrv :=
  match wrun d.w evs with
  | some w => { d with w := w }
  | none => { d with bad := true }


/-- report the epochs emitted since the last report as one observation each -/
def WDrv.report (d : WDrv) (pref : String) : WDrv :=
  let all := showTee (innerTee d.w.innerOps)
  let new := all.drop d.seen
  { d with obs := d.obs ++ new.map (pref ++ ·), seen := all.length }

def parseIdx (t : String) : Option Nat := (t.drop 1).toNat?

def wtok (d : WDrv) (t : String) : WDrv :=
  if t.startsWith "F" then
    match parseIdx t with
    | none => { d with bad := true }
    | some h =>
      if alive d.handles h then
        let d := d.events [.sendFlush]
        -- `flush().await`: the caller continues only after the request was answered
        let w := workerUntilFlushDone (d.w.flushDone + 1) (d.w.chan.length + 1) d.w
        ({ d with w := w }).report ""
      else d
  else if t.startsWith "c" then
    match parseIdx t with
    | none => { d with bad := true }
    | some h => if alive d.handles h then { d.events [.clone] with handles := d.handles ++ [true] } else d
  else if t.startsWith "x" then
    match parseIdx t with
    | none => { d with bad := true }
    | some h => if alive d.handles h then { d.events [.dropHandle] with handles := d.handles.set h false } else d
  else if t.startsWith "d" || t.startsWith "u" || t.startsWith "j" then
    -- a guard going out of scope (plain drop / unwinding, here or on a joined thread): send, drop its handle
    match parseIdx t with
    | none => { d with bad := true }
    | some g =>
      match d.guards[g]? with
      | some (some e) => { d.events [.send e, .dropHandle] with guards := d.guards.set g none }
      | _ => d
  else match t.splitOn "=" with
    | [tag, inp] =>
      match parseInput inp, (tag.drop 1).toNat? with
      | some e, some h =>
        if tag.startsWith "s" then (if alive d.handles h then d.events [.send e] else d)
        else if tag.startsWith "g" || tag.startsWith "h" then
          (if alive d.handles h then { d.events [.clone] with guards := d.guards ++ [some e] } else d)
        else { d with bad := true }
      | _, _ => { d with bad := true }
    | _ => { d with bad := true }

def handleWorker (toks : List String) : String :=
  let d := toks.foldl wtok {}
  -- end of the case: remaining guards are dropped in order, then the handles
  let d := d.guards.foldl (fun d g => match g with
    | some e => d.events [.send e, .dropHandle]
    | none => d) d
  let d := d.handles.foldl (fun d h => if h then d.events [.dropHandle] else d) d
  let before := d.w.chan.length
  let w := workerToExit (before + 1) d.w
  let d := ({ d with w := w }).report "end:"
  if d.bad then "bad-op" else
  let raw := (innerTee d.w.innerOps).2.2
  join (d.obs ++ [s!"raw={showRaw raw}", s!"exited={if d.w.exited then 1 else 0}"])

/-! ### gated worker: several flush requests in flight -/

structure GDrv where
  w : WState Input := {}
  handles : List Bool := [true]
  obs : List String := []
  /-- number of inner flushes already reported -/
  seen : Nat := 0
  bad : Bool := false
  closed : Bool := false
  /-- flush requests started so far -/
  started : Nat := 0
  /-- flush requests whose future (and the handle clone it owns) has been dropped after completion -/
  reaped : Nat := 0

def GDrv.events (d : GDrv) (evs : List (Event Input)) : GDrv :=
  match wrun d.w evs with
  | some w => { d with w := w }
  | none => { d with bad := true }

/-- everything emitted since the last report, the epochs taken together -/
def GDrv.report (d : GDrv) (pref : String) : GDrv :=
  let t := innerTee d.w.innerOps
  let a := (t.1.emitted.drop d.seen).flatten
  let b := (t.2.1.emitted.drop d.seen).flatten
  { d with obs := d.obs ++ [s!"{pref}{showTeeObs a b}"], seen := t.1.emitted.length }

/-- wait for every flush in flight: the worker runs until all requests are answered, the futures
(each owning a handle clone) are dropped, and if no sender is left the worker runs to its exit -/
def GDrv.sync (d : GDrv) : GDrv :=
  let w := workerUntilFlushDone d.started (d.w.chan.length + 1) d.w
  let d := { d with w := w }
  let d := d.events (List.replicate (d.started - d.reaped) .dropHandle)
  let d := { d with reaped := d.started }
  if d.w.handles = 0 then { d with w := workerToExit (d.w.chan.length + 1) d.w } else d

def gtok (d : GDrv) (t : String) : GDrv :=
  if t == "G0" then (if d.closed then d else { d.sync with closed := true })
  else if t == "G1" then ({ d with closed := false }).sync.report "G:"
  else if t == "P" then
    if d.closed then
      let n := d.started - d.reaped
      -- the gate is closed: the worker takes no step, nothing in flight is answered
      { d with obs := d.obs ++ [s!"P:{n - (d.w.flushDone - d.reaped)}/{n}"] }
    else d
  else if t.startsWith "A" then
    match parseIdx t with
    | none => { d with bad := true }
    | some h =>
      if alive d.handles h then
        let d := d.events [.clone, .sendFlush]
        let k := d.started
        let d := { d with started := d.started + 1 }
        if d.closed then { d with obs := d.obs ++ [s!"f{k}:{if d.w.flushDone > k then "ready" else "pending"}"] } else d
      else d
  else if t.startsWith "c" then
    match parseIdx t with
    | none => { d with bad := true }
    | some h => if alive d.handles h then { d.events [.clone] with handles := d.handles ++ [true] } else d
  else if t.startsWith "x" then
    match parseIdx t with
    | none => { d with bad := true }
    | some h => if alive d.handles h then { d.events [.dropHandle] with handles := d.handles.set h false } else d
  else match t.splitOn "=" with
    | [tag, inp] =>
      match parseInput inp, (tag.drop 1).toNat? with
      | some e, some h =>
        if tag.startsWith "s" then (if alive d.handles h then d.events [.send e] else d)
        -- `b<n>=<input>`: n entries in a row through handle 0 (send, merge, both guard kinds in turn)
        else if tag.startsWith "b" then (if alive d.handles 0 then d.events (List.replicate h (.send e)) else d)
        else { d with bad := true }
      | _, _ => { d with bad := true }
    | _ => { d with bad := true }

def handleGated (toks : List String) : String :=
  let d := toks.foldl gtok {}
  let d := ({ d with closed := false }).sync
  let d := d.handles.foldl (fun d h => if h then d.events [.dropHandle] else d) d
  let d := { d with w := workerToExit (d.w.chan.length + 1) d.w }
  let d := d.report "end:"
  if d.bad then "bad-op" else
  let raw := (innerTee d.w.innerOps).2.2
  join (d.obs ++ [s!"raw={showRaw raw}", s!"exited={if d.w.exited then 1 else 0}"])

/-! ### trace acceptance (T-trace): totals of a concurrent / timed run -/

structure OutAgg where
  key : Key
  keyed : Bool
  c : Closed

def parseOut (s : String) : Option OutAgg :=
  match s.splitOn ":" with
  | [ep, sh, by_, la, di, op, inn] => do
    let keyed := sh != "-"
    let shard ← if keyed then sh.toNat? else some 0
    let last ← parseOpt la
    pure { key := { endpoint := (← unhex ep), shard := shard }, keyed := keyed,
           c := { bytes := (← by_.toNat?), last := last, dist := (← parseObs di), opt := (← op.toNat?), inner := (← inn.toNat?) } }
  | _ => none

def handleTrace (toks : List String) : String :=
  match toks with
  | [] => "bad-op"
  | mode :: rest =>
    let ins := rest.filterMap fun t => if t.startsWith "in=" then some (parseInput (t.drop 3).toString) else none
    let outs := rest.filterMap fun t => if t.startsWith "out=" then some (parseOut (t.drop 4).toString) else none
    if ins.length + outs.length ≠ rest.length then "bad-op" else
    match ins.mapM id, outs.mapM id with
    | some ins, some outs =>
      if mode == "keyed" then
        if outs.all (·.keyed) && Spec.traceOk keyA ins (outs.map fun o => (o.key, o.c)) then "ok" else "reject"
      else if mode == "keyless" then
        if outs.all (!·.keyed) && Spec.traceOk (fun _ => ()) ins (outs.map fun o => ((), o.c)) then "ok" else "reject"
      else "bad-op"
    | _, _ => "bad-op"

def handle (line : String) : String :=
  match (line.trimAscii.toString.splitOn " ").filter (· ≠ "") with
  | [] => "bad-op"
  | p :: toks =>
    if p == "keyed" then handleKeyed toks
    else if p == "tee" then handleTee toks
    else if p == "embedded" then handleEmbedded toks
    else if p == "mutex" then handleMutex toks
    else if p == "worker" then handleWorker toks
    else if p == "gated" then handleGated toks
    else if p == "cap" then handleCap toks
    else if p == "keyonly" then handleKeyOnly toks
    else if p == "trace" then handleTrace toks
    else "bad-op"

end Driver.Aggregation
