import Model.Global
/-!
Line protocol of engine `global`.

T-step request:  `init=<sink|-> <t>.<r|->:<op>[:<a>[:<b>]] ...`
  ops: attach:s dropAttach forgetAttach setTL:s dropTL setRT:r:s setRTCur:s dropRT:r append:e tryAppend:e
       sink:e trySink:e isAttached hold:k useHeld:k:e
       aliases dropAttachU dropAttachT dropTLU dropRTU:r dropRTT:r — the guard/handle is dropped by the unwinder of a
       contained panic (a `catch_unwind` scope / a spawned thread that owns it); a drop is a drop: same model event
  reply: one result per op, space separated: `ok noop panic d<sink> ret<entry> none T F` (`-` for an empty script)

Micro-step request: same line, with `<t>.<r|->:take` / `<t>.<r|->:dropPair` events (the two halves of a detach,
  other operations in between); run by `Global.microRun`; `dropPair` has no result of its own; the reply ends with `flush=ok` / `flush=violated`
  (`Global.flushOrdered`: every observation of the detached state takes effect when no taken pair is still being flushed).

T-trace request: `race closed=<0|1> trace=<t>.<k>.<0|1>,...|- written=<t>.<k>,...|-`
  reply: `accept` | `reject`   (`Global.raceAccept`, the predicate theorem `c17_race_accept` is about)
-/
namespace Driver.Global
open _root_.Global

def optNat (s : String) : Option (Option Nat) :=
  if s == "-" then some none else s.toNat?.map some

def parseCtx (s : String) : Option Ctx :=
  match s.splitOn "." with
  | [t, r] => do
    let t ← t.toNat?
    let r ← optNat r
    pure ⟨t, r⟩
  | _ => none

def parseOp : List String → Option Op
  | ["attach", s] => s.toNat?.map .attach
  | ["dropAttach"] => some .dropAttach
  -- dropped by a contained unwinding panic (scope / spawned thread): the same event in the model
  | ["dropAttachU"] => some .dropAttach
  | ["dropAttachT"] => some .dropAttach
  | ["forgetAttach"] => some .forgetAttach
  | ["setTL", s] => s.toNat?.map .setTL
  | ["dropTL"] => some .dropTL
  | ["dropTLU"] => some .dropTL
  | ["setRT", r, s] => do pure (.setRT (← r.toNat?) (← s.toNat?))
  | ["setRTCur", s] => s.toNat?.map .setRTCur
  | ["dropRT", r] => r.toNat?.map .dropRT
  | ["dropRTU", r] => r.toNat?.map .dropRT
  | ["dropRTT", r] => r.toNat?.map .dropRT
  | ["append", e] => e.toNat?.map .append
  | ["tryAppend", e] => e.toNat?.map .tryAppend
  | ["sink", e] => e.toNat?.map .sink
  | ["trySink", e] => e.toNat?.map .trySink
  | ["isAttached"] => some .isAttached
  | ["hold", k] => k.toNat?.map .hold
  | ["useHeld", k, e] => do pure (.useHeld (← k.toNat?) (← e.toNat?))
  | _ => none

def parseItem (s : String) : Option (Ctx × Op) :=
  match s.splitOn ":" with
  | c :: rest => do pure (← parseCtx c, ← parseOp rest)
  | [] => none

/-- micro-step scripts: additionally `<ctx>:take` and `<ctx>:dropPair` (the two halves of a detach) -/
def parseMicro (s : String) : Option Micro :=
  match s.splitOn ":" with
  | [c, "take"] => (parseCtx c).map .take
  | [c, "dropPair"] => (parseCtx c).map .dropPair
  | _ => (parseItem s).map fun (c, o) => .op c o

def resStr : Res → String
  | .ok => "ok" | .noop => "noop" | .panic => "panic" | .dest d => s!"d{d}"
  | .returned e => s!"ret{e}" | .none => "none" | .bool true => "T" | .bool false => "F"

def handleStep (toks : List String) : String :=
  match toks with
  | initS :: opsS =>
    if !initS.startsWith "init=" then "bad-op" else
    match optNat (initS.drop 5).toString, opsS.mapM parseItem with
    | some init, some script =>
      let rs := (run (State.init init) script).2
      if rs.isEmpty then "-" else " ".intercalate (rs.map resStr)
    | some init, none =>
      -- not a plain script: a micro-step schedule (`take` / `dropPair` events)?
      match opsS.mapM parseMicro with
      | some evs =>
        let rs := (microRun ⟨State.init init, []⟩ evs).2
        let fo := if flushOrdered ⟨State.init init, []⟩ evs then "flush=ok" else "flush=violated"
        " ".intercalate (rs.map resStr ++ [fo])
      | none => "bad-op"
    | _, _ => "bad-op"
  | [] => "bad-op"

def parseList {α} (s : String) (f : List String → Option α) : Option (List α) :=
  if s == "-" then some [] else (s.splitOn ",").mapM fun x => f (x.splitOn ".")

def handleRace (toks : List String) : String :=
  match toks with
  | [c, tr, wr] =>
    if !(c.startsWith "closed=" && tr.startsWith "trace=" && wr.startsWith "written=") then "bad-op" else
    let closed? : Option Bool := match (c.drop 7).toString with | "0" => some false | "1" => some true | _ => none
    let trace? := parseList (tr.drop 6).toString fun
      | [t, k, b] => do
        let b ← (match b with | "0" => some false | "1" => some true | _ => none)
        pure ((← t.toNat?), (← k.toNat?), b)
      | _ => none
    let written? := parseList (wr.drop 8).toString fun
      | [t, k] => do pure ((← t.toNat?), (← k.toNat?))
      | _ => none
    match closed?, trace?, written? with
    | some closed, some trace, some written => if raceAccept trace written closed then "accept" else "reject"
    | _, _, _ => "bad-op"
  | _ => "bad-op"

def handle (line : String) : String :=
  match (line.trimAscii.toString.splitOn " ").filter (· ≠ "") with
  | "race" :: rest => handleRace rest
  | toks => handleStep toks

end Driver.Global
