import Model.Naming
import Model.Inflector
import Generated.Naming
/-!
Line protocol of engine `naming` (strings are hex of UTF-8, `-` = empty; `~` = absent option).

* `I <hex>`  →  `<pascal> <snake> <kebab> <prefix-pascal> <prefix-snake> <prefix-kebab>` (hex):
  `NameStyle::apply` and `NameStyle::apply_prefix` of the text in the three inflecting styles.
* `C <t1> <t2> …` (leaves, hex) `/ <haveLimit> <matchLimit>` → `<0|1 HAVE_VAL> <hex const_str_value>`
  of the left-nested `Concatenated<…<Concatenated<EmptyConstStr, t1>, t2>…>`.
* `D <def>` → `I <name>:<m|s>:<value>:<unit> … ; G <name>=<value> …` — the items and the sample
  group the expansion model emits for a `RootEntry` of the instantiated definition:

```
def    := S <style> <pfx> <n> field*n  |  E <style> <pfx> <tag> <vident> <ostr vname> <0|1 tuple> <n> field*n
style  := n | p | s | k            pfx := ~ | i<hex> | x<hex>
tag    := ~ | i<0|1 sample_group><hex> | x<0|1><hex>        ostr := ~ | =<hex>
field  := P <ident> <ostr name> <ostr unit> <0|1 sample_group> fval | G | T
        | F <pfx> <0|1 present> <wrap> def
wrap   := - | letters, outermost first: how the field holds the child, hence which forwarding impls of
          metrique-core the closed child is written through: o `Option<_>`→Option; r `&`; b `Box`; a `Arc`;
          c,w `Cow`; f `ForceFlag`; d `WithDimensions`; m `Mutex<_>`→Option; n `Arc` (no_close);
          s `Arc<Child>` (closes to the bare child: no forwarding impl). Legacy: 0 = -, 1 = o.
        | R <n> (<name> <m|s> <value> <unit>)*n <k> (<name> <value>)*k
fval   := A | N<u|z|b|f|d> <nat> | Q <hex> | V <style> <ident> <ostr name> | W <ostr unit> fval | O fval
```
A numeric `N<t> n` is `n` as `u64`/`usize`/`bool`(0/1)/`f64`/`Duration::from_secs(n)`; the recorder
renders it `u<n>` (unsigned observation), `f<n>` (floating, integral) or, for a duration, `f<1000 n>`
with native unit `Milliseconds`. `optional` only matters to the code generator.
-/
namespace Driver.Naming
open _root_.Naming

def hexDigit (c : Char) : Option Nat :=
  if '0' ≤ c ∧ c ≤ '9' then some (c.toNat - '0'.toNat)
  else if 'a' ≤ c ∧ c ≤ 'f' then some (c.toNat - 'a'.toNat + 10)
  else none

def unhexBytes : List Char → Option (List UInt8)
  | [] => some []
  | [_] => none
  | a :: b :: rest => do
    let x ← hexDigit a
    let y ← hexDigit b
    let r ← unhexBytes rest
    pure (UInt8.ofNat (x * 16 + y) :: r)

def unhex (s : String) : Option Str :=
  if s == "-" then some [] else do
    let bs ← unhexBytes s.toList
    let str ← String.fromUTF8? (ByteArray.mk bs.toArray)
    pure str.toList

def hexNibble (n : Nat) : Char := if n < 10 then Char.ofNat (48 + n) else Char.ofNat (87 + n)

def hex (s : Str) : String :=
  if s.isEmpty then "-" else
  String.ofList ((String.ofList s).toUTF8.toList.flatMap fun b => [hexNibble (b.toNat / 16), hexNibble (b.toNat % 16)])

def parseStyle (s : String) : Option Style :=
  if s == "n" then some .preserve else if s == "p" then some .pascal
  else if s == "s" then some .snake else if s == "k" then some .kebab else none

def parseBool (s : String) : Option Bool :=
  if s == "0" then some false else if s == "1" then some true else none

def parseOStr (s : String) : Option (Option Str) :=
  if s == "~" then some none
  else if s.startsWith "=" then (unhex (s.drop 1).toString).map some
  else none

def parsePfx (s : String) : Option (Option Pfx) :=
  if s == "~" then some none
  else if s.startsWith "i" then (unhex (s.drop 1).toString).map fun p => some (.infl p)
  else if s.startsWith "x" then (unhex (s.drop 1).toString).map fun p => some (.exact p)
  else none

def parseTag (s : String) : Option (Option Tag) :=
  if s == "~" then some none
  else
    match s.toList with
    | k :: g :: rest =>
      match parseBool (String.singleton g), unhex (String.ofList rest) with
      | some sg, some name =>
        if k == 'i' then some (some (.infl name sg))
        else if k == 'x' then some (some (.exact name sg)) else none
      | _, _ => none
    | _ => none

abbrev Toks := List String

def natStr (n : Nat) : Str := (toString n).toList

def parseFVal : Nat → Toks → Option (FVal × Toks)
  | 0, _ => none
  | fuel + 1, t :: ts =>
    if t == "A" then some (.absent, ts)
    else if t == "Q" then
      match ts with
      | h :: ts => (unhex h).map fun s => (.str s, ts)
      | _ => none
    else if t == "V" then
      match ts with
      | st :: id :: ov :: ts => do
        let st ← parseStyle st
        let id ← unhex id
        let ov ← parseOStr ov
        pure (.variant st id ov, ts)
      | _ => none
    else if t == "W" then
      match ts with
      | u :: ts => do
        let u ← parseOStr u
        let (inner, ts) ← parseFVal fuel ts
        pure (.newtype inner u, ts)
      | _ => none
    else if t == "O" then do
      let (inner, ts) ← parseFVal fuel ts
      pure (.some inner, ts)
    else if t.startsWith "N" then
      match ts with
      | n :: ts => do
        let n ← n.toNat?
        let ty := (t.drop 1).toString
        if ty == "u" ∨ ty == "z" then pure (.num ('u' :: natStr n) "None".toList, ts)
        else if ty == "b" then (if n ≤ 1 then pure (.num ('u' :: natStr n) "None".toList, ts) else none)
        else if ty == "f" then pure (.num ('f' :: natStr n) "None".toList, ts)
        else if ty == "d" then pure (.num ('f' :: natStr (1000 * n)) "Milliseconds".toList, ts)
        else none
      | _ => none
    else none
  | _, [] => none

def wrapOf (c : Char) : Option (List Wrapper) :=
  if c == 'o' ∨ c == 'm' then some [.option]
  else if c == 'r' then some [.ref]
  else if c == 'b' then some [.box]
  else if c == 'a' ∨ c == 'n' then some [.arc]
  else if c == 'c' ∨ c == 'w' then some [.cow]
  else if c == 'f' then some [.forceFlag]
  else if c == 'd' then some [.withDims]
  else if c == 's' then some []
  else none

def parseWrap (s : String) : Option (List Wrapper) :=
  if s == "-" ∨ s == "0" then some []
  else if s == "1" then some [.option]
  else (s.toList.mapM wrapOf).map List.flatten

def parseKind (s : String) : Option Kind :=
  if s == "m" then some .metric else if s == "s" then some .string else none

def parseItems : Nat → Toks → Option (List Item × Toks)
  | 0, ts => some ([], ts)
  | n + 1, name :: k :: v :: u :: ts => do
    let name ← unhex name
    let k ← parseKind k
    let v ← unhex v
    let u ← unhex u
    let (rest, ts) ← parseItems n ts
    pure ((name, ⟨k, v, u⟩) :: rest, ts)
  | _, _ => none

def parsePairs : Nat → Toks → Option (List Pair × Toks)
  | 0, ts => some ([], ts)
  | n + 1, name :: v :: ts => do
    let name ← unhex name
    let v ← unhex v
    let (rest, ts) ← parsePairs n ts
    pure ((name, v) :: rest, ts)
  | _, _ => none

mutual
def parseDef : Nat → Toks → Option (Def × Toks)
  | 0, _ => none
  | fuel + 1, t :: ts =>
    if t == "S" then
      match ts with
      | st :: p :: n :: ts => do
        let st ← parseStyle st
        let p ← parsePfx p
        let n ← n.toNat?
        let (fs, ts) ← parseFields fuel n ts
        pure (.struct ⟨st, p⟩ fs, ts)
      | _ => none
    else if t == "E" then
      match ts with
      | st :: p :: tag :: vi :: vn :: tup :: n :: ts => do
        let st ← parseStyle st
        let p ← parsePfx p
        let tag ← parseTag tag
        let vi ← unhex vi
        let vn ← parseOStr vn
        let tup ← parseBool tup
        let n ← n.toNat?
        let (fs, ts) ← parseFields fuel n ts
        pure (.enum ⟨st, p⟩ tag vi vn tup fs, ts)
      | _ => none
    else none
  | _, [] => none
def parseFields : Nat → Nat → Toks → Option (Fields × Toks)
  | 0, _, _ => none
  | _ + 1, 0, ts => some (.nil, ts)
  | fuel + 1, n + 1, ts => do
    let (f, ts) ← parseField fuel ts
    let (fs, ts) ← parseFields fuel n ts
    pure (.cons f fs, ts)
def parseField : Nat → Toks → Option (Field × Toks)
  | 0, _ => none
  | fuel + 1, t :: ts =>
    if t == "G" then some (.ignore, ts)
    else if t == "T" then some (.timestamp, ts)
    else if t == "P" then
      match ts with
      | id :: ov :: u :: sg :: ts => do
        let id ← unhex id
        let ov ← parseOStr ov
        let u ← parseOStr u
        let sg ← parseBool sg
        let (v, ts) ← parseFVal (fuel + 1) ts
        pure (.plain id ov u sg v, ts)
      | _ => none
    else if t == "F" then
      match ts with
      | p :: pr :: opt :: ts => do
        let p ← parsePfx p
        let pr ← parseBool pr
        let ws ← parseWrap opt
        let (d, ts) ← parseDef fuel ts
        pure (.flatten p pr (ws.foldr Def.wrap d), ts)
      | _ => none
    else if t == "R" then
      match ts with
      | n :: ts => do
        let n ← n.toNat?
        let (items, ts) ← parseItems n ts
        match ts with
        | k :: ts => do
          let k ← k.toNat?
          let (sg, ts) ← parsePairs k ts
          pure (.flattenEntry items sg, ts)
        | _ => none
      | _ => none
    else none
  | _, [] => none
end

def kindStr : Kind → String
  | .metric => "m"
  | .string => "s"

def renderItems (items : List Item) : String :=
  " ".intercalate (items.map fun (n, o) => s!"{hex n}:{kindStr o.kind}:{hex o.value}:{hex o.unit}")

def renderPairs (ps : List Pair) : String :=
  " ".intercalate (ps.map fun (n, v) => s!"{hex n}={hex v}")

def cfg : Cfg :=
  { infl := Inflector.infl, limits := ⟨Generated.Naming.haveValLimit, Generated.Naming.matchLimit⟩ }

def handleDef (ts : Toks) : String :=
  match parseDef (2 * ts.length + 4) ts with
  | some (d, []) =>
    if wfDef d then
      s!"I {renderItems (expandDef cfg NS.root d)} ; G {renderPairs (sgDef cfg NS.root d)}"
    else "ill-formed"
  | _ => "bad-op"

def handleInflect (ts : Toks) : String :=
  match ts with
  | [h] =>
    match unhex h with
    | some s =>
      " ".intercalate ([Style.pascal, .snake, .kebab].map (fun st => hex (applyStyle Inflector.infl st s))
        ++ [Style.pascal, .snake, .kebab].map (fun st => hex (applyPrefix Inflector.infl st s)))
    | none => "bad-op"
  | _ => "bad-op"

def handleConcat (ts : Toks) : String :=
  match ts.span (· ≠ "/") with
  | (leaves, ["/", hl, ml]) =>
    match leaves.mapM unhex, hl.toNat?, ml.toNat? with
    | some ls, some hl, some ml =>
      let t := ls.foldl (fun acc s => CStr.cat acc (.leaf s)) (.leaf [])
      s!"{if t.haveVal hl then 1 else 0} {hex (constStrValue ⟨hl, ml⟩ t)}"
    | _, _, _ => "bad-op"
  | _ => "bad-op"

def handle (line : String) : String :=
  match (line.trimAscii.toString.splitOn " ").filter (· ≠ "") with
  | "D" :: ts => handleDef ts
  | "I" :: ts => handleInflect ts
  | "C" :: ts => handleConcat ts
  | _ => "bad-op"

end Driver.Naming
