import Model.EmfRefine
import Driver.Emf
/-!
Line protocol of engine `emfagree`: the cross-check of the two EMF models (`Model/EmfRefine.lean`).

request  the request of engine `emf` (`Driver/Emf.lean`):
         `F<v> <EmfCfg> | <GenEntry> | <trailer> [| <GenEntry> | <trailer>]*`
         every step is run on a FRESH formatter (history independence is C14's theorem); `io:` is
         ignored (the writer never fails); the clock reads 0.
reply    per step, joined by ` | `:
         `agree reject <n> x<0|1>`   both models reject with the same bag of error kinds (`n` errors)
         `agree accept <n> x<0|1>`   both accept, the operational lines read back as the spec's `n` records
         `skip rate`                 invalid sample rate: the declarative model has no such input
         `DISAGREE <what>`           anything else
         `x1`: the operational input is exactly the image of its reading as a spec input
         (`EmfRefine.embedExact`: text of a zero-occurrence `Repeated` is `0.0`, …).
-/
namespace Driver.EmfAgree
open _root_.Emf EmfRefine

def natsStr (l : List Nat) : String := ",".intercalate (l.map toString)

def verdictStr : Verdict → String
  | .bothReject n => s!"agree reject {n}"
  | .bothAccept n => s!"agree accept {n}"
  | .classDiffers a b => s!"DISAGREE class emf={a} spec={b}"
  | .kindsDiffer a b => s!"DISAGREE kinds emf={natsStr a} spec={natsStr b}"
  | .unreadable i => s!"DISAGREE unreadable-line {i}"
  | .recordsDiffer a b => s!"DISAGREE records emf={a} spec={b}"
  | .orderDiffers n => s!"DISAGREE order {n}"

def runSteps (cfg : Config) (mult : Option Nat) : List String → List String → Option (List String)
  | [], acc => some acc.reverse
  | [_], _ => none
  | entry :: trailer :: rest, acc => do
    let t ← Driver.Emf.parseTrailer trailer
    if !t.seenFt then none
    let items ← ((entry.splitOn " ").filter (fun p => !p.isEmpty && p != "_")).mapM (Driver.Emf.parseItem t.ft)
    let items := items.flatten
    match t.rate with
    | some bits =>
      if mult.isSome && Driver.Emf.rateInvalid bits then runSteps cfg mult rest ("skip rate" :: acc) else none
    | none =>
      let x := if embedExact cfg items then 1 else 0
      runSteps cfg mult rest (s!"{verdictStr (compareEmf cfg mult 0 items)} x{x}" :: acc)

def handleF (validates : Bool) (body : String) : String :=
  match body.splitOn " | " with
  | cfgS :: steps =>
    match Driver.Emf.parseCfg validates cfgS.trimAscii.toString with
    | some (cfg, mult) =>
      if steps.isEmpty then "bad-op"
      else match runSteps cfg mult steps [] with
        | some obs => " | ".intercalate obs
        | none => "bad-op"
    | none => "bad-op"
  | [] => "bad-op"

def handle (line : String) : String :=
  let line := Driver.Emf.stripNl line
  if line.startsWith "F1 " then handleF true (line.drop 3).toString
  else if line.startsWith "F0 " then handleF false (line.drop 3).toString
  else "bad-op"

end Driver.EmfAgree
