import Driver.Vectored
import Driver.Sinks
import Driver.Global
import Driver.Histogram
import Driver.MetricsRs
import Driver.Units
import Driver.Timers
import Driver.EmfSpec
import Driver.Aggregation
import Driver.KeepAlive
import Driver.Sampling
import Driver.Naming
import Driver.Wrappers
import Driver.Emf
import Driver.Queue
import Driver.EmfAgree
/-!
`driver <engine>`: reads one request per line on stdin, prints one reply per line.
Every engine is a pure function `String → String` of the request line (stateful models receive the
whole operation sequence in one line), so a disagreement replays from the line alone.
-/

def engines : List (String × (String → String)) := [
  ("vectored", Driver.Vectored.handle),
  ("sinks", Driver.Sinks.handle),
  ("global", Driver.Global.handle),
  ("histogram", Driver.Histogram.handle),
  ("metricsrs", Driver.MetricsRs.handle),
  ("units", Driver.Units.handle),
  ("timers", Driver.Timers.handle),
  ("emfspec", Driver.EmfSpec.handle),
  ("aggregation", Driver.Aggregation.handle),
  ("keepalive", Driver.KeepAlive.handle),
  ("sampling", Driver.Sampling.handle),
  ("naming", Driver.Naming.handle),
  ("wrappers", Driver.Wrappers.handle),
  ("emf", Driver.Emf.handle),
  ("queue", Driver.Queue.handle),
  ("emfagree", Driver.EmfAgree.handle)
]

partial def loop (h : IO.FS.Stream) (out : IO.FS.Stream) (f : String → String) : IO Unit := do
  let line ← h.getLine
  if line.isEmpty then return ()
  out.putStrLn (f line)
  loop h out f

def main (args : List String) : IO UInt32 := do
  match args with
  | [name] =>
    match engines.lookup name with
    | some f =>
      let out ← IO.getStdout
      loop (← IO.getStdin) out f
      out.flush
      return 0
    | none => IO.eprintln s!"unknown engine {name}"; return 2
  | _ => IO.eprintln "usage: driver <engine>"; return 2
