import Model.Emf
/-!
Line protocol of engine `emf` (see `harness/src/bin/emf.rs` for the Rust side).

request  `F<v> <EmfCfg> | <GenEntry> | <trailer> [| <GenEntry> | <trailer>]*`
   `<v>` = `1` when the formatter validates (all three validations on), `0` when it skips them all;
   all steps run on ONE formatter state, in order.
   trailer tokens: `ft:<obstoken>=<hex text|nan>,…` (or `ft:-`), optional `io:<k>`, optional
   `rate:<8 hex f32 bits>` (must be an invalid rate: `<= 0` or NaN; sampled formatters only),
   optional `pre:<op>,<op>…` (pool operations before the step: `c<k>` clone formatter k — the clone is
   appended to the pool —, `s<k>` / `g<k>` / `o<k>`: move formatter k into `with_sampling` /
   `merge_globals` / `output_to`; all need a plain `Emf`), `on:<k>` (formatter that formats the step,
   default 0), `m:<n>` (this step's multiplicity, sampled formatters only), `skip` (the step is not run
   in the model, reply `skipped`), `panic:<item>:<site><k>` (the entry panics while item `item` is written,
   see `Trailer.panic`; reply `panic 0 - j1 f1`, the formatter keeps the state `Emf.abortedCall`).
reply    per step `<res> <nbytes> <lines> j<0|1> f<0|1>`, steps joined by ` | `:
   res = `ok` | `io` | `val:<kind*count,…>` (sorted); lines = `*` for `io`, else the sorted encodings of
   the complete lines (hex when <= 2048 bytes, `#<len>:<fnv1a64>` otherwise), `-` when none;
   j = every line is accepted by `Json.accepts` (always 1 for `io`); f = every float text of `ft` is a JSON number after
   stripping `.0`.
request  `J <hex>` → `accept` | `reject` (`Json.accepts`).
-/
namespace Driver.Emf
open _root_.Emf Json

def hexVal (c : Char) : Option Nat :=
  if '0' ≤ c ∧ c ≤ '9' then some (c.toNat - 48)
  else if 'a' ≤ c ∧ c ≤ 'f' then some (c.toNat - 87)
  else none

structure HexAcc where
  out : Array Nat := #[]
  hi : Option Nat := none
  bad : Bool := false

/-- hex of UTF-8, `-` = empty (tail-recursive: multi-megabyte tokens occur) -/
def unhex (s : String) : Option Bytes :=
  if s == "-" then some []
  else
    let r := s.foldl (fun (a : HexAcc) c =>
      match hexVal c with
      | none => { a with bad := true }
      | some v => match a.hi with
        | none => { a with hi := some v }
        | some h => { a with out := a.out.push (h * 16 + v), hi := none }) {}
    if r.bad || r.hi.isSome || s.isEmpty then none else some r.out.toList

def hexChar (n : Nat) : Char := Char.ofNat (if n < 10 then 48 + n else 87 + n)

def hexOf (bs : Bytes) : String :=
  if bs.isEmpty then "-"
  else String.ofList (bs.foldr (fun b acc => hexChar (b / 16) :: hexChar (b % 16) :: acc) [])

def fnv1a (bs : Bytes) : UInt64 :=
  bs.foldl (fun h b => (h ^^^ b.toUInt64) * 0x100000001b3) 0xcbf29ce484222325

def hex16 (h : UInt64) : String :=
  String.ofList ((List.range 16).map fun i => hexChar ((h.toNat >>> (4 * (15 - i))) % 16))

def encLine (l : Bytes) : String :=
  if l.length ≤ 2048 then hexOf l else s!"#{l.length}:{hex16 (fnv1a l)}"

/-- `split_inclusive(b'\n')`, tail-recursive -/
def splitLines (bs : Bytes) : List Bytes :=
  let (cur, acc) := bs.foldl (fun (st : Array Nat × Array Bytes) b =>
    let cur := st.1.push b
    if b = 10 then (#[], st.2.push cur.toList) else (cur, st.2)) (#[], #[])
  (if cur.isEmpty then acc else acc.push cur.toList).toList

def parseSet (s : String) : Option (List Bytes) :=
  if s == "." then some [] else (s.splitOn ",").mapM unhex

def parseObs (ft : List (String × Option Bytes)) (s : String) : Option Obs :=
  match s.toList with
  | 'u' :: rest => (String.ofList rest).toNat?.map .unsigned
  | 'f' :: _ => (ft.lookup s).map .floating
  | 'r' :: _ =>
    match s.splitOn "x" with
    | [_, occ] => do
      let o ← occ.toNat?
      let t ← ft.lookup s
      pure (.repeated t o)
    | _ => none
  | _ => none

def parseVal (ft : List (String × Option Bytes)) (s : String) : Option Val :=
  match s.toList with
  | 'S' :: rest => (unhex (String.ofList rest)).map .str
  | ['N'] => some .nothing
  | 'E' :: _ => some .error
  | 'M' :: rest =>
    match (String.ofList rest).splitOn ":" with
    | [unit, flags, dims, obs] => do
      let u ← if unit == "n" then some none
        else match unit.toList with
          | 'u' :: r => (unhex (String.ofList r)).map some
          | _ => none
      let f ← if flags == "-" then some Flags.none else if flags == "h" then some Flags.highRes
        else if flags == "x" then some Flags.noMetric else none
      let d ← if dims == "." then some []
        else (dims.splitOn ",").mapM fun kv =>
          match kv.splitOn "~" with
          | [k, v] => do pure ((← unhex k), (← unhex v))
          | _ => none
      let o ← if obs == "." then some [] else (obs.splitOn ";").mapM (parseObs ft)
      pure (.metric o u d f)
    | _ => none
  | _ => none

def parseItem (ft : List (String × Option Bytes)) (s : String) : Option (List Item) :=
  match s.toList with
  | 'T' :: rest => (String.ofList rest).toInt?.map fun t => [.timestamp t]
  | ['C', 'S'] => some [.allowSplit]
  | ['C', 'O'] => some [.otherCfg]
  | 'C' :: 'D' :: rest =>
    if rest.isEmpty then some [.entryDims []]
    else ((String.ofList rest).splitOn ";").mapM parseSet |>.map fun sets => [.entryDims sets]
  | 'U' :: rest => (unhex (String.ofList rest)).map fun m =>
      [.allowUnroutable, .value (bytes! "MetriqueValidationError") (.str m)]
  | 'V' :: rest =>
    match (String.ofList rest).splitOn "=" with
    | [n, v] => do
      let name ← unhex n
      let val ← parseVal ft v
      pure [.value name val]
    | _ => none
  | 'G' :: _ => some []     -- sample-group elements are not seen by the formatter
  | _ => none

def parseFt (s : String) : Option (List (String × Option Bytes)) :=
  if s == "-" then some []
  else (s.splitOn ",").mapM fun e =>
    match e.splitOn "=" with
    | [k, v] => if v == "nan" then some (k, none) else (unhex v).map fun t => (k, some t)
    | _ => none

structure Trailer where
  ft : List (String × Option Bytes) := []
  io : Option Nat := none
  rate : Option Nat := none
  seenFt : Bool := false
  /-- operations on the formatter pool executed before the step: `c<k>` clone formatter k (appended to
  the pool), `s<k>` `with_sampling`, `g<k>` `merge_globals`, `o<k>` `output_to` on formatter k -/
  pre : List (Char × Nat) := []
  /-- the formatter of the pool that formats this step -/
  on : Nat := 0
  /-- multiplicity of this step (sampled formatters only) instead of the configuration's -/
  m : Option Nat := none
  /-- the step is not run in the model (entries with hundreds of thousands of observations); by
  `c14_history_independent` the model's later answers do not depend on it -/
  skip : Bool := false
  /-- `panic:<item>:<site><k>`: the entry panics while item number `item` is written: site `w` in
  `Entry::write` just before that item, `d` in the dimension iterator of that metric, `o` in its
  observation iterator after it yielded `k` observations -/
  panic : Option (Nat × Char × Nat) := none

def parsePanic (s : String) : Option (Nat × Char × Nat) :=
  match s.splitOn ":" with
  | [item, sk] => do
    let i ← item.toNat?
    match sk.toList with
    | c :: rest => (String.ofList rest).toNat?.map fun k => (i, c, k)
    | [] => none
  | _ => none

def parseOp (s : String) : Option (Char × Nat) :=
  match s.toList with
  | c :: rest => (String.ofList rest).toNat?.map fun k => (c, k)
  | [] => none

def parseTrailer (s : String) : Option Trailer :=
  (s.splitOn " ").foldlM (fun (t : Trailer) tok =>
    if tok.isEmpty then some t
    else if tok.startsWith "ft:" then (parseFt (tok.drop 3).toString).map fun ft => { t with ft := ft, seenFt := true }
    else if tok.startsWith "io:" then (tok.drop 3).toNat?.map fun k => { t with io := some k }
    -- `io0:` the writer answers zero-length writes instead of a hard error: same net effect
    else if tok.startsWith "io0:" then (tok.drop 4).toNat?.map fun k => { t with io := some k }
    else if tok.startsWith "rate:" then
      (unhex (tok.drop 5).toString).bind fun bs =>
        match bs with
        | [a, b, c, d] => some { t with rate := some (((a * 256 + b) * 256 + c) * 256 + d) }
        | _ => none
    else if tok.startsWith "pre:" then
      (((tok.drop 4).toString.splitOn ",").mapM parseOp).map fun ops => { t with pre := ops }
    else if tok.startsWith "on:" then (tok.drop 3).toNat?.map fun k => { t with on := k }
    else if tok.startsWith "m:" then (tok.drop 2).toNat?.map fun k => { t with m := some k }
    else if tok == "skip" then some { t with skip := true }
    else if tok.startsWith "panic:" then (parsePanic (tok.drop 6).toString).map fun p => { t with panic := some p }
    else none) {}

/-- `rate <= 0.0 || rate.is_nan()` on f32 bits -/
def rateInvalid (bits : Nat) : Bool :=
  let mag := bits % 2147483648
  let sign := bits / 2147483648
  let exp := mag / 8388608
  let mant := mag % 8388608
  (exp = 255 && mant ≠ 0) || mag = 0 || sign = 1

def fixedExtra : ExtraDirective :=
  { dimensions := [[bytes! "ExtraDim"]]
    metrics := [{ name := bytes! "ExtraMetric", unit := bytes! "Count", storage := none }]
    nspace := bytes! "Extra" }

def parseCfg (validates : Bool) (s : String) : Option (Config × Option Nat) :=
  match s.splitOn "/" with
  | [_how, nss, sets, lg, ign, dirs, mult] => do
    let nsl ← (nss.splitOn ",").mapM unhex
    let (ns0, more) ← match nsl with | n :: m => some (n, m) | [] => none
    let dd ← (sets.splitOn ";").mapM parseSet
    let lgv ← if lg == "~" then some none else (unhex lg).map some
    let m ← if mult == "-" then some none
      else match mult.toList with
        | 'm' :: r => (String.ofList r).toNat?.map some
        | _ => none
    let skip := !validates
    pure ({ ns0 := ns0, moreNs := more, defaultDims := dd, logGroup := lgv, allowIgnored := ign == "1",
            extraDirectives := if dirs == "1" then [fixedExtra] else [],
            validation := ⟨skip, skip, skip⟩ }, m)
  | _ => none

def kindName : ErrKind → String
  | .multipleTimestamps => "ts" | .dimsLate => "dims-late" | .dimsTwice => "dims-twice"
  | .dimsEmpty => "dims-empty" | .duplicateField => "dup" | .missingDimension => "missing"
  | .nameEmpty => "name-empty" | .nameAws => "name-aws" | .perMetricDims => "permetric"
  | .metricInDimField => "metric-in-dim" | .valueError => "value" | .badRate => "rate"

def sortStrings (l : List String) : List String := l.mergeSort (fun a b => decide (a ≤ b))

def kindsStr (errs : List ErrKind) : String :=
  let names := sortStrings (errs.map kindName)
  let grouped := names.foldl (fun (acc : List (String × Nat)) n =>
    match acc with
    | (m, k) :: rest => if m == n then (m, k + 1) :: rest else (n, 1) :: acc
    | [] => [(n, 1)]) []
  ",".intercalate (grouped.reverse.map fun (n, k) => s!"{n}*{k}")

def floatLaw (ft : List (String × Option Bytes)) : Bool :=
  ft.all fun (_, t) => match t with | none => true | some t => isNumber (stripDotZero t)

def observable (r : Result) (out : Out) (ft : List (String × Option Bytes)) : String :=
  let lines := splitLines out.bytes
  let res := match r with
    | .ok => "ok" | .io => "io" | .validation errs => "val:" ++ kindsStr errs
  let ls := match r with
    | .io => "*"
    | _ => if lines.isEmpty then "-" else ",".intercalate (sortStrings (lines.map encLine))
  let j := match r with
    | .io => true      -- the accepted bytes end in a torn record: not judged
    | _ => lines.all accepts
  s!"{res} {out.bytes.length} {ls} j{if j then 1 else 0} f{if floatLaw ft then 1 else 0}"

/-- one formatter of the pool: its state and how it is wrapped (0 plain `Emf`, 1 `SampledEmf`,
2 `merge_globals`, 3 `output_to`); cloning and wrapping need a plain `Emf` -/
structure Slot where
  st : State
  kind : Nat

/-- the entry `merge_globals` puts in front of every entry (the harness uses the same one) -/
def globalItems : List Item := [.value (bytes! "VerifGlobal") (.str (bytes! "g"))]

def applyOp (slots : Array Slot) (op : Char × Nat) : Option (Array Slot) := do
  let sl ← slots[op.2]?
  if sl.kind != 0 then none
  match op.1 with
  | 'c' => some (slots.push { st := sl.st.clone, kind := 0 })
  | 's' => some (slots.set! op.2 { sl with kind := 1 })
  | 'g' => some (slots.set! op.2 { sl with kind := 2 })
  | 'o' => some (slots.set! op.2 { sl with kind := 3 })
  | _ => none

def runSteps (c : Consts) (mult : Option Nat) : Array Slot → List String → List String → Option (List String)
  | _, [], acc => some acc.reverse
  | _, [_], _ => none
  | slots, entry :: trailer :: rest, acc => do
    let t ← parseTrailer trailer
    if !t.seenFt then none
    let slots ← t.pre.foldlM applyOp slots
    let sl ← slots[t.on]?
    if t.skip then runSteps c mult slots rest ("skipped" :: acc)
    else
      let parsed ← ((entry.splitOn " ").filter (fun p => !p.isEmpty && p != "_")).mapM (parseItem t.ft)
      if (t.m.isSome || t.rate.isSome) && sl.kind != 1 then none
      let bad ← match t.rate with
        | none => some false
        | some bits => if rateInvalid bits then some true else none
      let stepMult := if sl.kind == 1 then (match t.m with | some n => some n | none => mult) else none
      let pre := if sl.kind == 2 then globalItems else []
      -- (an invalid rate is rejected before the entry is written: no panic then)
      if let (some (i, site, k), false) := (t.panic, bad) then
        -- the entry panics: no `finish`, nothing written; the formatter keeps the partial state
        let partialMetric ← if site == 'o' then
            match parsed[i]? with
            | some [.value name (.metric obs _ dims _)] => if k ≤ obs.length then some (some (name, obs.take k, dims)) else none
            | _ => none
          else if site == 'w' || site == 'd' then some none else none
        let a : Aborted := { items := pre ++ (parsed.take i).flatten, partialMetric := partialMetric, mult := stepMult }
        return ← runSteps c mult (slots.set! t.on { sl with st := abortedCall c sl.st a }) rest ("panic 0 - j1 f1" :: acc)
      let items := pre ++ parsed.flatten
      let call : Call := { items := items, mult := stepMult, badRate := bad, nowMs := 0, ioBudget := t.io }
      let (s', r, out) := format c sl.st call
      runSteps c mult (slots.set! t.on { sl with st := s' }) rest (observable r out t.ft :: acc)

def handleF (validates : Bool) (body : String) : String :=
  match body.splitOn " | " with
  | cfgS :: steps =>
    match parseCfg validates cfgS.trimAscii.toString with
    | some (cfg, mult) =>
      if steps.isEmpty then "bad-op"
      else match runSteps (Consts.ofConfig cfg) mult #[{ st := State.fresh cfg, kind := if mult.isSome then 1 else 0 }] steps [] with
        | some obs => " | ".intercalate obs
        | none => "bad-op"
    | none => "bad-op"
  | [] => "bad-op"

def stripNl (s : String) : String :=
  String.ofList (s.toList.filter fun c => c != '\n' && c != '\r')

def handle (line : String) : String :=
  let line := stripNl line
  if line.startsWith "F1 " then handleF true (line.drop 3).toString
  else if line.startsWith "F0 " then handleF false (line.drop 3).toString
  else if line.startsWith "J " then
    match unhex (line.drop 2).trimAscii.toString with
    | some bs => if accepts bs then "accept" else "reject"
    | none => "bad-op"
  else "bad-op"

end Driver.Emf
