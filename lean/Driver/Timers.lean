import Model.Timers
/-!
Line protocol of engine `timers` (first token selects the component):

* `sw <op> …`      ops `a<ns>` | `sb pb db xb wb` | `so<k> po<k> do<k> xo<k> wo<k>` | `c`
  reply: one token per prefix of the sequence (the empty prefix first), `<ret>/<close>`:
  `ret` = value returned by `guard.stop()` (`-` none, `!` the `unwrap` panics),
  `close` = `(&stopwatch).close()` (`n` = `None`, `-` = not expressible, a `TimerGuard` borrows the
  stopwatch); then a last token `end/<close>` after dropping a still-live borrowed guard.
  An inexpressible operation makes the whole reply `bad-op`.
* `timer <op> …`   ops `a<ns>` | `s`; reply per prefix `<ret>/<close>`.
* `ts <w0> <op> …` ops `w<int>` | `n` | `o` | `c`; reply per prefix
  `<value closed by c or ->/<every Timestamp value so far, comma separated, or ->`,
  a value is `<ns>:<micros>:<seconds f64 bits>:<millis f64 bits>`.
* `resolve <e> <t> <r>` (0/1 each) → `explicit|thread|runtime|system`.
-/
namespace Driver.Timers
open _root_.Timers

def parseOp (s : String) : Option Op :=
  if s == "sb" then some .startB
  else if s == "pb" then some .stopB
  else if s == "db" then some .dropB
  else if s == "xb" then some .discardB
  else if s == "wb" then some .overwriteB
  else if s == "c" then some .clear
  else if s.startsWith "a" then (s.drop 1).toNat?.map .advance
  else if s.startsWith "so" then (s.drop 2).toNat?.map .startO
  else if s.startsWith "po" then (s.drop 2).toNat?.map .stopO
  else if s.startsWith "do" then (s.drop 2).toNat?.map .dropO
  else if s.startsWith "xo" then (s.drop 2).toNat?.map .discardO
  else if s.startsWith "wo" then (s.drop 2).toNat?.map .overwriteO
  else none

def optStr : Option Nat → String
  | none => "n"
  | some d => toString d

def retStr : Option (Option Nat) → String
  | none => "-"
  | some none => "!"
  | some (some d) => toString d

def closeStr (s : Impl) : String :=
  match s.borrowed with
  | some _ => "-"
  | none => optStr s.close

def swLoop : Impl → List Op → List String → Option (List String)
  | s, [], acc =>
    let s' := match s.borrowed with
      | some _ => (s.step .dropB).getD s
      | none => s
    some (("end/" ++ optStr s'.close) :: acc)
  | s, op :: ops, acc =>
    match s.step op with
    | none => none
    | some s' => swLoop s' ops ((retStr (s.ret op) ++ "/" ++ closeStr s') :: acc)

def handleSw (toks : List String) : String :=
  match toks.mapM parseOp with
  | none => "bad-op"
  | some ops =>
    match swLoop Impl.init ops ["-/" ++ closeStr Impl.init] with
    | none => "bad-op"
    | some acc => " ".intercalate acc.reverse

def parseTOp (s : String) : Option TOp :=
  if s == "s" then some .stop
  else if s.startsWith "a" then (s.drop 1).toNat?.map .advance
  else none

def timerLoop : TState → List TOp → List String → List String
  | _, [], acc => acc
  | s, op :: ops, acc =>
    let s' := s.step op
    let ret := match op with
      | .stop => toString (s.timer.stop s.now).1
      | _ => "-"
    timerLoop s' ops ((ret ++ "/" ++ toString s'.close) :: acc)

def handleTimer (toks : List String) : String :=
  match toks.mapM parseTOp with
  | none => "bad-op"
  | some ops =>
    let s := TState.init 0
    " ".intercalate (timerLoop s ops ["-/" ++ toString s.close]).reverse

def hex16 (n : UInt64) : String :=
  let ds := (Nat.toDigits 16 n.toNat)
  String.ofList (List.replicate (16 - ds.length) '0' ++ ds)

def valueStr (ns : Nat) : String :=
  s!"{ns}:{epochMicros ns}:{hex16 (asSecsF64 ns).toBits}:{hex16 (asMillisF64 ns).toBits}"

def parseSOp (s : String) : Option SOp :=
  if s == "n" then some .newStamp
  else if s == "o" then some .newOnClose
  else if s == "c" then some .closeOnClose
  else if s.startsWith "w" then (s.drop 1).toInt?.map .setWall
  else none

def stampsStr (s : SState) : String :=
  if s.stamps.isEmpty then "-" else ",".intercalate (s.values.map valueStr)

def tsLoop : SState → List SOp → List String → Option (List String)
  | _, [], acc => some acc
  | s, op :: ops, acc =>
    let s' := s.step op
    match op with
    | .closeOnClose =>
      -- closing with nothing pending is not expressible
      if s.pending = 0 then none
      else
        let v := match s'.closed.getLast? with
          | some v => valueStr v
          | none => "?"
        tsLoop s' ops ((v ++ "/" ++ stampsStr s') :: acc)
    | _ => tsLoop s' ops (("-/" ++ stampsStr s') :: acc)

def handleTs (toks : List String) : String :=
  match toks with
  | [] => "bad-op"
  | w0 :: rest =>
    match w0.toInt?, rest.mapM parseSOp with
    | some w, some ops =>
      let s : SState := { wall := w, stamps := [], pending := 0, closed := [] }
      match tsLoop s ops ["-/-"] with
      | none => "bad-op"
      | some acc => " ".intercalate acc.reverse
    | _, _ => "bad-op"

def parseBit (s : String) : Option Bool :=
  if s == "1" then some true else if s == "0" then some false else none

def handleResolve (toks : List String) : String :=
  match toks.mapM parseBit with
  | some [e, t, r] =>
    match resolve e t r with
    | .explicit => "explicit"
    | .threadLocal => "thread"
    | .runtime => "runtime"
    | .system => "system"
  | _ => "bad-op"

def handle (line : String) : String :=
  match (line.trimAscii.toString.splitOn " ").filter (· ≠ "") with
  | "sw" :: toks => handleSw toks
  | "timer" :: toks => handleTimer toks
  | "ts" :: toks => handleTs toks
  | "resolve" :: toks => handleResolve toks
  | _ => "bad-op"

end Driver.Timers
