import Model.Timers
/-!
Line protocol of engine `timers` (first token selects the component):

* `sw <op> …`      ops `a<ns>` | `sb pb db xb wb` | `so<k> po<k> do<k> xo<k> wo<k>` | `c` |
  `ub` / `uo<k>` / `vo<k>`: the guard is dropped by a contained unwinding panic (same thread / panicking thread)
  reply: one token per prefix of the sequence (the empty prefix first), `<ret>/<close>`:
  `ret` = value returned by `guard.stop()` (`-` none, `!` the `unwrap` panics),
  `close` = `(&stopwatch).close()` (`n` = `None`, `-` = not expressible, a `TimerGuard` borrows the
  stopwatch); then a last token `end/<close>` after dropping a still-live borrowed guard.
  An inexpressible operation makes the whole reply `bad-op`.
* `timer <op> …`   ops `a<ns>` | `s`; reply per prefix `<ret>/<close>`.
* `ts <w0> <op> …` ops `w<int>` | `n` | `o` | `c`; reply per prefix
  `<value closed by c or ->/<every Timestamp value so far, comma separated, or ->`,
  a value is `<ns>:<micros>:<seconds f64 bits>:<millis f64 bits>`.
* `resolve <e> <t> <r>` (0/1 each) → `explicit|thread|runtime|system`.
* `env <op> …`  ops `i<g>:<s>` install thread-local override (guard g, source s) | `d<g>` drop guard |
  `b<s>` begin `with_time_source` | `e` end it | `r<s>` install runtime override | `q` drop its guard |
  `w<s>` / `a<s>` move source s's wall / monotonic clock (no effect on resolution) |
  `c<kind>` default constructor, `c<kind>:<s>` explicit source (kinds: two letters; `od` =
  TimestampOnClose, observed only at the end).
  reply: per op `-` | `panic` | `s<j>` | `sys`; then `end:<binding of every object in creation order>`.
-/
namespace Driver.Timers
open _root_.Timers

def parseOp (s : String) : Option Op :=
  if s == "sb" then some .startB
  else if s == "pb" then some .stopB
  else if s == "db" then some (.dropB false)
  else if s == "ub" then some (.dropB true)
  else if s == "xb" then some .discardB
  else if s == "wb" then some .overwriteB
  else if s == "c" then some .clear
  else if s.startsWith "a" then (s.drop 1).toNat?.map .advance
  else if s.startsWith "so" then (s.drop 2).toNat?.map .startO
  else if s.startsWith "po" then (s.drop 2).toNat?.map .stopO
  else if s.startsWith "do" then (s.drop 2).toNat?.map (.dropO · false)
  else if s.startsWith "uo" then (s.drop 2).toNat?.map (.dropO · true)
  else if s.startsWith "vo" then (s.drop 2).toNat?.map (.dropO · true)
  else if s.startsWith "xo" then (s.drop 2).toNat?.map .discardO
  else if s.startsWith "wo" then (s.drop 2).toNat?.map .overwriteO
  else none

def optStr : Option Nat → String
  | none => "n"
  | some d => toString d

def retStr : Option (Option Nat) → String
  | none => "-"
  | some none => "!"
  | some (some d) => toString d

def closeStr (s : Impl) : String :=
  match s.borrowed with
  | some _ => "-"
  | none => optStr s.close

def swLoop : Impl → List Op → List String → Option (List String)
  | s, [], acc =>
    let s' := match s.borrowed with
      | some _ => (s.step (.dropB false)).getD s
      | none => s
    some (("end/" ++ optStr s'.close) :: acc)
  | s, op :: ops, acc =>
    match s.step op with
    | none => none
    | some s' => swLoop s' ops ((retStr (s.ret op) ++ "/" ++ closeStr s') :: acc)

def handleSw (toks : List String) : String :=
  match toks.mapM parseOp with
  | none => "bad-op"
  | some ops =>
    match swLoop Impl.init ops ["-/" ++ closeStr Impl.init] with
    | none => "bad-op"
    | some acc => " ".intercalate acc.reverse

def parseTOp (s : String) : Option TOp :=
  if s == "s" then some .stop
  else if s.startsWith "a" then (s.drop 1).toNat?.map .advance
  else none

def timerLoop : TState → List TOp → List String → List String
  | _, [], acc => acc
  | s, op :: ops, acc =>
    let s' := s.step op
    let ret := match op with
      | .stop => toString (s.timer.stop s.now).1
      | _ => "-"
    timerLoop s' ops ((ret ++ "/" ++ toString s'.close) :: acc)

def handleTimer (toks : List String) : String :=
  match toks.mapM parseTOp with
  | none => "bad-op"
  | some ops =>
    let s := TState.init 0
    " ".intercalate (timerLoop s ops ["-/" ++ toString s.close]).reverse

def hex16 (n : UInt64) : String :=
  let ds := (Nat.toDigits 16 n.toNat)
  String.ofList (List.replicate (16 - ds.length) '0' ++ ds)

def valueStr (ns : Nat) : String :=
  s!"{ns}:{epochMicros ns}:{hex16 (asSecsF64 ns).toBits}:{hex16 (asMillisF64 ns).toBits}"

def parseSOp (s : String) : Option SOp :=
  if s == "n" then some .newStamp
  else if s == "o" then some .newOnClose
  else if s == "c" then some .closeOnClose
  else if s.startsWith "w" then (s.drop 1).toInt?.map .setWall
  else none

def stampsStr (s : SState) : String :=
  if s.stamps.isEmpty then "-" else ",".intercalate (s.values.map valueStr)

def tsLoop : SState → List SOp → List String → Option (List String)
  | _, [], acc => some acc
  | s, op :: ops, acc =>
    let s' := s.step op
    match op with
    | .closeOnClose =>
      -- closing with nothing pending is not expressible
      if s.pending = 0 then none
      else
        let v := match s'.closed.getLast? with
          | some v => valueStr v
          | none => "?"
        tsLoop s' ops ((v ++ "/" ++ stampsStr s') :: acc)
    | _ => tsLoop s' ops (("-/" ++ stampsStr s') :: acc)

def handleTs (toks : List String) : String :=
  match toks with
  | [] => "bad-op"
  | w0 :: rest =>
    match w0.toInt?, rest.mapM parseSOp with
    | some w, some ops =>
      let s : SState := { wall := w, stamps := [], pending := 0, closed := [] }
      match tsLoop s ops ["-/-"] with
      | none => "bad-op"
      | some acc => " ".intercalate acc.reverse
    | _, _ => "bad-op"

def parseBit (s : String) : Option Bool :=
  if s == "1" then some true else if s == "0" then some false else none

def handleResolve (toks : List String) : String :=
  match toks.mapM parseBit with
  | some [e, t, r] =>
    match resolve e t r with
    | .explicit => "explicit"
    | .threadLocal => "thread"
    | .runtime => "runtime"
    | .system => "system"
  | _ => "bad-op"

inductive EnvTok where
  | op (o : EOp) (deferred : Bool)
  | clock

def parseEnvOp (t : String) : Option EnvTok :=
  if t == "e" then some (.op .scopeEnd false)
  else if t == "q" then some (.op .dropRt false)
  else if t.startsWith "w" || t.startsWith "a" then (t.drop 1).toNat?.map fun _ => .clock
  else if t.startsWith "i" then
    match (t.drop 1).toString.splitOn ":" with
    | [g, s] => match g.toNat?, s.toNat? with
      | some g, some s => some (.op (.install g s) false)
      | _, _ => none
    | _ => none
  else if t.startsWith "d" then (t.drop 1).toNat?.map fun g => .op (.dropGuard g) false
  else if t.startsWith "b" then (t.drop 1).toNat?.map fun s => .op (.scopeBegin s) false
  else if t.startsWith "r" then (t.drop 1).toNat?.map fun s => .op (.installRt s) false
  else if t.startsWith "c" then
    match (t.drop 1).toString.splitOn ":" with
    | [k] => if k.length == 2 then some (.op (.construct none) (k == "od")) else none
    | [k, s] => if k.length == 2 && k != "od" then s.toNat?.map fun s => .op (.construct (some s)) false else none
    | _ => none
  else none

def srcStr : Src → String
  | .fake j => s!"s{j}"
  | .system => "sys"

def envLoop : Env → List EnvTok → List String → List String → Option (List String × List String)
  | _, [], acc, objs => some (acc, objs)
  | e, .clock :: toks, acc, objs => envLoop e toks ("-" :: acc) objs
  | e, .op o deferred :: toks, acc, objs =>
    match e.step o with
    | none => none
    | some e' =>
      match e.out o with
      | .nothing => envLoop e' toks ("-" :: acc) objs
      | .panic => envLoop e' toks ("panic" :: acc) objs
      | .bound b => envLoop e' toks ((if deferred then "-" else srcStr b) :: acc) (srcStr b :: objs)

def handleEnv (toks : List String) : String :=
  match toks.mapM parseEnvOp with
  | none => "bad-op"
  | some ops =>
    match envLoop Env.init ops [] [] with
    | none => "bad-op"
    | some (acc, objs) =>
      " ".intercalate (acc.reverse ++ ["end:" ++ (if objs.isEmpty then "-" else ",".intercalate objs.reverse)])

def handle (line : String) : String :=
  match (line.trimAscii.toString.splitOn " ").filter (· ≠ "") with
  | "sw" :: toks => handleSw toks
  | "timer" :: toks => handleTimer toks
  | "ts" :: toks => handleTs toks
  | "resolve" :: toks => handleResolve toks
  | "env" :: toks => handleEnv toks
  | _ => "bad-op"

end Driver.Timers
