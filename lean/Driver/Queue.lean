import Model.Queue
import Model.QueueSpec
import Model.Limiter
/-!
Line protocol of engine `queue`.

`script <mode 0|1|0t|1t>[e] <op> <op> …` — model-guided run (T-step). Mode: `1` = short flush interval,
`t` = tiny `shutdown_timeout`, `e` = the stream's `flush` and report calls fail too (not an input of the model). Ops:
  `new:<cap>` (must be first) | `append:<h>:<o|v|i>` | `clone:<h>` | `drop:<h>` | `gate:<k>` | `flush` |
  `forget` | `dropjoin` | `dropjoinU` | `dropjoinT` | `dropU:<h>` | `fclose` | `fopen` | `fstep` (one `flush`
  call may pass the shut flush gate) | `hclose` | `hopen` (the recorder gate: the writer's end-of-cycle histogram
  callbacks block) | `sleep` (the harness lets three flush intervals pass: if the writer is held at a gate, the
  deadline of its current outer-loop iteration has then certainly passed) (the flush gate: while shut every `stream.flush()` blocks)
(`dropjoinU` / `dropjoinT` / `dropU` are drops performed while the dropping thread unwinds from a panic:
in the model they are the same events as `dropjoin` / `drop`.)
After every op the writer is run to quiescence (`settleG`: until it parks, is held inside `next` or
`flush`, or has exited) under the clock on which no flush-interval deadline fires (the shutdown
deadline fires iff `t`); with a short interval a parked writer additionally performs one timed-out
lap of the outer loop. Reply: one observable per op joined by `;`:
  `next=<ids> ent=<n> fl=<n> ov=<n> done=<ids> closed=<0|1> joined=<0|1> fblk=<0|1> hblk=<0|1> fst=<flush calls let through by fstep>`
(`next` = push indices handed to the stream in order, `ent` = `next` calls entered, `fl` = `flush`
calls returned (`*` when short), `done` = completed flush futures, sorted, `fblk` = writer held inside `flush`).
If the run consults the clock where the real outcome is timing dependent (`clockDependent`) the reply
is the single word `clock-dependent` and the harness skips the script.

`order <producers> <overflowed 0|1> <final 0|1> | <pushes p.k …> | <delivered p.k …>` — T-trace: evaluates
`Queue.Spec.acceptOrder` (theorems `c01_spec_accepts`, `c09_spec_accepts`) on a recorded history; `-` = empty list.
`barrier | <before p.k …> | <lost p.k …> | <calls n.p.k | f | r …>` — T-trace: evaluates `Queue.Spec.barrierAt`
(theorem `c04_spec_accepts`) on the stream calls recorded up to the completion of a flush future.
Both reply `accept` or `reject`.

`subscribed <n before> <n after>` — validation failures before / after the environment installs a tracing
subscriber (model event `setSubscriber`): reply `reports_before=… reports_after=… delivered=…`.

`limiter <d ms>` — the number of evaluations `rate_limited!` (1 s) admits in any window of `d` milliseconds
(`Limiter.windowBound`, theorem `c01_limiter_bound`): reply `bound=<n>`.

`hww <cap> <op> …` — the waker state machine alone. Ops `s` (send a flush signal) |
`h:<d|t>:<count>` (`handle_waiting_wakers` with Drained / HitDeadline). Reply per op:
  `<|waiting|>,<ebw>,<flushed 0|1>,<completed ids joined by +>,<will_progress 0|1>`
-/
namespace Driver.Queue
open _root_.Queue

def joinWith (sep : String) (xs : List String) : String := sep.intercalate xs

def natList (xs : List Nat) : String :=
  if xs.isEmpty then "-" else joinWith "," (xs.map toString)

/-- scripted result of `stream.next`: `o`, `v`, or an I/O error `i` / `ib` / `ii` / `iw` / `it` / `iz` / `ie` (the
`io::ErrorKind`: Other, BrokenPipe, Interrupted, WouldBlock, TimedOut, WriteZero, UnexpectedEof). The kind is
not an input of the model: every I/O error is `Res.io`. -/
def parseRes (s : String) : Option Res :=
  if s == "o" then some .ok else if s == "v" then some .validation
  else if ["i", "ib", "ii", "iw", "it", "iz", "ie"].contains s then some .io else none

inductive Op where
  | new (cap : Nat) | append (h : Nat) (r : Res) | clone | drop | gate (k : Nat) | flush | forget | dropjoin
  | fclose | fopen | fstep | hclose | hopen | sleep

def parseOp (s : String) : Option Op :=
  match s.splitOn ":" with
  | ["new", c] => c.toNat?.map .new
  | ["append", h, r] => do some (.append (← h.toNat?) (← parseRes r))
  | ["clone", h] => h.toNat?.map fun _ => .clone
  | ["drop", h] => h.toNat?.map fun _ => .drop
  | ["dropU", h] => h.toNat?.map fun _ => .drop        -- handle dropped while its thread unwinds: same event
  | ["gate", k] => k.toNat?.map .gate
  | ["flush"] => some .flush
  | ["forget"] => some .forget
  | ["dropjoin"] => some .dropjoin
  | ["dropjoinU"] => some .dropjoin                    -- join handle dropped by an unwinding panic (catch_unwind)
  | ["dropjoinT"] => some .dropjoin                    -- … owned by a thread that panics and is joined
  | ["fclose"] => some .fclose
  | ["fopen"] => some .fopen
  | ["fstep"] => some .fstep
  | ["hclose"] => some .hclose
  | ["hopen"] => some .hopen
  | ["sleep"] => some .sleep
  | _ => none

def completedIds (log : List Obs) : List Nat :=
  log.filterMap fun | .completed i _ => some i | _ => none

def flushCount (log : List Obs) : Nat :=
  (log.filter fun | .flush => true | _ => false).length

def insertSorted (x : Nat) : List Nat → List Nat
  | [] => [x]
  | y :: ys => if x ≤ y then x :: y :: ys else y :: insertSorted x ys

def sortNat (xs : List Nat) : List Nat := xs.foldr insertSorted []

/-- run configuration: `short` = flush interval of a few ms (timed-out laps happen), `tiny` =
`shutdown_timeout` of 1 ns (the deadline test of the final drain, made every 32 entries, always fires) -/
structure RunCfg where
  short : Bool
  tiny : Bool

/-- guided-run state: the model state, the `next` permits left, whether the flush gate is shut, and
whether the run consulted the clock at a point where the real outcome depends on timing -/
structure GState where
  s : QState
  permits : Nat
  fclosed : Bool
  dep : Bool
  /-- `flush` calls that may pass the shut flush gate (`fstep`) -/
  fpermits : Nat := 0
  /-- `flush` calls that have passed the shut flush gate on an `fstep` permit -/
  fstepped : Nat := 0
  /-- the recorder gate is shut: the writer's end-of-cycle histogram callbacks block -/
  hclosed : Bool := false
  /-- short interval only: the harness let several flush intervals pass while the writer was held at a
  gate, so the deadline of the writer's current outer-loop iteration has certainly passed -/
  late : Bool := false
  /-- the writer was parked when the current op was issued (the real writer may still have been inside
  the drain loop of its previous pass: a hidden race) -/
  fromPark : Bool := false
  /-- `count` of the most recently finished drain pass -/
  lastCount : Nat := 0
  /-- the `count` of the running drain pass is ambiguous: the real one may be larger by `ambigBase`
  (the pass may be the continuation of the previous one) -/
  ambigBase : Nat := 0

/-- is the next writer step going to call `stream.flush()` (where the flush gate can hold it)? -/
def atFlush (s : QState) : Bool :=
  match s.wpc with
  | .outerFlush => true
  | .shutFlush => true
  | .afterDrain st n => (hww s.cap st n s.waiting s.ebw s.sigs).flushed
  | _ => false

/-- is the writer currently blocked inside `flush`? -/
def flushBlocked (g : GState) : Bool := g.fclosed && g.fpermits == 0 && atFlush g.s

/-- the end-of-cycle recorder callbacks (`metrique_idle_percent`, `metrique_queue_len`) run after the
stream flush of the outer loop and before the shutdown flag is looked at -/
def atRecorder (s : QState) : Bool := s.wpc == .checkShutdown

def recBlocked (g : GState) : Bool := g.hclosed && atRecorder g.s

/-- held at one of the three gates -/
def heldAtGate (g : GState) : Bool := (atNext g.s && g.permits == 0) || flushBlocked g || recBlocked g

def observe (cfg : RunCfg) (g : GState) : String :=
  let s := g.s
  let d := delivered s.log
  let ent := d.length + (if atNext s then 1 else 0)
  let closed := if s.log.contains .closed then "1" else "0"
  let joined := if s.log.contains .joinReturned then "1" else "0"
  let fl := if cfg.short then "*" else toString (flushCount s.log)
  s!"next={natList (d.map (·.2))} ent={ent} fl={fl} ov={s.overflow} done={natList (sortNat (completedIds s.log))} closed={closed} joined={joined} fblk={if flushBlocked g then 1 else 0} hblk={if recBlocked g then 1 else 0} fst={g.fstepped}"

def fuel : Nat := 100000

/-- apply a list of events, all of which must be enabled -/
def applyAll (s : QState) (evs : List Ev) : Option QState := run s evs

/-- the clock of a guided run: no flush-interval deadline fires (`quietClock`) — unless the interval is
short and the harness has let it pass while the writer was held (`late`): then every test of the current
iteration's deadline says "passed"; the shutdown deadline fires at every test iff the timeout is tiny -/
def clockFor (cfg : RunCfg) (g : GState) : Clock :=
  match g.s.wpc with
  | .shutHolding _ _ => { quietClock false with deadlineHit := cfg.tiny }
  | _ => if cfg.short && g.late then lateClock false else quietClock false

/-- does this step consult the wall clock in a way the harness cannot control? (short interval, deadline
not known to have passed: the deadline test of a main-loop drain at a multiple of 32 entries; and, with the
flush or recorder gate shut, the `now >= next_flush` test while wakers wait, which decides at which
call the writer is held) -/
def clockDependent (cfg : RunCfg) (g : GState) : Bool :=
  cfg.short && (match g.s.wpc with
    | .holding _ n =>
      -- a deadline test whose outcome is unknown, or whose position is unknown
      (!g.late && (n + 1) % 32 == 0) || (g.ambigBase > 0 && ((n + 1) % 32 == 0 || (n + 1 + g.ambigBase) % 32 == 0))
    | .checkTime => !g.late && (g.fclosed || g.hclosed) && !g.s.waiting.isEmpty
    | _ => false)

/-- one writer step of a guided run; a new outer-loop iteration computes a new deadline -/
def gstep (cfg : RunCfg) (g : GState) : Option GState :=
  match wstep g.s (clockFor cfg g) with
  | none => none
  | some s' =>
    let newIteration := g.s.wpc == .checkHandles && s'.wpc == .drain 0
    -- a pass that starts with a pop right after the op found the writer parked may really be the continuation
    -- of the previous pass (the harness proceeds as soon as it sees the entry written, the writer may not yet
    -- have seen its ring empty): then the real `count` is larger by the previous pass's count
    let startsAmbiguous := g.fromPark && g.s.wpc == .drain 0 && !g.s.ring.isEmpty && g.lastCount > 0
    let passEnds := match g.s.wpc with | .afterDrain _ _ => true | _ => false
    -- (empty passes of timed-out laps do not count: at the time of the next op the real writer may not have
    -- got that far; a continuation of a continuation adds up)
    let lastCount := match g.s.wpc with | .afterDrain _ n => if n > 0 then n + g.ambigBase else g.lastCount | _ => g.lastCount
    some { g with s := s', dep := g.dep || clockDependent cfg g, late := g.late && !newIteration,
                  fromPark := g.fromPark && g.s.wpc != .drain 0,
                  ambigBase := if startsAmbiguous then g.lastCount else if passEnds then 0 else g.ambigBase,
                  lastCount := lastCount }

/-- run the writer until it blocks: in `park`, inside `next` without a permit, inside `flush` with the
flush gate shut, inside a recorder callback with the recorder gate shut, or because it has exited -/
def settleG : Nat → RunCfg → GState → GState
  | 0, _, g => g
  | fuel + 1, cfg, g =>
    if atNext g.s then
      match g.permits with
      | 0 => g
      | k + 1 =>
        match gstep cfg g with
        | none => g
        | some g' => settleG fuel cfg { g' with permits := k }
    else if flushBlocked g || recBlocked g then g
    else if g.fclosed && atFlush g.s then
      match gstep cfg g with
      | none => g
      | some g' => settleG fuel cfg { g' with fpermits := g.fpermits - 1, fstepped := g.fstepped + 1 }
    else match gstep cfg g with
      | none => g
      | some g' => settleG fuel cfg g'

/-- short interval: a parked writer keeps performing timed-out laps of the outer loop; a lap changes
nothing observable unless it uses up an `fstep` permit or gets held at a gate — repeat until stable -/
def laps : Nat → RunCfg → GState → GState
  | 0, _, g => g
  | n + 1, cfg, g =>
    if cfg.short && g.s.wpc == .parking then
      match wstep g.s (lateClock false) with
      | some a => match wstep a (lateClock false) with
        | some b =>
          let g' := settleG fuel cfg { g with s := b }
          if g'.s.wpc == .parking && g'.fpermits == g.fpermits then g' else laps n cfg g'
        | none => { g with s := a }
      | none => g
    else g

/-- run the writer to quiescence (plus timed-out laps of the outer loop in short mode) -/
def quiesce (cfg : RunCfg) (g0 : GState) : GState :=
  let g := { g0 with fromPark := g0.s.wpc == .parking }
  let g1 := settleG fuel cfg g
  let g2' := laps 64 cfg g1
  -- held inside `flush` or a recorder callback: the previous drain pass has certainly ended
  let g2 := if flushBlocked g2' || recBlocked g2' then { g2' with lastCount := 0 } else g2'
  -- `drop(join_handle)` returns as soon as the thread has exited
  match step g2.s .dropJoinEnd with
  | some s3 => { g2 with s := s3 }
  | none => g2

def resOf (results : List Res) : Ent → Res := fun e => results.getD e.2 .ok

def execOp (cfg : RunCfg) (g : GState) : Op → Option GState
  | .new _ => none
  | .append h _ => do
    let s ← applyAll g.s [.push h, .unpark h]
    some (quiesce cfg { g with s := s })
  | .clone => do some (quiesce cfg { g with s := (← step g.s .clone) })
  | .drop => do some (quiesce cfg { g with s := (← step g.s .dropHandle) })
  | .gate k => some (quiesce cfg { g with permits := g.permits + k })
  | .flush => do
    let i := g.s.marks.length
    let s ← applyAll g.s [.flushSend, .flushUnpark i]
    some (quiesce cfg { g with s := s })
  | .forget => do some (quiesce cfg { g with s := (← step g.s .forget) })
  | .dropjoin => do
    let s ← applyAll g.s [.dropJoinBegin, .dropJoinUnpark]
    some (quiesce cfg { g with s := s })
  | .fclose => some (quiesce cfg { g with fclosed := true, fpermits := 0 })
  | .fopen => some (quiesce cfg { g with fclosed := false, fpermits := 0 })
  | .fstep => some (quiesce cfg { g with fpermits := g.fpermits + 1 })
  | .hclose => some (quiesce cfg { g with hclosed := true })
  | .hopen => some (quiesce cfg { g with hclosed := false })
  | .sleep => some (quiesce cfg { g with late := g.late || heldAtGate g })

def runScript (cfg : RunCfg) (ops : List Op) : Option (List String) :=
  match ops with
  | .new cap :: rest =>
    let results := rest.filterMap fun | .append _ r => some r | _ => none
    let g0 := quiesce cfg { s := init cap (resOf results) true, permits := 0, fclosed := false, dep := false }
    let rec go (g : GState) (ops : List Op) (acc : List String) : Option (List String) :=
      match ops with
      | [] => if g.dep then some ["clock-dependent"] else some acc.reverse
      | op :: ops => match execOp cfg g op with
        | none => none
        | some g' => go g' ops (observe cfg g' :: acc)
    go g0 rest [observe cfg g0]
  | _ => none

def parseMode (s0 : String) : Option RunCfg :=
  -- a trailing `e` (the stream's `flush` and report calls fail too, with every error kind in turn) changes
  -- nothing in the model
  let s := if s0.endsWith "e" then String.ofList (s0.toList.dropLast) else s0
  if s == "0" then some ⟨false, false⟩ else if s == "1" then some ⟨true, false⟩
  else if s == "0t" then some ⟨false, true⟩ else if s == "1t" then some ⟨true, true⟩ else none

/-! waker state machine alone -/

structure WS where
  waiting : List Nat
  ebw : Nat
  sigs : List Nat
  nextId : Nat

def hwwOp (cap : Nat) (w : WS) (op : String) : Option (WS × String) :=
  match op.splitOn ":" with
  | ["s"] =>
    let w' := { w with sigs := w.sigs ++ [w.nextId], nextId := w.nextId + 1 }
    some (w', s!"{w'.waiting.length},{w'.ebw},0,-,{if willProgress w'.waiting then 1 else 0}")
  | ["h", d, c] => do
    let count ← c.toNat?
    let st ← if d == "d" then some Status.drained else if d == "t" then some Status.hitDeadline else none
    let o := hww cap st count w.waiting w.ebw w.sigs
    let w' := { w with waiting := o.waiting, ebw := o.ebw, sigs := o.sigs }
    let comp := if o.completed.isEmpty then "-" else joinWith "+" (o.completed.map toString)
    some (w', s!"{o.waiting.length},{o.ebw},{if o.flushed then 1 else 0},{comp},{if willProgress o.waiting then 1 else 0}")
  | _ => none

def runHww (cap : Nat) (ops : List String) : Option (List String) :=
  let rec go (w : WS) (ops : List String) (acc : List String) : Option (List String) :=
    match ops with
    | [] => some acc.reverse
    | op :: ops => match hwwOp cap w op with
      | none => none
      | some (w', r) => go w' ops (r :: acc)
  go ⟨[], 0, [], 0⟩ ops []

/-! trace specifications -/

def parseEnt (s : String) : Option Ent :=
  match s.splitOn "." with
  | [p, k] => do some ((← p.toNat?), (← k.toNat?))
  | _ => none

def parseEnts (ws : List String) : Option (List Ent) :=
  match ws with
  | ["-"] => some []
  | _ => ws.mapM parseEnt

def parseCall (s : String) : Option Obs :=
  if s == "f" then some .flush
  else if s == "r" then some .report
  else match s.splitOn "." with
    | ["n", p, k] => do some (.next ((← p.toNat?), (← k.toNat?)) .ok)
    | _ => none

def splitBar (ws : List String) : List (List String) :=
  let rec go (ws : List String) (cur : List String) (acc : List (List String)) : List (List String) :=
    match ws with
    | [] => (cur.reverse :: acc).reverse
    | w :: ws => if w == "|" then go ws [] (cur.reverse :: acc) else go ws (w :: cur) acc
  go ws [] []

def parseBool (s : String) : Option Bool :=
  if s == "0" then some false else if s == "1" then some true else none

def handleSpec (ws : List String) : String :=
  match splitBar ws with
  | [["order", n, ov, fin], pushes, deliv] =>
    match n.toNat?, parseBool ov, parseBool fin, parseEnts pushes, parseEnts deliv with
    | some n, some ov, some fin, some pushes, some deliv =>
      if Spec.acceptOrder n pushes deliv ov fin then "accept" else "reject"
    | _, _, _, _, _ => "bad-op"
  | [["barrier"], before, lost, calls] =>
    match parseEnts before, parseEnts lost, (if calls == ["-"] then some [] else calls.mapM parseCall) with
    | some before, some lost, some calls => if Spec.barrierAt before lost calls then "accept" else "reject"
    | _, _, _ => "bad-op"
  | _ => "bad-op"

/-! the subscriber stage: `subscribed <n before> <n after>` — `n before` entries with a validation error are
pushed and written with no tracing subscriber (the rate limiter lets every report through), then the
environment installs a subscriber (`setSubscriber true`), then `n after` more. Reply: the number of in-band
reports in the history before and after the installation. -/

def reportCount (log : List Obs) : Nat := (log.filter fun | .report => true | _ => false).length

def pushAndWrite (s : QState) : Option QState := do
  let s ← applyAll s [.push 0, .unpark 0]
  some (settle fuel ⟨false, false, false, true⟩ s 1000000).1

def runSubscribed (nb na : Nat) : Option String := do
  let s0 := (settle fuel (quietClock true) (init 64 (fun _ => .validation) true) 1000000).1
  let s1 ← (List.range nb).foldlM (fun s _ => pushAndWrite s) s0
  let before := reportCount s1.log
  let s2 ← step s1 (.setSubscriber true)
  let s3 ← (List.range na).foldlM (fun s _ => pushAndWrite s) s2
  some s!"reports_before={before} reports_after={reportCount s3.log - before} delivered={(delivered s3.log).length}"

def handle (line : String) : String :=
  match (line.trimAscii.toString.splitOn " ").filter (· ≠ "") with
  | "script" :: sh :: ops =>
    match parseMode sh, ops.mapM parseOp with
    | some cfg, some ops =>
      match runScript cfg ops with
      | some obs => joinWith ";" obs
      | none => "bad-op"
    | _, _ => "bad-op"
  | "hww" :: cap :: ops =>
    match cap.toNat? with
    | some cap => match runHww cap ops with
      | some rs => if rs.isEmpty then "-" else joinWith ";" rs
      | none => "bad-op"
    | none => "bad-op"
  | ["subscribed", nb, na] =>
    match nb.toNat?, na.toNat? with
    | some nb, some na => (runSubscribed nb na).getD "bad-op"
    | _, _ => "bad-op"
  | ["limiter", d] =>
    match d.toNat? with
    | some d => s!"bound={Limiter.windowBound d}"
    | none => "bad-op"
  | "order" :: rest => handleSpec ("order" :: rest)
  | "barrier" :: rest => handleSpec ("barrier" :: rest)
  | _ => "bad-op"

end Driver.Queue
