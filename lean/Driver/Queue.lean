import Model.Queue
import Model.QueueSpec
/-!
Line protocol of engine `queue`.

`script <short 0|1> <op> <op> …` — model-guided run (T-step). Ops:
  `new:<cap>` (must be first) | `append:<h>:<o|v|i>` | `clone:<h>` | `drop:<h>` | `gate:<k>` | `flush` |
  `forget` | `dropjoin`
After every op the writer is run to quiescence (`Queue.settle`) under the clock on which no
deadline fires; with `short = 1` (flush interval of a few ms in the real run) a parked writer
additionally performs one timed-out lap of the outer loop. Reply: one observable per op joined by `;`:
  `next=<ids> ent=<n> fl=<n> ov=<n> done=<ids> closed=<0|1> joined=<0|1>`
(`next` = push indices handed to the stream in order, `ent` = `next` calls entered, `fl` = `flush`
calls (`*` when short), `done` = completed flush futures, sorted).

`order <producers> <overflowed 0|1> <final 0|1> | <pushes p.k …> | <delivered p.k …>` — T-trace: evaluates
`Queue.Spec.acceptOrder` (theorems `c01_spec_accepts`, `c09_spec_accepts`) on a recorded history; `-` = empty list.
`barrier | <before p.k …> | <lost p.k …> | <calls n.p.k | f | r …>` — T-trace: evaluates `Queue.Spec.barrierAt`
(theorem `c04_spec_accepts`) on the stream calls recorded up to the completion of a flush future.
Both reply `accept` or `reject`.

`hww <cap> <op> …` — the waker state machine alone. Ops `s` (send a flush signal) |
`h:<d|t>:<count>` (`handle_waiting_wakers` with Drained / HitDeadline). Reply per op:
  `<|waiting|>,<ebw>,<flushed 0|1>,<completed ids joined by +>,<will_progress 0|1>`
-/
namespace Driver.Queue
open _root_.Queue

def joinWith (sep : String) (xs : List String) : String := sep.intercalate xs

def natList (xs : List Nat) : String :=
  if xs.isEmpty then "-" else joinWith "," (xs.map toString)

def parseRes (s : String) : Option Res :=
  if s == "o" then some .ok else if s == "v" then some .validation else if s == "i" then some .io else none

inductive Op where
  | new (cap : Nat) | append (h : Nat) (r : Res) | clone | drop | gate (k : Nat) | flush | forget | dropjoin

def parseOp (s : String) : Option Op :=
  match s.splitOn ":" with
  | ["new", c] => c.toNat?.map .new
  | ["append", h, r] => do some (.append (← h.toNat?) (← parseRes r))
  | ["clone", h] => h.toNat?.map fun _ => .clone
  | ["drop", h] => h.toNat?.map fun _ => .drop
  | ["gate", k] => k.toNat?.map .gate
  | ["flush"] => some .flush
  | ["forget"] => some .forget
  | ["dropjoin"] => some .dropjoin
  | _ => none

def completedIds (log : List Obs) : List Nat :=
  log.filterMap fun | .completed i _ => some i | _ => none

def flushCount (log : List Obs) : Nat :=
  (log.filter fun | .flush => true | _ => false).length

def insertSorted (x : Nat) : List Nat → List Nat
  | [] => [x]
  | y :: ys => if x ≤ y then x :: y :: ys else y :: insertSorted x ys

def sortNat (xs : List Nat) : List Nat := xs.foldr insertSorted []

def observe (short : Bool) (s : QState) : String :=
  let d := delivered s.log
  let ent := d.length + (if atNext s then 1 else 0)
  let closed := if s.log.contains .closed then "1" else "0"
  let joined := if s.log.contains .joinReturned then "1" else "0"
  let fl := if short then "*" else toString (flushCount s.log)
  s!"next={natList (d.map (·.2))} ent={ent} fl={fl} ov={s.overflow} done={natList (sortNat (completedIds s.log))} closed={closed} joined={joined}"

def fuel : Nat := 100000

/-- apply a list of events, all of which must be enabled -/
def applyAll (s : QState) (evs : List Ev) : Option QState := run s evs

/-- run the writer to quiescence (plus one timed-out lap of the outer loop in short mode) -/
def quiesce (short : Bool) (s : QState) (permits : Nat) : QState × Nat :=
  let (s1, p1) := settle fuel (quietClock false) s permits
  let (s2, p2) :=
    if short && s1.wpc == .parking then
      match wstep s1 (lateClock false) with
      | some a => match wstep a (lateClock false) with
        | some b => settle fuel (quietClock false) b p1
        | none => (a, p1)
      | none => (s1, p1)
    else (s1, p1)
  -- `drop(join_handle)` returns as soon as the thread has exited
  match step s2 .dropJoinEnd with
  | some s3 => (s3, p2)
  | none => (s2, p2)

def resOf (results : List Res) : Ent → Res := fun e => results.getD e.2 .ok

def execOp (short : Bool) (st : QState × Nat) : Op → Option (QState × Nat)
  | .new _ => none
  | .append h _ => do
    let s ← applyAll st.1 [.push h, .unpark h]
    some (quiesce short s st.2)
  | .clone => do some (quiesce short (← step st.1 .clone) st.2)
  | .drop => do some (quiesce short (← step st.1 .dropHandle) st.2)
  | .gate k => some (quiesce short st.1 (st.2 + k))
  | .flush => do
    let i := st.1.marks.length
    let s ← applyAll st.1 [.flushSend, .flushUnpark i]
    some (quiesce short s st.2)
  | .forget => do some (quiesce short (← step st.1 .forget) st.2)
  | .dropjoin => do
    let s ← applyAll st.1 [.dropJoinBegin, .dropJoinUnpark]
    some (quiesce short s st.2)

def runScript (short : Bool) (ops : List Op) : Option (List String) :=
  match ops with
  | .new cap :: rest =>
    let results := rest.filterMap fun | .append _ r => some r | _ => none
    let s0 := quiesce short (init cap (resOf results) true) 0
    let rec go (st : QState × Nat) (ops : List Op) (acc : List String) : Option (List String) :=
      match ops with
      | [] => some acc.reverse
      | op :: ops => match execOp short st op with
        | none => none
        | some st' => go st' ops (observe short st'.1 :: acc)
    go s0 rest [observe short s0.1]
  | _ => none

/-! waker state machine alone -/

structure WS where
  waiting : List Nat
  ebw : Nat
  sigs : List Nat
  nextId : Nat

def hwwOp (cap : Nat) (w : WS) (op : String) : Option (WS × String) :=
  match op.splitOn ":" with
  | ["s"] =>
    let w' := { w with sigs := w.sigs ++ [w.nextId], nextId := w.nextId + 1 }
    some (w', s!"{w'.waiting.length},{w'.ebw},0,-,{if willProgress w'.waiting then 1 else 0}")
  | ["h", d, c] => do
    let count ← c.toNat?
    let st ← if d == "d" then some Status.drained else if d == "t" then some Status.hitDeadline else none
    let o := hww cap st count w.waiting w.ebw w.sigs
    let w' := { w with waiting := o.waiting, ebw := o.ebw, sigs := o.sigs }
    let comp := if o.completed.isEmpty then "-" else joinWith "+" (o.completed.map toString)
    some (w', s!"{o.waiting.length},{o.ebw},{if o.flushed then 1 else 0},{comp},{if willProgress o.waiting then 1 else 0}")
  | _ => none

def runHww (cap : Nat) (ops : List String) : Option (List String) :=
  let rec go (w : WS) (ops : List String) (acc : List String) : Option (List String) :=
    match ops with
    | [] => some acc.reverse
    | op :: ops => match hwwOp cap w op with
      | none => none
      | some (w', r) => go w' ops (r :: acc)
  go ⟨[], 0, [], 0⟩ ops []

/-! trace specifications -/

def parseEnt (s : String) : Option Ent :=
  match s.splitOn "." with
  | [p, k] => do some ((← p.toNat?), (← k.toNat?))
  | _ => none

def parseEnts (ws : List String) : Option (List Ent) :=
  match ws with
  | ["-"] => some []
  | _ => ws.mapM parseEnt

def parseCall (s : String) : Option Obs :=
  if s == "f" then some .flush
  else if s == "r" then some .report
  else match s.splitOn "." with
    | ["n", p, k] => do some (.next ((← p.toNat?), (← k.toNat?)) .ok)
    | _ => none

def splitBar (ws : List String) : List (List String) :=
  let rec go (ws : List String) (cur : List String) (acc : List (List String)) : List (List String) :=
    match ws with
    | [] => (cur.reverse :: acc).reverse
    | w :: ws => if w == "|" then go ws [] (cur.reverse :: acc) else go ws (w :: cur) acc
  go ws [] []

def parseBool (s : String) : Option Bool :=
  if s == "0" then some false else if s == "1" then some true else none

def handleSpec (ws : List String) : String :=
  match splitBar ws with
  | [["order", n, ov, fin], pushes, deliv] =>
    match n.toNat?, parseBool ov, parseBool fin, parseEnts pushes, parseEnts deliv with
    | some n, some ov, some fin, some pushes, some deliv =>
      if Spec.acceptOrder n pushes deliv ov fin then "accept" else "reject"
    | _, _, _, _, _ => "bad-op"
  | [["barrier"], before, lost, calls] =>
    match parseEnts before, parseEnts lost, (if calls == ["-"] then some [] else calls.mapM parseCall) with
    | some before, some lost, some calls => if Spec.barrierAt before lost calls then "accept" else "reject"
    | _, _, _ => "bad-op"
  | _ => "bad-op"

def handle (line : String) : String :=
  match (line.trimAscii.toString.splitOn " ").filter (· ≠ "") with
  | "script" :: sh :: ops =>
    match (if sh == "0" then some false else if sh == "1" then some true else none), ops.mapM parseOp with
    | some short, some ops =>
      match runScript short ops with
      | some obs => joinWith ";" obs
      | none => "bad-op"
    | _, _ => "bad-op"
  | "hww" :: cap :: ops =>
    match cap.toNat? with
    | some cap => match runHww cap ops with
      | some rs => if rs.isEmpty then "-" else joinWith ";" rs
      | none => "bad-op"
    | none => "bad-op"
  | "order" :: rest => handleSpec ("order" :: rest)
  | "barrier" :: rest => handleSpec ("barrier" :: rest)
  | _ => "bad-op"

end Driver.Queue
