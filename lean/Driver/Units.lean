import Model.Units
/-!
Line protocol of engine `units` (tags are named by their Rust struct identifier, e.g. `KilobytePerSecond`):

  `ratio <A> <B>`   → 16 hex digits: bit pattern of `<A as Convert<B>>::RATIO`, or `inconvertible`
  `name <A>`        → `Unit::name()` of the tag's unit
  `bound <A> <B> <obs in> <obs out>` → the error bound of theorem `c19_f64_convert_error` evaluated in exact
                      arithmetic on one observed conversion: `ok` | `violated` | `range` (input or output not a
                      finite number / output not a normal number) | `kind` (occurrences or kind changed)
  `eval <tok> …`    → a postfix program building a value; the reply describes what the value writes:
                      `<promised> nothing | string | metric <unit name> <obs,…|-> <ndims> | error <kind,…>`
                      or `ctor-error <kind,…>` when `Mean::try_new` fails.

  tokens (each pushes one value `(promised unit, output)` unless stated otherwise):
    `u<dec>`                      an unsigned integer value (`u64` …)              promised `None`
    `f<hex16>`                    an `f64`                                         promised `None`
    `d<secs>:<nanos>`             a `Duration`                                     promised `Millisecond`
    `o<obs>`                      an `Observation`                                 promised `None`
    `raw:<P>:<W>:<obs,…|->:<n>`   a `MetricValue<Unit = P>` writing `metric(obs, W, n dimensions)`
    `rawstr:<P>`                  a `MetricValue<Unit = P>` writing a string
    `none:<P>`                    a value writing nothing (`Option::None` of a `MetricValue<Unit = P>`)
    `some`                        `Some(top)`: no change
    `wu:<B>`                      `WithUnit<top, B>` (the pair must be convertible)
    `dist:<n>:<P>`                `Distribution` of the top `n` values (all promising `P`)
    `mean:<n>:<P>`                `Mean::<P>::try_new` of the top `n` values
    `meanf:<P>:<hex16,…|->`       `Mean::<P>::from_iter(f64s)`
  obs: `U<dec>` | `F<hex16>` | `R<hex16>x<dec>`
-/
namespace Driver.Units
open _root_.Units

def hexDigit (c : Char) : Option Nat :=
  if '0' ≤ c ∧ c ≤ '9' then some (c.toNat - '0'.toNat)
  else if 'a' ≤ c ∧ c ≤ 'f' then some (c.toNat - 'a'.toNat + 10)
  else none

def parseHex16 (s : String) : Option Nat :=
  let cs := s.toList
  if cs.length ≠ 16 then none
  else cs.foldlM (fun acc c => (hexDigit c).map (fun d => acc * 16 + d)) 0

def hex16 (n : Nat) : String :=
  let ds := Nat.toDigits 16 n
  String.ofList (List.replicate (16 - ds.length) '0' ++ ds)

def parseF (s : String) : Option Float := (parseHex16 s).map (fun n => Float.ofBits n.toUInt64)

def parseU64 (s : String) : Option Nat :=
  match s.toNat? with
  | some n => if n < 2 ^ 64 then some n else none
  | none => none

def parseTag (s : String) : Option Tag := Tag.ofRustName s.toList

def parseObs (s : String) : Option (Obs Float) :=
  let body := (s.drop 1).toString
  if s.startsWith "U" then (parseU64 body).map .unsigned
  else if s.startsWith "F" then (parseF body).map .floating
  else if s.startsWith "R" then
    match body.splitOn "x" with
    | [t, n] => do some (.repeated (← parseF t) (← parseU64 n))
    | _ => none
  else none

/-- an observation as (value: exact u64 or f64 bit pattern, occurrences, kind 0/1/2) -/
def parseObsBits (s : String) : Option ((Nat ⊕ Nat) × Nat × Nat) :=
  let body := (s.drop 1).toString
  if s.startsWith "U" then (parseU64 body).map fun u => (.inl u, 1, 0)
  else if s.startsWith "F" then (parseHex16 body).map fun b => (.inr b, 1, 1)
  else if s.startsWith "R" then
    match body.splitOn "x" with
    | [t, n] => do some (.inr (← parseHex16 t), ← parseU64 n, 2)
    | _ => none
  else none

def parseList {β : Type} (f : String → Option β) (s : String) : Option (List β) :=
  if s == "-" then some [] else (s.splitOn ",").mapM f

def fbits (x : Float) : String := hex16 x.toBits.toNat

def showObs : Obs Float → String
  | .unsigned u => s!"U{u}"
  | .floating f => s!"F{fbits f}"
  | .repeated t n => s!"R{fbits t}x{n}"

def showErr : Err → String
  | .unitOnString => "unit-on-string"
  | .mismatch p w => s!"mismatch:{String.ofList p.name}:{String.ofList w.name}"
  | .distStrings => "dist-strings"
  | .distDims => "dist-dims"

def showErrs (es : List Err) : String := ",".intercalate (es.map showErr)

def showOut : Out Float → String
  | .nothing => "nothing"
  | .str => "string"
  | .metric obs unit dims =>
    let o := if obs.isEmpty then "-" else ",".intercalate (obs.map showObs)
    s!"metric {String.ofList unit.name} {o} {dims.length}"
  | .error es => s!"error {showErrs es}"

abbrev Entry := Tag × Out Float

inductive StepErr where
  | bad
  | ctor (es : List Err)

def A := floatArith

/-- one token of the postfix program -/
def step (stack : List Entry) (tok : String) : Except StepErr (List Entry) :=
  let bad : Except StepErr (List Entry) := .error .bad
  let parts := tok.splitOn ":"
  match parts with
  | ["some"] => match stack with
    | _ :: _ => .ok stack
    | [] => bad
  | ["raw", p, w, obs, n] =>
    match parseTag p, parseTag w, parseList parseObs obs, n.toNat? with
    | some p, some w, some obs, some n => .ok ((p, .metric obs w ((List.range n).map fun i => (i, i))) :: stack)
    | _, _, _, _ => bad
  | ["rawstr", p] => match parseTag p with
    | some p => .ok ((p, .str) :: stack)
    | none => bad
  | ["none", p] => match parseTag p with
    | some p => .ok ((p, optional none) :: stack)
    | none => bad
  | ["wu", b] =>
    match parseTag b, stack with
    | some b, (p, o) :: rest =>
      match ratioF p b with
      | some r => .ok ((b, withUnit A r p b o) :: rest)
      | none => bad
    | _, _ => bad
  | ["dist", n, p] =>
    match n.toNat?, parseTag p with
    | some n, some p =>
      if stack.length < n then bad
      else
        let elems := (stack.take n).reverse
        if elems.all (fun e => e.1 == p) then .ok ((p, distribution p (elems.map (·.2))) :: stack.drop n)
        else bad
    | _, _ => bad
  | ["mean", n, p] =>
    match n.toNat?, parseTag p with
    | some n, some p =>
      if stack.length < n then bad
      else
        let elems := (stack.take n).reverse
        if elems.all (fun e => e.1 == p) then
          match meanTryExtend A p (Float.ofNat 0, 0) (elems.map (·.2)) with
          | .ok st => .ok ((p, meanWrite p st) :: stack.drop n)
          | .error es => .error (.ctor es)
        else bad
    | _, _ => bad
  | ["meanf", p, fs] =>
    match parseTag p, parseList parseF fs with
    | some p, some fs =>
      let st : MeanSt Float := fs.foldl (fun st f => (A.add st.1 f, st.2 + 1)) (Float.ofNat 0, 0)
      .ok ((p, meanWrite p st) :: stack)
    | _, _ => bad
  | [t] =>
    let body := (t.drop 1).toString
    if t.startsWith "u" then match parseU64 body with
      | some u => .ok ((.none, unsignedOut u) :: stack)
      | none => bad
    else if t.startsWith "f" then match parseF body with
      | some f => .ok ((.none, floatingOut f) :: stack)
      | none => bad
    else if t.startsWith "o" then match parseObs body with
      | some o => .ok ((.none, observationOut o) :: stack)
      | none => bad
    else bad
  | [t, nanos] =>
    if t.startsWith "d" then
      match parseU64 (t.drop 1).toString, nanos.toNat? with
      | some secs, some nanos =>
        if nanos < 1000000000 then .ok ((.second .milli, durationOut A secs nanos) :: stack) else bad
      | _, _ => bad
    else bad
  | _ => bad

def eval (toks : List String) : String :=
  match toks.foldlM step [] with
  | .ok [(p, o)] => s!"{String.ofList p.rustName} {showOut o}"
  | .ok _ => "bad-op"
  | .error .bad => "bad-op"
  | .error (.ctor es) => s!"ctor-error {showErrs es}"

def handle (line : String) : String :=
  match (line.trimAscii.toString.splitOn " ").filter (· ≠ "") with
  | ["ratio", a, b] =>
    match parseTag a, parseTag b with
    | some a, some b =>
      match ratioND a b, ratioBits a b with
      | some _, some bits => hex16 bits
      | some _, none => "unrepresentable"
      | none, _ => "inconvertible"
    | _, _ => "bad-op"
  | ["name", a] =>
    match parseTag a with
    | some a => String.ofList a.name
    | none => "bad-op"
  | ["bound", a, b, i, o] =>
    match parseTag a, parseTag b, parseObsBits i, parseObsBits o with
    | some a, some b, some (vi, ni, ki), some (zo, no, ko) =>
      if ni ≠ no ∨ (ki == 2) != (ko == 2) then "kind"
      else
        -- input: exact value of the u64 / of the f64 bits
        let v? : Option Rat := match vi with
          | .inl u => some (u : Rat)
          | .inr bits => f64ToRat bits
        match v?, zo with
        | some v, .inr zbits =>
          if !(f64IsNormal zbits) then "range"
          else match convertBoundOk a b v zbits with
            | some true => "ok"
            | some false => "violated"
            | none => "range"
        | some v, .inl u =>
          -- ratio 1: the unsigned observation is returned as it is
          if vi == .inl u then "ok" else if v == (u : Rat) then "ok" else "violated"
        | none, _ => "range"
    | _, _, _, _ => "bad-op"
  | "eval" :: toks => if toks.isEmpty then "bad-op" else eval toks
  | _ => "bad-op"

end Driver.Units
