import Model.Sampling
import Generated.Sampling
/-!
Line protocol of engine `sampling` (numbers decimal unless noted; `h…` = hexadecimal bit patterns):

  `na <rate32h>`                         → `<n> <alpha64h>`            (`rate_to_n_alpha`)
  `rn <rate32h> <word64h>`               → `<weight>`                  (`rate_to_n`, draw from the u64 word)
  `rc <rate32h> <word64h> <metrics>`     → counts, metrics = `/`-separated lists of `s` | `r<occ>` | `x` (`,`-separated)
                                           reply: same shape with decimal counts, `.` for an empty list
  `fx <rate32h> <word32h>`               → `emit <rate32h>` | `drop`   (`FixedFractionSample::format`)
  `cg <target>/<v> <op> <op> …`          → one token per op            (`CongressSample`); v = `1` validate_groups on, `0` off
       pairs = `<key>.<value>+<key>.<value>…` in the order the entry yields them, `_` = the empty group
       op `o<pairs>:<word32h>`  one entry with that u32 draw word → `e<rate32h>` | `d<rate32h>` | `P` (duplicate-key panic)
       op `n<pairs>:<count>`    count entries (decisions not reported) → `b` | `P`
       op `E<key>,<key>…`       end of interval, hash-map iteration order as canonical keys (`E` alone = no groups)
                                → `R<key>:<rate32h>:<avg32h>:<noObs>;…` sorted by key (`R` alone = no groups)
  `rt <target>/<v>/<interval_ns>/<next0_ns> <op> …`   `CongressSample` under its real clock (`sampleRateAt`, stride 1)
       op `o<pairs>@<now_ns>:<word32h>` or `o<pairs>@<now_ns>~<key>,<key>…:<word32h>` (iteration order, used if the call rolls over)
       → `e<rate32h>` | `d<rate32h>` | `P`, prefixed by `R<rows>|` when the call rolled the interval over
  `dr <word64h>,<word64h>… <call> <call> …`   `DefaultRng<R>` over a scripted `R` (`-` = empty script)
       call `a` next_u32 → 8 hex | `b` next_u64 → 16 hex | `f<len>` fill_bytes → hex bytes (`-` if none)
          | `e` random::<f32>() → binary32 bits | `d` random::<f64>() → binary64 bits
A value outside the modelled float range is printed as `range`.
-/
namespace Driver.Sampling
open _root_.Sampling

def hexDigit (c : Char) : Option Nat :=
  if '0' ≤ c ∧ c ≤ '9' then some (c.toNat - '0'.toNat)
  else if 'a' ≤ c ∧ c ≤ 'f' then some (c.toNat - 'a'.toNat + 10)
  else none

def parseHex (s : String) : Option Nat :=
  if s.isEmpty then none
  else s.toList.foldlM (fun acc c => (hexDigit c).map (acc * 16 + ·)) 0

def hexOf (width n : Nat) : String :=
  let ds := (Nat.toDigits 16 n)
  String.ofList (List.replicate (width - ds.length) '0' ++ ds)

def rate? (s : String) : Option Dy := (parseHex s).bind f32Decode

def f32Str (d : Dy) : String := match f32Encode d with | some b => hexOf 8 b | none => "range"
def f64Str (d : Dy) : String := match f64Encode d with | some b => hexOf 16 b | none => "range"
def F32.str : F32 → String | .fin d => f32Str d | .bad => "range"

def parseObs (s : String) : Option Obs :=
  if s == "s" then some .single
  else if s == "x" then some .skipped
  else if s.startsWith "r" then (s.drop 1).toNat?.map .repeated
  else none

def parseMetrics (s : String) : Option (List (List Obs)) :=
  (s.splitOn "/").mapM fun m => if m == "." then some [] else (m.splitOn ",").mapM parseObs

def parsePairs (s : String) : Option Key :=
  if s == "_" then some []
  else (s.splitOn "+").mapM fun p =>
    match p.splitOn "." with
    | [k, v] => do some ((← k.toNat?), (← v.toNat?))
    | _ => none

def keyStr (k : Key) : String :=
  if k.isEmpty then "_" else "+".intercalate (k.map fun p => s!"{p.1}.{p.2}")

def consts : Consts := ⟨Generated.Sampling.window, Generated.Sampling.ttl⟩

def cgOp (validate : Bool) (st : State F32) (tok : String) : Option (State F32 × String) :=
  let body := (tok.drop 1).toString
  if tok.startsWith "o" then
    match body.splitOn ":" with
    | [g, w] => do
      let pairs ← parsePairs g
      let word ← parseHex w
      match entryKey canon validate pairs with
      | none => some (st, "P")
      | some key =>
        let (st', rate) := observe f32Arith st key
        match rate with
        | .fin r =>
          match congressDecision (drawF32 word) r with
          | some r' => some (st', "e" ++ f32Str r')
          | none => some (st', "d" ++ f32Str r)
        | .bad => some (st', "range")
    | _ => none
  else if tok.startsWith "n" then
    match body.splitOn ":" with
    | [g, c] => do
      let pairs ← parsePairs g
      let n ← c.toNat?
      match entryKey canon validate pairs with
      | none => some (st, "P")
      -- `n` single observations in closed form (theorem `c12_obsN_bulk`)
      | some key => some (observeBulk f32Arith st key n, "b")
    | _ => none
  else if tok.startsWith "E" then do
    let order ← if body.isEmpty then some [] else (body.splitOn ",").mapM parsePairs
    let st' := updateRates f32Arith consts order st
    let gs := st'.groups.toArray.qsort (fun a b => keyLt a.gid b.gid) |>.toList
    some (st', "R" ++ ";".intercalate (gs.map fun g => s!"{keyStr g.gid}:{F32.str g.rate}:{F32.str g.avg}:{g.noObs}"))
  else none

def cgRun (validate : Bool) (st : State F32) : List String → Option (List String)
  | [] => some []
  | t :: ts => do
    let (st', r) ← cgOp validate st t
    let rest ← cgRun validate st' ts
    some (r :: rest)

def rowsStr (st : State F32) : String :=
  let gs := st.groups.toArray.qsort (fun a b => keyLt a.gid b.gid) |>.toList
  "R" ++ ";".intercalate (gs.map fun g => s!"{keyStr g.gid}:{F32.str g.rate}:{F32.str g.avg}:{g.noObs}")

def rtOp (validate : Bool) (c : Clocked F32) (tok : String) : Option (Clocked F32 × String) :=
  if !tok.startsWith "o" then none else
  match ((tok.drop 1).toString).splitOn ":" with
  | [head, w] => do
    let word ← parseHex w
    let (head, order) ← match head.splitOn "~" with
      | [h] => some (h, ([] : List Key))
      | [h, o] => do some (h, ← if o.isEmpty then some [] else (o.splitOn ",").mapM parsePairs)
      | _ => none
    match head.splitOn "@" with
    | [g, t] => do
      let pairs ← parsePairs g
      let now ← t.toNat?
      match entryKey canon validate pairs with
      | none => some (c, "P")
      | some key =>
        let rolled := rollsOver 1 c now
        let (c', rate) := sampleRateAt f32Arith consts 1 order c now key
        -- the groups as `update_rates` left them (before this entry was counted)
        let pre := if rolled then rowsStr (updateRates f32Arith consts order c.st) ++ "|" else ""
        match rate with
        | .fin r =>
          match congressDecision (drawF32 word) r with
          | some r' => some (c', pre ++ "e" ++ f32Str r')
          | none => some (c', pre ++ "d" ++ f32Str r)
        | .bad => some (c', pre ++ "range")
    | _ => none
  | _ => none

def rtRun (validate : Bool) (c : Clocked F32) : List String → Option (List String)
  | [] => some []
  | t :: ts => do
    let (c', r) ← rtOp validate c t
    let rest ← rtRun validate c' ts
    some (r :: rest)

def parseCall (t : String) : Option RngCall :=
  if t == "a" then some .u32 else if t == "b" then some .u64
  else if t == "e" then some .f32 else if t == "d" then some .f64
  else if t.startsWith "f" then (t.drop 1).toNat?.map .fill else none

def callOut (c : RngCall) (out : List Nat) : String :=
  match c, out with
  | .u32, [x] => hexOf 8 x
  | .u64, [x] => hexOf 16 x
  | .fill _, bs => if bs.isEmpty then "-" else String.join (bs.map (hexOf 2))
  | .f32, [m] => f32Str ⟨m, -24⟩
  | .f64, [m] => f64Str ⟨m, -53⟩
  | _, _ => "bad"

def handle (line : String) : String :=
  match (line.trimAscii.toString.splitOn " ").filter (· ≠ "") with
  | ["na", r] =>
    match rate? r with
    | some rate => let na := rateToNAlpha rate; s!"{na.1} {f64Str na.2}"
    | none => "bad-op"
  | ["rn", r, w] =>
    match rate? r, parseHex w with
    | some rate, some word => toString (rateToN rate (drawF64 word))
    | _, _ => "bad-op"
  | ["rc", r, w, ms] =>
    match rate? r, parseHex w, parseMetrics ms with
    | some rate, some word, some metrics =>
      "/".intercalate ((recordCounts rate (drawF64 word) metrics).map fun cs =>
        if cs.isEmpty then "." else ",".intercalate (cs.map toString))
    | _, _, _ => "bad-op"
  | ["fx", r, w] =>
    match rate? r, parseHex w with
    | some rate, some word =>
      match fixedDecision (drawF32 word) rate with
      | some r' => "emit " ++ f32Str r'
      | none => "drop"
    | _, _ => "bad-op"
  | "cg" :: t :: ops =>
    match t.splitOn "/" with
    | [ts, vs] =>
      match ts.toNat?, (if vs == "1" then some true else if vs == "0" then some false else none) with
      | some target, some validate =>
        match cgRun validate (State.init target) ops with
        | some rs => " ".intercalate rs
        | none => "bad-op"
      | _, _ => "bad-op"
    | _ => "bad-op"
  | "dr" :: ws :: calls =>
    match (if ws == "-" then some [] else (ws.splitOn ",").mapM parseHex), calls.mapM parseCall with
    | some words, some cs =>
      " ".intercalate ((cs.zip (runCalls (wrapperCall false) ⟨words, 0⟩ cs)).map fun (c, o) => callOut c o)
    | _, _ => "bad-op"
  | "rt" :: t :: ops =>
    match t.splitOn "/" with
    | [ts, vs, is, ns] =>
      match ts.toNat?, (if vs == "1" then some true else if vs == "0" then some false else none), is.toNat?, ns.toNat? with
      | some target, some validate, some interval, some next0 =>
        match rtRun validate ⟨State.init target, next0, interval⟩ ops with
        | some rs => " ".intercalate rs
        | none => "bad-op"
      | _, _, _, _ => "bad-op"
    | _ => "bad-op"
  | _ => "bad-op"

end Driver.Sampling
