import Model.KeepAlive
import Model.KeepAliveSpec
import Model.KeepAliveX
/-!
Line protocol of engine `keepalive`.

Request 1 (T-step):  `<slots> | <op> <op> …`
  slots: `-` or comma separated `E<init>` (eager `Slot::new(init)`) / `L` (`LazySlot`)
  macro ops (each runs to completion, i.e. is followed by `drain`, as on one thread):
    `fg` new free flush guard · `dg` new force-flush guard · `mut:<v>` (`&mut` through the owner) ·
    `hit:<v>` (`&self`, through owner or handle) · `hnd` `.handle()` · `cl` clone a handle ·
    `dref` drop the owner / one handle · `fin:<k>:<v>` finish the direct owner through the k-th public finisher
    (0 drop, 1 `Instrumented::emit`, 2 `discard_metrics`, 3 `into_parts`, 4 `split_metrics_to`, 5–7 `instrument` /
    `on_success` / `on_error` / `finalize_metrics` / `instrument_async` writing `plain := v`, then `emit`) ·
    `ctor:<k>` (first op only) which constructor built the owner · `env:<e>:<w>[:<p>]` (before the first real op) where
    drops / polls run and whether drops happen by a contained unwinding panic — identity in the model · `dfg` drop a free flush guard · `ddg` drop a force-flush guard ·
    `open:<i>:<w|d>:<v0>` (`w` consumes a free flush guard) · `delay:<i>` (`delay_flush`, consumes a free
    flush guard) · `wb:<i>` first poll of `wait_for_data` · `wp` poll again · `wc` drop the future ·
    `gm:<i>:<v>` mutate through the slot guard · `gd:<i>` drop the slot guard · `gc:<i>` `parent_is_closed()` ·
    `gdg:<i>` gated close (see `gdgOp`)
  micro ops (one `step` each, no drain): `!<event>` e.g. `!refDrop`, `!pDecV`, `!gSend:0`, and `!drain`.
Reply: `<res>/<appended so far>` per op, then ` | ` and the appended entries `plain:hits:s0,s1,…` (`n` = absent).
  res: `-` · `some`/`none` (open) · `R<v>`/`Rn`/`P` (wait) · `t`/`f` (gc)

Request 2 (T-trace): `trace <nslots> | <obs> <obs> …`  — evaluates the specification predicate
  `Spec.acceptStrong` (= `Spec.accept` plus the strengthened force-flush clause, `Model/KeepAliveSpec.lean`) on an observed history.
Reply: `accept` or `reject:<index of the first rejected observation>`.
-/
namespace Driver.KeepAlive
open _root_.KeepAlive

def parseSlot (t : String) : Option Slot :=
  if t == "L" then some { lazy := true }
  else if t.startsWith "E" then (t.drop 1).toNat?.map fun v => { lazy := false, init := v }
  else none

def parseSlots (t : String) : Option (List Slot) :=
  if t == "-" then some [] else (t.splitOn ",").mapM parseSlot

def optStr : Option Nat → String
  | none => "n"
  | some v => toString v

def fuel : Nat := 64

/-- one macro op: the events it consists of (in program order) and how to read its result -/
inductive Res where
  | unit | openRes (i : Nat) | waitRes (i : Nat) | closedRes (i : Nat)

def runEvs (s : St) (evs : List Ev) : Option St :=
  evs.foldlM (fun s e => step s e) s

def waitOut (s : St) (i : Nat) : String :=
  match s.borrowed with
  | some _ => "P"
  | none => match s.slots[i]? with
    | some sl => "R" ++ optStr sl.data
    | none => "?"

/-- returns the new state and the op's result token -/
def macroOp (s : St) (f : List String) : Option (St × String) :=
  let fin (evs : List Ev) (out : St → String) : Option (St × String) :=
    match runEvs s evs with
    | some s' => some (drain fuel s', out s')
    | none => none
  match f with
  | ["fg"] => fin [.newFG] fun _ => "-"
  | ["dg"] => fin [.newDG] fun _ => "-"
  | ["mut", v] => v.toNat?.bind fun v => fin [.mutate v] fun _ => "-"
  | ["hit", v] => v.toNat?.bind fun v => fin [.hit v] fun _ => "-"
  | ["hnd"] => fin [.toHandle] fun _ => "-"
  | ["cl"] => fin [.cloneHandle] fun _ => "-"
  | ["dref"] => fin [.refDrop] fun _ => "-"
  -- every public finisher of a directly owned guard is, in the model, the owner's drop (`refDrop` with the
  -- last owning reference); finishers 5.. write `plain := v` through `&mut` on the way (`Instrumented::instrument`,
  -- `on_success`, `on_error`, `finalize_metrics`, `instrument_async`)
  | ["fin", k, v] =>
    match k.toNat?, v.toNat? with
    | some k, some v =>
      if s.isHandle || k ≥ 8 then none
      else if k ≥ 5 then fin [.mutate v, .refDrop] fun _ => "-"
      else fin [.refDrop] fun _ => "-"
    | _, _ => none
  -- WHERE drops and polls run (plain thread, tokio task with fresh / exhausted cooperative budget, unconstrained,
  -- multi-thread worker) is not a notion of the model: the property must hold regardless, and the oneshot read at
  -- close is `try_recv` (value present iff sent).  `env:<e>:<w>` is therefore the identity.
  | ["env", e, w] =>
    match e.toNat?, w.toNat? with
    | some e, some w => if e < 6 && w < 4 && s == init s.slots then some (s, "-") else none
    | _, _ => none
  -- fourth field: HOW the drop operations release their object — plain drop, or because the owning scope / thread /
  -- tokio task panics and unwinds.  A drop during unwinding is a drop: identity as well.
  | ["env", e, w, p] =>
    match e.toNat?, w.toNat?, p.toNat? with
    | some e, some w, some p => if e < 6 && w < 4 && p < 4 && s == init s.slots then some (s, "-") else none
    | _, _, _ => none
  -- `append_on_drop` and `append_and_close` build the same initial state
  | ["ctor", k] =>
    match k.toNat? with
    | some k => if k < 2 && s == init s.slots then some (s, "-") else none
    | none => none
  | ["dfg"] => fin [.fgDrop] fun _ => "-"
  | ["ddg"] => fin [.dgBegin] fun _ => "-"
  | ["open", i, m, v0] =>
    match i.toNat?, v0.toNat?, (if m == "w" then some Mode.wait else if m == "d" then some Mode.discard else none) with
    | some i, some v0, some m =>
      match s.slots[i]? with
      | some sl => fin [.open i m v0] fun _ => if sl.opened then "none" else "some"
      | none => none
    | _, _, _ => none
  | ["delay", i] => i.toNat?.bind fun i => fin [.delay i] fun _ => "-"
  | ["wb", i] => i.toNat?.bind fun i => fin [.waitBegin i] fun s' => waitOut s' i
  | ["wp"] => match s.borrowed with
    | some i => fin [.waitPoll] fun s' => waitOut s' i
    | none => none
  | ["wc"] => fin [.waitCancel] fun _ => "-"
  | ["gm", i, v] => match i.toNat?, v.toNat? with
    | some i, some v => fin [.gmut i v] fun _ => "-"
    | _, _ => none
  | ["gd", i] => i.toNat?.bind fun i => fin [.gSend i, .gRelease i] fun _ => "-"
  | ["gc", i] => i.toNat?.bind fun i =>
    match s.slots[i]? with
    | some sl => if sl.g = .live then some (s, if sl.rx then "f" else "t") else none
    | none => none
  | _ => none

def parseEv (f : List String) : Option Ev :=
  match f with
  | ["newFG"] => some .newFG | ["newDG"] => some .newDG
  | ["mutate", v] => v.toNat?.map .mutate | ["hit", v] => v.toNat?.map .hit
  | ["toHandle"] => some .toHandle | ["cloneHandle"] => some .cloneHandle | ["refDrop"] => some .refDrop
  | ["open", i, m, v0] =>
    match i.toNat?, v0.toNat?, (if m == "w" then some Mode.wait else if m == "d" then some Mode.discard else none) with
    | some i, some v0, some m => some (.open i m v0)
    | _, _, _ => none
  | ["waitBegin", i] => i.toNat?.map .waitBegin | ["waitPoll"] => some .waitPoll | ["waitCancel"] => some .waitCancel
  | ["fgDrop"] => some .fgDrop | ["delay", i] => i.toNat?.map .delay
  | ["gmut", i, v] => match i.toNat?, v.toNat? with
    | some i, some v => some (.gmut i v)
    | _, _ => none
  | ["gSend", i] => i.toNat?.map .gSend | ["gRelease", i] => i.toNat?.map .gRelease
  | ["dgBegin"] => some .dgBegin | ["pDecV"] => some .pDecV | ["pDecG"] => some .pDecG
  | ["innerDrop"] => some .innerDrop | ["dgLock"] => some .dgLock | ["lRun"] => some .lRun
  | ["lUnlock"] => some .lUnlock | ["dgDec"] => some .dgDec | ["closeSlot"] => some .closeSlot
  | ["emit"] => some .emit
  | _ => none

/-- apply a macro op `n` times -/
def repeatMacro (f : List String) : Nat → St → Option St
  | 0, s => some s
  | n + 1, s => match macroOp s f with
    | some (s', _) => repeatMacro f n s'
    | none => none

/-- `gdg:<i>` gated close: slot guard `i` starts to drop, and while its value's `close()` is parked (before the send:
the guard has done nothing the model can see yet) every owning reference and then `nfree` free flush guards are dropped,
each to completion; then the guard's drop goes on (`gSend`, `gRelease`).  Result `m<k>`: `k` entries had been appended
when the guard's drop resumed. -/
def gdgOp (s : St) (i : Nat) (nfree : Nat) : Option (St × String) :=
  match s.slots[i]? with
  | none => none
  | some sl =>
    if sl.g = .live ∧ s.borrowed.isNone then
      match repeatMacro ["dref"] s.hS s with
      | none => none
      | some s1 =>
        match repeatMacro ["dfg"] nfree s1 with
        | none => none
        | some s2 => (macroOp s2 ["gd", toString i]).map fun (s3, _) => (s3, s!"m{s2.appended.length}")
    else none

def oneOp (s : St) (tok : String) : Option (St × String) :=
  if tok.startsWith "gdg:" then
    match (tok.drop 4).toString.toNat? with
    | some i => gdgOp s i (s.fgLive - held s.slots)
    | none => none
  else if tok.startsWith "!" then
    let f := (tok.drop 1).toString.splitOn ":"
    if f == ["drain"] then some (drain fuel s, "-")
    else match parseEv f with
      | some e => (step s e).map fun s' => (s', "-")
      | none => none
  else macroOp s (tok.splitOn ":")

def showApp (a : Appended) : String :=
  s!"{a.plain}:{a.hits}:" ++ (if a.slots.isEmpty then "-" else ",".intercalate (a.slots.map optStr))

def runOps (s : St) (toks : List String) : Option (St × List String) :=
  toks.foldlM (fun (acc : St × List String) tok =>
    match oneOp acc.1 tok with
    | some (s', r) => some (s', acc.2 ++ [s!"{r}/{s'.appended.length}"])
    | none => none) (s, [])

/-! Extended model (`Model/KeepAliveX.lean`): a history that contains one of
  `gdp:<i>` drop slot guard `i` whose value's `close()` panics (contained) · `rep:<i>:<v>` replace slot field `i` by a
  fresh `Slot::new(v)` / `LazySlot::default()` (its guard, if alive, becomes the newest orphan) · `odelay` `delay_flush`
  on the newest orphan (consumes a free flush guard) · `ogm:<v>` mutate through it · `ogd` drop it · `ogdp` drop it with a
  panicking `close()`
is run on `stepX`; every other history on the base `step` (on which the theorems with the refinement proof are stated).
Base operations inside an extended history are the base macro ops on the base component, except that "a free flush
guard" excludes those held by orphans. -/

def isXTok (tok : String) : Bool :=
  match tok.splitOn ":" with
  | "gdp" :: _ | "rep" :: _ | "odelay" :: _ | "ogm" :: _ | "ogd" :: _ | "ogdp" :: _ => true
  | _ => false

def runEvsX (x : StX) (evs : List EvX) : Option StX := evs.foldlM (fun x e => stepX x e) x

def finX (x : StX) (evs : List EvX) : Option (StX × String) :=
  (runEvsX x evs).map fun x' => ({ x' with b := drain fuel x'.b }, "-")

def oneOpX (x : StX) (tok : String) : Option (StX × String) :=
  let last := x.orph.length - 1
  match tok.splitOn ":" with
  | ["gdp", i] => i.toNat?.bind fun i => finX x [.gSendFail i, .base (.gRelease i)]
  | ["rep", i, v] => match i.toNat?, v.toNat? with
    | some i, some v => finX x [.slotReplace i v]
    | _, _ => none
  | ["odelay"] => if x.orph.isEmpty then none else finX x [.oDelay last]
  | ["ogm", v] => if x.orph.isEmpty then none else v.toNat?.bind fun v => finX x [.oGmut last v]
  | ["ogd"] => if x.orph.isEmpty then none else finX x [.oSend last, .oRelease last]
  | ["ogdp"] => if x.orph.isEmpty then none else finX x [.oSendFail last, .oRelease last]
  | ["gdg", i] => i.toNat?.bind fun i =>
    (gdgOp x.b i (x.b.fgLive - held x.b.slots - heldO x.orph)).map fun (b', r) => ({ x with b := b' }, r)
  | f =>
    let needs := match f with
      | ["dfg"] => true
      | ["open", _, "w", _] => true
      | ["delay", _] => true
      | _ => false
    if needs && !freeFG x then none
    else (oneOp x.b tok).map fun (b', r) => ({ x with b := b' }, r)

def runOpsX (x : StX) (toks : List String) : Option (StX × List String) :=
  toks.foldlM (fun (acc : StX × List String) tok =>
    match oneOpX acc.1 tok with
    | some (x', r) => some (x', acc.2 ++ [s!"{r}/{x'.b.appended.length}"])
    | none => none) (x, [])

def handleOps (slotsS : String) (toks : List String) : String :=
  match parseSlots slotsS with
  | none => "bad-op"
  | some slots =>
    let fin (s : St) (outs : List String) : String :=
      let apps := if s.appended.isEmpty then "-" else ";".intercalate (s.appended.map showApp)
      " ".intercalate outs ++ " | " ++ apps
    if toks.any isXTok then
      match runOpsX (initX slots) toks with
      | none => "bad-op"
      | some (x, outs) => fin x.b outs
    else
      match runOps (init slots) toks with
      | none => "bad-op"
      | some (s, outs) => fin s outs

def handleTrace (nslotsS : String) (toks : List String) : String :=
  match nslotsS.toNat?, toks.mapM Spec.parseObs with
  | some n, some obs =>
    match Spec.firstRejectStrong (Spec.start n) {} obs 0 with
    | none => "accept"
    | some i => s!"reject:{i}"
  | _, _ => "bad-op"

def handle (line : String) : String :=
  match (line.trimAscii.toString.splitOn " ").filter (· ≠ "") with
  | "trace" :: n :: "|" :: toks => handleTrace n toks
  | slotsS :: "|" :: toks => handleOps slotsS toks
  | _ => "bad-op"

end Driver.KeepAlive
