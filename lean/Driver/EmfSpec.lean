import Model.EmfSpec
/-!
Line protocol of engine `emfspec` (C03, C08).

request:  `<v> <cfg> | <entry>`
  `v`    = `1` when the formatter under test validates (all three checks on), `0` when it skips them
  `cfg`  = the `EmfCfg` encoding of `harness/src/gen_entry.rs`
           `<how>/<ns>,<ns>…/<set>;<set>…/<loggroup|~>/<ignored 0|1>/<directives 0|1>/<mult>`
  `entry`= the `GenEntry` encoding of `harness/src/gen_entry.rs`
reply:    `err <kind>:<hexname>,…`   (in model order; the harness compares sorted)
       or `ok <record>|<record>…`  with
  record    = `<timestamp|now>;<loggroup|~>;<directive>/<directive>…;<member>,<member>…`   (`-` = no members)
  directive = `<hexns>:<set>+<set>…:<decl>,<decl>…`   set = `<hex>.<hex>…` or `_`; no sets = `^`; no decls = `-`
  decl      = `<hexname>~<hexunit|~>~<0|1>`
  member    = `<hexname>=S<hex>` | `<hexname>=<num>` | `<hexname>=H<num>;<num>…#<count>;<count>…`
  num       = `i<dec>` | `f<16 hex digits: bit pattern>`
Members and declarations are sorted by name (stable) before printing; an empty string is `-`.
-/
namespace Driver.EmfSpec
open _root_.EmfSpec

/-! ### parsing on `List Char` -/

def splitOn (c : Char) : List Char → List (List Char)
  | [] => [[]]
  | x :: xs =>
    match splitOn c xs with
    | [] => [[]]  -- unreachable
    | cur :: rest => if x = c then [] :: cur :: rest else (x :: cur) :: rest

def hexVal (c : Char) : Option Nat :=
  if '0' ≤ c ∧ c ≤ '9' then some (c.toNat - '0'.toNat)
  else if 'a' ≤ c ∧ c ≤ 'f' then some (c.toNat - 'a'.toNat + 10)
  else none

def unhex : List Char → Option Str
  | ['-'] => some []
  | cs =>
    let rec go : List Char → Option Str
      | [] => some []
      | [_] => none
      | a :: b :: rest => do
        let x ← hexVal a
        let y ← hexVal b
        let r ← go rest
        pure ((x * 16 + y) :: r)
    go cs

def parseNat (cs : List Char) : Option Nat :=
  if cs.isEmpty then none
  else cs.foldl (fun acc c => do
    let a ← acc
    if '0' ≤ c ∧ c ≤ '9' then some (a * 10 + (c.toNat - '0'.toNat)) else none) (some 0)

def parseHexNat (cs : List Char) : Option Nat :=
  if cs.isEmpty then none
  else cs.foldl (fun acc c => do
    let a ← acc
    let v ← hexVal c
    pure (a * 16 + v)) (some 0)

def parseInt : List Char → Option Int
  | '-' :: cs => (parseNat cs).map fun n => -(n : Int)
  | cs => (parseNat cs).map fun n => (n : Int)

def parseFloatBits (cs : List Char) : Option Float :=
  if cs.length = 16 then (parseHexNat cs).map fun n => Float.ofBits n.toUInt64 else none

def parseSet (cs : List Char) : Option (List Str) :=
  if cs = ['.'] then some [] else (splitOn ',' cs).mapM unhex

def parseSets (cs : List Char) : Option (List (List Str)) :=
  if cs.isEmpty then some [] else (splitOn ';' cs).mapM parseSet

def parseObs : List Char → Option (Obs Float)
  | 'u' :: r => (parseNat r).map .unsigned
  | 'f' :: r => (parseFloatBits r).map .floating
  | 'r' :: r =>
    match splitOn 'x' r with
    | [b, n] => do
      let t ← parseFloatBits b
      let occ ← parseNat n
      pure (.repeated t occ)
    | _ => none
  | _ => none

def parseVal : List Char → Option (Val Float)
  | 'S' :: r => (unhex r).map .str
  | ['N'] => some .nothing
  | 'E' :: r => (unhex r).map fun _ => .error
  | 'M' :: r =>
    match splitOn ':' r with
    | [u, f, d, o] => do
      let unit ← match u with
        | ['n'] => some none
        | 'u' :: h => (unhex h).map some
        | _ => none
      let flag ← match f with
        | ['-'] => some Flag.plain
        | ['h'] => some Flag.hires
        | ['x'] => some Flag.noMetric
        | _ => none
      let dims ← if d = ['.'] then some [] else
        (splitOn ',' d).mapM fun kv =>
          match splitOn '~' kv with
          | [k, v] => do pure ((← unhex k), (← unhex v))
          | _ => none
      let obs ← if o = ['.'] then some [] else (splitOn ';' o).mapM parseObs
      pure (.metric ⟨obs, unit, dims, flag⟩)
    | _ => none
  | _ => none

/-- `MetriqueValidationError` -/
def unroutableName : Str :=
  "MetriqueValidationError".toList.map Char.toNat

def parseItem : List Char → Option (List (Item Float))
  | ['_'] => some []
  | 'T' :: r => (parseInt r).map fun t => [.timestamp t]
  | ['C', 'S'] => some [.allowSplit]
  | ['C', 'O'] => some [.otherCfg]
  | 'C' :: 'D' :: r => (parseSets r).map fun s => [.entryDims s]
  | 'U' :: r => (unhex r).map fun m => [.allowUnroutable, .value unroutableName (.str m)]
  | 'G' :: _ => some []
  | 'V' :: r =>
    match splitOn '=' r with
    | [n, v] => do
      let name ← unhex n
      let val ← parseVal v
      pure [.value name val]
    | _ => none
  | _ => none

def parseEntry (cs : List Char) : Option (Entry Float) :=
  ((splitOn ' ' cs).filter (!·.isEmpty)).mapM parseItem |>.map List.flatten

def extraDirective : Directive :=
  { ns := "Extra".toList.map Char.toNat
    dims := [["ExtraDim".toList.map Char.toNat]]
    metrics := [⟨"ExtraMetric".toList.map Char.toNat, some ("Count".toList.map Char.toNat), false⟩] }

def parseCfg (cs : List Char) : Option (Config × Option Nat) :=
  match splitOn '/' cs with
  | [_how, ns, sets, lg, ign, dir, mult] => do
    let namespaces ← (splitOn ',' ns).mapM unhex
    let defaultDims ← parseSets sets
    let logGroup ← if lg = ['~'] then some none else (unhex lg).map some
    let m ← match mult with
      | ['-'] => some none
      | 'm' :: r => (parseNat r).map some
      | _ => none
    if namespaces.isEmpty || defaultDims.isEmpty then none
    else pure ({ namespaces, defaultDims, logGroup, allowIgnored := ign = ['1'],
                 extra := if dir = ['1'] then [extraDirective] else [] }, m)
  | _ => none

/-! ### IEEE operations (Lean `Float` is binary64) -/

def f64Max : Float := Float.ofBits 0x7FEFFFFFFFFFFFFF

def floatOps : FloatOps Float where
  zero := 0.0
  mean := fun t n => t / n.toUInt64.toFloat
  usable := fun x =>
    if x.isNaN then none
    else if x > f64Max then some f64Max
    else if x < -f64Max then some (-f64Max)
    else some x

/-! ### printing -/

def hexDigit (n : Nat) : Char :=
  if n < 10 then Char.ofNat ('0'.toNat + n) else Char.ofNat ('a'.toNat + (n - 10))

def hex (s : Str) : String :=
  if s.isEmpty then "-" else String.ofList (s.flatMap fun b => [hexDigit (b / 16), hexDigit (b % 16)])

def hexBits (x : Float) : String :=
  let n := x.toBits.toNat
  String.ofList ((List.range 16).map fun i => hexDigit ((n >>> (4 * (15 - i))) % 16))

def numStr : Num Float → String
  | .int n => s!"i{n}"
  | .flt x => s!"f{hexBits x}"

def mvalStr : MVal Float → String
  | .str s => s!"S{hex s}"
  | .scalar x => numStr x
  | .hist vs cs => s!"H{";".intercalate (vs.map numStr)}#{";".intercalate (cs.map toString)}"

/-- stable insertion sort by a key -/
def insertBy {α : Type} (lt : α → α → Bool) (x : α) : List α → List α
  | [] => [x]
  | y :: ys => if !lt y x then x :: y :: ys else y :: insertBy lt x ys

def sortBy {α : Type} (lt : α → α → Bool) (l : List α) : List α :=
  l.foldr (fun x acc => insertBy lt x acc) []
-- note: `foldr` + insert-before-the-first-not-smaller keeps equal keys in their original order

def setStr (s : List Str) : String :=
  if s.isEmpty then "_" else ".".intercalate (s.map hex)

def orDash (s : String) : String := if s.isEmpty then "-" else s

def declStr (d : Decl) : String :=
  s!"{hex d.name}~{match d.unit with | none => "~" | some u => hex u}~{if d.hires then "1" else "0"}"

def directiveStr (d : Directive) : String :=
  let decls := sortBy (fun a b => strLt a.name b.name) d.metrics
  let dims := if d.dims.isEmpty then "^" else "+".intercalate (d.dims.map setStr)
  s!"{hex d.ns}:{dims}:{orDash (",".intercalate (decls.map declStr))}"

def recordStr (r : Record Float) : String :=
  let ms := sortBy (fun a b => strLt a.1 b.1) r.members
  let ts := match r.timestamp with | none => "now" | some t => toString t
  let lg := match r.logGroup with | none => "~" | some g => hex g
  s!"{ts};{lg};{"/".intercalate (r.directives.map directiveStr)};{orDash (",".intercalate (ms.map fun m => s!"{hex m.1}={mvalStr m.2}"))}"

def errStr : Err → String
  | .multipleTimestamps => "multiple-timestamps:-"
  | .dimsLate => "dims-late:-"
  | .dimsTwice => "dims-twice:-"
  | .dimsEmpty => "dims-empty:-"
  | .duplicate n => s!"duplicate:{hex n}"
  | .emptyName => "empty-name:-"
  | .awsName => s!"aws-name:{hex awsName}"
  | .metricInDimension n => s!"metric-in-dimension:{hex n}"
  | .missingDimension n => s!"missing-dimension:{hex n}"
  | .perMetricDims n => s!"per-metric-dims:{hex n}"
  | .valueError n => s!"value-error:{hex n}"

/-- split `a | b` at the first `" | "` -/
def splitBar : List Char → Option (List Char × List Char)
  | [] => none
  | ' ' :: '|' :: ' ' :: rest => some ([], rest)
  | [' ', '|'] => some ([], [])
  | c :: rest => (splitBar rest).map fun (a, b) => (c :: a, b)

def handle (line : String) : String :=
  match splitBar line.trimAscii.toString.toList with
  | none => "bad-op"
  | some (head, entryS) =>
    match splitOn ' ' head with
    | [v, cfgS] =>
      match (if v = ['1'] then some allOn else if v = ['0'] then some allOff else none),
            parseCfg cfgS, parseEntry entryS with
      | some sw, some (cfg, mult), some e =>
        match records cfg sw floatOps mult e with
        | .error errs => s!"err {",".intercalate (errs.map errStr)}"
        | .ok rs => s!"ok {"|".intercalate (rs.map recordStr)}"
      | _, _, _ => "bad-op"
    | _ => "bad-op"

end Driver.EmfSpec
