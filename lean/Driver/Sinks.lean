import Model.Sinks
/-!
Engine `sinks`. Request: `<tree> <kind> <entry>,<entry>,…`
  tree  = reverse-polish, `.`-separated: leaf numbers and `t` (tee of the two trees below), e.g. `0.1.t.2.t`
  kind  = `imm` (FlushImmediately over the tee) | `dir` (calling `Tee::next` directly, no flushes)
  entry = `<id>:<result of next per leaf, chars o|v|i, in leaf-number order>:<flush result per leaf, chars o|f>`
Reply: `<leaf>=<ids seen by next, comma-separated or ->/<flush calls>` per leaf (leaf-number order),
then ` | ` and the result of every root `next` (`dir` only) as chars o|v|i.
-/
namespace Driver.Sinks
open _root_.Sinks

def parseTree (toks : List String) : Option Tree :=
  let rec go (toks : List String) (stack : List Tree) : Option Tree :=
    match toks with
    | [] => match stack with | [t] => some t | _ => none
    | "t" :: rest => match stack with
      | r :: l :: st => go rest (Tree.tee l r :: st)
      | _ => none
    | n :: rest => match n.toNat? with
      | some k => go rest (Tree.leaf k :: stack)
      | none => none
  go toks []

def parseRes : Char → Option Res
  | 'o' => some .ok | 'v' => some .validation | 'i' => some .io | _ => none

structure Ent where
  id : Nat
  res : List Res
  fres : List Bool

def parseEnt (s : String) : Option Ent :=
  match s.splitOn ":" with
  | [i, r, f] => do
    let id ← i.toNat?
    let res ← r.toList.mapM parseRes
    let fres ← f.toList.mapM (fun c => if c == 'o' then some true else if c == 'f' then some false else none)
    pure ⟨id, res, fres⟩
  | _ => none

def resChar : Res → Char
  | .ok => 'o' | .validation => 'v' | .io => 'i'

/-- `B <op> <op> …` — a formatter-backed stream over a buffering writer (`Sinks.FmtBuf`): ops `n<len>`
(`next` of an entry whose record has `len` bytes), `fo` / `ff` (`flush`, the writer's flush succeeds / fails).
Reply: result of every call (`o`/`e`), then ` | <delivered bytes> <buffered bytes> <writer flush calls>`. -/
def handleBuf (toks : List String) : String :=
  let parse (acc : Option (List FmtBuf.Op × Nat)) (t : String) : Option (List FmtBuf.Op × Nat) := do
    let (ops, off) ← acc
    if t == "fo" then pure (ops ++ [.flush true], off)
    else if t == "ff" then pure (ops ++ [.flush false], off)
    else if t.startsWith "n" then
      let k ← (t.drop 1).toNat?
      pure (ops ++ [.next (List.range' off k)], off + k)
    else none
  match (toks.filter (· ≠ "")).foldl parse (some ([], 0)) with
  | some (ops, _) =>
    let (w, rs) := FmtBuf.run FmtBuf.init ops
    s!"{String.ofList (rs.map fun r => if r then 'o' else 'e')} | {w.delivered.length} {w.buf.length} {w.flushCalls}"
  | none => "bad-op"

def handle (line : String) : String :=
  match line.trimAscii.toString.splitOn " " with
  | "B" :: toks => handleBuf toks
  | [treeS, kind, entsS] =>
    match parseTree (treeS.splitOn "."), (if entsS == "-" then some [] else (entsS.splitOn ",").mapM parseEnt) with
    | some t, some ents =>
      let ids := ents.map (·.id)
      -- results are looked up by entry id (ids are distinct) / by flush index
      let res : Nat → Nat → Res := fun leaf e =>
        match ents.find? (·.id == e) with
        | some en => en.res.getD leaf .ok
        | none => .ok
      let fres : Nat → Nat → Bool := fun leaf k =>
        match ents[k]? with
        | some en => en.fres.getD leaf true
        | none => true
      let leaves := t.leaves.mergeSort (· ≤ ·) |>.eraseDups
      let render (w : World) : String :=
        " ".intercalate (leaves.map fun l =>
          let ns := w.nextsOf l
          s!"{l}={if ns.isEmpty then "-" else ",".intercalate (ns.map toString)}/{w.flushesOf l}")
      if kind == "imm" then
        s!"{render (immediateRun res fres t ids)} | "
      else if kind == "dir" then
        let (w, rs) := directRun res t ids ⟨[]⟩
        s!"{render w} | {String.ofList (rs.map resChar)}"
      else "bad-op"
    | _, _ => "bad-op"
  | _ => "bad-op"

end Driver.Sinks
