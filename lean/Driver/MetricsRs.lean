import Model.MetricsRs
/-!
Line protocol of engine `metricsrs`.

request:  `<mode> <arg> <tok> <tok> ...`

* mode `script`, arg = `emit_zero_counters` (`0`|`1`): a sequential script over one recorder. Tokens
  (key = `<name>[/<labelkey>=<labelvalue>]*`, all decimal ids, labels sorted by label key):
  `rc:<key>` `rg:<key>` `rh:<key>`   register a counter / gauge / histogram
  `c:<key>:<n>`                      `register_counter` + `increment(n)` (what `counter!(..).increment(n)` does)
  `ci:<key>:<n>`                     `increment(n)` through an existing handle
  `g:<key>:<f64 bits hex>`           `register_gauge` + `set`
  `h:<key>:<f64 bits hex>`           `register_histogram` + `record(f64)` (the `f64 → u32` clamp of `HistogramFn`)
  `d:<name>:<unit>`                  `describe_*` (the three share one map); unit `0` = `None`
  `hm:<key>:<f64 bits hex>:<n>`      `register_histogram` + `record_many(f64, n)`
  `ca:<key>:<n>`                     `register_counter` + `absolute(n)`
  `gi:<key>:<bits>` `gd:<key>:<bits>` `register_gauge` + `increment(f64)` / `decrement(f64)`
  `R`                                a whole readout
  reply: one entry per `R`, joined by ` # ` (`-` when there is none); entry = `ts=<0|1>;split=<0|1>` then one
  `;<kind>|<name>|<dims>|<unit>|<observations>` per written value (kind `C`/`G`/`H`; dims `k=v,…` or `-`; unit id or
  `-` for `Unit::None`; observations `u<n>` / `f<bits hex>` / `r<value>x<count>x<total bits hex>` joined by `,`).
* mode `repscript`, args `<emit_zero> <rep>`: the tokens (no `R`) run `rep` times, then one readout; reply as `script`.
* mode `window`, arg = `emit_zero_counters`: tokens are atomic events as in `trace`; a leading `+` marks a step of the
  readout's own walk, the others belong to other threads; reply: the entry of `readoutInterleaved` (unit map read
  after the last event).
* mode `reportertask`, arg `orig` | `dedup` | `dropcancels`: tokens `u` (update), `c` (cancel), `t0` / `t1` (task step,
  timer not fired / fired), `k` / `x` (a `MetricReporter` handle is cloned / dropped); reply `<marks>- <pc>` with marks `u` / `P` (published readout) in order.
* mode `idx`, arg `-`: tokens are decimal `u32` values; reply per value `<index>:<lower>:<upper>:<bucket value>`.
* mode `trace`, arg = `emit_zero_counters`: tokens are atomic events (`inc:<key>:<n>`, `swapC:<key>`, `gset:<key>:<hex>`,
  `gload:<key>`, `hrec:<key>:<u32>`, `hswap:<key>:<i>`, `rc/rg/rh:<key>`, `d:<name>:<unit>`); reply: the observations
  `c|<key>|<delta>`, `g|<key>|<hex>`, `b|<key>|<i>|<count>` joined by `;` (`-` if none), then ` @ ` and the residual
  counter cells of every registered counter `key=value` joined by `;`.
-/
namespace Driver.MetricsRs
open _root_.MetricsRs

def hexDigit (c : Char) : Option Nat :=
  if '0' ≤ c ∧ c ≤ '9' then some (c.toNat - '0'.toNat)
  else if 'a' ≤ c ∧ c ≤ 'f' then some (c.toNat - 'a'.toNat + 10)
  else none

def parseHex (s : String) : Option Nat :=
  if s.isEmpty then none
  else s.toList.foldl (fun acc c => do let a ← acc; let d ← hexDigit c; pure (a * 16 + d)) (some 0)

def toHex (n : Nat) : String :=
  let ds := (Nat.toDigits 16 n)
  String.ofList (List.replicate (16 - ds.length) '0' ++ ds)

def parseLabel (s : String) : Option (Nat × Nat) :=
  match s.splitOn "=" with
  | [a, b] => do pure (← a.toNat?, ← b.toNat?)
  | _ => none

def parseKey (s : String) : Option Key :=
  match s.splitOn "/" with
  | [] => none
  | nm :: ls => do pure { name := ← nm.toNat?, labels := ← ls.mapM parseLabel }

def keyStr (k : Key) : String :=
  "/".intercalate (toString k.name :: k.labels.map fun (a, b) => s!"{a}={b}")

/-- `HistogramFn::record(f64)`: `> u32::MAX as f64` → `u32::MAX`, else the saturating `as u32` cast (NaN ↦ 0). -/
def clampF64 (bits : Nat) : Nat :=
  let x := Float.ofBits bits.toUInt64
  if x > Float.ofNat 4294967295 then 4294967295 else x.toUInt32.toNat

def parseOp (tok : String) : Option (List Op) :=
  if tok == "R" then some [.readout]
  else match tok.splitOn ":" with
  | ["rc", k] => do pure [.ev (.regC (← parseKey k))]
  | ["rg", k] => do pure [.ev (.regG (← parseKey k))]
  | ["rh", k] => do pure [.ev (.regH (← parseKey k))]
  | ["c", k, n] => do let k ← parseKey k; pure [.ev (.regC k), .ev (.inc k (← n.toNat?))]
  | ["ci", k, n] => do pure [.ev (.inc (← parseKey k) (← n.toNat?))]
  | ["g", k, b] => do let k ← parseKey k; pure [.ev (.regG k), .ev (.gset k (← parseHex b))]
  | ["h", k, b] => do let k ← parseKey k; pure [.ev (.regH k), .ev (.hrec k (clampF64 (← parseHex b)))]
  | ["d", nm, u] => do pure [.ev (.describe (← nm.toNat?) (← u.toNat?))]
  | ["hm", k, b, n] => do let k ← parseKey k; pure [.ev (.regH k), .recordMany k (clampF64 (← parseHex b)) (← n.toNat?)]
  | ["ca", k, n] => do let k ← parseKey k; pure [.ev (.regC k), .absolute k (← n.toNat?)]
  | ["gi", k, b] => do let k ← parseKey k; pure [.ev (.regG k), .gaugeAdd k false (← parseHex b)]
  | ["gd", k, b] => do let k ← parseKey k; pure [.ev (.regG k), .gaugeAdd k true (← parseHex b)]
  | _ => none

def ovStr : OV → String
  | .unsigned n => s!"u{n}"
  | .floating b => s!"f{toHex b}"
  | .repeated v c => s!"r{v}x{c}x{toHex (Float.ofNat v * Float.ofNat c).toBits.toNat}"

def itemStr (kind : String) (it : Item) : String :=
  let dims := if it.dims.isEmpty then "-" else ",".intercalate (it.dims.map fun (a, b) => s!"{a}={b}")
  let unit := if it.unit = 0 then "-" else toString it.unit
  let obs := if it.obs.isEmpty then "-" else ",".intercalate (it.obs.map ovStr)
  s!"{kind}|{it.name}|{dims}|{unit}|{obs}"

def entryStr (e : Entry) : String :=
  let b (x : Bool) := if x then "1" else "0"
  ";".intercalate (s!"ts={b e.hasTimestamp}" :: s!"split={b e.allowSplit}" ::
    (e.counters.map (itemStr "C") ++ e.gauges.map (itemStr "G") ++ e.hists.map (itemStr "H")))

def parseEv (tok : String) : Option Ev :=
  match tok.splitOn ":" with
  | ["rc", k] => do pure (.regC (← parseKey k))
  | ["rg", k] => do pure (.regG (← parseKey k))
  | ["rh", k] => do pure (.regH (← parseKey k))
  | ["inc", k, n] => do pure (.inc (← parseKey k) (← n.toNat?))
  | ["swapC", k] => do pure (.swapC (← parseKey k))
  | ["gset", k, b] => do pure (.gset (← parseKey k) (← parseHex b))
  | ["gload", k] => do pure (.gload (← parseKey k))
  | ["hrec", k, v] => do pure (.hrec (← parseKey k) (← v.toNat?))
  | ["hswap", k, i] => do pure (.hswap (← parseKey k) (← i.toNat?))
  | ["d", nm, u] => do pure (.describe (← nm.toNat?) (← u.toNat?))
  | _ => none

def obsStr : Obs → String
  | .counter k d => s!"c|{keyStr k}|{d}"
  | .gauge k b => s!"g|{keyStr k}|{toHex b}"
  | .bucket k i c => s!"b|{keyStr k}|{i}|{c}"

def idxStr (v : Nat) : String :=
  match valueToIndex histGrouping histMaxPower v with
  | none => "none"
  | some i => s!"{i}:{lowerBound histGrouping i}:{upperBound histGrouping histMaxPower i}:{bucketValue i}"

def parseBool (s : String) : Option Bool :=
  if s == "0" then some false else if s == "1" then some true else none

def handle (line : String) : String :=
  match (line.trimAscii.toString.splitOn " ").filter (· ≠ "") with
  | "script" :: ez :: toks =>
    match parseBool ez, toks.mapM parseOp with
    | some ez, some ops =>
      let r := runScript (State.init ez) ops.flatten
      if r.2.isEmpty then "-" else " # ".intercalate (r.2.map entryStr)
    | _, _ => "bad-op"
  | "repscript" :: ez :: rep :: toks =>
    match parseBool ez, rep.toNat?, toks.mapM parseOp with
    | some ez, some rep, some ops =>
      let once := ops.flatten
      let r := runScript (State.init ez) ((List.replicate rep once).flatten ++ [.readout])
      " # ".intercalate (r.2.map entryStr)
    | _, _, _ => "bad-op"
  | "window" :: ez :: toks =>
    let parseT (t : String) : Option (Bool × Ev) :=
      if t.startsWith "+" then (parseEv (t.drop 1).toString).map (fun e => (true, e)) else (parseEv t).map (fun e => (false, e))
    match parseBool ez, toks.mapM parseT with
    | some ez, some tagged => entryStr (readoutInterleaved (State.init ez) tagged)
    | _, _ => "bad-op"
  | "reportertask" :: variant :: toks =>
    let parseS (t : String) : Option Reporter.RStep :=
      if t == "u" then some .update else if t == "c" then some .cancel
      else if t == "t0" then some (.task false) else if t == "t1" then some (.task true)
      else if t == "k" then some .cloneHandle else if t == "x" then some .dropHandle else none
    let markStr (m : Reporter.Mark) : String := match m with | .upd => "u" | .pub => "P"
    let pcStr (p : Reporter.Pc) : String := match p with | .head => "head" | .sel => "sel" | .fin => "fin" | .done => "done"
    match toks.mapM parseS with
    | some tr =>
      if variant == "orig" then
        let r := Reporter.runR Reporter.stepOrig Reporter.initOrig tr
        s!"{String.join (r.2.map markStr)}- {pcStr r.1.pc}"
      else if variant == "dropcancels" then
        let r := Reporter.runR Reporter.stepDropCancels Reporter.initOrig tr
        s!"{String.join (r.2.map markStr)}- {pcStr r.1.pc}"
      else if variant == "dedup" then
        let r := Reporter.runR Reporter.stepDedup Reporter.initDedup tr
        s!"{String.join (r.2.map markStr)}- {pcStr r.1.pc}"
      else "bad-op"
    | none => "bad-op"
  | "idx" :: "-" :: toks =>
    match toks.mapM (·.toNat?) with
    | some vs => if vs.isEmpty then "bad-op" else " ".intercalate (vs.map idxStr)
    | none => "bad-op"
  | "trace" :: ez :: toks =>
    match parseBool ez, toks.mapM parseEv with
    | some ez, some evs =>
      let r := run (State.init ez) evs
      let obs := if r.2.isEmpty then "-" else ";".intercalate (r.2.map obsStr)
      let res := if r.1.regC.isEmpty then "-" else ";".intercalate (r.1.regC.map fun k => s!"{keyStr k}={r.1.ctrOf k}")
      s!"{obs} @ {res}"
    | _, _ => "bad-op"
  | _ => "bad-op"

end Driver.MetricsRs
