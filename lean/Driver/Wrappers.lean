import Model.Wrappers
/-!
Line protocol of engine `wrappers` (C15).  Segments are separated by ` ; `, tokens by single spaces.
All strings are opaque tokens (hex text produced by the harness); the model only compares them.

  request `ent <item>… ; <wrapper> <param>… ; …`   (wrappers innermost first)
  request `val <val> ; <vwrapper> <param>… ; …`
  request `seq <o|v|i,…|-> ; <adapter> <param>… ; … ;; [B] <item>… ;; [B] <item>… …`
          (ONE long-lived stack of stream adapters — outermost first, i.e. innermost wrapper first — receives
          the entries in order; the script is what the recording stream below answers: Ok / Validation / Io;
          `B` = the entry is a `BoxEntry`)
  reply   `<call>… | <k~v>…`  (`_` for an empty list)   resp.  `<val>`
          resp. per entry `<call>… | <k~v>… # <o|v|i>` joined by ` ;; `

  item    `T<int>` | `C<tok>` | `V<name>=<val>[@<vwrapper>[+<param>…]]…` | `G<k>~<v>`
  val     `N` | `S<tok>` | `E<tok>` | `M<unit>:<-|h|x>:<k~v,…|.>:<obs;…|.>`
  obs     `u<dec>` | `f<16 hex>` | `r<16 hex>x<dec>`
  wrapper `B` | `Mo <item>…` | `Mg <item>…` | `mr <item>…` | `mg <item>…` | `D<n> <k~v>…` |
          `W<n> <k~v>… / <name>…` | `Fh` | `Fx` | `Fn` (ForceFlag whose constructor yields empty flags) | `r` | `X` | `A` | `Co` | `Cb` | `O` | `On` | `R` |
          `Sg|Pg <item>…` | `Sd|Pd <k~v>… / <name>…` | `Sfh` | `Sfx` | `Sfn`
  vwrapper `r` | `x` | `a` | `co` | `cb` | `o` | `on` | `d<n> <k~v>…` | `fh` | `fx` | `fn` | `t0` | `t1`
-/
namespace Driver.Wrappers
open _root_.Wrappers

def tok (s : String) : Str := s.toList.map Char.toNat
def untok (t : Str) : String := String.ofList (t.map Char.ofNat)

def hexVal (c : Char) : Option Nat :=
  if '0' ≤ c ∧ c ≤ '9' then some (c.toNat - '0'.toNat)
  else if 'a' ≤ c ∧ c ≤ 'f' then some (c.toNat - 'a'.toNat + 10)
  else none

def parseHex (s : String) : Option Nat :=
  if s.isEmpty then none
  else s.toList.foldl (fun acc c => do let a ← acc; let d ← hexVal c; pure (a * 16 + d)) (some 0)

def hexDigit (n : Nat) : Char := if n < 10 then Char.ofNat (n + 48) else Char.ofNat (n - 10 + 97)

def hex16 (n : Nat) : String :=
  String.ofList ((List.range 16).reverse.map fun i => hexDigit ((n >>> (4 * i)) % 16))

def parseObs (s : String) : Option Obs :=
  match s.toList with
  | 'u' :: rest => (String.ofList rest).toNat?.map Obs.u
  | 'f' :: rest => (parseHex (String.ofList rest)).map Obs.f
  | 'r' :: rest =>
    match (String.ofList rest).splitOn "x" with
    | [b, n] => do let b ← parseHex b; let n ← n.toNat?; pure (Obs.r b n)
    | _ => none
  | _ => none

def showObs : Obs → String
  | .u n => s!"u{n}"
  | .f b => s!"f{hex16 b}"
  | .r b n => s!"r{hex16 b}x{n}"

def parsePair (s : String) : Option (Str × Str) :=
  match s.splitOn "~" with
  | [k, v] => if k.isEmpty ∨ v.isEmpty then none else some (tok k, tok v)
  | _ => none

def showPair (p : Str × Str) : String := s!"{untok p.1}~{untok p.2}"

def parseFlags (s : String) : Option Flags :=
  if s == "-" then some none
  else if s == "h" then some (some .high)
  else if s == "x" then some (some .noMetric)
  else none

def showFlags : Flags → String
  | none => "-"
  | some .high => "h"
  | some .noMetric => "x"

def parseVal (s : String) : Option (Option VCall) :=
  match s.toList with
  | ['N'] => some none
  | 'S' :: rest => if rest.isEmpty then none else some (some (.string (rest.map Char.toNat)))
  | 'E' :: rest => if rest.isEmpty then none else some (some (.error (rest.map Char.toNat)))
  | 'M' :: rest =>
    match (String.ofList rest).splitOn ":" with
    | [u, f, d, o] => do
      if u.isEmpty then none
      let f ← parseFlags f
      let d ← if d == "." then some [] else (d.splitOn ",").mapM parsePair
      let o ← if o == "." then some [] else (o.splitOn ";").mapM parseObs
      pure (some (.metric ⟨o, tok u, d, f⟩))
    | _ => none
  | _ => none

def showVal : Option VCall → String
  | none => "N"
  | some (.string s) => s!"S{untok s}"
  | some (.error e) => s!"E{untok e}"
  | some (.metric m) =>
    let d := if m.dims.isEmpty then "." else ",".intercalate (m.dims.map showPair)
    let o := if m.obs.isEmpty then "." else ";".intercalate (m.obs.map showObs)
    s!"M{untok m.unit}:{showFlags m.flags}:{d}:{o}"

def parseVWrapper (ts : List String) : Option VWrapper :=
  match ts with
  | ["r"] => some .ref
  | ["x"] => some .box
  | ["a"] => some .arc
  | ["co"] => some .cow
  | ["cb"] => some .cow
  | ["o"] => some .optSome
  | ["on"] => some .optNone
  | ["fn"] => some (.forceFlag none)
  | ["fh"] => some (.forceFlag (some .high))
  | ["fx"] => some (.forceFlag (some .noMetric))
  | ["t0"] => some (.formatted .id)
  | ["t1"] => some (.formatted .count)
  | k :: r =>
    match k.toList with
    | ['d', n] => if n.isDigit then (r.mapM parsePair).map .withDims else none
    | _ => none
  | [] => none

/-- items and sample-group elements of a plain entry -/
def parseItems (ts : List String) : Option (List Item × Dims) :=
  ts.foldl (fun acc t => do
    let (items, sg) ← acc
    match t.toList with
    | 'T' :: rest => do let n ← (String.ofList rest).toInt?; pure (items ++ [Item.timestamp n], sg)
    | 'C' :: rest => if rest.isEmpty then none else pure (items ++ [Item.config (rest.map Char.toNat)], sg)
    | 'V' :: rest =>
      -- `V<name>=<val>` optionally followed by `@<vwrapper>` (parameters joined by `+`), innermost first
      match (String.ofList rest).splitOn "@" with
      | nv :: vws =>
        match nv.splitOn "=" with
        | [n, v] => do
          if n.isEmpty then none
          let c ← parseVal v
          let ws ← vws.mapM fun w => parseVWrapper (w.splitOn "+")
          pure (items ++ [Item.value (tok n) (applyAllV ws (Val.leaf c))], sg)
        | _ => none
      | [] => none
    | 'G' :: rest => do let p ← parsePair (String.ofList rest); pure (items, sg ++ [p])
    | _ => none) (some ([], []))

/-- `_` stands for "no items" -/
def parseEnt (ts : List String) : Option Ent :=
  (parseItems (ts.filter (· ≠ "_"))).map fun (i, g) => Ent.base i g

/-- `<k~v>… / <name>…` -/
def parseDimsDeny (ts : List String) : Option (Dims × List Str) :=
  let dims := ts.takeWhile (· ≠ "/")
  let rest := ts.dropWhile (· ≠ "/")
  match rest with
  | "/" :: deny => do let d ← dims.mapM parsePair; pure (d, deny.map tok)
  | _ => none

def parseWrapper (ts : List String) : Option Wrapper :=
  match ts with
  | ["B"] => some .boxed
  | "Mo" :: r => (parseEnt r).map .mergeAfter
  | "Mg" :: r => (parseEnt r).map .mergeBefore
  | "mr" :: r => (parseEnt r).map .mergeRefAfter
  | "mg" :: r => (parseEnt r).map .mergeRefBefore
  | ["Fn"] => some (.forceFlag none)
  | ["Fh"] => some (.forceFlag (some .high))
  | ["Fx"] => some (.forceFlag (some .noMetric))
  | ["r"] => some .ref
  | ["X"] => some .box
  | ["A"] => some .arc
  | ["Co"] => some .cow
  | ["Cb"] => some .cow
  | ["O"] => some .optSome
  | ["On"] => some .optNone
  | ["R"] => some .root
  | "Sg" :: r => (parseEnt r).map .streamMergeGlobals
  | "Pg" :: r => (parseEnt r).map .streamMergeGlobals
  | "Sd" :: r => (parseDimsDeny r).map fun (d, deny) => .streamGlobalDims d deny
  | "Pd" :: r => (parseDimsDeny r).map fun (d, deny) => .streamGlobalDims d deny
  | ["Sfn"] => some (.streamForceFlag none)
  | ["Sfh"] => some (.streamForceFlag (some .high))
  | ["Sfx"] => some (.streamForceFlag (some .noMetric))
  | k :: r =>
    match k.toList with
    | ['D', n] => if n.isDigit then (r.mapM parsePair).map .withDims else none
    | ['W', n] => if n.isDigit then (parseDimsDeny r).map fun (d, deny) => .globalDims d deny else none
    | _ => none
  | [] => none

def showCall : Call → String
  | .ts t => s!"T{t}"
  | .cfg c => s!"C{untok c}"
  | .val n c => s!"V{untok n}={showVal c}"

def showList (xs : List String) : String := if xs.isEmpty then "_" else " ".intercalate xs

/-- split a token list at the `;` tokens -/
def segments (ts : List String) : List (List String) :=
  let (cur, done) := ts.foldl (fun (acc : List String × List (List String)) t =>
    if t == ";" then ([], acc.2 ++ [acc.1]) else (acc.1 ++ [t], acc.2)) ([], [])
  done ++ [cur]

/-- split a token list at the given separator token -/
def splitAt (sep : String) (ts : List String) : List (List String) :=
  let (cur, done) := ts.foldl (fun (acc : List String × List (List String)) t =>
    if t == sep then ([], acc.2 ++ [acc.1]) else (acc.1 ++ [t], acc.2)) ([], [])
  done ++ [cur]

def parseAdapter (ts : List String) : Option Adapter :=
  match parseWrapper ts with
  | some (.streamMergeGlobals g) => some (.mergeGlobals g)
  | some (.streamGlobalDims d deny) => some (.globalDims d deny)
  | some (.streamForceFlag f) => some (.forceFlag f)
  | _ => none

def parseScript (s : String) : Option (List IoRes) :=
  if s == "-" then some []
  else (s.splitOn ",").mapM fun t =>
    if t == "o" then some IoRes.ok else if t == "v" then some .validation else if t == "i" then some .io else none

def showRes : IoRes → String
  | .ok => "o" | .validation => "v" | .io => "i"

def parseSeqEntry (ts : List String) : Option Ent :=
  match ts with
  | "B" :: rest => (parseEnt rest).map Ent.boxed
  | _ => parseEnt ts

def handleSeq (rest : List String) : String :=
  match splitAt ";;" rest with
  | head :: entries =>
    match splitAt ";" head with
    | [script] :: ads =>
      match parseScript script, ads.mapM parseAdapter, entries.mapM parseSeqEntry with
      | some script, some ads, some es =>
        let (_, r, res) := runSeq ads ⟨[], script⟩ es
        if r.seen.length != res.length then "model-error"
        else " ;; ".intercalate ((r.seen.zip res).map fun ((l, g), x) =>
          s!"{showList (l.map showCall)} | {showList (g.map showPair)} # {showRes x}")
      | _, _, _ => "bad-op"
    | _ => "bad-op"
  | [] => "bad-op"

def handle (line : String) : String :=
  match (line.trimAscii.toString.splitOn " ").filter (· ≠ "") with
  | "ent" :: rest =>
    match segments rest with
    | base :: ws =>
      match parseEnt base, ws.mapM parseWrapper with
      | some e, some ws =>
        let e' := applyAll ws e
        s!"{showList (e'.log.map showCall)} | {showList (e'.sampleGroup.map showPair)}"
      | _, _ => "bad-op"
    | [] => "bad-op"
  | "seq" :: rest => handleSeq rest
  | "val" :: rest =>
    match segments rest with
    | [v] :: ws =>
      match parseVal v, ws.mapM parseVWrapper with
      | some c, some ws => showVal (applyAllV ws (Val.leaf c)).sem
      | _, _ => "bad-op"
    | _ => "bad-op"
  | _ => "bad-op"

end Driver.Wrappers
