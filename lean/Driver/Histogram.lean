import Model.Histogram
import Generated.Histogram
/-!
Line protocol of engine `histogram` (floats are 16-hex-digit bit patterns):

* `config`                                   → `<gp> <mvp> <scaleShift> <gp'> <mvp'>` (the generated constants)
* `bounds <gp> <mvp> <i>`                    → `<total buckets> <lower> <upper> <mid> <idx(lower-1)> <idx(lower)> <idx(upper)> <idx(upper+1)>`
                                                (`none` = out of range, `-` = the probe is not a u64)
* `hist <exp|atomic|sam> <ratio bits|-> <src>*` → `<obs list> | <obs list after re-aggregation>`
      src = `u<n>` | `f<bits>` | `d<secs>.<nanos>` | `r<total bits>.<occurrences>`
          | `m<o>+<o>+…` (one value writing several observations o = u…|f…|r… in ONE metric() call; `m` = none)
      obs list = `<total bits>:<occurrences>,…` or `-`
* `trace <f<bits>*<count>,…|-> | <obs list> / <obs list> / …` → `accept <recorded occurrences>` | `reject`
-/
namespace Driver.Histogram
open _root_.Histogram _root_.Histogram.Exec

def params : Params :=
  ⟨⟨Generated.Histogram.aggGroupingPower, Generated.Histogram.aggMaxValuePower⟩, Generated.Histogram.scaleShift⟩

def hexDigit (c : Char) : Option Nat :=
  if '0' ≤ c ∧ c ≤ '9' then some (c.toNat - '0'.toNat)
  else if 'a' ≤ c ∧ c ≤ 'f' then some (c.toNat - 'a'.toNat + 10)
  else none

def parseHex64 (s : String) : Option Nat :=
  if s.length ≠ 16 then none
  else s.toList.foldl (fun acc c => match acc, hexDigit c with
    | some a, some d => some (a * 16 + d)
    | _, _ => none) (some 0)

def hexChar (d : Nat) : Char := if d < 10 then Char.ofNat ('0'.toNat + d) else Char.ofNat ('a'.toNat + d - 10)

def toHex64 (n : Nat) : String :=
  String.ofList ((List.range 16).reverse.map fun k => hexChar (n / 16 ^ k % 16))

def parseU64 (s : String) : Option Nat :=
  match s.toNat? with
  | some n => if n < 2 ^ 64 then some n else none
  | none => none

def parseObs (s : String) : Option Obs :=
  let body := (s.drop 1).toString
  if s.startsWith "u" then (parseU64 body).map .unsigned
  else if s.startsWith "f" then (parseHex64 body).map .floating
  else if s.startsWith "r" then
    match body.splitOn "." with
    | [a, b] => match parseHex64 a, parseU64 b with
      | some x, some y => some (.repeated x y)
      | _, _ => none
    | _ => none
  else none

def parseSrc (s : String) : Option Src :=
  let body := (s.drop 1).toString
  if s.startsWith "m" then
    (if body.isEmpty then some (.multi []) else ((body.splitOn "+").mapM parseObs).map .multi)
  else
  if s.startsWith "u" then (parseU64 body).map .unsigned
  else if s.startsWith "f" then (parseHex64 body).map .floating
  else if s.startsWith "d" then
    match body.splitOn "." with
    | [a, b] => match parseU64 a, parseU64 b with
      | some x, some y => if y < 1000000000 then some (.duration x y) else none
      | _, _ => none
    | _ => none
  else if s.startsWith "r" then
    match body.splitOn "." with
    | [a, b] => match parseHex64 a, parseU64 b with
      | some x, some y => some (.repeated x y)
      | _, _ => none
    | _ => none
  else none

def parseObsList (s : String) : Option (List (Nat × Nat)) :=
  if s == "-" then some []
  else (s.splitOn ",").mapM fun o =>
    match o.splitOn ":" with
    | [a, b] => match parseHex64 a, parseU64 b with
      | some x, some y => some (x, y)
      | _, _ => none
    | _ => none

def showObsList (l : List (Nat × Nat)) : String :=
  if l.isEmpty then "-" else ",".intercalate (l.map fun o => s!"{toHex64 o.1}:{o.2}")

def parseStrategy (s : String) : Option Strategy :=
  if s == "exp" then some .exp else if s == "atomic" then some .atomic else if s == "sam" then some .sam else none

def showIdx : Option Nat → String
  | some i => toString i
  | none => "none"

def handleBounds (gp mvp i : Nat) : String :=
  let c : Config := ⟨gp, mvp⟩
  if !c.valid || i ≥ c.totalBuckets then "bad-op" else
  let lo := c.lowerBound i
  let hi := c.upperBound i
  let below := if lo = 0 then "-" else showIdx (c.valueToIndex (lo - 1))
  let above := if hi + 1 < 2 ^ 64 then showIdx (c.valueToIndex (hi + 1)) else "-"
  s!"{c.totalBuckets} {lo} {hi} {c.midpoint i} {below} {showIdx (c.valueToIndex lo)} {showIdx (c.valueToIndex hi)} {above}"

def handleHist (strategy ratio : String) (srcs : List String) : String :=
  let ratio? : Option (Option Nat) := if ratio == "-" then some none else (parseHex64 ratio).map some
  match parseStrategy strategy, ratio?, srcs.mapM parseSrc with
  | some s, some r, some vs =>
    let recs := captured r vs
    let closed := closeAfter params s recs
    s!"{showObsList closed} | {showObsList (reaggregate params s closed)}"
  | _, _, _ => "bad-op"

def parseRec (s : String) : Option (Nat × Nat) :=
  match s.splitOn "*" with
  | [a, b] =>
    if a.startsWith "f" then
      match parseHex64 (a.drop 1).toString, parseU64 b with
      | some x, some y => some (x, y)
      | _, _ => none
    else none
  | _ => none

def handleTrace (recsS : String) (rest : List String) : String :=
  let recs? : Option (List (Nat × Nat)) := if recsS == "-" then some [] else (recsS.splitOn ",").mapM parseRec
  -- rest = "|" :: obslist :: "/" :: obslist …
  match rest with
  | "|" :: more =>
    let lists := more.filter (· ≠ "/")
    match recs?, lists.mapM parseObsList with
    | some recs, some drains =>
      if acceptTrace params recs drains then s!"accept {(recs.map (·.2)).sum}" else "reject"
    | _, _ => "bad-op"
  | _ => "bad-op"

def handle (line : String) : String :=
  match (line.trimAscii.toString.splitOn " ").filter (· ≠ "") with
  | ["config"] =>
    s!"{Generated.Histogram.aggGroupingPower} {Generated.Histogram.aggMaxValuePower} {Generated.Histogram.scaleShift} {Generated.Histogram.metricsrsGroupingPower} {Generated.Histogram.metricsrsMaxValuePower}"
  | ["bounds", gp, mvp, i] =>
    match gp.toNat?, mvp.toNat?, i.toNat? with
    | some g, some m, some i => handleBounds g m i
    | _, _, _ => "bad-op"
  | "hist" :: strategy :: ratio :: srcs => handleHist strategy ratio srcs
  | "trace" :: recs :: rest => handleTrace recs rest
  | _ => "bad-op"

end Driver.Histogram
