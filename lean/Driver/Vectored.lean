import Model.Vectored
/-!
Line protocol of engine `vectored`:
  request:  `<len>,<len>,... <resp> <resp> ...`   resp ∈ `o<n>` | `i` | `e`;  `-` for an empty buffer list
  reply:    `<outcome> <number of accepted bytes> <calls> <slice lengths offered at each call a,b/c,d/… or ->`
  request:  `E <line;line;…> <resp>…` (entry level, `Vectored.writeLines`); `S <entry> <entry> … | <resp>…` (stream level,
            `Vectored.writeEntries`); reply per entry `<outcome> <accepted> <calls> <lines done> <offered>`, joined by ` ; `
(that the accepted bytes are exactly the first `n` bytes of the concatenation is theorem `c16_prefix`;
the harness checks the same of the implementation against the unfaulted output).
-/
namespace Driver.Vectored
open _root_.Vectored

def mkBufs (lens : List Nat) : List Bytes :=
  (lens.foldl (fun (acc : List Bytes × Nat) l => (acc.1 ++ [List.range' acc.2 l], acc.2 + l)) ([], 0)).1

def parseResp (s : String) : Option Resp :=
  if s == "i" then some .interrupted
  else if s == "e" then some .err
  else if s.startsWith "o" then (s.drop 1).toNat?.map .ok
  else none

def outcomeStr : Outcome → String
  | .ok => "ok" | .writeZero => "writezero" | .ioErr => "ioerr" | .panic => "panic" | .exhausted => "exhausted"

def parseLens (s : String) : Option (List Nat) :=
  if s == "-" then some [] else (s.splitOn ",").mapM (·.toNat?)

/-- an entry: lines separated by `;`, each line a `,`-separated list of slice lengths; `~` = no line -/
def parseEntry (s : String) : Option Entry :=
  if s == "~" then some [] else ((s.splitOn ";").mapM parseLens).map (·.map mkBufs)

def offeredStr (off : List (List Bytes)) : String :=
  let t := "/".intercalate (off.map fun sl => ",".intercalate (sl.map fun b => toString b.length))
  if t.isEmpty then "-" else t

def entryStr (r : EntryResult) : String :=
  s!"{outcomeStr r.outcome} {r.accepted.length} {r.calls} {r.linesDone} {offeredStr r.offered}"

/-- `E <entry> <resp>…` → one entry through `writeLines`;
`S <entry> <entry> … | <resp>…` → a stream through `writeEntries`, replies joined by ` ; ` -/
def handleSeq (toks : List String) : Option String :=
  match toks with
  | "E" :: e :: resps => do
    let e ← parseEntry e
    let script ← (resps.filter (· ≠ "")).mapM parseResp
    pure (entryStr (writeLines e script))
  | "S" :: rest => do
    let es ← (rest.takeWhile (· ≠ "|")).mapM parseEntry
    let script ← (((rest.dropWhile (· ≠ "|")).drop 1).filter (· ≠ "")).mapM parseResp
    pure (" ; ".intercalate ((writeEntries es script).map entryStr))
  | _ => none

def handle (line : String) : String :=
  match line.trimAscii.toString.splitOn " " with
  | [] => "bad-op"
  | "E" :: rest => (handleSeq ("E" :: rest)).getD "bad-op"
  | "S" :: rest => (handleSeq ("S" :: rest)).getD "bad-op"
  | lensS :: respsS =>
    match parseLens lensS, (respsS.filter (· ≠ "")).mapM parseResp with
    | some lens, some script =>
      let r := writeAllVectored (mkBufs lens) script
      s!"{outcomeStr r.outcome} {r.accepted.length} {r.calls} {offeredStr r.offered}"
    | _, _ => "bad-op"

end Driver.Vectored
