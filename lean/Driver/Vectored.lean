import Model.Vectored
/-!
Line protocol of engine `vectored`:
  request:  `<len>,<len>,... <resp> <resp> ...`   resp ∈ `o<n>` | `i` | `e`;  `-` for an empty buffer list
  reply:    `<outcome> <number of accepted bytes> <calls> <slice lengths offered at each call a,b/c,d/… or ->`
(that the accepted bytes are exactly the first `n` bytes of the concatenation is theorem `c16_prefix`;
the harness checks the same of the implementation against the unfaulted output).
-/
namespace Driver.Vectored
open _root_.Vectored

def mkBufs (lens : List Nat) : List Bytes :=
  (lens.foldl (fun (acc : List Bytes × Nat) l => (acc.1 ++ [List.range' acc.2 l], acc.2 + l)) ([], 0)).1

def parseResp (s : String) : Option Resp :=
  if s == "i" then some .interrupted
  else if s == "e" then some .err
  else if s.startsWith "o" then (s.drop 1).toNat?.map .ok
  else none

def outcomeStr : Outcome → String
  | .ok => "ok" | .writeZero => "writezero" | .ioErr => "ioerr" | .panic => "panic" | .exhausted => "exhausted"

def handle (line : String) : String :=
  match line.trimAscii.toString.splitOn " " with
  | [] => "bad-op"
  | lensS :: respsS =>
    let lens? : Option (List Nat) :=
      if lensS == "-" then some [] else (lensS.splitOn ",").mapM (·.toNat?)
    match lens?, (respsS.filter (· ≠ "")).mapM parseResp with
    | some lens, some script =>
      let r := writeAllVectored (mkBufs lens) script
      let offered := "/".intercalate (r.offered.map fun sl => ",".intercalate (sl.map fun b => toString b.length))
      s!"{outcomeStr r.outcome} {r.accepted.length} {r.calls} {if offered.isEmpty then "-" else offered}"
    | _, _ => "bad-op"

end Driver.Vectored
