import Model.Queue
/-!
Executable specification predicates for traces of the background queue (T-trace): the same `def`s
are (i) proved to hold of every reachable state of the model (Props/C01, C09, C04: `…_spec_accepts`)
and (ii) evaluated by the driver on histories recorded from real multi-threaded runs.
-/
namespace Queue.Spec

/-- C01: what the stream received from one producer is a prefix of what that producer appended
(all of it when the run is final: everything drained, nothing overflowed). -/
def producerPrefix (own seen : List Ent) (final : Bool) : Bool :=
  if final then seen == own else seen.isPrefixOf own

/-- C09: with overflow, what the stream received from one producer is a subsequence of what that
producer appended (order kept, nothing duplicated). -/
def producerSublist (own seen : List Ent) : Bool := seen.isSublist own

def ofProducer (p : Nat) (l : List Ent) : List Ent := l.filter fun e => e.1 == p

/-- whole-trace acceptance for C01 / C09: `pushes` is any order of the appended entries that keeps
each producer's own order (the harness passes the producers' sequences one after the other) -/
def acceptOrder (producers : Nat) (pushes delivered : List Ent) (overflowed final : Bool) : Bool :=
  (List.range producers).all (fun p =>
    if overflowed then producerSublist (ofProducer p pushes) (ofProducer p delivered)
    else producerPrefix (ofProducer p pushes) (ofProducer p delivered) final) &&
  delivered.all (fun e => decide (e.1 < producers))

/-- scanning the stream calls backwards from the completion: a `flush` is met before any `next`
of an entry appended before the request -/
def flushedAfter (before : List Ent) : List Obs → Bool
  | [] => false
  | .flush :: _ => true
  | .next e _ :: rest => if before.contains e then false else flushedAfter before rest
  | _ :: rest => flushedAfter before rest

/-- C04: the barrier at the completion of a flush request: every entry appended before the request
is among the stream's `next` calls made so far (or was lost to overflow), and the stream was flushed
after the last of them. `calls` = stream calls up to the completion. -/
def barrierAt (before lost : List Ent) (calls : List Obs) : Bool :=
  before.all (fun e => (delivered calls).contains e || lost.contains e) && flushedAfter before calls.reverse

end Queue.Spec
