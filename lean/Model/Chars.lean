/-!
`chars! "abc"` expands (at elaboration time) to the literal `['a', 'b', 'c'] : List Char`.
Text that theorems talk about is modelled as `List Char` (string literals do not reduce in the
kernel); this keeps such tables readable.
-/
open Lean in
macro "chars!" s:str : term => do
  let cs := s.getString.toList.toArray.map (fun c => (Syntax.mkCharLit c : TSyntax `term))
  `(([ $cs,* ] : List Char))
