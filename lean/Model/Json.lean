/-
Byte-level JSON: a strict recogniser (RFC 8259 grammar) written as a one-pass stack automaton over
bytes, serde_json-style string escaping, and decimal integer formatting (`itoa`).

Bytes are `Nat`s (UTF-8 code units; only values below 256 occur, nothing depends on that bound).
The recogniser does not check that string contents are well-formed UTF-8: the formatter copies the
bytes of Rust `&str`s (valid UTF-8 by construction) and the escaping leaves every byte >= 0x80
untouched; the Rust-side oracle checks `from_utf8` on the real output.

`run ws` is the automaton; with `ws = true` the four JSON whitespace bytes are accepted between
tokens (the full JSON grammar), with `ws = false` they are not ("compact" JSON: what the EMF
formatter emits). Every compact text is a JSON text (`run_mono`), and a compact text contains no raw
newline (`run_compact_no_nl` in Props/JsonLemmas.lean).
-/
namespace Json

/-- `bytes! "lit"` = the UTF-8 bytes of the literal as an explicit `List Nat` (a list literal of
numerals, so that it reduces in the kernel and under `simp`/`decide`). -/
syntax "bytes! " str : term
open Lean in
macro_rules
  | `(bytes! $s:str) => do
    let bs := s.getString.toUTF8.toList.map (·.toNat)
    let elems : Array (TSyntax `term) := (bs.map fun b => Syntax.mkNumLit (toString b)).toArray
    `(([$elems,*] : List Nat))

/-! ## Number grammar: `-?(0|[1-9][0-9]*)(\.[0-9]+)?([eE][+-]?[0-9]+)?` -/

inductive NumSt where
  | minus | zero | int | dot | frac | e | esign | exp
  deriving Repr, DecidableEq

def isDigit (c : Nat) : Bool := 48 ≤ c && c ≤ 57

def NumSt.final : NumSt → Bool
  | .zero | .int | .frac | .exp => true
  | _ => false

def numStart (c : Nat) : Option NumSt :=
  if c = 45 then some .minus
  else if c = 48 then some .zero
  else if isDigit c then some .int
  else none

def numStep (s : NumSt) (c : Nat) : Option NumSt :=
  match s with
  | .minus => if c = 48 then some .zero else if isDigit c then some .int else none
  | .zero => if c = 46 then some .dot else if c = 101 || c = 69 then some .e else none
  | .int => if isDigit c then some .int else if c = 46 then some .dot
            else if c = 101 || c = 69 then some .e else none
  | .dot => if isDigit c then some .frac else none
  | .frac => if isDigit c then some .frac else if c = 101 || c = 69 then some .e else none
  | .e => if c = 43 || c = 45 then some .esign else if isDigit c then some .exp else none
  | .esign => if isDigit c then some .exp else none
  | .exp => if isDigit c then some .exp else none

def numRun : NumSt → List Nat → Option NumSt
  | s, [] => some s
  | s, c :: cs => match numStep s c with
    | none => none
    | some s' => numRun s' cs

/-- `t` is a JSON number literal. -/
def isNumber (t : List Nat) : Bool :=
  match t with
  | [] => false
  | c :: cs => match numStart c with
    | none => false
    | some s => match numRun s cs with
      | none => false
      | some s' => s'.final

/-! ## The recogniser -/

/-- progress inside `true` / `false` / `null` (the state after the named prefix) -/
inductive LitSt where
  | t | tr | tru | f | fa | fal | fals | n | nu | nul
  deriving Repr, DecidableEq

/-- `some none`: the literal is complete -/
def litStep (s : LitSt) (c : Nat) : Option (Option LitSt) :=
  match s with
  | .t => if c = 114 then some (some .tr) else none
  | .tr => if c = 117 then some (some .tru) else none
  | .tru => if c = 101 then some none else none
  | .f => if c = 97 then some (some .fa) else none
  | .fa => if c = 108 then some (some .fal) else none
  | .fal => if c = 115 then some (some .fals) else none
  | .fals => if c = 101 then some none else none
  | .n => if c = 117 then some (some .nu) else none
  | .nu => if c = 108 then some (some .nul) else none
  | .nul => if c = 108 then some none else none

inductive Ctx where
  | arr | obj
  deriving Repr, DecidableEq

inductive Mode where
  | val          -- a value must start here
  | valOrClose   -- directly after `[`: a value or `]`
  | keyOrClose   -- directly after `{`: a key or `}`
  | key          -- after `,` inside an object: a key
  | colon        -- after a key
  | after        -- after a complete value
  | str (isKey : Bool)
  | esc (isKey : Bool)
  | hex (isKey : Bool) (left : Nat)   -- inside `\u`, `left + 1` hex digits still to come
  | num (s : NumSt)
  | lit (s : LitSt)                   -- inside `true` / `false` / `null`
  deriving Repr, DecidableEq

structure St where
  stack : List Ctx
  mode : Mode
  deriving Repr, DecidableEq

def isWs (c : Nat) : Bool := c = 32 || c = 9 || c = 10 || c = 13

def isHex (c : Nat) : Bool := isDigit c || (97 ≤ c && c ≤ 102) || (65 ≤ c && c ≤ 70)

/-- a value starts with byte `c` -/
def startValue (stack : List Ctx) (c : Nat) : Option St :=
  if c = 34 then some ⟨stack, .str false⟩
  else if c = 91 then some ⟨.arr :: stack, .valOrClose⟩
  else if c = 123 then some ⟨.obj :: stack, .keyOrClose⟩
  else if c = 116 then some ⟨stack, .lit .t⟩
  else if c = 102 then some ⟨stack, .lit .f⟩
  else if c = 110 then some ⟨stack, .lit .n⟩
  else match numStart c with
    | some s => some ⟨stack, .num s⟩
    | none => none

/-- byte `c` directly after a complete value -/
def afterValue (stack : List Ctx) (c : Nat) : Option St :=
  match stack with
  | [] => none
  | .arr :: rest =>
    if c = 44 then some ⟨.arr :: rest, .val⟩ else if c = 93 then some ⟨rest, .after⟩ else none
  | .obj :: rest =>
    if c = 44 then some ⟨.obj :: rest, .key⟩ else if c = 125 then some ⟨rest, .after⟩ else none

def afterStr (stack : List Ctx) (isKey : Bool) : St :=
  if isKey then ⟨stack, .colon⟩ else ⟨stack, .after⟩

def step (ws : Bool) (st : St) (c : Nat) : Option St :=
  match st.mode with
  | .val => if ws && isWs c then some st else startValue st.stack c
  | .valOrClose =>
    if ws && isWs c then some st
    else if c = 93 then (match st.stack with | .arr :: rest => some ⟨rest, .after⟩ | _ => none)
    else startValue st.stack c
  | .keyOrClose =>
    if ws && isWs c then some st
    else if c = 125 then (match st.stack with | .obj :: rest => some ⟨rest, .after⟩ | _ => none)
    else if c = 34 then some ⟨st.stack, .str true⟩ else none
  | .key => if ws && isWs c then some st else if c = 34 then some ⟨st.stack, .str true⟩ else none
  | .colon => if ws && isWs c then some st else if c = 58 then some ⟨st.stack, .val⟩ else none
  | .after => if ws && isWs c then some st else afterValue st.stack c
  | .str k =>
    if c = 34 then some (afterStr st.stack k)
    else if c = 92 then some ⟨st.stack, .esc k⟩
    else if c < 32 then none
    else some st
  | .esc k =>
    if c = 34 || c = 92 || c = 47 || c = 98 || c = 102 || c = 110 || c = 114 || c = 116 then
      some ⟨st.stack, .str k⟩
    else if c = 117 then some ⟨st.stack, .hex k 3⟩
    else none
  | .hex k n =>
    if isHex c then (match n with | 0 => some ⟨st.stack, .str k⟩ | n + 1 => some ⟨st.stack, .hex k n⟩)
    else none
  | .num s =>
    match numStep s c with
    | some s' => some ⟨st.stack, .num s'⟩
    | none =>
      if s.final then
        (if ws && isWs c then some ⟨st.stack, .after⟩ else afterValue st.stack c)
      else none
  | .lit s =>
    match litStep s c with
    | none => none
    | some none => some ⟨st.stack, .after⟩
    | some (some s') => some ⟨st.stack, .lit s'⟩

def run (ws : Bool) : St → List Nat → Option St
  | st, [] => some st
  | st, c :: cs => match step ws st c with
    | none => none
    | some st' => run ws st' cs

/-- the automaton has consumed exactly one complete value (and is not inside anything) -/
def St.done (st : St) : Bool :=
  st.stack.isEmpty && (match st.mode with
    | .after => true
    | .num s => s.final
    | _ => false)

def start : St := ⟨[], .val⟩

/-- strict JSON text (RFC 8259): one value, optional whitespace around tokens -/
def accepts (bs : List Nat) : Bool :=
  match run true start bs with
  | some st => st.done
  | none => false

/-- compact JSON text: one value, no whitespace between tokens -/
def acceptsCompact (bs : List Nat) : Bool :=
  match run false start bs with
  | some st => st.done
  | none => false

/-! ## serde_json string escaping (`format_escaped_str`) -/

def hexDigit (n : Nat) : Nat := if n < 10 then 48 + n else 87 + n

/-- escape of one byte: `\" \\ \b \f \n \r \t`, `\u00XX` for the other bytes below 0x20,
everything else (0x7f and all bytes >= 0x80 included) verbatim -/
def escByte (c : Nat) : List Nat :=
  if c = 34 then [92, 34]
  else if c = 92 then [92, 92]
  else if c = 8 then [92, 98]
  else if c = 12 then [92, 102]
  else if c = 10 then [92, 110]
  else if c = 13 then [92, 114]
  else if c = 9 then [92, 116]
  else if c < 32 then [92, 117, 48, 48, hexDigit (c / 16), hexDigit (c % 16)]
  else [c]

def escape (s : List Nat) : List Nat := s.flatMap escByte

/-- `serde_json::to_string(&str)` / `json_string`: the quoted, escaped string -/
def jstr (s : List Nat) : List Nat := 34 :: (escape s ++ [34])

/-! ## `itoa` -/

def digitsAux : Nat → Nat → List Nat → List Nat
  | 0, n, acc => (48 + n % 10) :: acc
  | fuel + 1, n, acc => if n < 10 then (48 + n) :: acc else digitsAux fuel (n / 10) ((48 + n % 10) :: acc)

/-- decimal digits of `n` (what `itoa` prints for an unsigned integer) -/
def natDigits (n : Nat) : List Nat := digitsAux n n []

/-- `serde_json::to_string(&[String])`: `[` strings separated by `,` `]` -/
def sepBy (sep : List Nat) : List (List Nat) → List Nat
  | [] => []
  | [x] => x
  | x :: y :: rest => x ++ sep ++ sepBy sep (y :: rest)

def jarrStrings (xs : List (List Nat)) : List Nat := 91 :: (sepBy [44] (xs.map jstr) ++ [93])

end Json
