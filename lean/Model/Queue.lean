/-
Model of `metrique-writer/src/sink/background.rs` (BackgroundQueue) as a labelled transition system
`step : QState → Ev → Option QState` at the granularity of its shared-memory operations.

* `ring`      – the `ArrayQueue` (oldest first); `force_push` on a full ring displaces the head.
* `token`     – the `Parker` token (`unpark` sets it, `park_deadline` consumes it).
* `sigs`      – the mpsc channel of `FlushSignal`s not yet collected by the writer.
* `waiting`, `ebw` – `WakerTracker::{waiting_wakers, entries_before_wake}`.
* `wpc`       – where the writer thread is inside `Receiver::run` / `drain_until_deadline` / `shut_down`.
* `pushed`    – producers between `force_push` and `unpark`; `sent` – flushers between `send` and `unpark`.
* `shutdown`  – the `AtomicBool` stored by `BackgroundQueueJoinHandle::drop`; `join` – that handle's state.
* `handles`   – number of live `BackgroundQueue` handles (`Arc::get_mut` succeeds iff it is 0).
* `res`       – the scripted result of `stream.next` per entry; `noSubscriber` – no tracing subscriber is
                installed *now* (`report_validation_error` asks `Dispatch::default()` on every report; the
                environment may change it at any time: event `setSubscriber`).
* `log`, `pushOrder`, `marks`, `shutMark`, `shutHit`, `overflow` – history (ghost) variables.

Everything that depends on the wall clock is a bit of the `Clock` carried by the writer event `w c`,
so that theorems quantified over all event lists cover all timings.

Entries are identified by `(producer, global push index)`: the index is assigned by the model at
the `force_push` linearisation point, flush requests are numbered by their `send`.
-/
namespace Queue

abbrev Ent := Nat × Nat

inductive Res where
  | ok | validation | io
  deriving DecidableEq, Repr, Inhabited

inductive Obs where
  | next (e : Ent) (r : Res)      -- `stream.next(entry)` returned `r`
  | report                        -- the in-band error-report entry was written (`report_error`)
  | flush                         -- `stream.flush()`
  | completed (i : Nat) (live : Bool)  -- flush future `i` completed (`live = false`: because the writer exited)
  | displaced (e : Ent)           -- `force_push` returned `Some(e)`
  | closed                        -- the stream was dropped
  | joinReturned                  -- `drop(join_handle)` returned
  deriving DecidableEq, Repr

/-- `DrainResult` -/
inductive Status where
  | drained | hitDeadline
  deriving DecidableEq, Repr

/-- Program counter of the writer thread. -/
inductive WPc where
  | drain (n : Nat)                 -- `drain_until_deadline`, about to `pop`, `count = n`
  | holding (e : Ent) (n : Nat)     -- popped `e`, inside `consume(e)`
  | afterDrain (st : Status) (n : Nat)  -- about to call `handle_waiting_wakers(st, n)`
  | postHww (st : Status)           -- about to test `HitDeadline`, load `shutdown`, ask `will_progress…`
  | parking                         -- inside `park_deadline(next_flush)`
  | checkTime                       -- `if Instant::now() >= next_flush`
  | outerFlush                      -- `self.flush_stream()` after the inner loop
  | checkShutdown                   -- `if shutdown_signal.load()`
  | checkHandles                    -- `if Arc::get_mut(&mut self.inner).is_some()`
  | shutDrain (n : Nat)             -- `shut_down`: `drain_until_deadline(now + shutdown_timeout)`
  | shutHolding (e : Ent) (n : Nat)
  | shutFlush                       -- `shut_down`: `flush_stream(); drop(stream)`; wakers dropped on return
  | exited
  deriving DecidableEq, Repr

/-- Scheduler-chosen bits: everything the writer reads from the clock (or a rate limiter). -/
structure Clock where
  deadlineHit : Bool      -- `Instant::now() >= deadline`, consulted only when `count % 32 = 0`
  parkWake : Bool         -- `park_deadline` returns without a token (timeout or spurious wake-up)
  pastNextFlush : Bool    -- `Instant::now() >= next_flush`
  limiterFires : Bool     -- `rate_limited!` lets the validation-error report through
  deriving DecidableEq, Repr

/-- State of the `BackgroundQueueJoinHandle`. -/
inductive Join where
  | held | forgotten
  | stored      -- `drop`: `shutdown_signal.store(true)` done, `unpark` not yet
  | joining     -- blocked in `handle.join()`
  | joined
  deriving DecidableEq, Repr

inductive Ev where
  | push (p : Nat)          -- `force_push` of producer `p` (+ overflow accounting)
  | unpark (p : Nat)        -- the `unpark` that ends `Inner::push`
  | flushSend               -- `flush_queue_sender.send(FlushSignal)`
  | flushUnpark (i : Nat)   -- the `unpark` that ends `flush_async`
  | clone
  | dropHandle
  | forget
  | dropJoinBegin           -- `shutdown_signal.store(true)`
  | dropJoinUnpark
  | dropJoinEnd             -- `handle.join()` returns
  | setSubscriber (present : Bool)  -- the environment installs / removes a tracing subscriber
  | w (c : Clock)           -- one micro-step of the writer thread
  deriving DecidableEq, Repr

structure QState where
  cap : Nat
  ring : List Ent
  token : Bool
  sigs : List Nat
  wpc : WPc
  waiting : List Nat
  ebw : Nat
  pushed : List Nat
  sent : List Nat
  shutdown : Bool
  handles : Nat
  join : Join
  res : Ent → Res
  noSubscriber : Bool
  log : List Obs
  pushOrder : List Ent
  overflow : Nat
  /-- ghost: `marks[i]` = number of pushes linearised before flush request `i` was sent -/
  marks : List Nat
  /-- ghost: number of pushes linearised before `shutdown_signal.store(true)` -/
  shutMark : Nat
  /-- ghost: the `shutdown_timeout` deadline fired inside `shut_down` -/
  shutHit : Bool

def init (cap : Nat) (res : Ent → Res) (noSubscriber : Bool) : QState :=
  { cap, ring := [], token := false, sigs := [], wpc := .drain 0, waiting := [], ebw := 0,
    pushed := [], sent := [], shutdown := false, handles := 1, join := .held, res, noSubscriber,
    log := [], pushOrder := [], overflow := 0, marks := [], shutMark := 0, shutHit := false }

/-- `ArrayQueue::force_push`: returns the new ring and the displaced entry, if any. -/
def forcePush (cap : Nat) (ring : List Ent) (e : Ent) : List Ent × Option Ent :=
  if ring.length < cap then (ring ++ [e], none)
  else match ring with
    | [] => ([e], none)             -- capacity 0 is rejected by the builder; kept total
    | h :: t => (t ++ [e], some h)

structure HwwOut where
  waiting : List Nat
  ebw : Nat
  sigs : List Nat
  flushed : Bool
  completed : List Nat
  deriving DecidableEq, Repr

/-- Second half of `handle_waiting_wakers`, reached with `waiting_wakers` empty:
`while let Ok(e) = try_recv() { push }; if !waiting_wakers.is_empty() { ebw = capacity }`. -/
def collect (cap ebw : Nat) (sigs : List Nat) (flushed : Bool) (completed : List Nat) : HwwOut :=
  if sigs = [] then ⟨[], ebw, [], flushed, completed⟩ else ⟨sigs, cap, [], flushed, completed⟩

/-- `WakerTracker::handle_waiting_wakers`, transcribed. -/
def hww (cap : Nat) (st : Status) (count : Nat) (waiting : List Nat) (ebw : Nat) (sigs : List Nat) : HwwOut :=
  if waiting = [] then collect cap ebw sigs false []
  else if ebw - count = 0 ∨ st = .drained then
    -- flush_stream(); entries_before_wake = 0; waiting_wakers.clear(); then the second `if`
    collect cap 0 sigs true waiting
  else ⟨waiting, ebw - count, sigs, false, []⟩   -- `ebw - count` is `saturating_sub`

/-- `WakerTracker::will_progress_on_drained_queue` -/
def willProgress (waiting : List Nat) : Bool := !waiting.isEmpty

def delivered (log : List Obs) : List Ent :=
  log.filterMap fun | .next e _ => some e | _ => none

def displaced (log : List Obs) : List Ent :=
  log.filterMap fun | .displaced e => some e | _ => none

/-- What `consume(e)` appends to the history. -/
def consumeObs (s : QState) (c : Clock) (e : Ent) : List Obs :=
  if s.res e = .validation ∧ s.noSubscriber = true ∧ c.limiterFires = true then [.next e (s.res e), .report]
  else [.next e (s.res e)]

/-- One micro-step of the writer thread (`none`: blocked in `park`, or the thread has exited). -/
def wstep (s : QState) (c : Clock) : Option QState :=
  match s.wpc with
  | .drain n =>
    match s.ring with
    | [] => some { s with wpc := .afterDrain .drained n }
    | e :: t => some { s with ring := t, wpc := .holding e n }
  | .holding e n =>
    some { s with
      log := s.log ++ consumeObs s c e,
      wpc := if (n + 1) % 32 = 0 ∧ c.deadlineHit = true then .afterDrain .hitDeadline (n + 1) else .drain (n + 1) }
  | .afterDrain st n =>
    let o := hww s.cap st n s.waiting s.ebw s.sigs
    some { s with
      waiting := o.waiting, ebw := o.ebw, sigs := o.sigs,
      log := s.log ++ (if o.flushed then [Obs.flush] else []) ++ o.completed.map (Obs.completed · true),
      wpc := .postHww st }
  | .postHww st =>
    if st = .hitDeadline then some { s with wpc := .outerFlush }
    else if s.shutdown then some { s with wpc := .outerFlush }
    else if willProgress s.waiting then some { s with wpc := .checkTime }
    else some { s with wpc := .parking }
  | .parking =>
    if s.token then some { s with token := false, wpc := .checkTime }
    else if c.parkWake then some { s with wpc := .checkTime }
    else none
  | .checkTime =>
    if c.pastNextFlush then some { s with wpc := .outerFlush } else some { s with wpc := .drain 0 }
  | .outerFlush => some { s with log := s.log ++ [.flush], wpc := .checkShutdown }
  | .checkShutdown =>
    if s.shutdown then some { s with wpc := .shutDrain 0 } else some { s with wpc := .checkHandles }
  | .checkHandles =>
    if s.handles = 0 then some { s with wpc := .shutDrain 0 } else some { s with wpc := .drain 0 }
  | .shutDrain n =>
    match s.ring with
    | [] => some { s with wpc := .shutFlush }
    | e :: t => some { s with ring := t, wpc := .shutHolding e n }
  | .shutHolding e n =>
    let hit := decide ((n + 1) % 32 = 0) && c.deadlineHit
    some { s with
      log := s.log ++ consumeObs s c e,
      wpc := if hit then .shutFlush else .shutDrain (n + 1),
      shutHit := s.shutHit || hit }
  | .shutFlush =>
    some { s with
      log := s.log ++ [.flush, .closed] ++ (s.waiting ++ s.sigs).map (Obs.completed · false),
      waiting := [], sigs := [], wpc := .exited }
  | .exited => none

def step (s : QState) : Ev → Option QState
  | .push p =>
    if s.handles = 0 then none else
    let e : Ent := (p, s.pushOrder.length)
    match forcePush s.cap s.ring e with
    | (ring', none) => some { s with ring := ring', pushOrder := s.pushOrder ++ [e], pushed := p :: s.pushed }
    | (ring', some d) =>
      some { s with ring := ring', pushOrder := s.pushOrder ++ [e], pushed := p :: s.pushed,
                    log := s.log ++ [.displaced d], overflow := s.overflow + 1 }
  | .unpark p =>
    if p ∈ s.pushed then some { s with pushed := s.pushed.erase p, token := true } else none
  | .flushSend =>
    let i := s.marks.length
    if s.wpc = .exited then
      -- the receiver is gone: `send` fails, the signal (and its oneshot sender) is dropped at once
      some { s with marks := s.marks ++ [s.pushOrder.length], sent := i :: s.sent,
                    log := s.log ++ [.completed i false] }
    else
      some { s with marks := s.marks ++ [s.pushOrder.length], sent := i :: s.sent, sigs := s.sigs ++ [i] }
  | .flushUnpark i =>
    if i ∈ s.sent then some { s with sent := s.sent.erase i, token := true } else none
  | .clone => if s.handles = 0 then none else some { s with handles := s.handles + 1 }
  | .dropHandle => if s.handles = 0 then none else some { s with handles := s.handles - 1 }
  | .forget => if s.join = .held then some { s with join := .forgotten } else none
  | .dropJoinBegin =>
    if s.join = .held then some { s with join := .stored, shutdown := true, shutMark := s.pushOrder.length }
    else none
  | .dropJoinUnpark =>
    if s.join = .stored then some { s with join := .joining, token := true } else none
  | .dropJoinEnd =>
    if s.join = .joining ∧ s.wpc = .exited then some { s with join := .joined, log := s.log ++ [.joinReturned] }
    else none
  | .setSubscriber present => some { s with noSubscriber := !present }
  | .w c => wstep s c

def run (s : QState) : List Ev → Option QState
  | [] => some s
  | ev :: evs => match step s ev with
    | none => none
    | some s' => run s' evs

/-- States reachable from some initial state by some event list. -/
inductive Reachable : QState → Prop where
  | init (cap res ns) : Reachable (init cap res ns)
  | step {s s' ev} : Reachable s → step s ev = some s' → Reachable s'

/-! ### Guided execution (T-step): the writer runs until it blocks -/

/-- Clock under which no deadline ever fires (flush interval far in the future). -/
def quietClock (limiter : Bool) : Clock :=
  { deadlineHit := false, parkWake := false, pastNextFlush := false, limiterFires := limiter }

/-- Clock under which every deadline has passed. -/
def lateClock (limiter : Bool) : Clock :=
  { deadlineHit := true, parkWake := true, pastNextFlush := true, limiterFires := limiter }

/-- Is the writer about to call `stream.next` (where the gate stream can hold it)? -/
def atNext (s : QState) : Bool :=
  match s.wpc with
  | .holding _ _ => true
  | .shutHolding _ _ => true
  | _ => false

/-- Run the writer under `c` until it blocks in `park`, exits, or wants to call `stream.next` with no
gate permit left. Returns the state and the remaining permits. -/
def settle : Nat → Clock → QState → Nat → QState × Nat
  | 0, _, s, permits => (s, permits)
  | fuel + 1, c, s, permits =>
    if atNext s then
      match permits with
      | 0 => (s, 0)
      | k + 1 => match wstep s c with
        | none => (s, k + 1)
        | some s' => settle fuel c s' k
    else match wstep s c with
      | none => (s, permits)
      | some s' => settle fuel c s' permits

end Queue
