/-
Declarative model of the EMF formatter (`metrique-writer-format-emf/src/emf.rs`).

Two parts:

* `emit` / `records` — the *reference interpretation* of an entry: which records come out, with
  which members, metric declarations, dimension sets and timestamp. It is written as filters and
  maps over the entry's items (no buffers, no commas); the byte-level operational model is a
  different engine (C02/C14).
* `validate` — a transcription of the validation state machine of `emf.rs`
  (`EntryWriter::{timestamp,value,config,finish}`, `ValueWriter::{string,metric,error}`,
  `validate_name`, `validate_string`): the per-entry name map
  `name ↦ String | Metric{set indexes} | UnfoundDimension`, the three skip switches and the
  `AllowUnroutableEntries` exemption; and `Defective`, the decidable list of the defects the
  property names.

Strings are `List Nat` (their UTF-8 bytes; only equality and the byte-wise order used to sort a
per-metric dimension list matter). Floating point is a parameter: the model is generic in the
number type `F` and in `FloatOps F` (`usable` = `clamp_to_finite`, `mean` = `total / occurrences as
f64`); the driver instantiates `F := Float`, theorems hold for every instance.
-/
namespace EmfSpec

abbrev Str := List Nat
abbrev Key := List (Str × Str)

def u64Max : Nat := 18446744073709551615

/-- `_aws` -/
def awsName : Str := [95, 97, 119, 115]

structure FloatOps (F : Type) where
  /-- `0.0` (mean of `Repeated { occurrences: 0, .. }`) -/
  zero : F
  /-- `total / occurrences as f64` -/
  mean : F → Nat → F
  /-- `clamp_to_finite`: `none` for NaN, otherwise the value with infinities replaced by ±`f64::MAX` -/
  usable : F → Option F

inductive Obs (F : Type) where
  | unsigned (v : Nat)
  | floating (x : F)
  | repeated (total : F) (occ : Nat)
  deriving DecidableEq, Repr

inductive Flag where
  | plain | hires | noMetric
  deriving DecidableEq, Repr

structure Metric (F : Type) where
  obs : List (Obs F)
  /-- `none` = `Unit::None`, otherwise the unit's name -/
  unit : Option Str
  dims : Key
  flag : Flag
  deriving DecidableEq, Repr

inductive Val (F : Type) where
  | str (s : Str)
  | metric (m : Metric F)
  /-- a value that reports a validation error of its own -/
  | error
  /-- a value that writes nothing (e.g. `Option::None`) -/
  | nothing
  deriving DecidableEq, Repr

/-- One writer call made by the entry. -/
inductive Item (F : Type) where
  | timestamp (us : Int)
  | allowSplit
  | otherCfg
  | allowUnroutable
  | entryDims (sets : List (List Str))
  | value (name : Str) (v : Val F)
  deriving DecidableEq, Repr

abbrev Entry (F : Type) := List (Item F)

structure Decl where
  name : Str
  unit : Option Str
  hires : Bool
  deriving DecidableEq, Repr

structure Directive where
  ns : Str
  dims : List (List Str)
  metrics : List Decl
  deriving DecidableEq, Repr

/-- Formatter configuration without the validation switches. -/
structure Config where
  namespaces : List Str
  defaultDims : List (List Str)
  logGroup : Option Str
  allowIgnored : Bool
  /-- extra directives (`EmfBuilder::directive`), only part of the no-dimension record -/
  extra : List Directive
  deriving DecidableEq, Repr

/-- `Validation` of emf.rs: each switch *skips* one group of checks. -/
structure Switches where
  skipUnique : Bool
  skipDimsExist : Bool
  skipNames : Bool
  deriving DecidableEq, Repr

def allOn : Switches := ⟨false, false, false⟩
def allOff : Switches := ⟨true, true, true⟩

/-! ## Reference interpretation -/

inductive Num (F : Type) where
  | int (n : Nat)
  | flt (x : F)
  deriving DecidableEq, Repr

inductive MVal (F : Type) where
  | str (s : Str)
  | scalar (x : Num F)
  | hist (values : List (Num F)) (counts : List Nat)
  deriving DecidableEq, Repr

structure Record (F : Type) where
  /-- `none`: the entry wrote no timestamp, the formatter reads the system clock -/
  timestamp : Option Nat
  logGroup : Option Str
  directives : List Directive
  /-- `some k`: the split record of the per-metric dimensions `k`; `none`: the no-dimension record -/
  route : Option Key
  members : List (Str × MVal F)
  deriving DecidableEq, Repr

/-- the per-metric dimensions a record carries (`[]` for the no-dimension record) -/
def Record.splitKey {F : Type} (r : Record F) : Key := r.route.getD []

/-- the member names of the record's JSON object, in the order written: the `_aws` metadata member,
then `members` (per-metric dimensions, metric values, string values) -/
def Record.memberNames {F : Type} (r : Record F) : List Str := awsName :: r.members.map (·.1)

def satMul (a b : Nat) : Nat := min (a * b) u64Max

/-- number of occurrences an observation stands for -/
def Obs.occ {F : Type} : Obs F → Nat
  | .unsigned _ => 1
  | .floating _ => 1
  | .repeated _ n => n

/-- the value an observation contributes (`none`: skipped, NaN) -/
def Obs.value {F : Type} (ops : FloatOps F) : Obs F → Option (Num F)
  | .unsigned v => some (.int v)
  | .floating x => (ops.usable x).map .flt
  | .repeated t n => (ops.usable (if n = 0 then ops.zero else ops.mean t n)).map .flt

/-- `write_observation`: value and count of a usable observation -/
def obsOut {F : Type} (ops : FloatOps F) (mult : Option Nat) (o : Obs F) : Option (Num F × Nat) :=
  (o.value ops).map fun v => (v, satMul o.occ (mult.getD 1))

/-- the (value, count) pairs of the usable observations, in order -/
def usableObs {F : Type} (ops : FloatOps F) (mult : Option Nat) (obs : List (Obs F)) : List (Num F × Nat) :=
  obs.filterMap (obsOut ops mult)

/-- `write_metric_value`: the member value of a metric, `none` when nothing usable remains. -/
def fieldOf {F : Type} (ops : FloatOps F) (mult : Option Nat) (m : Metric F) : Option (MVal F) :=
  match mult, m.obs with
  | _, [] => none
  | none, [.unsigned v] => some (.scalar (.int v))
  | none, [.floating x] => (ops.usable x).map fun y => .scalar (.flt y)
  | _, obs =>
    if (usableObs ops mult obs).isEmpty then none
    else some (.hist ((usableObs ops mult obs).map (·.1)) ((usableObs ops mult obs).map (·.2)))

def declOf {F : Type} (name : Str) (m : Metric F) : Option Decl :=
  match m.flag with
  | .noMetric => none
  | .hires => some ⟨name, m.unit, true⟩
  | .plain => some ⟨name, m.unit, false⟩

/-- byte-wise lexicographic `<` on strings (Rust `str` ordering) -/
def strLt : Str → Str → Bool
  | [], [] => false
  | [], _ :: _ => true
  | _ :: _, [] => false
  | a :: as, b :: bs => a < b || (a == b && strLt as bs)

def pairLe (a b : Str × Str) : Bool :=
  strLt a.1 b.1 || (a.1 == b.1 && !strLt b.2 a.2)

def insertSorted (x : Str × Str) : Key → Key
  | [] => [x]
  | y :: ys => if pairLe x y then x :: y :: ys else y :: insertSorted x ys

/-- `DimensionSetKey::from_iter`: the per-metric dimensions sorted -/
def sortKey : Key → Key
  | [] => []
  | x :: xs => insertSorted x (sortKey xs)

/-- where a metric goes: `none` = the no-dimension record, `some k` = the split record of `k` -/
def routeOf {F : Type} (cfg : Config) (m : Metric F) : Option Key :=
  if cfg.allowIgnored || m.dims.isEmpty then none else some (sortKey m.dims)

def metricItems {F : Type} : Entry F → List (Str × Metric F)
  | [] => []
  | .value n (.metric m) :: e => (n, m) :: metricItems e
  | _ :: e => metricItems e

def strItems {F : Type} : Entry F → List (Str × Str)
  | [] => []
  | .value n (.str s) :: e => (n, s) :: strItems e
  | _ :: e => strItems e

def timestamps {F : Type} : Entry F → List Int
  | [] => []
  | .timestamp t :: e => t :: timestamps e
  | _ :: e => timestamps e

def entryDimsItems {F : Type} : Entry F → List (List (List Str))
  | [] => []
  | .entryDims s :: e => s :: entryDimsItems e
  | _ :: e => entryDimsItems e

/-- whole epoch milliseconds, 0 before the epoch -/
def msOf (us : Int) : Nat := (us / 1000).toNat

def timestampOf {F : Type} (e : Entry F) : Option Nat := (timestamps e).getLast?.map msOf

/-- the dimension sets every record starts from -/
def baseDims {F : Type} (cfg : Config) (e : Entry F) : List (List Str) :=
  match entryDimsItems e with
  | [] => cfg.defaultDims
  | sets :: _ => cfg.defaultDims.flatMap fun d => sets.map fun s => d ++ s

def dedup {α : Type} [DecidableEq α] : List α → List α
  | [] => []
  | a :: l => a :: (dedup l).filter (· ≠ a)

def fieldsOf {F : Type} (ops : FloatOps F) (mult : Option Nat) (ms : List (Str × Metric F)) :
    List (Str × MVal F) :=
  ms.filterMap fun p => (fieldOf ops mult p.2).map fun v => (p.1, v)

def declsOf {F : Type} (ops : FloatOps F) (mult : Option Nat) (ms : List (Str × Metric F)) : List Decl :=
  (ms.filter fun p => (fieldOf ops mult p.2).isSome).filterMap fun p => declOf p.1 p.2

/-- One record: `route = none` is the record without per-metric dimensions, `some k` the split record
of the (sorted) per-metric dimensions `k`; `ms` are the metrics routed to it. -/
def mkRecord {F : Type} (cfg : Config) (ops : FloatOps F) (mult : Option Nat) (e : Entry F)
    (route : Option Key) (ms : List (Str × Metric F)) (extra : List Directive) : Record F :=
  let key := route.getD []
  let dims := (baseDims cfg e).map fun d => d ++ key.map (·.1)
  let decls := declsOf ops mult ms
  { timestamp := timestampOf e
    logGroup := cfg.logGroup
    directives := cfg.namespaces.map (fun ns => ⟨ns, dims, decls⟩) ++ extra
    route := route
    members := key.map (fun kv => (kv.1, .str kv.2)) ++ fieldsOf ops mult ms
                ++ (strItems e).map fun p => (p.1, .str p.2) }

def routedTo {F : Type} (cfg : Config) (r : Option Key) (ms : List (Str × Metric F)) : List (Str × Metric F) :=
  ms.filter fun p => decide (routeOf cfg p.2 = r)

def splitKeys {F : Type} (cfg : Config) (e : Entry F) : List Key :=
  dedup ((metricItems e).filterMap fun p => routeOf cfg p.2)

/-- The records of an accepted entry (`finish`): one record per per-metric dimension set that has
at least one usable metric, then the no-dimension record unless it is redundant. -/
def emit {F : Type} (cfg : Config) (ops : FloatOps F) (mult : Option Nat) (e : Entry F) : List (Record F) :=
  let ms := metricItems e
  let split := (splitKeys cfg e).filterMap fun k =>
    let mk := routedTo cfg (some k) ms
    if (fieldsOf ops mult mk).isEmpty then none else some (mkRecord cfg ops mult e (some k) mk [])
  let g := routedTo cfg none ms
  if split.isEmpty || !(fieldsOf ops mult g).isEmpty then
    split ++ [mkRecord cfg ops mult e none g cfg.extra]
  else split

/-! ## Validation state machine -/

inductive Err where
  | multipleTimestamps
  | dimsLate | dimsTwice | dimsEmpty
  | duplicate (name : Str)
  | emptyName | awsName
  | metricInDimension (name : Str)
  | missingDimension (name : Str)
  | perMetricDims (name : Str)
  | valueError (name : Str)
  deriving DecidableEq, Repr

/-- `LineKind` -/
inductive Kind where
  | string
  | metric (indexes : List Nat)
  | unfound
  deriving DecidableEq, Repr

abbrev VMap := List (Str × Kind)

def VMap.get (m : VMap) (n : Str) : Option Kind := (m.find? (·.1 == n)).map (·.2)

/-- insert or overwrite (the newest binding shadows) -/
def VMap.set (m : VMap) (n : Str) (k : Kind) : VMap := (n, k) :: m

structure VState where
  errs : List Err
  tsSeen : Bool
  /-- `entry_dimensions.is_some()` -/
  dimsSet : Bool
  split : Bool
  unroutable : Bool
  vmap : VMap
  /-- keys of `dimension_set_map` in insertion order; the set inserted `i`-th has index `i + 1` -/
  keys : List Key
  deriving Repr

def VState.err (st : VState) (e : Err) : VState := { st with errs := st.errs ++ [e] }

def insertUnfound (m : VMap) (d : Str) : VMap :=
  match m.get d with
  | none => m.set d .unfound
  | some _ => m

/-- `validation_map_base` (only cloned when the dimension check is on) -/
def initMap (cfg : Config) (sw : Switches) : VMap :=
  if sw.skipDimsExist then [] else cfg.defaultDims.flatten.foldl insertUnfound []

def initState (cfg : Config) (sw : Switches) : VState :=
  { errs := [], tsSeen := false, dimsSet := false, split := false, unroutable := false,
    vmap := initMap cfg sw, keys := [] }

/-- the `for dim in dim_set` loop of `config(EntryDimensions)` -/
def dimsStep (sw : Switches) (st : VState) (d : Str) : VState :=
  match st.vmap.get d with
  | some (.metric _) => if sw.skipUnique then st else st.err (.duplicate d)
  | some _ => st
  | none => { st with vmap := st.vmap.set d .unfound }

def indexOfKey (k : Key) : List Key → Nat
  | [] => 0
  | x :: xs => if x = k then 0 else indexOfKey k xs + 1

def stepString (sw : Switches) (st : VState) (name : Str) : VState :=
  if sw.skipUnique then st else
  match st.vmap.get name with
  | some .unfound => { st with vmap := st.vmap.set name .string }
  | some _ => st.err (.duplicate name)
  | none => { st with vmap := st.vmap.set name .string }

def stepMetric {F : Type} (cfg : Config) (sw : Switches) (st : VState) (name : Str) (m : Metric F) : VState :=
  let isGlobal := cfg.allowIgnored || m.dims.isEmpty
  let st := if !isGlobal && !st.split then st.err (.perMetricDims name) else st
  -- routing: the index of the dimension set (0 = no dimensions)
  let key := sortKey m.dims
  let (st, index) :=
    if isGlobal then (st, 0)
    else if key ∈ st.keys then (st, indexOfKey key st.keys + 1)
    else ({ st with keys := st.keys ++ [key] }, st.keys.length + 1)
  if sw.skipUnique || st.unroutable then st else
  match st.vmap.get name with
  | none => { st with vmap := st.vmap.set name (.metric [index]) }
  | some .unfound => st.err (.metricInDimension name)
  | some (.metric idxs) =>
    if index ∈ idxs then st.err (.duplicate name)
    else { st with vmap := st.vmap.set name (.metric (index :: idxs)) }
  | some .string => st.err (.duplicate name)

def stepItem {F : Type} (cfg : Config) (sw : Switches) (st : VState) : Item F → VState
  | .timestamp _ =>
    let st' := { st with tsSeen := true }
    if st.tsSeen then st'.err .multipleTimestamps else st'
  | .allowSplit => { st with split := true }
  | .otherCfg => st
  | .allowUnroutable => { st with unroutable := true }
  | .entryDims sets =>
    if !st.keys.isEmpty then st.err .dimsLate
    else if st.dimsSet then st.err .dimsTwice
    else if sets.isEmpty then st.err .dimsEmpty
    else
      let st := if !sw.skipUnique || !sw.skipDimsExist then sets.flatten.foldl (dimsStep sw) st else st
      { st with dimsSet := true }
  | .value name v =>
    if !sw.skipNames && name.isEmpty then st.err .emptyName
    else if !sw.skipNames && name = awsName then st.err .awsName
    else match v with
      | .str _ => stepString sw st name
      | .metric m => stepMetric cfg sw st name m
      | .error => st.err (.valueError name)
      | .nothing => st

def run {F : Type} (cfg : Config) (sw : Switches) (st : VState) (e : Entry F) : VState :=
  e.foldl (stepItem cfg sw) st

/-- the missing-dimension sweep of `finish` (hash order in the code; order is not compared) -/
def sweep (sw : Switches) (st : VState) : List Err :=
  if sw.skipDimsExist || st.unroutable then []
  else ((dedup (st.vmap.map (·.1))).filter fun d => st.vmap.get d == some .unfound).map .missingDimension

def validate {F : Type} (cfg : Config) (sw : Switches) (e : Entry F) : List Err :=
  let st := run cfg sw (initState cfg sw) e
  st.errs ++ sweep sw st

/-- `Format::format` as a function: the validation errors, or the records. -/
def records {F : Type} (cfg : Config) (sw : Switches) (ops : FloatOps F) (mult : Option Nat) (e : Entry F) :
    Except (List Err) (List (Record F)) :=
  match validate cfg sw e with
  | [] => .ok (emit cfg ops mult e)
  | errs => .error errs

/-! ## The defects the property lists -/

def valueNames {F : Type} : Entry F → List Str
  | [] => []
  | .value n _ :: e => n :: valueNames e
  | _ :: e => valueNames e

/-- a value written under a name: a string occupies the name in every record, a metric only in the
record it is routed to -/
inductive Slot where
  | str (n : Str)
  | met (n : Str) (r : Option Key)
  deriving DecidableEq, Repr

def Slot.name : Slot → Str
  | .str n => n
  | .met n _ => n

def slots {F : Type} (cfg : Config) : Entry F → List Slot
  | [] => []
  | .value n (.str _) :: e => .str n :: slots cfg e
  | .value n (.metric m) :: e => .met n (routeOf cfg m) :: slots cfg e
  | _ :: e => slots cfg e

/-- two values under one name in the same record -/
def conflict : Slot → Slot → Bool
  | .met n r, .met n' r' => n == n' && r == r'
  | a, b => a.name == b.name

def noConflict : List Slot → Bool
  | [] => true
  | s :: rest => rest.all (fun t => !conflict s t) && noConflict rest

/-- every dimension name declared by the configuration or by the entry -/
def declaredDims {F : Type} (cfg : Config) (e : Entry F) : List Str :=
  cfg.defaultDims.flatten ++ (entryDimsItems e).flatten.flatten

/-- a metric with per-metric dimensions (that are not ignored) before `AllowSplitEntries` was seen;
`split` = seen so far -/
def dimsWithoutSplit {F : Type} (cfg : Config) : Bool → Entry F → Bool
  | _, [] => false
  | _, .allowSplit :: e => dimsWithoutSplit cfg true e
  | split, .value _ (.metric m) :: e => (!split && (routeOf cfg m).isSome) || dimsWithoutSplit cfg split e
  | split, _ :: e => dimsWithoutSplit cfg split e

/-- an `EntryDimensions` config after a metric that was routed to a split record;
`routed` = such a metric was seen -/
def lateDims {F : Type} (cfg : Config) : Bool → Entry F → Bool
  | _, [] => false
  | routed, .entryDims _ :: e => routed || lateDims cfg routed e
  | routed, .value _ (.metric m) :: e => lateDims cfg (routed || (routeOf cfg m).isSome) e
  | routed, _ :: e => lateDims cfg routed e

def defective {F : Type} (cfg : Config) (e : Entry F) : Bool :=
  -- more than one timestamp
  decide (2 ≤ (timestamps e).length)
  -- an empty or reserved name
  || (valueNames e).any (fun n => n.isEmpty || n == awsName)
  -- two values under one name in the same record
  || !noConflict (slots cfg e)
  -- a metric under a dimension name
  || (metricItems e).any (fun p => (declaredDims cfg e).contains p.1)
  -- a declared dimension without a string value
  || (declaredDims cfg e).any (fun d => !((strItems e).map (·.1)).contains d)
  -- per-metric dimensions without split mode (unless ignored)
  || dimsWithoutSplit cfg false e
  -- empty, repeated or late entry-dimension configuration
  || (entryDimsItems e).any (·.isEmpty)
  || decide (2 ≤ (entryDimsItems e).length)
  || lateDims cfg false e

def Defective {F : Type} (cfg : Config) (e : Entry F) : Prop := defective cfg e = true

instance {F : Type} (cfg : Config) (e : Entry F) : Decidable (Defective cfg e) := by
  unfold Defective; infer_instance

def noValueError {F : Type} : Entry F → Bool
  | [] => true
  | .value _ .error :: _ => false
  | _ :: e => noValueError e

def noUnroutable {F : Type} : Entry F → Bool
  | [] => true
  | .allowUnroutable :: _ => false
  | _ :: e => noUnroutable e

/-! ## The hypothesis of the record-level "no duplicate member" theorem

The code never validates the KEYS of per-metric dimensions (`Props/C08.lean`, `c08_dup_member_witness`),
although each key becomes a member of the split record. `dimKeysDisjoint` says that they collide with
nothing; each clause is a separate definition so that `Props/C08.lean` can show that none is superfluous. -/

/-- `P` holds of the (sorted) per-metric dimension list of every metric that is routed to a split record -/
def allSplitKeys {F : Type} (cfg : Config) (e : Entry F) (P : Key → Bool) : Bool :=
  (metricItems e).all fun p =>
    match routeOf cfg p.2 with
    | none => true
    | some k => P k

/-- within one metric, the per-metric dimension keys are pairwise distinct -/
def keysDistinct {F : Type} (cfg : Config) (e : Entry F) : Bool :=
  allSplitKeys cfg e fun k => decide ((k.map (·.1)).Nodup)

/-- no per-metric dimension key is `_aws` -/
def keysNotAws {F : Type} (cfg : Config) (e : Entry F) : Bool :=
  allSplitKeys cfg e fun k => !(k.map (·.1)).contains awsName

/-- no per-metric dimension key is the name of a string value of the entry (in an accepted entry
every default / entry dimension name is the name of a string value, so those are covered too) -/
def keysNotStrings {F : Type} (cfg : Config) (e : Entry F) : Bool :=
  allSplitKeys cfg e fun k => (k.map (·.1)).all fun d => !((strItems e).map (·.1)).contains d

/-- no per-metric dimension key is the name of a metric that is routed to the same split record -/
def keysNotMetrics {F : Type} (cfg : Config) (e : Entry F) : Bool :=
  allSplitKeys cfg e fun k =>
    (k.map (·.1)).all fun d => !((routedTo cfg (some k) (metricItems e)).map (·.1)).contains d

/-- the per-metric dimension keys of every split metric are pairwise distinct, differ from `_aws`,
from every string member's name and from the name of every metric of the same record (the code does
not check this: see the witnesses in `Props/C08.lean`) -/
def dimKeysDisjoint {F : Type} (cfg : Config) (e : Entry F) : Bool :=
  keysDistinct cfg e && keysNotAws cfg e && keysNotStrings cfg e && keysNotMetrics cfg e

end EmfSpec
