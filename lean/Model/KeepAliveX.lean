import Model.KeepAlive
/-!
Extension of the keep-alive / slot model (`Model/KeepAlive.lean`, left untouched together with its refinement proof)
by two things a client can do to a slot:

* **the guard's drop panics** (`gSendFail`): the slot value's `CloseValue::close()` panics inside `SlotGuard::drop`
  (the documented "guard panics, so its fields are dropped from your entry" case; the panic is contained by a
  thread / task / `catch_unwind` boundary).  The unwind drops the oneshot sender *without sending* and then the
  guard's fields, i.e. its flush guard in wait mode (`gRelease`, unchanged).  `Slot::close` then sees a closed,
  empty channel and yields `None`; `wait_for_data` is ready with `None`.
* **the slot field is replaced while its guard is alive** (`slotReplace`): `mem::replace(&mut entry.field,
  Slot::new(v))` / `mem::take` of a `LazySlot`.  The old `Slot` (receiver) is dropped; the field is a fresh slot that
  can be opened again; the old guard becomes an *orphan*: whatever it sends is lost, `parent_is_closed()` is true
  for it, but it is still a `SlotGuard` — `delay_flush` on it stores a flush guard (`oDelay`) that keeps delaying
  the append until the orphan is dropped (`oSend` / `oSendFail`, `oRelease`).

State: the base state plus the list of orphan guards.  A flush guard is *free* when it is neither in a slot guard nor in
an orphan guard; the base events that consume a free flush guard are restricted accordingly.
-/
namespace KeepAlive

/-- a slot guard whose `Slot` has been replaced -/
structure OGuard where
  g : GPc := .live
  mode : Mode := .discard
  gval : Nat := 0
  deriving DecidableEq, Repr

structure StX where
  b : St
  orph : List OGuard := []
  deriving DecidableEq, Repr

def heldByO (o : OGuard) : Nat := if o.g ≠ .none ∧ o.mode = .wait then 1 else 0

def heldO : List OGuard → Nat
  | [] => 0
  | o :: r => heldByO o + heldO r

/-- some flush guard is neither in a slot guard nor in an orphan guard -/
def freeFG (x : StX) : Bool := held x.b.slots + heldO x.orph < x.b.fgLive

inductive EvX where
  | base (e : Ev)
  | gSendFail (i : Nat)
  | slotReplace (i : Nat) (v : Nat)
  | oDelay (j : Nat) | oGmut (j : Nat) (v : Nat) | oSend (j : Nat) | oSendFail (j : Nat) | oRelease (j : Nat)
  deriving DecidableEq, Repr

/-- base events that take a free flush guard -/
def needsFree : Ev → Bool
  | .fgDrop => true
  | .open _ .wait _ => true
  | .delay _ => true
  | _ => false

def stepX (x : StX) : EvX → Option StX
  | .base e =>
    if needsFree e && !freeFG x then none
    else (step x.b e).map fun b' => { x with b := b' }
  | .gSendFail i =>
    match x.b.slots[i]? with
    | none => none
    | some sl =>
      if sl.g = .live then
        some { x with b := setSlot x.b i fun sl => { sl with g := .sent, sentOk := false, failed := true } }
      else none
  | .slotReplace i v =>
    match x.b.slots[i]? with
    | none => none
    | some sl =>
      if ownerUsable x.b then
        some { b := setSlot x.b i fun sl => { lazy := sl.lazy, init := v },
               orph := x.orph ++ (if sl.g = .none then [] else [{ g := sl.g, mode := sl.mode, gval := sl.gval }]) }
      else none
  | .oDelay j =>
    match x.orph[j]? with
    | none => none
    | some o =>
      if o.g = .live ∧ freeFG x then
        -- the old `parent_drop_mode` is dropped by the assignment
        if o.mode = .wait then some { x with b := dropFG x.b }
        else some { x with orph := modifyAt (fun o => { o with mode := .wait }) x.orph j }
      else none
  | .oGmut j v =>
    match x.orph[j]? with
    | none => none
    | some o => if o.g = .live then some { x with orph := modifyAt (fun o => { o with gval := v }) x.orph j } else none
  | .oSend j =>
    match x.orph[j]? with
    | none => none
    | some o => if o.g = .live then some { x with orph := modifyAt (fun o => { o with g := .sent }) x.orph j } else none
  | .oSendFail j =>
    match x.orph[j]? with
    | none => none
    | some o => if o.g = .live then some { x with orph := modifyAt (fun o => { o with g := .sent }) x.orph j } else none
  | .oRelease j =>
    match x.orph[j]? with
    | none => none
    | some o =>
      if o.g = .sent then
        let x' := { x with orph := x.orph.eraseIdx j }
        some (if o.mode = .wait then { x' with b := dropFG x'.b } else x')
      else none

def runX (x : StX) : List EvX → Option StX
  | [] => some x
  | e :: es => match stepX x e with
    | none => none
    | some x' => runX x' es

def initX (slots : List Slot) : StX := { b := init slots }

def inFlightX (x : StX) : Bool := inFlight x.b || x.orph.any (·.g = .sent)

end KeepAlive
