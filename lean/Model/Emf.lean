import Model.Json
/-
Operational model of `metrique-writer-format-emf/src/emf.rs` (+ `PrefixedStringBuf` of `buf.rs`).

The model produces the SAME BYTES as the code. Text is `List Nat` (UTF-8 bytes). A `&mut` becomes a
returned value. The formatter keeps, between calls, exactly what the Rust `State` keeps: six
prefixed string buffers and the dimension-set map (insertion-ordered association list here; the
real one is a hash map, so split records are compared as a multiset of lines). Everything that is
fixed at `build()` time is in `Consts`.

Parameters (not modelled, supplied per call by the harness / quantified in the theorems):
  * float formatting: every `Floating`/`Repeated` observation arrives with `fmt : Option Bytes` =
    `none` when the value (the mean for `Repeated`) is NaN after `clamp(-MAX, MAX)` (the observation
    is skipped), else the text `dtoa` prints for the clamped value; the model strips a trailing `.0`
    as `write_float` does. Integers are formatted by the model (`Json.natDigits` = `itoa`).
  * the wall clock (`nowMs`) read when the entry wrote no timestamp.
  * the `io::Write`: a budget of bytes after which it fails hard (`none` = never fails).
  * the sampling multiplicity chosen by `rate_to_n` (property C12's business); an invalid rate
    (`<= 0` or NaN) is the flag `badRate`.
-/
namespace Emf
open Json

abbrev Bytes := List Nat

/-! ## `PrefixedStringBuf` -/

structure PBuf where
  prefixLen : Nat
  buf : Bytes
  deriving Repr, DecidableEq

namespace PBuf
/-- `PrefixedStringBuf::new(prefix, _)` and `from_prefix` -/
def new (pre : Bytes) : PBuf := ⟨pre.length, pre⟩
def isEmpty (b : PBuf) : Bool := b.buf.length == b.prefixLen
/-- `clear`: truncate to the prefix (`shrink_to` only changes capacity) -/
def clear (b : PBuf) : PBuf := { b with buf := b.buf.take b.prefixLen }
def push (b : PBuf) (c : Nat) : PBuf := { b with buf := b.buf ++ [c] }
def pushRaw (b : PBuf) (s : Bytes) : PBuf := { b with buf := b.buf ++ s }
def pushInt (b : PBuf) (n : Nat) : PBuf := b.pushRaw (natDigits n)
def jsonString (b : PBuf) (s : Bytes) : PBuf := b.pushRaw (jstr s)
def extendFromWithin (b : PBuf) (start stop : Nat) : PBuf :=
  b.pushRaw ((b.buf.drop start).take (stop - start))
/-- `truncate(combined_len)` (the `assert!(combined_len >= prefix_len)` never fires: see
`Props/C14.lean`, every truncation index is the length the same buffer had earlier in the call) -/
def truncate (b : PBuf) (n : Nat) : PBuf := { b with buf := b.buf.take n }
end PBuf

/-! ## Configuration and `EmfBuilder::build` -/

structure Validation where
  skipUnique : Bool
  skipDimsExist : Bool
  skipNames : Bool
  deriving Repr, DecidableEq

/-- `MetricDefinition` of an extra directive: name, unit name, storage resolution (1 | 60) -/
structure ExtraMetric where
  name : Bytes
  unit : Bytes
  storage : Option Nat
  deriving Repr, DecidableEq

structure ExtraDirective where
  dimensions : List (List Bytes)
  metrics : List ExtraMetric
  nspace : Bytes
  deriving Repr, DecidableEq

structure Config where
  /-- first namespace and the ones added with `add_namespace` -/
  ns0 : Bytes
  moreNs : List Bytes
  /-- `default_dimensions` (the builder asserts it is non-empty; the model does not need that) -/
  defaultDims : List (List Bytes)
  logGroup : Option Bytes
  allowIgnored : Bool
  extraDirectives : List ExtraDirective
  validation : Validation
  deriving Repr, DecidableEq

inductive LineKind where
  | string
  | metric (indexes : List Nat)
  | unfoundDim
  deriving Repr, DecidableEq

/-- the validation map `name ↦ LineData` (association list, first insertion first) -/
abbrev VMap := List (Bytes × LineKind)

def VMap.find? (m : VMap) (k : Bytes) : Option LineKind :=
  match m with
  | [] => none
  | (k', v) :: rest => if k' = k then some v else VMap.find? rest k

def VMap.set (m : VMap) (k : Bytes) (v : LineKind) : VMap :=
  match m with
  | [] => [(k, v)]
  | (k', v') :: rest => if k' = k then (k', v) :: rest else (k', v') :: VMap.set rest k v

/-- serde serialisation of `MetricDefinition` -/
def extraMetricJson (m : ExtraMetric) : Bytes :=
  bytes! "{\"Name\":" ++ jstr m.name ++ bytes! ",\"Unit\":" ++ jstr m.unit ++
    (match m.storage with
     | some n => bytes! ",\"StorageResolution\":" ++ natDigits n
     | none => []) ++ [125]

/-- serde serialisation of `MetricDirective` (field order: Dimensions, Metrics, Namespace) -/
def extraDirectiveJson (d : ExtraDirective) : Bytes :=
  bytes! "{\"Dimensions\":[" ++ sepBy [44] (d.dimensions.map jarrStrings) ++
  bytes! "],\"Metrics\":[" ++ sepBy [44] (d.metrics.map extraMetricJson) ++
  bytes! "],\"Namespace\":" ++ jstr d.nspace ++ [125]

/-- `EmfBuilder::directive` called for each directive: `,` + json -/
def extraDirectivesStr (ds : List ExtraDirective) : Bytes :=
  (ds.map fun d => 44 :: extraDirectiveJson d).flatten

/-- what `build()` computes once -/
structure Consts where
  /-- JSON-encoded namespaces (`JsonEncodedString`) -/
  ns0 : Bytes
  moreNs : List Bytes
  /-- JSON-encoded default dimension sets (`JsonEncodedArray`) -/
  eachDims : List Bytes
  logGroupTs : Bytes
  allowIgnored : Bool
  afterNsIndex : Nat
  validation : Validation
  vmapBase : VMap
  deriving Repr, DecidableEq

def logGroupTsStr (lg : Option Bytes) : Bytes :=
  match lg with
  | some g => bytes! "],\"LogGroupName\":" ++ jstr g ++ bytes! ",\"Timestamp\":"
  | none => bytes! "],\"Timestamp\":"

def dimensionsAfterNs : Bytes := bytes! ",\"Dimensions\":["
def awsOpen : Bytes := bytes! "{\"_aws\":{\"CloudWatchMetrics\":[{\"Namespace\":"

def dimensionsPrefix (cfg : Config) : Bytes := awsOpen ++ jstr cfg.ns0 ++ dimensionsAfterNs
def fieldsPrefix : Bytes := [125]
def countsPrefix : Bytes := bytes! "],\"Counts\":["
def metricsPrefix : Bytes := bytes! "],\"Metrics\":["

def vmapBaseOf (dims : List (List Bytes)) : VMap :=
  dims.flatten.foldl (fun m d => match VMap.find? m d with
    | some _ => m
    | none => VMap.set m d .unfoundDim) []

def Consts.ofConfig (cfg : Config) : Consts where
  ns0 := jstr cfg.ns0
  moreNs := cfg.moreNs.map jstr
  eachDims := cfg.defaultDims.map jarrStrings
  logGroupTs := logGroupTsStr cfg.logGroup
  allowIgnored := cfg.allowIgnored
  afterNsIndex := (dimensionsPrefix cfg).length - dimensionsAfterNs.length
  validation := cfg.validation
  vmapBase := vmapBaseOf cfg.defaultDims

/-! ## The state kept between calls -/

/-- `DimensionSet`: the sorted `(name, value)` pairs -/
abbrev DimKey := List (Bytes × Bytes)

/-- `MetricsForDimensionSet` -/
structure DimEntry where
  key : DimKey
  fieldsBuf : PBuf
  metricsBuf : PBuf
  afterNsIndex : Nat
  index : Nat
  deriving Repr, DecidableEq

structure State where
  dimMap : List DimEntry
  stringFieldsBuf : PBuf
  fieldsBuf : PBuf
  metricsBuf : PBuf
  dimensionsBuf : PBuf
  countsBuf : PBuf
  declBuf : PBuf
  deriving Repr, DecidableEq

/-- the state `build()` creates -/
def State.fresh (cfg : Config) : State where
  dimMap := []
  stringFieldsBuf := PBuf.new []
  fieldsBuf := PBuf.new fieldsPrefix
  metricsBuf := PBuf.new metricsPrefix
  dimensionsBuf := PBuf.new (dimensionsPrefix cfg)
  countsBuf := PBuf.new countsPrefix
  declBuf := PBuf.new (extraDirectivesStr cfg.extraDirectives)

/-! ## Entries: the writer calls they make -/

inductive Obs where
  | unsigned (v : Nat)
  /-- `fmt = none`: NaN, skipped -/
  | floating (fmt : Option Bytes)
  /-- `fmt` is for the mean (`0.0` when `occ = 0`) -/
  | repeated (fmt : Option Bytes) (occ : Nat)
  deriving Repr, DecidableEq

inductive Flags where
  | none | highRes | noMetric
  deriving Repr, DecidableEq

inductive Val where
  | str (s : Bytes)
  /-- `unit = none` is `Unit::None`, otherwise the unit's name -/
  | metric (obs : List Obs) (unit : Option Bytes) (dims : List (Bytes × Bytes)) (flags : Flags)
  | error
  | nothing
  deriving Repr, DecidableEq

inductive Item where
  | timestamp (micros : Int)
  | allowSplit
  | otherCfg
  | allowUnroutable
  | entryDims (sets : List (List Bytes))
  | value (name : Bytes) (v : Val)
  deriving Repr, DecidableEq

inductive ErrKind where
  | multipleTimestamps | dimsLate | dimsTwice | dimsEmpty | duplicateField | missingDimension
  | nameEmpty | nameAws | perMetricDims | metricInDimField | valueError | badRate
  deriving Repr, DecidableEq

/-- the per-call `EntryWriter` -/
structure Writer where
  st : State
  vmap : VMap
  entryDims : Option (List Bytes)
  timestamp : Option Int
  errors : List ErrKind
  allowSplit : Bool
  unroutable : Bool
  deriving Repr, DecidableEq

def Writer.err (w : Writer) (e : ErrKind) : Writer := { w with errors := w.errors ++ [e] }

/-! ## Numbers -/

def u64Max : Nat := 18446744073709551615
def satMul (a b : Nat) : Nat := if a * b ≤ u64Max then a * b else u64Max

/-- `as_str.strip_suffix(".0").unwrap_or(as_str)` -/
def stripDotZero (t : Bytes) : Bytes :=
  if t.drop (t.length - 2) = [46, 48] then t.take (t.length - 2) else t

/-! ## `JsonEncodedArray::extend_with_strings` -/

def extendLoop : Bytes → Bool → List Bytes → Bytes
  | arr, _, [] => arr
  | arr, first, name :: rest =>
    extendLoop ((if first then arr else arr ++ [44]) ++ jstr name) false rest

def extendWithStrings (encoded : Bytes) (names : List Bytes) : Bytes :=
  let first := encoded.length == 2
  let arr := encoded.take (encoded.length - 1)   -- pop
  extendLoop arr first names ++ [93]

/-! ## `write_observation`, `write_metric_value`, `write_metric` -/

/-- returns `(buf, counts, Ok?)` -/
def writeObservation (buf counts : PBuf) (o : Obs) (mult : Option Nat) : PBuf × PBuf × Bool :=
  let m := mult.getD 1
  match o with
  | .unsigned v => (buf.pushInt v, counts.pushInt m, true)
  | .floating (some t) => (buf.pushRaw (stripDotZero t), counts.pushInt m, true)
  | .floating none => (buf, counts, false)
  | .repeated (some t) occ => (buf.pushRaw (stripDotZero t), counts.pushInt (satMul occ m), true)
  | .repeated none _ => (buf, counts, false)

/-- the `for observation in second.into_iter().chain(distribution)` loop -/
def obsLoop (mult : Option Nat) : List Obs → PBuf → PBuf → Bool → PBuf × PBuf × Bool
  | [], buf, counts, wrote => (buf, counts, wrote)
  | o :: rest, buf, counts, wrote =>
    let bufLen := buf.buf.length
    let countsLen := counts.buf.length
    let buf1 := if wrote then buf.push 44 else buf
    let counts1 := if wrote then counts.push 44 else counts
    match writeObservation buf1 counts1 o mult with
    | (buf2, counts2, true) => obsLoop mult rest buf2 counts2 true
    | (buf2, counts2, false) => obsLoop mult rest (buf2.truncate bufLen) (counts2.truncate countsLen) wrote

/-- the `(first, second) =>` arm of `write_metric_value`: the `{"Values":[…],"Counts":[…]}` form.
`buf` already ends with `,"name":` -/
def writeValues (buf counts : PBuf) (first : Obs) (rest : List Obs) (mult : Option Nat) :
    PBuf × PBuf × Bool :=
  let buf := buf.pushRaw (bytes! "{\"Values\":[")
  let counts := counts.clear              -- "clear before to make sure there is no risk"
  let r1 := writeObservation buf counts first mult
  let r2 := obsLoop mult rest r1.1 r1.2.1 r1.2.2
  -- push the counts (prefix `],"Counts":[` included), clear them, close
  ((r2.1.pushRaw r2.2.1.buf).pushRaw (bytes! "]}"), r2.2.1.clear, r2.2.2)

/-- returns `(fields_buf, counts_buf, Ok?)`; `Ok? = false` is `Err(MetricSkipped)` -/
def writeMetricValue (name : Bytes) (fields counts : PBuf) (first : Obs) (rest : List Obs)
    (mult : Option Nat) : PBuf × PBuf × Bool :=
  let buf := ((fields.push 44).jsonString name).push 58
  match first, rest, mult with
  | .unsigned v, [], none => (buf.pushInt v, counts, true)
  | .floating (some t), [], none => (buf.pushRaw (stripDotZero t), counts, true)
  | .floating none, [], none => (buf, counts, false)
  | first, rest, mult => writeValues buf counts first rest mult

/-- the declaration pushed to `metrics_buf` -/
def metricDecl (name : Bytes) (unit : Option Bytes) (flags : Flags) : Bytes :=
  bytes! "{\"Name\":" ++ jstr name ++
    (match unit with
     | some u => bytes! ",\"Unit\":" ++ jstr u
     | none => []) ++
    (match flags with
     | .highRes => bytes! ",\"StorageResolution\":1}"
     | _ => [125])

/-- returns `(fields_buf, metrics_buf, counts_buf)` -/
def writeMetric (name : Bytes) (fields metrics counts : PBuf) (obs : List Obs) (unit : Option Bytes)
    (flags : Flags) (mult : Option Nat) : PBuf × PBuf × PBuf :=
  match obs with
  | [] => (fields, metrics, counts)
  | first :: rest =>
    let idx := fields.buf.length
    match writeMetricValue name fields counts first rest mult with
    | (fields', counts', false) => (fields'.truncate idx, metrics, counts')
    | (fields', counts', true) =>
      match flags with
      | .noMetric => (fields', metrics, counts')
      | _ =>
        let metrics := if !metrics.isEmpty then metrics.push 44 else metrics
        (fields', metrics.pushRaw (metricDecl name unit flags), counts')

/-! ## `MetricsForDimensionSet::new`, the dimension-set map -/

/-- lexicographic `<` on byte strings (`str::cmp`) -/
def bytesLt : Bytes → Bytes → Bool
  | [], [] => false
  | [], _ :: _ => true
  | _ :: _, [] => false
  | a :: as, b :: bs => if a < b then true else if b < a then false else bytesLt as bs

def pairLt (a b : Bytes × Bytes) : Bool :=
  if bytesLt a.1 b.1 then true else if bytesLt b.1 a.1 then false else bytesLt a.2 b.2

def insertSorted (x : Bytes × Bytes) : DimKey → DimKey
  | [] => [x]
  | y :: ys => if pairLt x y then x :: y :: ys else y :: insertSorted x ys

/-- `DimensionSetKey::from_iter`: collect and sort (stable; equal pairs are indistinguishable) -/
def dimKeyOf (dims : List (Bytes × Bytes)) : DimKey :=
  dims.foldl (fun acc x => insertSorted x acc) []

def dimFieldsPrefix (key : DimKey) : Bytes :=
  125 :: (key.map fun kv => 44 :: (jstr kv.1 ++ 58 :: jstr kv.2)).flatten

def DimEntry.new (ns0 : Bytes) (eachDims : List Bytes) (key : DimKey) (index : Nat) : DimEntry :=
  let dimsStr := sepBy [44] (eachDims.map fun d => extendWithStrings d (key.map (·.1)))
  let head := awsOpen ++ ns0
  { key := key
    fieldsBuf := PBuf.new (dimFieldsPrefix key)
    metricsBuf := PBuf.new (head ++ dimensionsAfterNs ++ dimsStr ++ metricsPrefix)
    afterNsIndex := head.length
    index := index }

def dimFind? (m : List DimEntry) (key : DimKey) : Option DimEntry :=
  match m with
  | [] => none
  | e :: rest => if e.key = key then some e else dimFind? rest key

def dimSet (m : List DimEntry) (e : DimEntry) : List DimEntry :=
  match m with
  | [] => [e]
  | e' :: rest => if e'.key = e.key then e :: rest else e' :: dimSet rest e

/-! ## `EntryWriter::{timestamp, config, value}` -/

def validateName (c : Consts) (w : Writer) (name : Bytes) : Writer × Bool :=
  if !c.validation.skipNames then
    if name.isEmpty then (w.err .nameEmpty, false)
    else if name = bytes! "_aws" then (w.err .nameAws, false)
    else (w, true)
  else (w, true)

/-- `ValueWriter::validate_string` -/
def validateString (w : Writer) (name : Bytes) : Writer :=
  match w.vmap.find? name with
  | some (.metric _) | some .string => w.err .duplicateField
  | some .unfoundDim => { w with vmap := w.vmap.set name .string }
  | none => { w with vmap := w.vmap.set name .string }

/-- the push of `ValueWriter::string` -/
def pushStringField (w : Writer) (name s : Bytes) : Writer :=
  { w with st := { w.st with
      stringFieldsBuf := (((w.st.stringFieldsBuf.push 44).jsonString name).push 58).jsonString s } }

/-- `ValueWriter::string` -/
def valueString (c : Consts) (w : Writer) (name s : Bytes) : Writer :=
  if !c.validation.skipUnique then validateString (pushStringField w name s) name
  else pushStringField w name s

/-- the uniqueness / dimension-field check of `ValueWriter::metric` -/
def validateMetric (w : Writer) (name : Bytes) (index : Nat) : Writer :=
  match w.vmap.find? name with
  | none => { w with vmap := w.vmap.set name (.metric [index]) }
  | some .unfoundDim => w.err .metricInDimField
  | some (.metric idxs) =>
    if idxs.contains index then w.err .duplicateField
    else { w with vmap := w.vmap.set name (.metric (index :: idxs)) }
  | some .string => w.err .duplicateField

def metricCheck (c : Consts) (w : Writer) (name : Bytes) (index : Nat) : Writer :=
  if !c.validation.skipUnique && !w.unroutable then validateMetric w name index else w

/-- `write_metric` on the global buffers -/
def metricGlobalWrite (mult : Option Nat) (w : Writer) (name : Bytes) (obs : List Obs)
    (unit : Option Bytes) (flags : Flags) : Writer :=
  let r := writeMetric name w.st.fieldsBuf w.st.metricsBuf w.st.countsBuf obs unit flags mult
  { w with st := { w.st with fieldsBuf := r.1, metricsBuf := r.2.1, countsBuf := r.2.2 } }

/-- `dimension_set_map.entry_ref(&key).or_insert_with(MetricsForDimensionSet::new …)` -/
def dimEntryFor (c : Consts) (w : Writer) (key : DimKey) : DimEntry :=
  match dimFind? w.st.dimMap key with
  | some e => e
  | none => DimEntry.new c.ns0 (w.entryDims.getD c.eachDims) key (w.st.dimMap.length + 1)

/-- `write_metric` on the buffers of a dimension-set entry -/
def metricSplitWrite (mult : Option Nat) (w : Writer) (entry : DimEntry) (name : Bytes) (obs : List Obs)
    (unit : Option Bytes) (flags : Flags) : Writer :=
  let r := writeMetric name entry.fieldsBuf entry.metricsBuf w.st.countsBuf obs unit flags mult
  { w with st := { w.st with
      dimMap := dimSet w.st.dimMap { entry with fieldsBuf := r.1, metricsBuf := r.2.1 }
      countsBuf := r.2.2 } }

def metricPreCheck (c : Consts) (w : Writer) (dims : List (Bytes × Bytes)) : Writer :=
  if !(c.allowIgnored || dims.isEmpty) && !w.allowSplit then w.err .perMetricDims else w

/-- `ValueWriter::metric` (after the per-metric-dimensions check) -/
def valueMetricCore (c : Consts) (mult : Option Nat) (w : Writer) (name : Bytes) (obs : List Obs)
    (unit : Option Bytes) (dims : List (Bytes × Bytes)) (flags : Flags) : Writer :=
  if c.allowIgnored || dims.isEmpty then
    metricGlobalWrite mult (metricCheck c w name 0) name obs unit flags
  else
    let entry := dimEntryFor c w (dimKeyOf dims)
    metricSplitWrite mult (metricCheck c w name entry.index) entry name obs unit flags

/-- `ValueWriter::metric` -/
def valueMetric (c : Consts) (mult : Option Nat) (w : Writer) (name : Bytes) (obs : List Obs)
    (unit : Option Bytes) (dims : List (Bytes × Bytes)) (flags : Flags) : Writer :=
  valueMetricCore c mult (metricPreCheck c w dims) name obs unit dims flags

/-- `EntryWriter::value` -/
def value (c : Consts) (mult : Option Nat) (w : Writer) (name : Bytes) (v : Val) : Writer :=
  match validateName c w name with
  | (w, false) => w
  | (w, true) =>
    match v with
    | .str s => valueString c w name s
    | .metric obs unit dims flags => valueMetric c mult w name obs unit dims flags
    | .error => w.err .valueError
    | .nothing => w

/-- the validation-map sweep of `config(EntryDimensions)` -/
def entryDimsValidate (c : Consts) (w : Writer) (dim : Bytes) : Writer :=
  match w.vmap.find? dim with
  | some .unfoundDim | some .string => w
  | some (.metric _) => if !c.validation.skipUnique then w.err .duplicateField else w
  | none => { w with vmap := w.vmap.set dim .unfoundDim }

/-- `EntryWriter::config` for `EntryDimensions` -/
def configEntryDims (c : Consts) (w : Writer) (sets : List (List Bytes)) : Writer :=
  if !w.st.dimMap.isEmpty then w.err .dimsLate
  else if w.entryDims.isSome then w.err .dimsTwice
  else if sets.isEmpty then w.err .dimsEmpty
  else
    let w := if !c.validation.skipUnique || !c.validation.skipDimsExist then
        sets.flatten.foldl (entryDimsValidate c) w
      else w
    let dims := c.eachDims.flatMap fun d => sets.map fun e => extendWithStrings d e
    { w with entryDims := some dims }

def applyItem (c : Consts) (mult : Option Nat) (w : Writer) (it : Item) : Writer :=
  match it with
  | .timestamp t =>
    let w' := { w with timestamp := some t }
    if w.timestamp.isSome then w'.err .multipleTimestamps else w'
  | .allowSplit => { w with allowSplit := true }
  | .otherCfg => w
  | .allowUnroutable => { w with unroutable := true }
  | .entryDims sets => configEntryDims c w sets
  | .value name v => value c mult w name v

/-! ## The writer and `finish` -/

/-- the `io::Write` passed to `format`: `budget = none` never fails; `some b` accepts `b` more
bytes and then fails hard. `write_all_vectored` itself is modelled in `Model/Vectored.lean`;
here only its net effect (theorem `c16_prefix`): a prefix is accepted, `Ok` iff everything. -/
structure Out where
  budget : Option Nat
  bytes : Bytes
  failed : Bool
  deriving Repr, DecidableEq

def Out.writeAll (o : Out) (bufs : List Bytes) : Out :=
  let line := bufs.flatten
  match o.budget with
  | none => { o with bytes := o.bytes ++ line }
  | some b =>
    if line.length ≤ b then { o with budget := some (b - line.length), bytes := o.bytes ++ line }
    else { budget := some 0, bytes := o.bytes ++ line.take b, failed := true }

/-- `unix.as_millis()` of `timestamp.duration_since(UNIX_EPOCH).unwrap_or_default()` -/
def timestampMillis (ts : Option Int) (nowMs : Nat) : Nat :=
  match ts with
  | none => nowMs
  | some us => if us < 0 then 0 else us.toNat / 1000

/-- the per-namespace replication loop on a dimension-set entry's `metrics_buf` -/
def replicateNsEntry (moreNs : List Bytes) (afterNs metricsLen : Nat) (mb : PBuf) : PBuf :=
  moreNs.foldl (fun mb ns =>
    ((mb.pushRaw (bytes! ",{\"Namespace\":")).pushRaw ns).extendFromWithin afterNs metricsLen) mb

/-- what the loop body does to `entry.metrics_buf`: close the directive, replicate it for the other
namespaces, append the log group and the timestamp -/
def finishEntryMetrics (c : Consts) (tsStr : Bytes) (e : DimEntry) : PBuf :=
  let mb := e.metricsBuf.pushRaw (bytes! "]}")
  let mb := replicateNsEntry c.moreNs e.afterNsIndex mb.buf.length mb
  (mb.pushRaw c.logGroupTs).pushRaw tsStr

/-- the body of `for entry in dimension_set_map.values_mut()`; stops at the first I/O error -/
def finishDims (c : Consts) (tsStr : Bytes) (stringFields : Bytes) :
    List DimEntry → Out → Bool → List DimEntry × Out × Bool
  | [], out, any => ([], out, any)
  | e :: rest, out, any =>
    let mb := finishEntryMetrics c tsStr e
    let e' := { e with metricsBuf := mb }
    if e.fieldsBuf.isEmpty then
      -- "skip metric line with no metrics"
      let r := finishDims c tsStr stringFields rest out any
      (e' :: r.1, r.2.1, r.2.2)
    else
      let out' := out.writeAll [mb.buf, e.fieldsBuf.buf, stringFields]
      if out'.failed then (e' :: rest, out', true)
      else
        let r := finishDims c tsStr stringFields rest out' true
        (e' :: r.1, r.2.1, r.2.2)

def pushDimensions : List Bytes → Bool → PBuf → PBuf
  | [], _, b => b
  | d :: rest, first, b => pushDimensions rest false ((if first then b else b.push 44).pushRaw d)

/-- the per-namespace replication loop of the global record -/
def replicateNsGlobal (moreNs : List Bytes) (dimsTail : Bytes) (metricsLen : Nat) (mb : PBuf) : PBuf :=
  moreNs.foldl (fun mb ns =>
    (((mb.pushRaw (bytes! ",{\"Namespace\":")).pushRaw ns).pushRaw dimsTail).extendFromWithin 0 metricsLen) mb

inductive Result where
  | ok
  | validation (errs : List ErrKind)
  | io
  deriving Repr, DecidableEq

/-- the part of `finish` before `self.error.build()?`: the missing-dimension sweep -/
def finishErrors (c : Consts) (w : Writer) : List ErrKind :=
  if !c.validation.skipDimsExist && !w.unroutable then
    w.errors ++ (w.vmap.filter (fun kv => kv.2 = .unfoundDim)).map (fun _ => ErrKind.missingDimension)
  else w.errors

/-- the "no-dimensions" record: `dimensions_buf ++ metrics_buf ++ decl_buf ++ fields_buf ++ string_fields_buf` -/
def finishGlobal (c : Consts) (st : State) (dims : List Bytes) (out : Out) : State × Result × Out :=
  let db := pushDimensions dims true st.dimensionsBuf.clear
  let mb := st.metricsBuf.pushRaw (bytes! "]}")
  let metricsLen := mb.buf.length
  let mb := replicateNsGlobal c.moreNs (db.buf.drop c.afterNsIndex) metricsLen mb
  let st := { st with dimensionsBuf := db, metricsBuf := mb }
  let out := out.writeAll [db.buf, mb.buf, st.declBuf.buf, st.fieldsBuf.buf, st.stringFieldsBuf.buf]
  (st, if out.failed then .io else .ok, out)

/-- the part of `finish` after `self.error.build()?` -/
def finishWrite (c : Consts) (st : State) (dims : List Bytes) (tsStr : Bytes) (out : Out) :
    State × Result × Out :=
  let st := { st with declBuf := (st.declBuf.pushRaw c.logGroupTs).pushRaw tsStr }
  let st := { st with stringFieldsBuf := st.stringFieldsBuf.pushRaw (bytes! "}\n") }
  match finishDims c tsStr st.stringFieldsBuf.buf st.dimMap out false with
  | (dimMap', out, emittedAny) =>
    let st := { st with dimMap := dimMap' }
    if out.failed then (st, .io, out)
    else if !emittedAny || !st.fieldsBuf.isEmpty then
      finishGlobal c st dims out
    else (st, .ok, out)

/-- `EntryWriter::finish` -/
def finish (c : Consts) (w : Writer) (nowMs : Nat) (out : Out) : State × Result × Out :=
  let errors := finishErrors c w
  let tsStr := natDigits (timestampMillis w.timestamp nowMs)
  if !errors.isEmpty then (w.st, .validation errors, out)
  else finishWrite c w.st (w.entryDims.getD c.eachDims) tsStr out

/-! ## `format_with_multiplicity`, `Format::format`, `SampledFormat::format_with_sample_rate` -/

/-- the clears at the start of `format_with_multiplicity` (`counts_buf` and `dimensions_buf` are
NOT cleared here) -/
def State.startCall (s : State) : State :=
  { s with
    stringFieldsBuf := s.stringFieldsBuf.clear
    fieldsBuf := s.fieldsBuf.clear
    metricsBuf := s.metricsBuf.clear
    declBuf := s.declBuf.clear
    dimMap := [] }

def Writer.start (c : Consts) (s : State) : Writer where
  st := s.startCall
  vmap := if c.validation.skipDimsExist then [] else c.vmapBase
  entryDims := none
  timestamp := none
  errors := []
  allowSplit := false
  unroutable := false

/-- one call of the formatter -/
structure Call where
  items : List Item
  /-- `none`: `Format::format`; `some n`: `format_with_sample_rate` chose multiplicity `n` -/
  mult : Option Nat
  /-- `format_with_sample_rate` with `rate <= 0` or NaN -/
  badRate : Bool
  nowMs : Nat
  /-- bytes the writer accepts before failing hard; `none`: never fails -/
  ioBudget : Option Nat
  deriving Repr, DecidableEq

def formatWithMultiplicity (c : Consts) (s : State) (call : Call) : State × Result × Out :=
  let w := call.items.foldl (applyItem c call.mult) (Writer.start c s)
  finish c w call.nowMs ⟨call.ioBudget, [], false⟩

def format (c : Consts) (s : State) (call : Call) : State × Result × Out :=
  if call.badRate then (s, .validation [.badRate], ⟨call.ioBudget, [], false⟩)
  else formatWithMultiplicity c s call

/-! ## Obtaining a formatter from another one

`#[derive(Clone)]` on `Emf`, `State`, `MetricsForDimensionSet` and `PrefixedStringBuf` copies every
field; `Emf::with_sampling(_and_rng)` moves the `Emf` into a `SampledEmf`; the `FormatExt` wrappers
(`merge_globals`, `merge_global_dimensions`, `output_to`) move it into a struct that only forwards
`format`. None of them touches the state: the transcription of the derived `Clone` below is the
identity (`State.clone_eq`). -/

/-- derived `Clone` of `PrefixedStringBuf`: both fields copied -/
def PBuf.clone (b : PBuf) : PBuf := { prefixLen := b.prefixLen, buf := b.buf }

def DimEntry.clone (e : DimEntry) : DimEntry :=
  { key := e.key, fieldsBuf := e.fieldsBuf.clone, metricsBuf := e.metricsBuf.clone,
    afterNsIndex := e.afterNsIndex, index := e.index }

/-- derived `Clone` of `State` (the part of `Emf::clone` that is not constant) -/
def State.clone (s : State) : State where
  dimMap := s.dimMap.map DimEntry.clone
  stringFieldsBuf := s.stringFieldsBuf.clone
  fieldsBuf := s.fieldsBuf.clone
  metricsBuf := s.metricsBuf.clone
  dimensionsBuf := s.dimensionsBuf.clone
  countsBuf := s.countsBuf.clone
  declBuf := s.declBuf.clone

/-- a WRONG `Clone` (kept as a counter-example, see `Props/C14.lean`): rebuilding each buffer with
`from_prefix(whole buffer)` turns the leftovers of earlier calls into permanent prefix -/
def PBuf.cloneAsPrefix (b : PBuf) : PBuf := PBuf.new b.buf

def State.cloneAsPrefix (s : State) : State where
  dimMap := s.dimMap
  stringFieldsBuf := s.stringFieldsBuf.cloneAsPrefix
  fieldsBuf := s.fieldsBuf.cloneAsPrefix
  metricsBuf := s.metricsBuf.cloneAsPrefix
  dimensionsBuf := s.dimensionsBuf.cloneAsPrefix
  countsBuf := s.countsBuf.cloneAsPrefix
  declBuf := s.declBuf.cloneAsPrefix

/-! ## An entry that panics while it is being written

`Entry::write` / `Value::write` / the observation and dimension iterators are user code: a panic
there unwinds out of `format` (no `finish`, nothing written) and, when the caller contains it
(`catch_unwind`), the same formatter is used again. What persists is the `State` as the completed
writer calls and the interrupted one left it. -/

/-- `write_metric` interrupted by the distribution iterator panicking after it had yielded `yielded`:
`[]`: in the first `next()` (nothing written yet); `[_]`: in the `distribution.next()` of
`match (first, distribution.next())` (the name is written); otherwise inside the `Values` loop -/
def partialWriteMetric (name : Bytes) (fields counts : PBuf) (yielded : List Obs) (mult : Option Nat) :
    PBuf × PBuf :=
  match yielded with
  | [] => (fields, counts)
  | [_] => (((fields.push 44).jsonString name).push 58, counts)
  | first :: rest =>
    let buf := (((fields.push 44).jsonString name).push 58).pushRaw (bytes! "{\"Values\":[")
    let r1 := writeObservation buf counts.clear first mult
    let r2 := obsLoop mult rest r1.1 r1.2.1 r1.2.2
    (r2.1, r2.2.1)

/-- an aborted call: the writer calls completed before the panic and, when the panic came out of the
observation iterator of a `value(name, metric)` call, that call with the observations yielded so far
(a panic in `Entry::write` between two fields, in `Value::write` or in a dimension iterator leaves
nothing beyond the completed calls) -/
structure Aborted where
  items : List Item
  partialMetric : Option (Bytes × List Obs × List (Bytes × Bytes))
  mult : Option Nat
  deriving Repr, DecidableEq

/-- the state the formatter is left in by an aborted call -/
def abortedCall (c : Consts) (s : State) (a : Aborted) : State :=
  let w := a.items.foldl (applyItem c a.mult) (Writer.start c s)
  match a.partialMetric with
  | none => w.st
  | some (name, yielded, dims) =>
    let w1 := metricPreCheck c (validateName c w name).1 dims
    if c.allowIgnored || dims.isEmpty then
      let w2 := metricCheck c w1 name 0
      let r := partialWriteMetric name w2.st.fieldsBuf w2.st.countsBuf yielded a.mult
      { w2.st with fieldsBuf := r.1, countsBuf := r.2 }
    else
      let entry := dimEntryFor c w1 (dimKeyOf dims)
      let w2 := metricCheck c w1 name entry.index
      let r := partialWriteMetric name entry.fieldsBuf w2.st.countsBuf yielded a.mult
      { w2.st with dimMap := dimSet w2.st.dimMap { entry with fieldsBuf := r.1 }, countsBuf := r.2 }

/-- a pool of formatters (the original and its clones); `call k` formats on formatter `k`,
`clone k` appends a clone of formatter `k` to the pool, `abort k` is an entry that panics while formatter
`k` formats it. Operations naming a formatter that does not
exist are ignored. -/
inductive PoolOp where
  | call (k : Nat) (call : Call)
  | clone (k : Nat)
  /-- an entry formatted on formatter `k` panics mid-way (contained by the caller) -/
  | abort (k : Nat) (a : Aborted)
  deriving Repr

def runPool (c : Consts) : List State → List PoolOp → List (Result × Out)
  | _, [] => []
  | pool, .call k call :: rest =>
    match pool[k]? with
    | none => runPool c pool rest
    | some s => (format c s call).2 :: runPool c (pool.set k (format c s call).1) rest
  | pool, .clone k :: rest =>
    match pool[k]? with
    | none => runPool c pool rest
    | some s => runPool c (pool ++ [s.clone]) rest
  | pool, .abort k a :: rest =>
    match pool[k]? with
    | none => runPool c pool rest
    | some s => runPool c (pool.set k (abortedCall c s a)) rest

end Emf
