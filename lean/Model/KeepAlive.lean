/-
Model of `metrique/src/keep_alive.rs` (Parent / Guard / DropAll), of the append-on-drop wrapper in
`metrique/src/lib.rs` (`AppendAndCloseOnDrop`, `handle()`, `flush_guard()`, `force_flush_guard()`,
`Drop for AppendAndCloseOnDropInner`) and of `metrique/src/slot.rs` (Slot / LazySlot / SlotGuard /
`wait_for_data`), at the level of `Arc`/`Weak`/oneshot operations.

One `St` describes one unit-of-work entry.  The real objects and what stands for them:

* value cell  `Arc<UnsafeCell<AppendAndCloseOnDropInner>>` : its strong count `vS` (initially 2: the
  `Parent.value` field and the `guard_value` captured by the guard closure).  `vS → 0` runs
  `Drop for AppendAndCloseOnDropInner` = close every field (one `closeSlot` step per slot, in field
  order), then `sink.append` (`emit`).
* guard cell  `Arc<Mutex<Option<Box<dyn FnOnce()>>>>` : strong count `gS` (the `Parent.guard` field,
  one per live `FlushGuard`, one per `DropAll::drop` between its `upgrade` and the end of the
  function), `closure` (the `Option` is `Some`), `lock` (the mutex is held).  The weak count is not
  modelled: it only delays freeing the allocation.
* owner: `hS` live owning references (1 = the `AppendAndCloseOnDrop` itself or one handle; handle
  clones add).  The reference that brings `hS` to 0 runs `Parent`'s field drops: `value` first
  (`pDecV`), then `guard` (`pDecG`) — declaration order in `struct Parent`.
* flush guards: `fgLive` (each is one strong reference on the guard cell); the ones stored in a
  `SlotGuard` (`OnParentDrop::Wait`) are counted by `held`.
* force-flush guards (`DropAll`, a `Weak`): `dgLive`; `DropAll::drop` =
  `dgBegin` (upgrade) ; `dgLock` (lock + `take`) ; `lRun` (run the closure = drop `guard_value`,
  still under the lock) ; `lUnlock` ; `dgDec` (drop the upgraded `Arc`).
* the thread that brings `gS` to 0 drops the mutex contents (`innerDrop`): if the closure is still
  there it is dropped, which drops `guard_value`.

Threads are anonymous: a state records *how many* actors are at each program point (`nUp`, `nDec`)
or the program counter of an actor of which there is at most one (`pPc`: the thread dropping the
last owning reference, `iPc`: the thread that saw `gS → 0`, `lPc`: the holder of the mutex).  Every
`Ev` is one atomic micro-step of one thread; `step` is partial (`none` = not enabled); schedules are
arbitrary sequences of events.

Imports nothing (the driver links this file).
-/
namespace KeepAlive

/-- apply `f` to the `i`-th element -/
def modifyAt {α : Type} (f : α → α) : List α → Nat → List α
  | [], _ => []
  | a :: r, 0 => f a :: r
  | a :: r, i + 1 => a :: modifyAt f r i

/-- the thread that dropped the last owning reference: `Parent`'s field drops -/
inductive PPc where
  | idle   -- some owning reference is still alive
  | decV   -- about to drop `Parent.value`
  | app    -- `value` count reached 0 here: closing + appending
  | decG   -- about to drop `Parent.guard`
  | done
  deriving DecidableEq, Repr

/-- the thread that brought the guard cell's strong count to 0 -/
inductive IPc where
  | idle | pending | app | done
  deriving DecidableEq, Repr

/-- the holder of the guard cell's mutex (inside `DropAll::drop`) -/
inductive LPc where
  | free
  | run      -- took `Some(f)`, about to call it (point 11)
  | app      -- `f()` brought the value count to 0: closing + appending, still under the lock
  | unlock   -- about to release the mutex
  deriving DecidableEq, Repr

inductive Kind where
  | parent | fg | dg
  deriving DecidableEq, Repr

inductive Mode where
  | discard | wait
  deriving DecidableEq, Repr

/-- life of a `SlotGuard` -/
inductive GPc where
  | none   -- not handed out yet, or completely dropped
  | live
  | sent   -- `Drop::drop` body done (value sent, point 13); fields (`parent_drop_mode`) not yet dropped
  deriving DecidableEq, Repr

structure Slot where
  /-- `LazySlot` (the inner `Slot` is created by `open`) -/
  lazy : Bool
  /-- value given to `Slot::new` (eager slots) -/
  init : Nat := 0
  /-- `tx` has been taken / the lazy slot has been created -/
  opened : Bool := false
  g : GPc := .none
  /-- the value behind the `SlotGuard` -/
  gval : Nat := 0
  mode : Mode := .discard
  /-- oneshot channel: a value has been sent and not yet received -/
  cell : Option Nat := none
  /-- `Slot.rx` is `Some` (receiver alive) -/
  rx : Bool := true
  data : Option Nat := none
  /-- result of `Slot::close` once the owning entry has closed this field -/
  closedAs : Option (Option Nat) := none
  /-- ghost: the guard's send happened before this slot was closed -/
  sentOk : Bool := false
  /-- ghost, only set by the extended model (`Model/KeepAliveX.lean`): the guard's `value.close()` panicked inside
  `SlotGuard::drop`, the sender went away without sending -/
  failed : Bool := false
  deriving DecidableEq, Repr

/-- one appended entry: plain field, counter field, closed slot fields -/
structure Appended where
  plain : Nat
  hits : Nat
  slots : List (Option Nat)
  deriving DecidableEq, Repr

structure St where
  hS : Nat := 1
  isHandle : Bool := false
  /-- a pending `wait_for_data` future on this slot mutably borrows the owner -/
  borrowed : Option Nat := none
  plain : Nat := 0
  hits : Nat := 0
  vS : Nat := 2
  gS : Nat := 1
  closure : Bool := true
  lock : Bool := false
  fgLive : Nat := 0
  dgLive : Nat := 0
  pPc : PPc := .idle
  iPc : IPc := .idle
  iBy : Kind := .parent
  nUp : Nat := 0
  lPc : LPc := .free
  nDec : Nat := 0
  slots : List Slot := []
  appended : List Appended := []
  -- ghost
  /-- contents of the entry when the last owning reference began to drop -/
  atDrop : Option (Nat × Nat) := none
  dgBegun : Nat := 0
  dgDone : Nat := 0
  deriving DecidableEq, Repr

inductive Ev where
  -- the owner's thread(s)
  | newFG | newDG | mutate (v : Nat) | hit (v : Nat) | toHandle | cloneHandle | refDrop
  | open (i : Nat) (m : Mode) (v0 : Nat) | waitBegin (i : Nat) | waitPoll | waitCancel
  -- holders of free flush guards / slot guards / force guards
  | fgDrop | delay (i : Nat) | gmut (i : Nat) (v : Nat) | gSend (i : Nat) | gRelease (i : Nat)
  | dgBegin
  -- continuation micro-steps of drops in flight
  | pDecV | pDecG | innerDrop | dgLock | lRun | lUnlock | dgDec | closeSlot | emit
  deriving DecidableEq, Repr

/-- number of flush guards stored inside slot guards -/
def heldBy (sl : Slot) : Nat := if sl.g ≠ .none ∧ sl.mode = .wait then 1 else 0

def held : List Slot → Nat
  | [] => 0
  | sl :: r => heldBy sl + held r

/-- the `&self` / `&mut self` of the `AppendAndCloseOnDrop` is available -/
def ownerUsable (s : St) : Bool := s.hS > 0 && !s.isHandle && s.borrowed.isNone

def finishInner (s : St) : St :=
  { s with iPc := .done, dgDone := if s.iBy = .dg then s.dgDone + 1 else s.dgDone }

/-- an actor of kind `k` drops one strong reference on the guard cell; it is then finished unless
it was the last reference (then it goes on as the `iPc` thread) -/
def relG (k : Kind) (s : St) : St :=
  if s.gS - 1 = 0 then { s with gS := 0, iPc := .pending, iBy := k }
  else { s with gS := s.gS - 1, dgDone := if k = .dg then s.dgDone + 1 else s.dgDone }

def dropFG (s : St) : St := relG .fg { s with fgLive := s.fgLive - 1 }

/-- some thread is inside `Drop for AppendAndCloseOnDropInner` -/
def anyApp (s : St) : Bool := s.pPc = .app || s.iPc = .app || s.lPc = .app

def senderAlive (sl : Slot) : Bool := !sl.opened || sl.g = .live

/-- one poll of `wait_for_data`; `true` = `Ready` -/
def poll (sl : Slot) : Slot × Bool :=
  if sl.rx then
    match sl.cell with
    | some v => ({ sl with data := some v, cell := none, rx := false }, true)
    | none => if senderAlive sl then (sl, false) else ({ sl with data := none, rx := false }, true)
  else (sl, true)

/-- `Slot::close` / `LazySlot::close` -/
def closeVal (sl : Slot) : Option Nat :=
  match sl.data with
  | some d => some d
  | none => if sl.rx then sl.cell else none

def closeSlot1 (sl : Slot) : Slot :=
  { sl with closedAs := some (closeVal sl), rx := false, cell := none, data := none }

/-- close the first field that is not closed yet -/
def closeFirst : List Slot → Option (List Slot)
  | [] => none
  | sl :: r => if sl.closedAs.isNone then some (closeSlot1 sl :: r) else (closeFirst r).map (sl :: ·)

def allClosed (l : List Slot) : Bool := l.all (·.closedAs.isSome)

def closedVals (l : List Slot) : List (Option Nat) := l.map fun sl => sl.closedAs.getD none

def setSlot (s : St) (i : Nat) (f : Slot → Slot) : St := { s with slots := modifyAt f s.slots i }

def step (s : St) : Ev → Option St
  | .newFG => if ownerUsable s then some { s with gS := s.gS + 1, fgLive := s.fgLive + 1 } else none
  | .newDG => if ownerUsable s then some { s with dgLive := s.dgLive + 1 } else none
  | .mutate v => if ownerUsable s then some { s with plain := v } else none
  | .hit v => if s.hS > 0 ∧ s.borrowed.isNone then some { s with hits := v } else none
  | .toHandle => if ownerUsable s then some { s with isHandle := true } else none
  | .cloneHandle => if s.hS > 0 ∧ s.isHandle then some { s with hS := s.hS + 1 } else none
  | .refDrop =>
    if s.hS > 0 ∧ s.borrowed.isNone then
      if s.hS = 1 then some { s with hS := 0, pPc := .decV, atDrop := some (s.plain, s.hits) }
      else some { s with hS := s.hS - 1 }
    else none
  | .open i m v0 =>
    match s.slots[i]? with
    | none => none
    | some sl =>
      if ownerUsable s ∧ (m = .wait → held s.slots < s.fgLive) then
        if sl.opened then
          -- `open` returns `None`; its `mode` argument (and the flush guard in it) is dropped
          some (if m = .wait then dropFG s else s)
        else
          some (setSlot s i fun sl => { sl with opened := true, g := .live, mode := m,
                                                 gval := if sl.lazy then v0 else sl.init })
      else none
  | .waitBegin i =>
    match s.slots[i]? with
    | none => none
    | some sl =>
      if ownerUsable s ∧ sl.lazy = false then
        let r := poll sl
        some { setSlot s i (fun _ => r.1) with borrowed := if r.2 then none else some i }
      else none
  | .waitPoll =>
    match s.borrowed with
    | none => none
    | some i =>
      match s.slots[i]? with
      | none => none
      | some sl =>
        let r := poll sl
        some { setSlot s i (fun _ => r.1) with borrowed := if r.2 then none else some i }
  | .waitCancel => if s.borrowed.isSome then some { s with borrowed := none } else none
  | .fgDrop => if held s.slots < s.fgLive then some (dropFG s) else none
  | .delay i =>
    match s.slots[i]? with
    | none => none
    | some sl =>
      if sl.g = .live ∧ held s.slots < s.fgLive then
        -- the old `parent_drop_mode` is dropped by the assignment
        if sl.mode = .wait then some (dropFG s) else some (setSlot s i fun sl => { sl with mode := .wait })
      else none
  | .gmut i v =>
    match s.slots[i]? with
    | none => none
    | some sl => if sl.g = .live then some (setSlot s i fun sl => { sl with gval := v }) else none
  | .gSend i =>
    match s.slots[i]? with
    | none => none
    | some sl =>
      if sl.g = .live then
        some (setSlot s i fun sl => { sl with g := .sent, cell := if sl.rx then some sl.gval else none,
                                               sentOk := sl.closedAs.isNone })
      else none
  | .gRelease i =>
    match s.slots[i]? with
    | none => none
    | some sl =>
      if sl.g = .sent then
        let s' := setSlot s i fun sl => { sl with g := .none }
        some (if sl.mode = .wait then dropFG s' else s')
      else none
  | .dgBegin =>
    if s.dgLive > 0 then
      let s := { s with dgLive := s.dgLive - 1, dgBegun := s.dgBegun + 1 }
      if s.gS = 0 then some { s with dgDone := s.dgDone + 1 }      -- `upgrade()` fails
      else some { s with gS := s.gS + 1, nUp := s.nUp + 1 }
    else none
  | .dgLock =>
    if s.nUp > 0 ∧ s.lock = false then
      if s.closure then some { s with nUp := s.nUp - 1, lock := true, closure := false, lPc := .run }
      else some { s with nUp := s.nUp - 1, lock := true, lPc := .unlock }
    else none
  | .lRun =>
    if s.lPc = .run then
      some { s with vS := s.vS - 1, lPc := if s.vS - 1 = 0 then .app else .unlock }
    else none
  | .lUnlock =>
    if s.lPc = .unlock then some { s with lock := false, lPc := .free, nDec := s.nDec + 1 } else none
  | .dgDec => if s.nDec > 0 then some (relG .dg { s with nDec := s.nDec - 1 }) else none
  | .pDecV =>
    if s.pPc = .decV then
      some { s with vS := s.vS - 1, pPc := if s.vS - 1 = 0 then .app else .decG }
    else none
  | .pDecG => if s.pPc = .decG then some (relG .parent { s with pPc := .done }) else none
  | .innerDrop =>
    if s.iPc = .pending then
      if s.closure then
        if s.vS - 1 = 0 then some { s with closure := false, vS := 0, iPc := .app }
        else some (finishInner { s with closure := false, vS := s.vS - 1 })
      else some (finishInner s)
    else none
  | .closeSlot =>
    if anyApp s then
      match closeFirst s.slots with
      | some l => some { s with slots := l }
      | none => none
    else none
  | .emit =>
    if anyApp s ∧ allClosed s.slots then
      let s := { s with appended := s.appended ++ [⟨s.plain, s.hits, closedVals s.slots⟩] }
      let s := if s.pPc = .app then { s with pPc := .decG } else s
      let s := if s.lPc = .app then { s with lPc := .unlock } else s
      some (if s.iPc = .app then finishInner s else s)
    else none

/-- run a schedule -/
def run (s : St) : List Ev → Option St
  | [] => some s
  | e :: es => match step s e with
    | none => none
    | some s' => run s' es

def init (slots : List Slot) : St := { slots := slots }

/-- the continuation micro-steps (everything a thread does *inside* a drop it has begun) -/
def internal : List Ev := [.closeSlot, .emit, .pDecV, .pDecG, .innerDrop, .dgLock, .lRun, .lUnlock, .dgDec]

def firstEnabled (s : St) : List Ev → Option St
  | [] => none
  | e :: es => match step s e with
    | some s' => some s'
    | none => firstEnabled s es

/-- run continuation steps until none is enabled (single-threaded execution: every drop runs to
completion before the next operation) -/
def drain : Nat → St → St
  | 0, s => s
  | n + 1, s => match firstEnabled s internal with
    | some s' => drain n s'
    | none => s

/-- some drop has begun and not completed -/
def inFlight (s : St) : Bool :=
  (s.pPc ≠ .idle && s.pPc ≠ .done) || (s.iPc ≠ .idle && s.iPc ≠ .done) || s.nUp > 0 || s.lPc ≠ .free
    || s.nDec > 0 || s.slots.any (·.g = .sent)

end KeepAlive
