/-
Vocabulary of the unit table of the metrics.rs bridge (`metrique-metricsrs/src/unit.rs`): the units of `metrics` 0.24,
the units of `metrique-writer-core`, and — hand-written, independent of the table — the physical quantity each one
denotes. `Generated/MetricsRs.lean` (regenerated from the Rust source on every check) states the table in these
terms; `Props/C20.lean` proves that the table preserves the denoted quantity.
-/
namespace MetricsRs

/-- `metrics::Unit` (0.24) -/
inductive MUnit where
  | Count | Percent | Seconds | Milliseconds | Microseconds | Nanoseconds
  | Tebibytes | Gibibytes | Mebibytes | Kibibytes | Bytes
  | TerabitsPerSecond | GigabitsPerSecond | MegabitsPerSecond | KilobitsPerSecond | BitsPerSecond
  | CountPerSecond
  deriving DecidableEq, Repr

/-- `metrique_writer_core::unit::NegativeScale` -/
inductive NegativeScale where
  | Micro | Milli | One
  deriving DecidableEq, Repr

/-- `metrique_writer_core::unit::PositiveScale` -/
inductive PositiveScale where
  | One | Kilo | Mega | Giga | Tera
  deriving DecidableEq, Repr

/-- `metrique_writer_core::Unit` -/
inductive QUnit where
  | None | Count | Percent
  | Second (s : NegativeScale)
  | Byte (s : PositiveScale)
  | BytePerSecond (s : PositiveScale)
  | Bit (s : PositiveScale)
  | BitPerSecond (s : PositiveScale)
  | Custom (name : List Char)
  deriving DecidableEq, Repr

inductive Dim where
  | count | percent | time | bytes | bits | byteRate | bitRate | countRate
  deriving DecidableEq, Repr

/-- a quantity: `num/den` base units (seconds, bytes, bits, bytes/s, bits/s, 1, %, 1/s) -/
structure Quantity where
  dim : Dim
  num : Nat
  den : Nat
  deriving DecidableEq, Repr

/-- what a `metrics::Unit` means (its documentation: SI decimal prefixes for time and bit rates, binary prefixes
for the `*bibytes`) -/
def MUnit.denote : MUnit → Quantity
  | .Count => ⟨.count, 1, 1⟩
  | .Percent => ⟨.percent, 1, 1⟩
  | .Seconds => ⟨.time, 1, 1⟩
  | .Milliseconds => ⟨.time, 1, 1000⟩
  | .Microseconds => ⟨.time, 1, 1000000⟩
  | .Nanoseconds => ⟨.time, 1, 1000000000⟩
  | .Tebibytes => ⟨.bytes, 1099511627776, 1⟩
  | .Gibibytes => ⟨.bytes, 1073741824, 1⟩
  | .Mebibytes => ⟨.bytes, 1048576, 1⟩
  | .Kibibytes => ⟨.bytes, 1024, 1⟩
  | .Bytes => ⟨.bytes, 1, 1⟩
  | .TerabitsPerSecond => ⟨.bitRate, 1000000000000, 1⟩
  | .GigabitsPerSecond => ⟨.bitRate, 1000000000, 1⟩
  | .MegabitsPerSecond => ⟨.bitRate, 1000000, 1⟩
  | .KilobitsPerSecond => ⟨.bitRate, 1000, 1⟩
  | .BitsPerSecond => ⟨.bitRate, 1, 1⟩
  | .CountPerSecond => ⟨.countRate, 1, 1⟩

def NegativeScale.den : NegativeScale → Nat
  | .Micro => 1000000 | .Milli => 1000 | .One => 1

def PositiveScale.num : PositiveScale → Nat
  | .One => 1 | .Kilo => 1000 | .Mega => 1000000 | .Giga => 1000000000 | .Tera => 1000000000000

/-- custom unit names a reader of the output can interpret (the CloudWatch-style spelling of the quantity) -/
def customDenote (name : List Char) : Option Quantity :=
  if name = ['N','a','n','o','s','e','c','o','n','d','s'] then some ⟨.time, 1, 1000000000⟩
  else if name = ['T','e','b','i','b','y','t','e','s'] then some ⟨.bytes, 1099511627776, 1⟩
  else if name = ['G','i','b','i','b','y','t','e','s'] then some ⟨.bytes, 1073741824, 1⟩
  else if name = ['M','e','b','i','b','y','t','e','s'] then some ⟨.bytes, 1048576, 1⟩
  else if name = ['K','i','b','i','b','y','t','e','s'] then some ⟨.bytes, 1024, 1⟩
  else if name = ['C','o','u','n','t','/','S','e','c','o','n','d'] then some ⟨.countRate, 1, 1⟩
  else none

/-- what a metrique unit means (`metrique-writer-core/src/unit.rs`: decimal scales); `none` for `Unit::None` and
for custom names without a stated meaning -/
def QUnit.denote : QUnit → Option Quantity
  | .None => none
  | .Count => some ⟨.count, 1, 1⟩
  | .Percent => some ⟨.percent, 1, 1⟩
  | .Second s => some ⟨.time, 1, s.den⟩
  | .Byte s => some ⟨.bytes, s.num, 1⟩
  | .BytePerSecond s => some ⟨.byteRate, s.num, 1⟩
  | .Bit s => some ⟨.bits, s.num, 1⟩
  | .BitPerSecond s => some ⟨.bitRate, s.num, 1⟩
  | .Custom name => customDenote name

def allMUnits : List MUnit :=
  [.Count, .Percent, .Seconds, .Milliseconds, .Microseconds, .Nanoseconds, .Tebibytes, .Gibibytes, .Mebibytes,
   .Kibibytes, .Bytes, .TerabitsPerSecond, .GigabitsPerSecond, .MegabitsPerSecond, .KilobitsPerSecond,
   .BitsPerSecond, .CountPerSecond]

end MetricsRs
