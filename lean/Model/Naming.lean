/-
Model of the naming half of `#[metrics]` (property C07).

Three layers, all executable and import-free:

* **(i) `Def` trees** — an *instantiated* metric type definition: a struct or entry enum (with the
  variant the instance is in), its container attributes, and its fields with their attributes and
  the closed value the instance carries.
* **(ii) the EXPANSION semantics** (`expandDef`, `sgDef`) — a transcription of what the macro
  generates and how the type-level machinery resolves it:
  `metrique-macro/src/entry_impl.rs` (`make_ns`, `make_inflect_base`, `make_inflect_prefix`,
  `make_exact_prefix`, `generate_field_writes`, `collect_field_sample_group`),
  `entry_impl/enum_impl.rs` (`generate_write_arms`, `generate_tuple_writes`,
  `generate_sample_group_arms`, `collect_tuple_sample_group`), `inflect.rs` (`metric_name`,
  `inflect_no_prefix`, `NameStyle::apply/apply_prefix`), `lib.rs` (`Prefix::apply`,
  `Prefix::append_to`, `Tag::field_name`), `metrique-core/src/namestyle.rs` (the `NameStyle`
  associated types `PascalCase/SnakeCase/KebabCase`, `AppendPrefix`, `Inflect`, `InflectAffix`)
  and `metrique-core/src/concat.rs` (`Concatenated`, `const_str_value`).
* **(iii) the SPEC** (`specDef`, `specSgDef`) — the documented naming function, written directly
  over (effective style, prefix chain as a string).

Text is `List Char` (kernel-reducible); the byte length that `concat.rs` compares with its limit is
the UTF-8 length. Inflection of identifiers (the `Inflector` crate) is a *parameter* of both
semantics; the re-implementation used by the driver is in `Model/Inflector.lean`.
-/
namespace Naming

abbrev Str := List Char

/-- `metrique-macro/src/inflect.rs::NameStyle` (`Preserve` is "no `rename_all`"). -/
inductive Style where
  | preserve | pascal | snake | kebab
  deriving DecidableEq, Repr

/-- The identifier inflector (`Inflector::to_pascal_case` / `to_snake_case` / `to_kebab_case`);
never consulted at `Style.preserve`. -/
abbrev Infl := Style → Str → Str

/-- `NameStyle::apply`. -/
def applyStyle (infl : Infl) : Style → Str → Str
  | .preserve, n => n
  | .pascal, n => infl .pascal n
  | .snake, n => infl .snake n
  | .kebab, n => infl .kebab n

/-- `if !res.ends_with(c) { res.push(c) }` -/
def ensureSuffix (c : Char) (s : Str) : Str :=
  if s.getLast? = some c then s else s ++ [c]

/-- `NameStyle::apply_prefix`. -/
def applyPrefix (infl : Infl) : Style → Str → Str
  | .preserve, p => p
  | .pascal, p => infl .pascal p
  | .snake, p => ensureSuffix '_' (infl .snake p)
  | .kebab, p => ensureSuffix '-' (infl .kebab p)

/-! ## `metrique-core/src/concat.rs` -/

/-- A `MaybeConstStr` type: a `ConstStr` leaf or `Concatenated<S, T>`. -/
inductive CStr where
  | leaf (s : Str)
  | cat (a b : CStr)
  deriving Repr

/-- `str::len()` — length in UTF-8 bytes. -/
def blen (s : Str) : Nat := (s.map Char.utf8Size).sum

namespace CStr

/-- `MaybeConstStr::extend` into an empty buffer (the heap path). -/
def denote : CStr → Str
  | leaf s => s
  | cat a b => a.denote ++ b.denote

/-- `MaybeConstStr::LEN`. -/
def len : CStr → Nat
  | leaf s => blen s
  | cat a b => a.len + b.len

/-- `MaybeConstStr::HAVE_VAL` (`haveLimit` is the `100` of `(S::LEN + T::LEN) <= 100`). -/
def haveVal (haveLimit : Nat) : CStr → Bool
  | leaf _ => true
  | cat a b => a.haveVal haveLimit && b.haveVal haveLimit && decide (a.len + b.len ≤ haveLimit)

/-- `MaybeConstStr::MAYBE_VAL`: the `match S::MAYBE_VAL.len() + T::MAYBE_VAL.len()` has arms
`0 ..= matchLimit` that build the concatenation and a fall-through arm `_ => ""`. -/
def maybeVal (matchLimit : Nat) : CStr → Str
  | leaf s => s
  | cat a b =>
    let x := a.maybeVal matchLimit
    let y := b.maybeVal matchLimit
    if blen x + blen y ≤ matchLimit then x ++ y else []

end CStr

/-- The two constants of `concat.rs` (regenerated into `Generated/Naming.lean` by T-gen). -/
structure Limits where
  have_ : Nat
  match_ : Nat
  deriving Repr

/-- `const_str_value::<S>()`: the static string when `HAVE_VAL`, else `extend` into a `String`. -/
def constStrValue (l : Limits) (t : CStr) : Str :=
  if t.haveVal l.have_ then t.maybeVal l.match_ else t.denote

/-! ## Definitions (instantiated) -/

/-- `metrique-macro/src/lib.rs::Prefix`. -/
inductive Pfx where
  | infl (p : Str)
  | exact (p : Str)
  deriving Repr, DecidableEq

inductive Kind where
  | metric | string
  deriving Repr, DecidableEq

/-- What a recording `ValueWriter` sees for one closed field. -/
structure Obs where
  kind : Kind
  value : Str
  unit : Str
  deriving Repr, DecidableEq

/-- The (closed) value of a plain field of the instance. -/
inductive FVal where
  /-- `Option::None` -/
  | absent
  /-- a numeric primitive, rendered observation and native unit (`"None"` for unit-less) -/
  | num (v : Str) (unit : Str)
  /-- `&'static str` / `String` -/
  | str (s : Str)
  /-- a variant of a `#[metrics(value(string))]` enum with the enum's own `rename_all` -/
  | variant (renameAll : Style) (ident : Str) (nameOv : Option Str)
  /-- a `#[metrics(value)]` newtype around one field, that field's `unit` attribute -/
  | newtype (inner : FVal) (unit : Option Str)
  /-- `Option::Some` -/
  | some (inner : FVal)
  deriving Repr

structure Attrs where
  renameAll : Style
  pfx : Option Pfx
  deriving Repr

/-- `metrique-macro/src/lib.rs::Tag`. -/
inductive Tag where
  | infl (name : Str) (sg : Bool)
  | exact (name : Str) (sg : Bool)
  deriving Repr

def Tag.sampleGroup : Tag → Bool
  | .infl _ sg => sg
  | .exact _ sg => sg

abbrev Item := Str × Obs
abbrev Pair := Str × Str

/-- The containers for which metrique-core has a *forwarding* `impl InflectableEntry<NS>`
(`inflectable_entry_impls.rs`: `&T`, `Option<T>`, `Box<T>`, `Arc<T>`, `Cow<'_, T>`;
`close_value_impls.rs`: `ForceFlag<T, F>`, `WithDimensions<T, N>`). The list is regenerated by T-gen
(`Generated.Naming.forwardingImpls`) and compared with `Wrapper.all` in `Props/C07.lean`; every one
bounds `T: InflectableEntry<NS>` and overrides both `write` and `sample_group`. -/
inductive Wrapper where
  | ref | option | box | arc | cow | forceFlag | withDims
  deriving Repr, DecidableEq

def Wrapper.all : List Wrapper := [.ref, .option, .box, .arc, .cow, .forceFlag, .withDims]

/-- the `for …` type of the impl, as T-gen prints it -/
def Wrapper.rustType : Wrapper → String
  | .ref => "&T"
  | .option => "Option<T>"
  | .box => "Box<T>"
  | .arc => "Arc<T>"
  | .cow => "Cow<'_, T>"
  | .forceFlag => "ForceFlag<T, F>"
  | .withDims => "WithDimensions<T, N>"

mutual
inductive Def where
  /-- the closed child seen through a forwarding impl (`Some` for `Option`) -/
  | wrap (w : Wrapper) (d : Def)
  | struct (a : Attrs) (fs : Fields)
  /-- an entry enum, seen through the variant the instance is in -/
  | enum (a : Attrs) (tag : Option Tag) (vIdent : Str) (vName : Option Str) (tuple : Bool) (fs : Fields)
inductive Fields where
  | nil
  | cons (f : Field) (fs : Fields)
inductive Field where
  | plain (ident : Str) (nameOv : Option Str) (unit : Option Str) (sg : Bool) (v : FVal)
  | ignore
  | timestamp
  /-- `#[metrics(flatten, prefix/exact_prefix?)] child : (Option<)Child(>)`; `present = false` is `None` -/
  | flatten (pfx : Option Pfx) (present : Bool) (child : Def)
  /-- `#[metrics(flatten_entry)]`: an opaque `Entry` writing `items` and reporting sample group `sg` -/
  | flattenEntry (items : List Item) (sg : List Pair)
end

/-! ## Values (shared by both semantics: no naming rule is involved except the variant string) -/

/-- `inflect_no_prefix`: a variant's string is its `name`, else the enum's own `rename_all` of the
identifier. -/
def variantString (infl : Infl) (renameAll : Style) (ident : Str) (nameOv : Option Str) : Str :=
  match nameOv with
  | some n => n
  | none => applyStyle infl renameAll ident

/-- `<Closed as AttachUnit>::Output<U>` + `.into()`: a metric is re-labelled (strings cannot carry a unit). -/
def attachUnit (unit : Option Str) (o : Obs) : Obs :=
  match unit, o.kind with
  | some u, .metric => { o with unit := u }
  | _, _ => o

/-- What `Value::write` hands to the writer: nothing for an absent `Option`. -/
def observe (infl : Infl) : FVal → Option Obs
  | .absent => none
  | .num v u => some ⟨.metric, v, u⟩
  | .str s => some ⟨.string, s, []⟩
  | .variant ra id ov => some ⟨.string, variantString infl ra id ov, []⟩
  | .newtype inner u => (observe infl inner).map (attachUnit u)
  | .some inner => observe infl inner

/-- `SampleGroup::as_sample_group`: the string of the value (empty for anything that is not a string). -/
def sampleValue (infl : Infl) (v : FVal) : Str :=
  match observe infl v with
  | some o => o.value
  | none => []

/-! ## (ii) Expansion semantics -/

/-- A `NameStyle` type: `Identity<P>` / `PascalCase<P>` / `SnakeCase<P>` / `KebabCase<P>`. -/
structure NS where
  style : Style
  pfx : CStr
  deriving Repr

/-- `RootEntry` writes with `Identity<EmptyConstStr>`. -/
def NS.root : NS := ⟨.preserve, .leaf []⟩

/-- `make_ns`: `NS::PascalCase` etc. keep `PREFIX`, `Preserve` is `NS` itself. -/
def makeNs (renameAll : Style) (ns : NS) : NS :=
  match renameAll with
  | .preserve => ns
  | .pascal => { ns with style := .pascal }
  | .snake => { ns with style := .snake }
  | .kebab => { ns with style := .kebab }

/-- The four `ConstStr` structs of `make_inflect_base`. -/
structure Four where
  id : Str
  pascal : Str
  snake : Str
  kebab : Str
  deriving Repr

def makeInflectBase (nameFn : Style → Str) : Four :=
  ⟨nameFn .preserve, nameFn .pascal, nameFn .snake, nameFn .kebab⟩

/-- which of `ID, PASCAL, SNAKE, KEBAB` a style's `Inflect`/`InflectAffix` picks -/
def Four.select (f : Four) : Style → Str
  | .preserve => f.id
  | .pascal => f.pascal
  | .snake => f.snake
  | .kebab => f.kebab

/-- `<NS as NameStyle>::Inflect<ID, PASCAL, SNAKE, KEBAB> = Concatenated<PREFIX, _>` -/
def NS.inflect (ns : NS) (f : Four) : CStr := .cat ns.pfx (.leaf (f.select ns.style))

/-- `<NS as NameStyle>::InflectAffix<…>` -/
def NS.inflectAffix (ns : NS) (f : Four) : CStr := .leaf (f.select ns.style)

/-- `<NS as NameStyle>::AppendPrefix<T>` -/
def NS.appendPrefix (ns : NS) (t : CStr) : NS := { ns with pfx := .cat ns.pfx t }

/-- `Prefix::apply`. -/
def Pfx.apply (infl : Infl) (p : Pfx) (base : Str) (style : Style) : Str :=
  match p with
  | .exact e => e ++ applyStyle infl style base
  | .infl q => applyStyle infl style (q ++ base)

/-- `metric_name(root_attrs, style, field)`. -/
def metricName (infl : Infl) (a : Attrs) (style : Style) (ident : Str) (nameOv : Option Str) : Str :=
  match nameOv with
  | some n => n
  | none =>
    match a.pfx with
    | some p => p.apply infl ident style
    | none => applyStyle infl style ident

/-- `Tag::field_name`. -/
def Tag.fieldName (infl : Infl) (t : Tag) (a : Attrs) (style : Style) : Str :=
  match t with
  | .infl name _ =>
    match a.pfx with
    | some p => p.apply infl name style
    | none => applyStyle infl style name
  | .exact name _ => name

/-- `Prefix::append_to` = `make_inflect_prefix` / `make_exact_prefix`. -/
def Pfx.appendTo (infl : Infl) (p : Pfx) (ns : NS) : NS :=
  match p with
  | .infl q => ns.appendPrefix (ns.inflectAffix (makeInflectBase fun st => applyPrefix infl st q))
  | .exact e => ns.appendPrefix (.leaf e)

structure Cfg where
  infl : Infl
  limits : Limits
  /-- the `NS` a forwarding impl hands to the wrapped entry. In the code every forwarding impl is
  `impl<NS, T: InflectableEntry<NS>> InflectableEntry<NS> for W<T>` calling `T`'s methods, i.e. the
  identity (`Cfg.forwards`); kept as a parameter so that the theorems *state* that requirement. -/
  wrapNs : Wrapper → NS → NS := fun _ ns => ns
  /-- does the forwarding impl override `sample_group` (forward it to the wrapped entry)? Without an
  override the trait's default — no pairs — applies. In the code all seven do (the two impls in
  `close_value_impls.rs` since fix 1af396b). -/
  wrapSg : Wrapper → Bool := fun _ => true

/-- every forwarding impl passes the name style and prefix chain on unchanged, and forwards
`sample_group` -/
def Cfg.forwards (c : Cfg) : Prop := (∀ w ns, c.wrapNs w ns = ns) ∧ (∀ w, c.wrapSg w = true)

/-- `make_inflect_metric_name` + `const_str_value`. -/
def fieldNameX (c : Cfg) (a : Attrs) (ns : NS) (ident : Str) (nameOv : Option Str) : Str :=
  constStrValue c.limits
    ((makeNs a.renameAll ns).inflect (makeInflectBase fun st => metricName c.infl a st ident nameOv))

def tagNameX (c : Cfg) (a : Attrs) (ns : NS) (t : Tag) : Str :=
  constStrValue c.limits
    ((makeNs a.renameAll ns).inflect (makeInflectBase fun st => t.fieldName c.infl a st))

/-- the namespace a flattened child is written with -/
def flattenNs (c : Cfg) (a : Attrs) (ns : NS) (p : Option Pfx) : NS :=
  match p with
  | none => makeNs a.renameAll ns
  | some p => p.appendTo c.infl (makeNs a.renameAll ns)

/-- the value a field hands to the writer: closed value with the field's `unit` attached -/
def fieldObs (infl : Infl) (unit : Option Str) (v : FVal) : Option Obs :=
  (observe infl v).map (attachUnit unit)

/-- `tag_write` of `generate_write_arms`. -/
def tagWriteX (c : Cfg) (a : Attrs) (ns : NS) (tag : Option Tag) (vIdent : Str) (vName : Option Str) :
    List Item :=
  match tag with
  | none => []
  | some t => [(tagNameX c a ns t, ⟨.string, variantString c.infl a.renameAll vIdent vName, []⟩)]

mutual
/-- `InflectableEntry::<NS>::write` of the generated entry type. -/
def expandDef (c : Cfg) (ns : NS) : Def → List Item
  | .wrap w d => expandDef c (c.wrapNs w ns) d
  | .struct a fs => expandFields c a ns fs
  | .enum a tag vi vn tuple fs =>
    tagWriteX c a ns tag vi vn ++
      (if tuple then expandTupleFields c a ns fs else expandFields c a ns fs)
/-- `generate_field_writes`. -/
def expandFields (c : Cfg) (a : Attrs) (ns : NS) : Fields → List Item
  | .nil => []
  | .cons f fs => expandField c a ns f ++ expandFields c a ns fs
def expandField (c : Cfg) (a : Attrs) (ns : NS) : Field → List Item
  | .plain ident nameOv unit _ v =>
    match fieldObs c.infl unit v with
    | none => []
    | some o => [(fieldNameX c a ns ident nameOv, o)]
  | .ignore => []
  | .timestamp => []
  | .flatten p present child => if present then expandDef c (flattenNs c a ns p) child else []
  | .flattenEntry items _ => items
/-- `generate_tuple_writes` (tuple variants: only flatten / flatten_entry / ignore exist; the macro
rejects the other kinds before this point, `unreachable!`). -/
def expandTupleFields (c : Cfg) (a : Attrs) (ns : NS) : Fields → List Item
  | .nil => []
  | .cons f fs => expandTupleField c a ns f ++ expandTupleFields c a ns fs
def expandTupleField (c : Cfg) (a : Attrs) (ns : NS) : Field → List Item
  | .flatten p present child => if present then expandDef c (flattenNs c a ns p) child else []
  | .flattenEntry items _ => items
  | .ignore => []
  | .plain .. => []
  | .timestamp => []
end

/-- tag part of `generate_sample_group_arms`. -/
def tagSgX (c : Cfg) (a : Attrs) (ns : NS) (tag : Option Tag) (vIdent : Str) (vName : Option Str) :
    List Pair :=
  match tag with
  | none => []
  | some t =>
    if t.sampleGroup then [(tagNameX c a ns t, variantString c.infl a.renameAll vIdent vName)] else []

mutual
/-- `InflectableEntry::<NS>::sample_group`. NOTE `collect_field_sample_group` /
`collect_tuple_sample_group` call the child with `make_ns(rename_all)` only: the flatten prefix is
*not* appended (known finding `naming:sample-group-misses-flatten-prefix`). -/
def sgDef (c : Cfg) (ns : NS) : Def → List Pair
  | .wrap w d => if c.wrapSg w then sgDef c (c.wrapNs w ns) d else []
  | .struct a fs => sgFields c a ns fs
  | .enum a tag vi vn tuple fs =>
    tagSgX c a ns tag vi vn ++ (if tuple then sgTupleFields c a ns fs else sgFields c a ns fs)
def sgFields (c : Cfg) (a : Attrs) (ns : NS) : Fields → List Pair
  | .nil => []
  | .cons f fs => sgField c a ns f ++ sgFields c a ns fs
def sgField (c : Cfg) (a : Attrs) (ns : NS) : Field → List Pair
  | .plain ident nameOv _ sg v =>
    if sg then [(fieldNameX c a ns ident nameOv, sampleValue c.infl v)] else []
  | .ignore => []
  | .timestamp => []
  | .flatten _ present child => if present then sgDef c (makeNs a.renameAll ns) child else []
  | .flattenEntry _ sg => sg
def sgTupleFields (c : Cfg) (a : Attrs) (ns : NS) : Fields → List Pair
  | .nil => []
  | .cons f fs => sgTupleField c a ns f ++ sgTupleFields c a ns fs
def sgTupleField (c : Cfg) (a : Attrs) (ns : NS) : Field → List Pair
  | .flatten _ present child => if present then sgDef c (makeNs a.renameAll ns) child else []
  | .flattenEntry _ sg => sg
  | .ignore => []
  | .plain .. => []
  | .timestamp => []
end

/-! ## (iii) Specification: the documented naming function -/

/-- the style in force: the nearest explicit `rename_all` from here up to the root -/
def effStyle (inherited : Style) (renameAll : Style) : Style :=
  match renameAll with
  | .preserve => inherited
  | s => s

/-- name of a field or inflectable tag: `chain ++ (override | exact ++ style(base) | style(prefix ++ base))` -/
def specName (infl : Infl) (style : Style) (chain : Str) (a : Attrs) (base : Str) (nameOv : Option Str) : Str :=
  chain ++
    match nameOv with
    | some n => n
    | none =>
      match a.pfx with
      | none => applyStyle infl style base
      | some (.exact e) => e ++ applyStyle infl style base
      | some (.infl q) => applyStyle infl style (q ++ base)

def specTagName (infl : Infl) (style : Style) (chain : Str) (a : Attrs) : Tag → Str
  | .infl name _ => specName infl style chain a name none
  | .exact name _ => chain ++ name

/-- the chain below a flatten: the prefix inflected in the style in force where it is declared -/
def specChain (infl : Infl) (style : Style) (chain : Str) : Option Pfx → Str
  | none => chain
  | some (.exact e) => chain ++ e
  | some (.infl q) => chain ++ applyPrefix infl style q

mutual
def specDef (infl : Infl) (inh : Style) (chain : Str) : Def → List Item
  | .wrap _ d => specDef infl inh chain d
  | .struct a fs => specFields infl (effStyle inh a.renameAll) chain a fs
  | .enum a tag vi vn _ fs =>
    (match tag with
      | none => []
      | some t => [(specTagName infl (effStyle inh a.renameAll) chain a t,
                    (⟨.string, variantString infl a.renameAll vi vn, []⟩ : Obs))]) ++
    specFields infl (effStyle inh a.renameAll) chain a fs
def specFields (infl : Infl) (style : Style) (chain : Str) (a : Attrs) : Fields → List Item
  | .nil => []
  | .cons f fs => specField infl style chain a f ++ specFields infl style chain a fs
def specField (infl : Infl) (style : Style) (chain : Str) (a : Attrs) : Field → List Item
  | .plain ident nameOv unit _ v =>
    match fieldObs infl unit v with
    | none => []
    | some o => [(specName infl style chain a ident nameOv, o)]
  | .ignore => []
  | .timestamp => []
  | .flatten p present child =>
    if present then specDef infl style (specChain infl style chain p) child else []
  | .flattenEntry items _ => items
end

mutual
/-- sample-group pairs "use the same names": same walk, same chain. -/
def specSgDef (infl : Infl) (inh : Style) (chain : Str) : Def → List Pair
  | .wrap _ d => specSgDef infl inh chain d
  | .struct a fs => specSgFields infl (effStyle inh a.renameAll) chain a fs
  | .enum a tag vi vn _ fs =>
    (match tag with
      | none => []
      | some t =>
        if t.sampleGroup then
          [(specTagName infl (effStyle inh a.renameAll) chain a t, variantString infl a.renameAll vi vn)]
        else []) ++
    specSgFields infl (effStyle inh a.renameAll) chain a fs
def specSgFields (infl : Infl) (style : Style) (chain : Str) (a : Attrs) : Fields → List Pair
  | .nil => []
  | .cons f fs => specSgField infl style chain a f ++ specSgFields infl style chain a fs
def specSgField (infl : Infl) (style : Style) (chain : Str) (a : Attrs) : Field → List Pair
  | .plain ident nameOv _ sg v =>
    if sg then [(specName infl style chain a ident nameOv, sampleValue infl v)] else []
  | .ignore => []
  | .timestamp => []
  | .flatten p present child =>
    if present then specSgDef infl style (specChain infl style chain p) child else []
  | .flattenEntry _ sg => sg
end

/-! ## Well-formedness -/

/-- Tuple variants admit only flatten / flatten_entry / ignore fields (`parse_variant_data`). -/
def Field.tupleOk : Field → Bool
  | .plain .. => false
  | .timestamp => false
  | _ => true

mutual
/-- the part of the macro's validation the naming rules depend on -/
def wfDef : Def → Bool
  | .wrap _ d => wfDef d
  | .struct _ fs => wfFields false fs
  | .enum _ _ _ _ tuple fs => wfFields tuple fs
def wfFields (tuple : Bool) : Fields → Bool
  | .nil => true
  | .cons f fs => wfField tuple f && wfFields tuple fs
def wfField (tuple : Bool) : Field → Bool
  | .flatten _ _ child => wfDef child
  | f => !tuple || f.tupleOk
end

/-! ## Prefix erasure (what the code's `sample_group` actually computes) and its precondition -/

mutual
/-- the same definition with every flatten prefix removed -/
def eraseDef : Def → Def
  | .wrap w d => .wrap w (eraseDef d)
  | .struct a fs => .struct a (eraseFields fs)
  | .enum a tag vi vn tuple fs => .enum a tag vi vn tuple (eraseFields fs)
def eraseFields : Fields → Fields
  | .nil => .nil
  | .cons f fs => .cons (eraseField f) (eraseFields fs)
def eraseField : Field → Field
  | .flatten _ present child => .flatten none present (eraseDef child)
  | f => f
end

mutual
/-- does the instance report any sample-group pair (of its own, not through `flatten_entry`)? -/
def hasSgDef : Def → Bool
  | .wrap _ d => hasSgDef d
  | .struct _ fs => hasSgFields fs
  | .enum _ tag _ _ _ fs => (match tag with | some t => t.sampleGroup | none => false) || hasSgFields fs
def hasSgFields : Fields → Bool
  | .nil => false
  | .cons f fs => hasSgField f || hasSgFields fs
def hasSgField : Field → Bool
  | .plain _ _ _ sg _ => sg
  | .flatten _ present child => present && hasSgDef child
  | _ => false
end

mutual
/-- "no flatten prefix above a sample-group field": every prefixed flatten has a child that reports
no sample-group pair of its own. -/
def sgPrefixFree : Def → Bool
  | .wrap _ d => sgPrefixFree d
  | .struct _ fs => sgPrefixFreeFields fs
  | .enum _ _ _ _ _ fs => sgPrefixFreeFields fs
def sgPrefixFreeFields : Fields → Bool
  | .nil => true
  | .cons f fs => sgPrefixFreeField f && sgPrefixFreeFields fs
def sgPrefixFreeField : Field → Bool
  | .flatten p present child =>
    !present || ((p.isNone || !hasSgDef child) && sgPrefixFree child)
  | _ => true
end

/-! ## Counting: one item per present non-ignored field -/

/-- does the closed value write anything (`false` exactly for an absent `Option`) -/
def FVal.isPresent : FVal → Bool
  | .absent => false
  | .newtype inner _ => inner.isPresent
  | .some inner => inner.isPresent
  | _ => true

mutual
/-- number of items the documentation promises: one per tag, one per present plain field, the items of
each `flatten_entry`, transitively through present flattened children; nothing for ignored fields,
timestamps and absent `Option`s -/
def countDef : Def → Nat
  | .wrap _ d => countDef d
  | .struct _ fs => countFields fs
  | .enum _ tag _ _ _ fs => (match tag with | some _ => 1 | none => 0) + countFields fs
def countFields : Fields → Nat
  | .nil => 0
  | .cons f fs => countField f + countFields fs
def countField : Field → Nat
  | .plain _ _ _ _ v => if v.isPresent then 1 else 0
  | .ignore => 0
  | .timestamp => 0
  | .flatten _ present child => if present then countDef child else 0
  | .flattenEntry items _ => items.length
end

end Naming
