/-
Model of the global entry sinks of `metrique-writer-core/src/global.rs` (macro `global_entry_sink!`),
one global.

State of one global (the statics the macro declares):
* `attached`  — `static SINK: RwLock<Option<(BoxEntrySink, Box<handle>)>>` (only *which* sink matters),
* `tl t`      — `thread_local! THREAD_LOCAL_TEST_SINK` of thread `t`,
* `rt r`      — entry of runtime `r` in `RUNTIME_TEST_SINKS`,
and of the objects its API hands out:
* `handle`    — the sink for which a live `AttachHandle` (join = Some) exists,
* `held k`    — a `BoxEntrySink` clone obtained from `sink()` and kept by the caller in slot `k`,
* `log`       — every delivery `(destination sink, entry)` in order (what inspector sinks record).

Sinks, entries, threads and runtimes are `Nat` identifiers. An operation runs in a context: the
calling thread and the tokio runtime that is current on it (`Handle::try_current()`), if any.
Guards are dropped by whoever holds them: `dropTL` is "drop the `ThreadLocalTestSinkGuard` of the calling
thread if there is one", `dropRT r` is "drop the `TokioRuntimeTestSinkGuard` of runtime r if there is one",
`dropAttach`/`forgetAttach` is "drop/forget the live `AttachHandle` if there is one" (`noop` otherwise:
nothing to drop). *How* a guard or handle comes to be dropped — `drop(x)`, end of scope, or the unwinder of
a panic that owned it (contained by `catch_unwind` or by joining the panicking thread) — is not part of the
event: the model has one `drop…` operation for all of them (the driver accepts the harness's `…U` / `…T`
spellings as aliases), so the theorems about `dropTL` / `dropRT` / `dropAttach` cover drops during unwinding.
-/
namespace Global

structure Ctx where
  thread : Nat
  runtime : Option Nat
  deriving Repr, DecidableEq

inductive Op where
  | attach (s : Nat)              -- `G::attach((sink s, ()))`
  | dropAttach                    -- `drop(attach_handle)`
  | forgetAttach                  -- `attach_handle.forget()`
  | setTL (s : Nat)               -- `G::set_test_sink(sink s)` (guard kept by the calling thread)
  | dropTL                        -- drop that guard
  | setRT (r : Nat) (s : Nat)     -- `G::set_test_sink_for_tokio_runtime(&handle r, sink s)`
  | setRTCur (s : Nat)            -- `G::set_test_sink_on_current_tokio_runtime(sink s)`
  | dropRT (r : Nat)              -- drop the guard of runtime r (from any thread)
  | append (e : Nat)              -- `G::append(e)`
  | tryAppend (e : Nat)           -- `G::try_append(e)`
  | sink (e : Nat)                -- `G::sink().append(e)`
  | trySink (e : Nat)             -- `G::try_sink().map(|s| s.append(e))`
  | isAttached                    -- `G::is_attached()`
  | hold (k : Nat)                -- `held[k] = G::sink()`
  | useHeld (k : Nat) (e : Nat)   -- `held[k].append(e)`
  deriving Repr, DecidableEq

inductive Res where
  | ok                            -- returned normally, nothing else to observe
  | noop                          -- there was no guard / handle / held sink to act on
  | panic
  | dest (d : Nat)                -- the entry was delivered to sink d
  | returned (e : Nat)            -- `try_append` gave the entry back
  | none                          -- `try_sink()` returned `None`
  | bool (b : Bool)
  deriving Repr, DecidableEq

structure State where
  attached : Option Nat
  handle : Option Nat
  tl : Nat → Option Nat
  rt : Nat → Option Nat
  held : Nat → Option Nat
  log : List (Nat × Nat)

def State.init (attached : Option Nat) : State :=
  { attached := attached, handle := none, tl := fun _ => none, rt := fun _ => none,
    held := fun _ => none, log := [] }

def upd (f : Nat → Option Nat) (k : Nat) (v : Option Nat) : Nat → Option Nat :=
  fun x => if x = k then v else f x

/-- `get_test_sink()`: the thread-local override first, then the override of the current runtime. -/
def testSink (st : State) (c : Ctx) : Option Nat :=
  match st.tl c.thread with
  | some s => some s
  | none =>
    match c.runtime with
    | some r => st.rt r
    | none => none

/-- `try_sink()`: the test sink if any, else the attached sink. -/
def route (st : State) (c : Ctx) : Option Nat :=
  match testSink st c with
  | some s => some s
  | none => st.attached

def deliver (st : State) (d e : Nat) : State := { st with log := st.log ++ [(d, e)] }

/-- `set_test_sink_for_tokio_runtime`: insert unless present; panic (after unlocking) if present. -/
def setRuntime (st : State) (r s : Nat) : State × Res :=
  match st.rt r with
  | some _ => (st, .panic)
  | none => ({ st with rt := upd st.rt r (some s) }, .ok)

def step (st : State) (c : Ctx) : Op → State × Res
  | .attach s =>
    match st.attached with
    | some _ => (st, .panic)                         -- write lock released, then panic; new sink dropped
    | none => ({ st with attached := some s, handle := some s }, .ok)
  | .dropAttach =>
    match st.handle with
    | some _ => ({ st with attached := none, handle := none }, .ok)   -- `SINK.write().take()`
    | none => (st, .noop)
  | .forgetAttach =>
    match st.handle with
    | some _ => ({ st with handle := none }, .ok)
    | none => (st, .noop)
  | .setTL s =>
    match st.tl c.thread with
    | some _ => (st, .panic)
    | none => ({ st with tl := upd st.tl c.thread (some s) }, .ok)
  | .dropTL =>
    match st.tl c.thread with
    | some _ => ({ st with tl := upd st.tl c.thread none }, .ok)
    | none => (st, .noop)
  | .setRT r s => setRuntime st r s
  | .setRTCur s =>
    match c.runtime with
    | none => (st, .panic)                           -- `Handle::current()` panics outside a runtime
    | some r => setRuntime st r s
  | .dropRT r =>
    match st.rt r with
    | some _ => ({ st with rt := upd st.rt r none }, .ok)
    | none => (st, .noop)
  | .append e =>
    match route st c with
    | some d => (deliver st d e, .dest d)
    | none => (st, .panic)
  | .tryAppend e =>
    match route st c with
    | some d => (deliver st d e, .dest d)
    | none => (st, .returned e)
  | .sink e =>
    match route st c with
    | some d => (deliver st d e, .dest d)
    | none => (st, .panic)
  | .trySink e =>
    match route st c with
    | some d => (deliver st d e, .dest d)
    | none => (st, .none)
  | .isAttached => (st, .bool (route st c).isSome)
  | .hold k =>
    match route st c with
    | some d => ({ st with held := upd st.held k (some d) }, .dest d)
    | none => (st, .panic)
  | .useHeld k e =>
    match st.held k with
    | some d => (deliver st d e, .dest d)
    | none => (st, .noop)

/-- Run a script; the observable is the result of every operation. -/
def run (st : State) : List (Ctx × Op) → State × List Res
  | [] => (st, [])
  | (c, op) :: rest =>
    let (st1, r) := step st c op
    let (st2, rs) := run st1 rest
    (st2, r :: rs)

/-- What sink `d` has received so far, in order. -/
def received (st : State) (d : Nat) : List Nat :=
  (st.log.filter (fun p => p.1 == d)).map (·.2)

/-- The entry an operation carries (the operations that try to deliver something). -/
def Op.entry : Op → Option Nat
  | .append e | .tryAppend e | .sink e | .trySink e | .useHeld _ e => some e
  | _ => none

/-! ## Appends racing one detach (T-trace)

The attached sink is a background queue over a stream. `try_append` pushes under the read lock;
dropping the attach handle takes the write lock, takes the slot and — still under the write lock —
drops the queue's join handle, which drains the queue into the stream, flushes and closes it. Hence
at the granularity of the lock both are atomic steps; a schedule is any interleaving of them.
Entries are `(thread, k)`.
-/

inductive RaceEv where
  | tryAppend (t k : Nat)
  | detach
  deriving Repr, DecidableEq

structure RaceState where
  attached : Bool
  queue : List (Nat × Nat)        -- accepted, not yet written
  written : List (Nat × Nat)      -- what the stream received
  closed : Bool
  /-- history: (thread, k, accepted?) in schedule order -/
  trace : List (Nat × Nat × Bool)

def RaceState.init : RaceState := ⟨true, [], [], false, []⟩

def raceStep (st : RaceState) : RaceEv → RaceState
  | .tryAppend t k =>
    if st.attached then { st with queue := st.queue ++ [(t, k)], trace := st.trace ++ [(t, k, true)] }
    else { st with trace := st.trace ++ [(t, k, false)] }
  | .detach =>
    if st.attached then
      { st with attached := false, written := st.written ++ st.queue, queue := [], closed := true }
    else st

def raceRun (st : RaceState) (evs : List RaceEv) : RaceState := evs.foldl raceStep st

/-- The ids thread `t` had accepted (`Ok(())`), in its program order. -/
def okOf (trace : List (Nat × Nat × Bool)) (t : Nat) : List (Nat × Nat) :=
  (trace.filter (fun x => x.1 == t && x.2.2)).map (fun x => (x.1, x.2.1))

def dedup : List Nat → List Nat
  | [] => []
  | x :: xs => x :: (dedup xs).filter (· != x)

/-- The specification predicate evaluated on real traces: after the detach returned, the stream is
closed and, thread by thread, holds exactly the accepted entries of that thread in order — nothing
lost, duplicated, foreign, or handed back *and* written. -/
def raceAccept (trace : List (Nat × Nat × Bool)) (written : List (Nat × Nat)) (closed : Bool) : Bool :=
  closed &&
  (dedup (trace.map (·.1) ++ written.map (·.1))).all fun t =>
    written.filter (fun x => x.1 == t) == okOf trace t

/-! ## A detach that is not atomic: take the pair out of the slot, drop it later

`drop(AttachHandle)` runs `SINK.write().unwrap().take();`: the slot is cleared under the write lock and
the taken `(sink, join handle)` pair is then dropped — which flushes the sink and can take arbitrarily
long. Whether that drop happens while the lock is still held (as the code does) or after it has been
released, other threads' operations may be *issued* meanwhile; the micro-step model lets them also
*take effect* meanwhile: `take` is the first half (clears slot and handle, remembers the sink being
flushed), `dropPair` the second half (the pair is gone). Any other operation may be interleaved
between the two. The same split applies to the guards of the test sinks (the removed sink is dropped
after the slot/map entry was cleared); it is spelled out for the attach handle.
-/

inductive Micro where
  | op (c : Ctx) (o : Op)      -- an operation that is atomic
  | take (c : Ctx)             -- first half of `drop(attach_handle)`
  | dropPair (c : Ctx)         -- second half: the taken pair has been dropped (flushed)
  deriving Repr, DecidableEq

structure MState where
  st : State
  /-- sinks taken out of the slot whose pair has not been dropped yet -/
  dropping : List Nat

/-- One micro-step; `dropPair` has no result of its own (the drop returns when it is done). -/
def microStep (m : MState) : Micro → MState × Option Res
  | .op c o => ({ m with st := (step m.st c o).1 }, some (step m.st c o).2)
  | .take _ =>
    match m.st.handle with
    | some s => ({ st := { m.st with attached := none, handle := none }, dropping := m.dropping ++ [s] }, some .ok)
    | none => (m, some .noop)
  | .dropPair _ => ({ m with dropping := m.dropping.drop 1 }, none)

def microRun (m : MState) : List Micro → MState × List Res
  | [] => (m, [])
  | ev :: rest =>
    let (m1, r) := microStep m ev
    let (m2, rs) := microRun m1 rest
    (m2, match r with | some r => r :: rs | none => rs)

/-- The sequential order that explains an interleaving: every operation at the point where it took
effect; a detach at its `take`. -/
def linearize : List Micro → List (Ctx × Op)
  | [] => []
  | .op c o :: rest => (c, o) :: linearize rest
  | .take c :: rest => (c, .dropAttach) :: linearize rest
  | .dropPair _ :: rest => linearize rest

/-- Does this answer show the caller that nothing is attached (from a context without test sink it can
only come from an empty slot): an entry handed back, `None`, `is_attached() = false`, the
"must be attached" panic of `append` / `sink()`, or an `attach` that succeeds. -/
def seesDetached (o : Op) : Res → Bool
  | .returned _ => true
  | .none => true
  | .bool false => true
  | .panic => (match o with | .append _ | .sink _ | .hold _ => true | _ => false)
  | .ok => (match o with | .attach _ => true | _ => false)
  | _ => false

/-- The ordering half of "dropping an attach handle restores routing to the next destination *after
flushing* what the detached sink had accepted": every operation that observes the detached state
takes effect when no taken pair is still being dropped (flushed). Evaluated by the driver on the
schedules observed from the real threads. -/
def flushOrdered (m : MState) : List Micro → Bool
  | [] => true
  | ev :: rest =>
    (match ev with
      | .op c o => !(seesDetached o (step m.st c o).2) || m.dropping.isEmpty
      | _ => true) && flushOrdered (microStep m ev).1 rest

/-- Schedules of the code as it is: the pair is dropped while the write lock taken for `take` is still
held, so nothing takes effect between `take` and its `dropPair`. -/
def locked : List Micro → Bool
  | [] => true
  | .op _ _ :: rest => locked rest
  | .take _ :: .dropPair _ :: rest => locked rest
  | .take _ :: _ => false
  | .dropPair _ :: rest => locked rest

/-! A variant that is *not* the code: a cached "attached" flag consulted by `try_append` before the
lock, set by `attach`, cleared by the detach only after the taken pair has been dropped. Used for a
`decide`d witness that this is not linearizable. -/

structure FlagState where
  slot : Option Nat
  handle : Option Nat
  flag : Bool
  deriving Repr, DecidableEq

inductive FlagEv where
  | attach (s : Nat) | take | dropPair | tryAppend (e : Nat)
  deriving Repr, DecidableEq

def flagStep (f : FlagState) : FlagEv → FlagState × Option Res
  | .attach s =>
    match f.slot with
    | some _ => (f, some .panic)
    | none => ({ slot := some s, handle := some s, flag := true }, some .ok)
  | .take =>
    match f.handle with
    | some _ => ({ f with slot := none, handle := none }, some .ok)
    | none => (f, some .noop)
  | .dropPair => ({ f with flag := false }, none)
  | .tryAppend e =>
    if !f.flag then (f, some (.returned e))
    else match f.slot with
      | some d => (f, some (.dest d))
      | none => (f, some (.returned e))

def flagRun (f : FlagState) : List FlagEv → FlagState × List Res
  | [] => (f, [])
  | ev :: rest =>
    let (f1, r) := flagStep f ev
    let (f2, rs) := flagRun f1 rest
    (f2, match r with | some r => r :: rs | none => rs)

end Global
