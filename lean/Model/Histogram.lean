/-
Model of `metrique-aggregation/src/histogram.rs` (the three aggregation strategies, observation
capture, drain, merge of closed histograms) and of the part of the `histogram` crate (v0.11) it
relies on: `Config::{new, value_to_index, index_to_lower_bound, index_to_upper_bound}`,
`Histogram::add` (wrapping), `AtomicHistogram::{add, drain}`.

Numbers: bucket values and counts are `Nat` (the code's `u64`; wrap-around / saturation is
explicit). An `f64` is carried as its bit pattern (`Nat < 2^64`); the one conversion that matters for
the theorems, `(v * 1024.0).min(u64::MAX as f64) as u64`, is computed *exactly* on the bit pattern
(`scaleFloor`), so the theorems are about real values. The remaining floating-point operations
(`midpoint as f64 / 1024.0 * count as f64`, `total / occurrences as f64`, `Duration::as_secs_f64`) use
Lean's `Float` (IEEE binary64, the same hardware operations as Rust's) in the executable twin `Exec`;
their results are only compared bit-for-bit with the implementation.
-/
namespace Histogram

def u64Max : Nat := 2 ^ 64 - 1

/-- `histogram::Config` as built by `Config::new(grouping_power, max_value_power)`. -/
structure Config where
  groupingPower : Nat
  maxValuePower : Nat
  deriving Repr, DecidableEq

namespace Config

/-- `Config::new` returns `Ok` -/
def valid (c : Config) : Bool := c.maxValuePower ≤ 64 && c.groupingPower < c.maxValuePower

def cutoffPower (c : Config) : Nat := c.groupingPower + 1
def cutoffValue (c : Config) : Nat := 2 ^ c.cutoffPower
def max (c : Config) : Nat := 2 ^ c.maxValuePower - 1
def lowerBinCount (c : Config) : Nat := c.cutoffValue
def upperBinDivisions (c : Config) : Nat := 2 ^ c.groupingPower
def upperBinCount (c : Config) : Nat := (c.maxValuePower - c.cutoffPower) * c.upperBinDivisions
def totalBuckets (c : Config) : Nat := c.lowerBinCount + c.upperBinCount

/-- `Config::value_to_index`; `none` is `Err(OutOfRange)`. -/
def valueToIndex (c : Config) (value : Nat) : Option Nat :=
  if value < c.cutoffValue then some value
  else if value > c.max then none
  else
    let power := value.log2                       -- 63 - leading_zeros
    let logBin := power - c.cutoffPower
    let offset := (value - 2 ^ power) >>> (power - c.groupingPower)
    some (c.lowerBinCount + logBin * c.upperBinDivisions + offset)

/-- `Config::index_to_lower_bound` -/
def lowerBound (c : Config) (index : Nat) : Nat :=
  let g := index >>> c.groupingPower
  let h := index - g * 2 ^ c.groupingPower
  if g < 1 then h else 2 ^ (c.groupingPower + g - 1) + 2 ^ (g - 1) * h

/-- `Config::index_to_upper_bound` (inclusive) -/
def upperBound (c : Config) (index : Nat) : Nat :=
  if index = c.lowerBinCount + c.upperBinCount - 1 then c.max
  else
    let g := index >>> c.groupingPower
    let h := index - g * 2 ^ c.groupingPower + 1
    if g < 1 then h - 1 else 2 ^ (c.groupingPower + g - 1) + 2 ^ (g - 1) * h - 1

/-- `range.start().midpoint(*range.end())` (`u64::midpoint` rounds down) -/
def midpoint (c : Config) (index : Nat) : Nat := (c.lowerBound index + c.upperBound index) / 2

end Config

/-! ## Bucket array -/

/-- `buckets[index] = buckets[index].wrapping_add(count)` (also the effect of `fetch_add`) -/
def addAt : List Nat → Nat → Nat → List Nat
  | [], _, _ => []
  | b :: bs, 0, count => (b + count) % 2 ^ 64 :: bs
  | b :: bs, i + 1, count => b :: addAt bs i count

def emptyBuckets (c : Config) : List Nat := List.replicate c.totalBuckets 0

/-- `Histogram::add(value, count).ok()` — an out-of-range value is dropped. -/
def add (c : Config) (bs : List Nat) (value count : Nat) : List Nat :=
  match c.valueToIndex value with
  | none => bs
  | some i => addAt bs i count

/-- `iter().filter(|b| b.count() > 0)`: `(index, count)` of the non-empty buckets, in index order. -/
def nonEmptyFrom : List Nat → Nat → List (Nat × Nat)
  | [], _ => []
  | b :: bs, i => if b > 0 then (i, b) :: nonEmptyFrom bs (i + 1) else nonEmptyFrom bs (i + 1)

def nonEmpty (bs : List Nat) : List (Nat × Nat) := nonEmptyFrom bs 0

/-! ## binary64 bit patterns, exactly -/

def f64Sign (bits : Nat) : Nat := bits / 2 ^ 63 % 2
def f64Exp (bits : Nat) : Nat := bits / 2 ^ 52 % 2048
def f64Frac (bits : Nat) : Nat := bits % 2 ^ 52
def f64IsNaN (bits : Nat) : Bool := f64Exp bits == 2047 && f64Frac bits != 0

/-- significand and (biased, ≥ 1) exponent: the magnitude is `mant · 2^(expo - 1075)` -/
def f64Mant (bits : Nat) : Nat := if f64Exp bits = 0 then f64Frac bits else 2 ^ 52 + f64Frac bits
def f64Expo (bits : Nat) : Nat := if f64Exp bits = 0 then 1 else f64Exp bits

/-- `scale_up(v).min(u64::MAX as f64) as u64` with `SCALING_FACTOR = 2^scalePow`:
multiplying by a power of two is exact (or overflows to +∞, which saturates all the same),
`NaN.min(x) = x`, and `as u64` truncates towards zero and saturates. -/
def scaleFloorPow (scalePow : Nat) (bits : Nat) : Nat :=
  if f64IsNaN bits then u64Max
  else if f64Sign bits = 1 then 0
  else
    let m := f64Mant bits
    let e := f64Expo bits + scalePow
    Nat.min (if 1075 ≤ e then m * 2 ^ (e - 1075) else m / 2 ^ (1075 - e)) u64Max

/-! ## Exponential strategies (plain and atomic have the same sequential behaviour) -/

structure Params where
  cfg : Config
  /-- `SCALING_FACTOR = (1 << scalePow) as f64` -/
  scalePow : Nat
  deriving Repr, DecidableEq

/-- `record_many(value, count)` -/
def recordMany (p : Params) (bs : List Nat) (valueBits count : Nat) : List Nat :=
  add p.cfg bs (scaleFloorPow p.scalePow valueBits) count

/-- A sequence of `record_many` calls. -/
def recordAll (p : Params) (bs : List Nat) : List (Nat × Nat) → List Nat
  | [] => bs
  | (v, n) :: rest => recordAll p (recordMany p bs v n) rest

/-- `drain`, integer part: `(midpoint, count)` per non-empty bucket (the bucket array is replaced by
an empty one). -/
def drainMid (p : Params) (bs : List Nat) : List (Nat × Nat) :=
  (nonEmpty bs).map fun (i, n) => (p.cfg.midpoint i, n)

/-- Re-recording drained buckets at the integer level: value `midpoint` (already scaled), `count`. -/
def readdAll (c : Config) (bs : List Nat) : List (Nat × Nat) → List Nat
  | [] => bs
  | (i, n) :: rest => readdAll c (add c bs (c.midpoint i) n) rest

/-! ## Concurrent recording into the atomic variant

`AtomicHistogram::add` is one `fetch_add` on one bucket; `AtomicHistogram::drain` walks the buckets
in index order and `swap(0)`s each one. Any number of drains may be in flight. -/

structure Drainer where
  /-- counts collected so far; its length is the index of the next bucket to swap -/
  got : List Nat
  deriving Repr

structure AState where
  buckets : List Nat
  drainers : List Drainer
  deriving Repr

inductive Ev where
  | add (index count : Nat)     -- fetch_add(count) on bucket `index`
  | start                       -- a thread enters `drain`
  | swap (d : Nat)              -- drainer `d` swaps its next bucket with 0
  deriving Repr

def setAt : List Nat → Nat → Nat → List Nat
  | [], _, _ => []
  | _ :: bs, 0, v => v :: bs
  | b :: bs, i + 1, v => b :: setAt bs i v

def stepDrainer (buckets : List Nat) : List Drainer → Nat → List Nat × List Drainer
  | [], _ => (buckets, [])
  | d :: ds, 0 =>
    if d.got.length < buckets.length then
      (setAt buckets d.got.length 0, ⟨d.got ++ [buckets.getD d.got.length 0]⟩ :: ds)
    else (buckets, d :: ds)
  | d :: ds, k + 1 =>
    let r := stepDrainer buckets ds k
    (r.1, d :: r.2)

def AState.step (s : AState) : Ev → AState
  | .add i n => { s with buckets := addAt s.buckets i n }
  | .start => { s with drainers := s.drainers ++ [⟨[]⟩] }
  | .swap d => let r := stepDrainer s.buckets s.drainers d; ⟨r.1, r.2⟩

def AState.run (s : AState) : List Ev → AState
  | [] => s
  | e :: es => (s.step e).run es

/-! ## Sort-and-merge strategy -/

/-- Sort key realising `OrderedFloat`'s total order on bit patterns: `none` = NaN (greatest, all NaNs
equal), otherwise the sign-magnitude integer (`-0.0` and `+0.0` both `0`, they compare equal). -/
def samKey (bits : Nat) : Option Int :=
  if f64IsNaN bits then none
  else if f64Sign bits = 1 then some (-((bits % 2 ^ 63 : Nat) : Int)) else some ((bits % 2 ^ 63 : Nat) : Int)

def samLe (a b : Nat) : Bool :=
  match samKey a, samKey b with
  | _, none => true
  | none, some _ => false
  | some x, some y => decide (x ≤ y)

/-- the run-length merge loop over the sorted, NaN-free values: `(first value of the run, length)` -/
def groupGo (cur cnt : Nat) : List Nat → List (Nat × Nat)
  | [] => [(cur, cnt)]
  | v :: rest =>
    if samKey v = samKey cur then groupGo cur (cnt + 1) rest   -- `value == current_value`
    else (cur, cnt) :: groupGo v 1 rest

def groupRuns : List Nat → List (Nat × Nat)
  | [] => []
  | v :: rest => groupGo v 1 rest

/-- `SortAndMerge::record_many` -/
def samRecordMany (vals : List Nat) (valueBits count : Nat) : List Nat :=
  vals ++ List.replicate count valueBits

/-- `SortAndMerge::drain`, without the product: `sort_by_key(OrderedFloat)` is a stable sort. -/
def samDrain (vals : List Nat) : List (Nat × Nat) :=
  groupRuns ((vals.mergeSort samLe).filter fun b => !f64IsNaN b)

/-! ## Observation capture: one `add_value` call

`add_value` hands the value a `Capturer`; the value calls `metric(distribution, …)` once with any
number of observations (one for the primitive types; several for distribution-like values, closed
histograms, pre-aggregated batches), and the capturer loops over them. -/

/-- `metrique_writer::Observation`, floats as bit patterns -/
inductive Obs where
  | unsigned (v : Nat)
  | floating (bits : Nat)
  | repeated (totalBits occ : Nat)
  deriving Repr, DecidableEq

/-- The two floating-point conversions of the capturer (`v as f64`, `total / occurrences as f64`).
A parameter: the theorems hold whatever they return; the executable twin plugs in `Float`. -/
structure CaptureOps where
  ofU64 : Nat → Nat
  mean : Nat → Nat → Nat

/-- one iteration of `for obs in distribution { match obs { … } }`: what is handed to `record_many`;
an empty repeat (`occurrences == 0`) is skipped — and only it. -/
def captureStep (ops : CaptureOps) : Obs → Option (Nat × Nat)
  | .unsigned v => some (ops.ofU64 v, 1)
  | .floating b => some (b, 1)
  | .repeated t n => if n > 0 then some (ops.mean t n, n) else none

/-- everything one `add_value` call records -/
def captureAll (ops : CaptureOps) (obs : List Obs) : List (Nat × Nat) := obs.filterMap (captureStep ops)

/-- the capturer's loop into an exponential strategy: a fold of the single-observation step -/
def addValue (ops : CaptureOps) (p : Params) (bs : List Nat) : List Obs → List Nat
  | [] => bs
  | o :: rest =>
    addValue ops p (match captureStep ops o with
      | some (v, n) => recordMany p bs v n
      | none => bs) rest

/-- a sequence of `add_value` calls -/
def addValues (ops : CaptureOps) (p : Params) (bs : List Nat) : List (List Obs) → List Nat
  | [] => bs
  | call :: rest => addValues ops p (addValue ops p bs call) rest

/-- the capturer's loop into the sort-and-merge strategy -/
def samAddValue (ops : CaptureOps) (vals : List Nat) : List Obs → List Nat
  | [] => vals
  | o :: rest =>
    samAddValue ops (match captureStep ops o with
      | some (v, n) => samRecordMany vals v n
      | none => vals) rest

def samAddValues (ops : CaptureOps) (vals : List Nat) : List (List Obs) → List Nat
  | [] => vals
  | call :: rest => samAddValues ops (samAddValue ops vals call) rest

/-- how many observations an `Observation` stands for -/
def Obs.count : Obs → Nat
  | .unsigned _ => 1
  | .floating _ => 1
  | .repeated _ n => n

/-- NOT the code: the defective loop in which an empty repeat `return`s out of the loop instead of
being skipped, losing every observation that follows it in the same call (kept for the decided
witness in `Props/C11.lean` that the conservation theorem separates the two). -/
def addValueEarlyReturn (ops : CaptureOps) (p : Params) (bs : List Nat) : List Obs → List Nat
  | [] => bs
  | .repeated _ 0 :: _ => bs
  | o :: rest =>
    addValueEarlyReturn ops p (match captureStep ops o with
      | some (v, n) => recordMany p bs v n
      | none => bs) rest

/-! ## Executable twin with the floating-point operations (compared with the implementation) -/
namespace Exec

def u64f (n : Nat) : Float := (UInt64.ofNat n).toFloat       -- `n as f64` for a u64
def bitsOf (x : Float) : Nat := x.toBits.toNat
def ofBits (b : Nat) : Float := Float.ofBits (UInt64.ofNat b)

/-- a source value as handed to `add_value` -/
inductive Src where
  | unsigned (v : Nat)                 -- integer types: `Observation::Unsigned(v)`
  | floating (bits : Nat)              -- f32/f64: `Observation::Floating(v)`
  | duration (secs nanos : Nat)        -- `Duration`: `Floating(as_secs_f64() * 1000.0)`
  | repeated (totalBits occ : Nat)     -- `Observation::Repeated`
  | multi (obs : List Obs)             -- a value that writes several observations in one `metric()` call
  deriving Repr

/-- `Value::write` of the source type: the observations of its one `metric()` call -/
def Src.observe : Src → List Obs
  | .unsigned v => [.unsigned v]
  | .floating b => [.floating b]
  | .duration s n => [.floating (bitsOf ((u64f s + u64f n / 1000000000.0) * 1000.0))]
  | .repeated t o => [.repeated t o]
  | .multi obs => obs

/-- `Convert::convert` with `RATIO = ratio` (`none`: no `WithUnit` wrapper). -/
def convert (ratio : Option Nat) (o : Obs) : Obs :=
  match ratio with
  | none => o
  | some rb =>
    let r := ofBits rb
    if r == 1.0 then o else
    match o with
    | .unsigned v => .floating (bitsOf (u64f v * r))
    | .floating b => .floating (bitsOf (ofBits b * r))
    | .repeated t n => .repeated (bitsOf (ofBits t * r)) n

/-- the capturer's conversions with the machine's binary64 operations -/
def floatOps : CaptureOps :=
  ⟨fun v => bitsOf (u64f v), fun t n => bitsOf (ofBits t / u64f n)⟩

/-- the `Capturer` in `add_value` / the loop of `AggregateValue<HistogramClosed<T>>::insert`:
what is passed to `record_many`, if anything -/
def capture : Obs → Option (Nat × Nat) := captureStep floatOps

/-- everything a sequence of `add_value` calls records: per call, per observation (in order) -/
def captured (ratio : Option Nat) (srcs : List Src) : List (Nat × Nat) :=
  srcs.flatMap fun v => captureAll floatOps (v.observe.map (convert ratio))

/-- `Observation::Repeated { total: scale_down(midpoint as f64) * count as f64, occurrences: count }` -/
def expObs (scalePow : Nat) (mc : Nat × Nat) : Nat × Nat :=
  (bitsOf (u64f mc.1 / u64f (2 ^ scalePow) * u64f mc.2), mc.2)

/-- `Observation::Repeated { total: current_value * current_count as f64, occurrences: current_count }` -/
def samObs (vc : Nat × Nat) : Nat × Nat :=
  (bitsOf (ofBits vc.1 * u64f vc.2), vc.2)

inductive Strategy where
  | exp | atomic | sam
  deriving Repr, DecidableEq

/-- record a list of captured `(value bits, count)` into an empty histogram and close it -/
def closeAfter (p : Params) (s : Strategy) (recs : List (Nat × Nat)) : List (Nat × Nat) :=
  match s with
  | .sam => (samDrain (recs.foldl (fun vals r => samRecordMany vals r.1 r.2) [])).map samObs
  | _ => (drainMid p (recordAll p (emptyBuckets p.cfg) recs)).map (expObs p.scalePow)

/-- closed histogram → fresh histogram of the same strategy (both the `insert` of a
`HistogramClosed` and `add_value` of it go through `capture`) → closed again -/
def reaggregate (p : Params) (s : Strategy) (closed : List (Nat × Nat)) : List (Nat × Nat) :=
  closeAfter p s (closed.filterMap fun o => capture (.repeated o.1 o.2))

/-- Acceptance of a concurrent run of the atomic strategy: `recs` is everything recorded by all
threads, `drains` the observation lists returned by all `drain` calls (including the last one after
the threads were joined). Accept iff every drain lists non-empty buckets in ascending order and,
bucket by bucket, the occurrences over all drains add up to what a sequential recording yields. -/
def bucketOfObs (p : Params) (o : Nat × Nat) : Option Nat :=
  p.cfg.valueToIndex (scaleFloorPow p.scalePow (bitsOf (ofBits o.1 / u64f o.2)))

def strictlyAscending : List Nat → Bool
  | a :: b :: rest => a < b && strictlyAscending (b :: rest)
  | _ => true

def acceptTrace (p : Params) (recs : List (Nat × Nat)) (drains : List (List (Nat × Nat))) : Bool :=
  let expected := recordAll p (emptyBuckets p.cfg) recs
  let wellFormed := drains.all fun d =>
    d.all (fun o => o.2 > 0 && (bucketOfObs p o).isSome)
      && strictlyAscending (d.filterMap (bucketOfObs p))
  let merged := drains.foldl (fun bs d =>
    d.foldl (fun bs o => match bucketOfObs p o with | some i => addAt bs i o.2 | none => bs) bs)
    (emptyBuckets p.cfg)
  wellFormed && merged == expected

end Exec
end Histogram
