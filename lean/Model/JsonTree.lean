import Model.Json
/-
A generic JSON tree, a compact printer and a reader (recursive descent with fuel) over bytes.

`Model/Json.lean` has a *recogniser*; this file has a *reader* that produces a tree, used to read
back the lines of the operational EMF model (`Model/Emf.lean`) and compare them with the records of
the declarative model (`Model/EmfSpec.lean`), see `Model/EmfRefine.lean`.

* numbers are kept as their literal text (`num tok`): no float is ever parsed;
* strings are unescaped to bytes (`\uXXXX` → UTF-8; surrogate halves are rejected: the EMF
  formatter only emits `\u00XX` for control bytes);
* object members are kept in order, duplicates included;
* the reader is for *compact* JSON (no whitespace between tokens: what the formatter emits).
-/
namespace JsonTree
open Json

inductive JVal where
  | null
  | bool (b : Bool)
  | num (tok : List Nat)
  | str (s : List Nat)
  | arr (xs : List JVal)
  | obj (ms : List (List Nat × JVal))
  deriving Repr, Inhabited

/-! ## structural equality (executable) -/

mutual
def JVal.beq : JVal → JVal → Bool
  | .null, .null => true
  | .bool a, .bool b => a == b
  | .num a, .num b => a == b
  | .str a, .str b => a == b
  | .arr a, .arr b => beqList a b
  | .obj a, .obj b => beqMembers a b
  | _, _ => false
def beqList : List JVal → List JVal → Bool
  | [], [] => true
  | x :: xs, y :: ys => JVal.beq x y && beqList xs ys
  | _, _ => false
def beqMembers : List (List Nat × JVal) → List (List Nat × JVal) → Bool
  | [], [] => true
  | (k, x) :: xs, (k', y) :: ys => k == k' && JVal.beq x y && beqMembers xs ys
  | _, _ => false
end

instance : BEq JVal := ⟨JVal.beq⟩

/-! ## compact printer -/

mutual
def print : JVal → List Nat
  | .null => bytes! "null"
  | .bool true => bytes! "true"
  | .bool false => bytes! "false"
  | .num tok => tok
  | .str s => jstr s
  | .arr xs => 91 :: (printElems xs ++ [93])
  | .obj ms => 123 :: (printMembers ms ++ [125])
/-- elements separated by `,` -/
def printElems : List JVal → List Nat
  | [] => []
  | [x] => print x
  | x :: y :: rest => print x ++ 44 :: printElems (y :: rest)
/-- `"key":value` separated by `,` -/
def printMembers : List (List Nat × JVal) → List Nat
  | [] => []
  | [(k, x)] => jstr k ++ 58 :: print x
  | (k, x) :: y :: rest => jstr k ++ 58 :: print x ++ 44 :: printMembers (y :: rest)
end

/-! ## reader -/

def hexVal (c : Nat) : Option Nat :=
  if 48 ≤ c ∧ c ≤ 57 then some (c - 48)
  else if 97 ≤ c ∧ c ≤ 102 then some (c - 87)
  else if 65 ≤ c ∧ c ≤ 70 then some (c - 55)
  else none

/-- UTF-8 encoding of a BMP code point (`none` for a surrogate half) -/
def utf8 (cp : Nat) : Option (List Nat) :=
  if cp < 128 then some [cp]
  else if cp < 2048 then some [192 + cp / 64, 128 + cp % 64]
  else if 55296 ≤ cp ∧ cp < 57344 then none
  else some [224 + cp / 4096, 128 + (cp / 64) % 64, 128 + cp % 64]

/-- the byte a simple escape `\c` stands for -/
def unescChar (c : Nat) : Option Nat :=
  if c = 34 then some 34 else if c = 92 then some 92 else if c = 47 then some 47
  else if c = 98 then some 8 else if c = 102 then some 12 else if c = 110 then some 10
  else if c = 114 then some 13 else if c = 116 then some 9 else none

inductive SMode where
  | norm
  | esc
  /-- inside `\u`: `left + 1` hex digits to come, `cp` = value so far -/
  | hex (left : Nat) (cp : Nat)

/-- the text after an opening quote → (unescaped content, text after the closing quote);
`acc` = content so far, reversed -/
def readStr : SMode → List Nat → List Nat → Option (List Nat × List Nat)
  | _, [], _ => none
  | .norm, c :: rest, acc =>
    if c = 34 then some (acc.reverse, rest)
    else if c = 92 then readStr .esc rest acc
    else if c < 32 then none
    else readStr .norm rest (c :: acc)
  | .esc, c :: rest, acc =>
    match unescChar c with
    | some b => readStr .norm rest (b :: acc)
    | none => if c = 117 then readStr (.hex 3 0) rest acc else none
  | .hex left cp, c :: rest, acc =>
    match hexVal c with
    | none => none
    | some v =>
      match left with
      | 0 => match utf8 (cp * 16 + v) with
        | none => none
        | some bs => readStr .norm rest (bs.reverse ++ acc)
      | l + 1 => readStr (.hex l (cp * 16 + v)) rest acc

def isNumChar (c : Nat) : Bool :=
  isDigit c || c = 45 || c = 43 || c = 46 || c = 101 || c = 69

/-- the longest prefix of number characters, and the rest -/
def spanNum : List Nat → List Nat × List Nat
  | [] => ([], [])
  | c :: cs => if isNumChar c then ((c :: (spanNum cs).1), (spanNum cs).2) else ([], c :: cs)

/-- `lit` is a prefix of `bs`: the rest -/
def dropLit : List Nat → List Nat → Option (List Nat)
  | [], bs => some bs
  | _ :: _, [] => none
  | l :: ls, b :: bs => if l = b then dropLit ls bs else none

mutual
/-- one value at the start of `bs` → (value, rest) -/
def readVal : Nat → List Nat → Option (JVal × List Nat)
  | 0, _ => none
  | _ + 1, [] => none
  | fuel + 1, c :: rest =>
    if c = 34 then
      match readStr .norm rest [] with
      | some (s, r) => some (.str s, r)
      | none => none
    else if c = 91 then
      match rest with
      | [] => none
      | d :: rest' => if d = 93 then some (.arr [], rest') else readElems fuel (d :: rest') []
    else if c = 123 then
      match rest with
      | [] => none
      | d :: rest' => if d = 125 then some (.obj [], rest') else readMembers fuel (d :: rest') []
    else if c = 116 then (dropLit (bytes! "rue") rest).map fun r => (.bool true, r)
    else if c = 102 then (dropLit (bytes! "alse") rest).map fun r => (.bool false, r)
    else if c = 110 then (dropLit (bytes! "ull") rest).map fun r => (.null, r)
    else
      let tok := (spanNum (c :: rest)).1
      if isNumber tok then some (.num tok, (spanNum (c :: rest)).2) else none
/-- after `[` or `,`: a value, then `,` (more) or `]`; `acc` = elements so far, reversed -/
def readElems : Nat → List Nat → List JVal → Option (JVal × List Nat)
  | 0, _, _ => none
  | fuel + 1, bs, acc =>
    match readVal fuel bs with
    | none => none
    | some (_, []) => none
    | some (v, c :: r) =>
      if c = 44 then readElems fuel r (v :: acc)
      else if c = 93 then some (.arr (v :: acc).reverse, r)
      else none
/-- after `{` or `,`: `"key":value`, then `,` (more) or `}` -/
def readMembers : Nat → List Nat → List (List Nat × JVal) → Option (JVal × List Nat)
  | 0, _, _ => none
  | _ + 1, [], _ => none
  | fuel + 1, q :: bs, acc =>
    if q = 34 then
      match readStr .norm bs [] with
      | none => none
      | some (_, []) => none
      | some (k, colon :: r) =>
        if colon = 58 then
          match readVal fuel r with
          | none => none
          | some (_, []) => none
          | some (v, c :: r') =>
            if c = 44 then readMembers fuel r' ((k, v) :: acc)
            else if c = 125 then some (.obj ((k, v) :: acc).reverse, r')
            else none
        else none
    else none
end

/-- a complete compact JSON text -/
def read (bs : List Nat) : Option JVal :=
  match readVal (bs.length + 1) bs with
  | some (v, []) => some v
  | _ => none

/-- a line = compact JSON text followed by exactly one `\n` -/
def readLine (l : List Nat) : Option JVal :=
  match l.getLast? with
  | some 10 => read l.dropLast
  | _ => none

/-! ## access -/

def JVal.member (v : JVal) (k : List Nat) : Option JVal :=
  match v with
  | .obj ms => (ms.find? (·.1 == k)).map (·.2)
  | _ => none

end JsonTree
