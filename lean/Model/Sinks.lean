/-
Model of the error-handling glue around streams (C16, sink level):
`metrique-writer/src/stream.rs::Tee`, `sink/immediate_flush.rs::SinkState::{append,flush}`.

A leaf stream is scripted: it answers `next` for entry `e` with `res leaf e` and `flush` number `k`
with `fres leaf k`; it logs every call. A tee is a binary tree of leaves.
-/
namespace Sinks

inductive Res where
  | ok | validation | io
  deriving Repr, DecidableEq

/-- `Result::and`: the first error wins, but *both* operands have already been evaluated. -/
def Res.and : Res → Res → Res
  | .ok, r => r
  | r, _ => r

inductive Tree where
  | leaf (id : Nat)
  | tee (l r : Tree)
  deriving Repr

def Tree.leaves : Tree → List Nat
  | .leaf i => [i]
  | .tee l r => l.leaves ++ r.leaves

/-- one call observed by a leaf -/
inductive Call where
  | next (e : Nat)
  | flush
  deriving Repr, DecidableEq

/-- per-leaf call log, as (leaf, call) in global order
(how many flushes each leaf has seen is derived from the log) -/
structure World where
  log : List (Nat × Call)
  deriving Repr

def World.flushesOf (w : World) (leaf : Nat) : Nat :=
  (w.log.filter (fun c => c.1 == leaf && c.2 == Call.flush)).length

def World.nextsOf (w : World) (leaf : Nat) : List Nat :=
  w.log.filterMap (fun c => if c.1 == leaf then (match c.2 with | .next e => some e | .flush => none) else none)

/-- `Tee::next` = `s1.next(e).and(s2.next(e))` (both evaluated, left first). -/
def Tree.next (res : Nat → Nat → Res) : Tree → Nat → World → World × Res
  | .leaf i, e, w => (⟨w.log ++ [(i, .next e)]⟩, res i e)
  | .tee l r, e, w =>
    let (w1, r1) := l.next res e w
    let (w2, r2) := r.next res e w1
    (w2, r1.and r2)

/-- `Tee::flush`: `let r1 = s1.flush(); let r2 = s2.flush(); r1.and(r2)`; `fres leaf k` is the result of
the `k`-th flush of that leaf (`true` = Ok). -/
def Tree.flush (fres : Nat → Nat → Bool) : Tree → World → World × Bool
  | .leaf i, w => (⟨w.log ++ [(i, .flush)]⟩, fres i (w.flushesOf i))
  | .tee l r, w =>
    let (w1, r1) := l.flush fres w
    let (w2, r2) := r.flush fres w1
    (w2, r1 && r2)

/-- `SinkState::append`: `stream.next(entry)` (errors are logged and dropped), then always `flush`. -/
def immediateAppend (res : Nat → Nat → Res) (fres : Nat → Nat → Bool) (t : Tree) (w : World) (e : Nat) : World :=
  let (w1, _) := t.next res e w
  (t.flush fres w1).1

def immediateRun (res : Nat → Nat → Res) (fres : Nat → Nat → Bool) (t : Tree) (es : List Nat) : World :=
  es.foldl (immediateAppend res fres t) ⟨[]⟩

/-- results of calling the tee directly, entry by entry (no flush) -/
def directRun (res : Nat → Nat → Res) (t : Tree) : List Nat → World → World × List Res
  | [], w => (w, [])
  | e :: es, w =>
    let (w1, r) := t.next res e w
    let (w2, rs) := directRun res t es w1
    (w2, r :: rs)

/-! ## A formatter-backed stream over a buffering writer (`format.rs::FormattedEntryIoStream`)

`next` formats the entry into the writer (`write` calls: the writer buffers them), `flush` is
`self.output.flush()` — always, whatever happened before. The writer's `flush` either delivers the
whole buffer or fails and keeps it (what `BufWriter` does). -/
namespace FmtBuf

structure W where
  /-- accepted by `write`, not yet delivered -/
  buf : List Nat
  /-- delivered by successful flushes, in order -/
  delivered : List Nat
  /-- `flush` calls the writer has seen -/
  flushCalls : Nat
  deriving Repr, DecidableEq

inductive Op where
  /-- `stream.next(entry)`; the entry's record is `bytes` -/
  | next (bytes : List Nat)
  /-- `stream.flush()`; `ok` is what the writer's `flush` answers this time -/
  | flush (ok : Bool)
  deriving Repr, DecidableEq

/-- one stream call; the `Bool` is the call's result (`true` = `Ok`) -/
def step (w : W) : Op → W × Bool
  | .next bs => ({ w with buf := w.buf ++ bs }, true)
  | .flush true => (⟨[], w.delivered ++ w.buf, w.flushCalls + 1⟩, true)
  | .flush false => ({ w with flushCalls := w.flushCalls + 1 }, false)

def run : W → List Op → W × List Bool
  | w, [] => (w, [])
  | w, op :: ops =>
    let (w1, r) := step w op
    let (w2, rs) := run w1 ops
    (w2, r :: rs)

def init : W := ⟨[], [], 0⟩

/-- everything `next` was given, in order -/
def written : List Op → List Nat
  | [] => []
  | .next bs :: ops => bs ++ written ops
  | .flush _ :: ops => written ops

/-- `FlushImmediately::append` over such a stream: `next`, then always `flush` -/
def immOps : List (List Nat × Bool) → List Op
  | [] => []
  | (bs, ok) :: es => .next bs :: .flush ok :: immOps es

/-- A variant that is NOT the code: skip the writer's flush unless something was written since the
last flush attempt (the flag is cleared before the flush result is known). Used for a witness. -/
def stepDirty (s : W × Bool) : Op → (W × Bool) × Bool
  | .next bs => (({ s.1 with buf := s.1.buf ++ bs }, true), true)
  | .flush ok =>
    if s.2 then
      let (w, r) := step s.1 (.flush ok)
      ((w, false), r)
    else (s, true)

end FmtBuf

end Sinks
