/-
Model of the error-handling glue around streams (C16, sink level):
`metrique-writer/src/stream.rs::Tee`, `sink/immediate_flush.rs::SinkState::{append,flush}`.

A leaf stream is scripted: it answers `next` for entry `e` with `res leaf e` and `flush` number `k`
with `fres leaf k`; it logs every call. A tee is a binary tree of leaves.
-/
namespace Sinks

inductive Res where
  | ok | validation | io
  deriving Repr, DecidableEq

/-- `Result::and`: the first error wins, but *both* operands have already been evaluated. -/
def Res.and : Res → Res → Res
  | .ok, r => r
  | r, _ => r

inductive Tree where
  | leaf (id : Nat)
  | tee (l r : Tree)
  deriving Repr

def Tree.leaves : Tree → List Nat
  | .leaf i => [i]
  | .tee l r => l.leaves ++ r.leaves

/-- one call observed by a leaf -/
inductive Call where
  | next (e : Nat)
  | flush
  deriving Repr, DecidableEq

/-- per-leaf call log, as (leaf, call) in global order
(how many flushes each leaf has seen is derived from the log) -/
structure World where
  log : List (Nat × Call)
  deriving Repr

def World.flushesOf (w : World) (leaf : Nat) : Nat :=
  (w.log.filter (fun c => c.1 == leaf && c.2 == Call.flush)).length

def World.nextsOf (w : World) (leaf : Nat) : List Nat :=
  w.log.filterMap (fun c => if c.1 == leaf then (match c.2 with | .next e => some e | .flush => none) else none)

/-- `Tee::next` = `s1.next(e).and(s2.next(e))` (both evaluated, left first). -/
def Tree.next (res : Nat → Nat → Res) : Tree → Nat → World → World × Res
  | .leaf i, e, w => (⟨w.log ++ [(i, .next e)]⟩, res i e)
  | .tee l r, e, w =>
    let (w1, r1) := l.next res e w
    let (w2, r2) := r.next res e w1
    (w2, r1.and r2)

/-- `Tee::flush`: `let r1 = s1.flush(); let r2 = s2.flush(); r1.and(r2)`; `fres leaf k` is the result of
the `k`-th flush of that leaf (`true` = Ok). -/
def Tree.flush (fres : Nat → Nat → Bool) : Tree → World → World × Bool
  | .leaf i, w => (⟨w.log ++ [(i, .flush)]⟩, fres i (w.flushesOf i))
  | .tee l r, w =>
    let (w1, r1) := l.flush fres w
    let (w2, r2) := r.flush fres w1
    (w2, r1 && r2)

/-- `SinkState::append`: `stream.next(entry)` (errors are logged and dropped), then always `flush`. -/
def immediateAppend (res : Nat → Nat → Res) (fres : Nat → Nat → Bool) (t : Tree) (w : World) (e : Nat) : World :=
  let (w1, _) := t.next res e w
  (t.flush fres w1).1

def immediateRun (res : Nat → Nat → Res) (fres : Nat → Nat → Bool) (t : Tree) (es : List Nat) : World :=
  es.foldl (immediateAppend res fres t) ⟨[]⟩

/-- results of calling the tee directly, entry by entry (no flush) -/
def directRun (res : Nat → Nat → Res) (t : Tree) : List Nat → World → World × List Res
  | [], w => (w, [])
  | e :: es, w =>
    let (w1, r) := t.next res e w
    let (w2, rs) := directRun res t es w1
    (w2, r :: rs)

end Sinks
