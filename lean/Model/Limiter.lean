/-!
Model of `metrique-writer/src/rate_limit.rs` (`rate_limited!(interval, expr)`, interval = 1 s as at every
call site of the background queue): one `AtomicU64 NEXT_CALL` per call site, in whole seconds since a
process epoch. A call at time `t` (milliseconds since the epoch) evaluates the expression iff
`NEXT_CALL ≤ ⌊t⌋s`, and then sets `NEXT_CALL := ⌊t + 1 s⌋s` (a failed CAS = another thread did exactly
that at the same moment and evaluates instead: one evaluation either way).
-/
namespace Limiter

/-- one call: (evaluates?, new NEXT_CALL) -/
def call (next tMs : Nat) : Bool × Nat :=
  if next ≤ tMs / 1000 then (true, (tMs + 1000) / 1000) else (false, next)

/-- number of evaluations over a sequence of call times -/
def fires : Nat → List Nat → Nat
  | _, [] => 0
  | next, t :: ts => (if (call next t).1 then 1 else 0) + fires (call next t).2 ts

/-- the bound the harness judges by: in a window of `dMs` milliseconds at most `⌊d⌋ + 2` evaluations -/
def windowBound (dMs : Nat) : Nat := dMs / 1000 + 2

/-- the seeded variant: the next slot is scheduled from the previous slot, not from now -/
def callCatchUp (next tMs : Nat) : Bool × Nat :=
  if next ≤ tMs / 1000 then (true, next + 1) else (false, next)

def firesCatchUp : Nat → List Nat → Nat
  | _, [] => 0
  | next, t :: ts => (if (callCatchUp next t).1 then 1 else 0) + firesCatchUp (callCatchUp next t).2 ts

end Limiter
