/-
Model of `metrique/src/timers.rs` (`Stopwatch`, `TimerGuard`, `OwnedTimerGuard`,
`MaybeGuardedDuration`, `Timer`, `Timestamp`, `TimestampOnClose`, the epoch-unit formatters) over a
manually advanced time source (`metrique-timesource/src/fakes.rs::ManuallyAdvancedTimeSource`), and
of `metrique-timesource/src/lib.rs::get_time_source`.

Time is in nanoseconds (`Nat`). The time source has two independent clocks, as in the fake:
a monotonic one (`now`, only ever advanced: `update_instant(d)` is `now_instant += d`) and a wall clock
(`wall : Int`, nanoseconds relative to `UNIX_EPOCH`, set arbitrarily by `update_time`).
`Instant::elapsed()` is `now - start` (saturating, like `Instant - Instant`).

An `Arc<Mutex<Option<Duration>>>` is an index into a heap of cells (`Heap`); `Arc::new` appends a
cell. `Duration` overflow (`Duration + Duration` panics above `u64::MAX` seconds) is not modelled.
-/
namespace Timers

/-! ## `MaybeGuardedDuration` -/

/-- the heap of `Mutex<Option<Duration>>` cells allocated by `Arc::new` -/
abbrev Heap := List (Option Nat)

/-- `MaybeGuardedDuration`: `Exclusive(Option<Duration>)` or `Shared(SharedDuration(Arc<…>))` -/
inductive Rep where
  | exclusive (d : Option Nat)
  | shared (cell : Nat)
  deriving Repr, DecidableEq

/-- lock the mutex of cell `c` and read it -/
def Heap.read (h : Heap) (c : Nat) : Option Nat := h.getD c none

/-- `MaybeGuardedDuration::take`: pull the stored duration out, leaving empty state behind -/
def Rep.take (r : Rep) (h : Heap) : Option Nat × Rep × Heap :=
  match r with
  | .exclusive d => (d, .exclusive none, h)
  | .shared c => (Heap.read h c, .shared c, h.set c none)

/-- `impl AddAssign<Duration> for MaybeGuardedDuration` (and for `SharedDuration`) -/
def Rep.add (r : Rep) (h : Heap) (rhs : Nat) : Rep × Heap :=
  match r with
  | .exclusive d => (.exclusive (some (d.getD 0 + rhs)), h)
  | .shared c => (.shared c, h.set c (some ((Heap.read h c).getD 0 + rhs)))

/-- `MaybeGuardedDuration::shared_cloned`: convert to the shared variant if needed (allocating a new
cell holding the taken duration), return a clone of the `Arc` -/
def Rep.sharedCloned (r : Rep) (h : Heap) : Nat × Rep × Heap :=
  match r with
  | .exclusive d => (h.length, .shared h.length, h ++ [d])
  | .shared c => (c, .shared c, h)

/-! ## Guards -/

/-- the fields `start: Option<Instant>`, `self_time: Option<Duration>` of both guard types -/
structure Guard where
  start : Option Nat
  selfTime : Option Nat
  deriving Repr, DecidableEq

/-- `stop_ref(&mut self) -> Option<Duration>` (identical for both guard types) -/
def Guard.stopRef (g : Guard) (now : Nat) : Option Nat × Guard :=
  match g.selfTime with
  | some t => (some t, g)
  | none =>
    let elapsed := g.start.map fun s => now - s
    (elapsed, { g with selfTime := elapsed })

/-- `impl Drop for TimerGuard` / `OwnedTimerGuard`; `r` is what the guard's `timer` points at: the
stopwatch's own field for a borrowed guard, `Shared(arc)` for an owned one -/
def Guard.drop (g : Guard) (now : Nat) (r : Rep) (h : Heap) : Rep × Heap :=
  match (g.stopRef now).1 with
  | some t => r.add h t
  | none => (r, h)

/-- `stop(mut self) -> Duration`: `self.stop_ref().unwrap()` (`none` = the `unwrap` panics), then the
guard is dropped -/
def Guard.stop (g : Guard) (now : Nat) (r : Rep) (h : Heap) : Option Nat × Rep × Heap :=
  let (t, g') := g.stopRef now
  (t, g'.drop now r h)

/-- `overwrite(self)`: `self.timer.take()`, then the guard is dropped -/
def Guard.overwrite (g : Guard) (now : Nat) (r : Rep) (h : Heap) : Rep × Heap :=
  let (_, r', h') := r.take h
  g.drop now r' h'

/-- `discard(mut self)`: `self.self_time.take(); self.start.take()`, then the guard is dropped -/
def Guard.discard (_g : Guard) (now : Nat) (r : Rep) (h : Heap) : Rep × Heap :=
  Guard.drop { start := none, selfTime := none } now r h

/-- `OwnedTimerGuard`: its `timer` field is always `MaybeGuardedDuration::Shared(arc)` -/
structure OGuard where
  g : Guard
  cell : Nat
  deriving Repr, DecidableEq

/-! ## Stopwatch -/

inductive Op where
  /-- `time_source.update_instant(d)` -/
  | advance (d : Nat)
  /-- `dropB unwinding`: the `TimerGuard` goes out of scope — normally, or (`unwinding = true`) because a
  contained panic (`catch_unwind`) unwinds through the scope holding it. `Drop` does not look at
  `std::thread::panicking()`: the model ignores the flag. -/
  | startB | stopB | dropB (unwinding : Bool) | discardB | overwriteB
  /-- owned guards live in named slots `k` (a harness variable holding the `OwnedTimerGuard`) -/
  | startO (k : Nat) | stopO (k : Nat) | dropO (k : Nat) (unwinding : Bool) | discardO (k : Nat) | overwriteO (k : Nat)
  | clear
  deriving Repr, DecidableEq

structure Impl where
  /-- monotonic clock of the time source -/
  now : Nat
  /-- `Stopwatch::start: Option<Instant>` (no code path ever sets it) -/
  start : Option Nat
  /-- `Stopwatch::duration` -/
  rep : Rep
  heap : Heap
  /-- the live `TimerGuard<'_>` (it mutably borrows the stopwatch, so there is at most one) -/
  borrowed : Option Guard
  /-- the live `OwnedTimerGuard`s by slot -/
  owned : Nat → Option OGuard

def Impl.init : Impl :=
  { now := 0, start := none, rep := .exclusive none, heap := [], borrowed := none, owned := fun _ => none }

def Impl.setOwned (s : Impl) (k : Nat) (v : Option OGuard) : Impl :=
  { s with owned := fun j => if j = k then v else s.owned j }

/-- One operation. `none` = not expressible in Rust: the stopwatch is mutably borrowed by a live
`TimerGuard` (`start`, `start_owned`, `clear`), or the guard named by the operation does not exist, or
the slot is occupied. -/
def Impl.step (s : Impl) : Op → Option Impl
  | .advance d => some { s with now := s.now + d }
  | .startB =>
    match s.borrowed with
    | some _ => none
    | none => some { s with borrowed := some { start := some s.now, selfTime := none } }
  | .stopB => s.borrowed.map fun g =>
      let (_, r, h) := g.stop s.now s.rep s.heap
      { s with rep := r, heap := h, borrowed := none }
  | .dropB _ => s.borrowed.map fun g =>
      let (r, h) := g.drop s.now s.rep s.heap
      { s with rep := r, heap := h, borrowed := none }
  | .discardB => s.borrowed.map fun g =>
      let (r, h) := g.discard s.now s.rep s.heap
      { s with rep := r, heap := h, borrowed := none }
  | .overwriteB => s.borrowed.map fun g =>
      let (r, h) := g.overwrite s.now s.rep s.heap
      { s with rep := r, heap := h, borrowed := none }
  | .startO k =>
    match s.borrowed, s.owned k with
    | none, none =>
      -- `let shared_duration = self.duration.shared_cloned(); let start = self.time_source.instant();`
      let (c, r, h) := s.rep.sharedCloned s.heap
      some ({ s with rep := r, heap := h }.setOwned k
        (some { g := { start := some s.now, selfTime := none }, cell := c }))
    | _, _ => none
  | .stopO k => (s.owned k).map fun og =>
      let (_, _, h) := og.g.stop s.now (.shared og.cell) s.heap
      { s with heap := h }.setOwned k none
  | .dropO k _ => (s.owned k).map fun og =>
      let (_, h) := og.g.drop s.now (.shared og.cell) s.heap
      { s with heap := h }.setOwned k none
  | .discardO k => (s.owned k).map fun og =>
      let (_, h) := og.g.discard s.now (.shared og.cell) s.heap
      { s with heap := h }.setOwned k none
  | .overwriteO k => (s.owned k).map fun og =>
      let (_, h) := og.g.overwrite s.now (.shared og.cell) s.heap
      { s with heap := h }.setOwned k none
  | .clear =>
    match s.borrowed with
    | some _ => none
    | none =>
      -- `self.duration.take(); self.start.take();`
      let (_, r, h) := s.rep.take s.heap
      some { s with rep := r, heap := h, start := none }

/-- the value returned by `guard.stop()` when the operation is a stop (`some none` = `unwrap` panic) -/
def Impl.ret (s : Impl) : Op → Option (Option Nat)
  | .stopB => s.borrowed.map fun g => (g.stop s.now s.rep s.heap).1
  | .stopO k => (s.owned k).map fun og => (og.g.stop s.now (.shared og.cell) s.heap).1
  | _ => none

def Impl.run (s : Impl) : List Op → Option Impl
  | [] => some s
  | op :: ops => (s.step op).bind fun s' => s'.run ops

/-- `impl CloseValue for &Stopwatch` -/
def Impl.close (s : Impl) : Option Nat :=
  match s.rep with
  | .exclusive (some d) => some d
  | .shared c => Heap.read s.heap c
  | .exclusive none => s.start.map fun st => s.now - st

/-! ## Stopwatch: the specification ("sum of kept spans") -/

/-- what happened to a guard span / to the stopwatch, newest first in `Spec.events` -/
inductive Ev where
  /-- a guard was stopped or dropped after measuring `d` -/
  | kept (d : Nat)
  /-- a guard was discarded after measuring `d` -/
  | discarded (d : Nat)
  /-- `Stopwatch::clear` -/
  | cleared
  /-- a guard that measured `d` was flushed with `overwrite` -/
  | overwrote (d : Nat)
  deriving Repr, DecidableEq

/-- The reported duration given the history (newest event first): the total of the completed,
non-discarded spans since the last clear or overwrite (the overwriting guard's own span included);
absent if there is none. -/
def total : List Ev → Option Nat
  | [] => none
  | .cleared :: _ => none
  | .overwrote d :: _ => some d
  | .discarded _ :: es => total es
  | .kept d :: es => some (d + (total es).getD 0)

structure Spec where
  now : Nat
  bStart : Option Nat
  oStart : Nat → Option Nat
  events : List Ev

def Spec.init : Spec := { now := 0, bStart := none, oStart := fun _ => none, events := [] }

def Spec.endO (s : Spec) (k : Nat) (ev : Nat → Ev) : Spec :=
  match s.oStart k with
  | some t => { s with oStart := (fun j => if j = k then none else s.oStart j), events := ev (s.now - t) :: s.events }
  | none => s

def Spec.endB (s : Spec) (ev : Nat → Ev) : Spec :=
  match s.bStart with
  | some t => { s with bStart := none, events := ev (s.now - t) :: s.events }
  | none => s

/-- the specification only records when guards start and how they end (total: operations on absent
guards are ignored) -/
def Spec.step (s : Spec) : Op → Spec
  | .advance d => { s with now := s.now + d }
  | .startB => { s with bStart := some s.now }
  | .stopB | .dropB _ => s.endB .kept
  | .discardB => s.endB .discarded
  | .overwriteB => s.endB .overwrote
  | .startO k => { s with oStart := fun j => if j = k then some s.now else s.oStart j }
  | .stopO k | .dropO k _ => s.endO k .kept
  | .discardO k => s.endO k .discarded
  | .overwriteO k => s.endO k .overwrote
  | .clear => { s with events := .cleared :: s.events }

def Spec.run (s : Spec) (ops : List Op) : Spec := ops.foldl Spec.step s

def Spec.close (s : Spec) : Option Nat := total s.events

/-! ## Timer -/

structure Timer where
  /-- `start: Instant` -/
  start : Nat
  /-- `duration: Option<Duration>` -/
  duration : Option Nat
  deriving Repr, DecidableEq

inductive TOp where
  | advance (d : Nat)
  | stop
  deriving Repr, DecidableEq

/-- `Timer::stop(&mut self) -> Duration` -/
def Timer.stop (t : Timer) (now : Nat) : Nat × Timer :=
  match t.duration with
  | some d => (d, t)
  | none => (now - t.start, { t with duration := some (now - t.start) })

/-- `impl CloseValue for &Timer` -/
def Timer.close (t : Timer) (now : Nat) : Nat :=
  t.duration.getD (now - t.start)

structure TState where
  now : Nat
  timer : Timer
  deriving Repr, DecidableEq

/-- `Timer::start_now_with_timesource(ts)` at monotonic time `now` -/
def TState.init (now : Nat) : TState := { now := now, timer := { start := now, duration := none } }

def TState.step (s : TState) : TOp → TState
  | .advance d => { s with now := s.now + d }
  | .stop => { s with timer := (s.timer.stop s.now).2 }

def TState.run (s : TState) (ops : List TOp) : TState := ops.foldl TState.step s

def TState.close (s : TState) : Nat := s.timer.close s.now

/-- specification: time from creation to the first stop, or to the close if never stopped -/
def timerSpec : List TOp → Nat
  | [] => 0
  | .advance d :: ops => d + timerSpec ops
  | .stop :: _ => 0

/-! ## Timestamps -/

/-- `TimestampValue::new`: `ts.duration_since(UNIX_EPOCH).unwrap_or_default()` (nanoseconds) -/
def sinceEpoch (wall : Int) : Nat := wall.toNat

inductive SOp where
  /-- `time_source.update_time(UNIX_EPOCH + w)` (`w` may be negative) -/
  | setWall (w : Int)
  /-- `Timestamp::now()` / `Timestamp::new_from_time_source(ts)` -/
  | newStamp
  /-- `TimestampOnClose::default()` -/
  | newOnClose
  /-- close the oldest pending `TimestampOnClose` -/
  | closeOnClose
  deriving Repr, DecidableEq

structure SState where
  wall : Int
  /-- `Timestamp { time }` values, oldest first -/
  stamps : List Int
  /-- number of pending `TimestampOnClose` (they hold only the time source) -/
  pending : Nat
  /-- values returned by closing `TimestampOnClose`s, oldest first -/
  closed : List Nat
  deriving Repr, DecidableEq

def SState.step (s : SState) : SOp → SState
  | .setWall w => { s with wall := w }
  | .newStamp => { s with stamps := s.stamps ++ [s.wall] }
  | .newOnClose => { s with pending := s.pending + 1 }
  | .closeOnClose =>
    match s.pending with
    | 0 => s
    | n + 1 => { s with pending := n, closed := s.closed ++ [sinceEpoch s.wall] }

def SState.run (s : SState) (ops : List SOp) : SState := ops.foldl SState.step s

/-- closing every `&Timestamp` -/
def SState.values (s : SState) : List Nat := s.stamps.map sinceEpoch

/-- specification: values of the `Timestamp`s created by `ops` when the wall clock starts at `w` -/
def stampSpec (w : Int) : List SOp → List Nat
  | [] => []
  | .setWall w' :: ops => stampSpec w' ops
  | .newStamp :: ops => sinceEpoch w :: stampSpec w ops
  | _ :: ops => stampSpec w ops

/-- specification: values of the `TimestampOnClose`s closed by `ops` (wall clock `w`, `p` pending) -/
def onCloseSpec (w : Int) (p : Nat) : List SOp → List Nat
  | [] => []
  | .setWall w' :: ops => onCloseSpec w' p ops
  | .newStamp :: ops => onCloseSpec w p ops
  | .newOnClose :: ops => onCloseSpec w (p + 1) ops
  | .closeOnClose :: ops =>
    match p with
    | 0 => onCloseSpec w 0 ops
    | n + 1 => sinceEpoch w :: onCloseSpec w n ops

/-- `EpochMicros`: `itoa(value.as_micros())` -/
def epochMicros (ns : Nat) : Nat := ns / 1000

/-- `Duration::as_secs()` / `subsec_nanos()` -/
def secsPart (ns : Nat) : Nat := ns / 1000000000
def nanosPart (ns : Nat) : Nat := ns % 1000000000

/-- `Duration::as_secs_f64()`: `(secs as f64) + (nanos as f64) / 1e9` — executable twin, compared by
bit pattern with the value the real formatter prints (`EpochSeconds`) -/
def asSecsF64 (ns : Nat) : Float :=
  Float.ofNat (secsPart ns) + Float.ofNat (nanosPart ns) / 1000000000.0

/-- `duration_as_millis_with_nano_precision` (`EpochMillis`, and the default `Value::write`) -/
def asMillisF64 (ns : Nat) : Float := asSecsF64 ns * 1000.0

/-! ## `get_time_source` -/

inductive Source where
  | explicit | threadLocal | runtime | system
  deriving Repr, DecidableEq

/-- which time source `get_time_source(ts)` returns: the explicit argument, else the thread-local
override, else the tokio runtime override, else the system clock -/
def resolve (explicit threadLocal runtime : Bool) : Source :=
  if explicit then .explicit
  else if threadLocal then .threadLocal
  else if runtime then .runtime
  else .system

/-! ## the time-source environment: overrides are installed and dropped over time

`set_time_source(ts)` replaces the thread-local slot and returns a `ThreadLocalTimeSourceGuard`
holding the `previous` content; the guard's `Drop` writes `previous` back (whatever the slot holds
by then). `with_time_source(ts, f)` is `let _guard = set_time_source(ts); f()`.
`set_time_source_for_current_runtime(ts)` inserts into a map keyed by the runtime id, panics (and
inserts nothing) when an entry exists; its guard's `Drop` removes the entry. Time sources are named
by numbers. -/

/-- what a default constructor ends up bound to -/
inductive Src where
  | fake (id : Nat)
  | system
  deriving Repr, DecidableEq

structure Env where
  /-- `THREAD_LOCAL_TIME_SOURCE` -/
  thread : Option Nat
  /-- the entry of the current runtime in `runtime_time_sources()` -/
  runtime : Option Nat
  /-- live named `ThreadLocalTimeSourceGuard`s: their `previous` field -/
  guards : Nat → Option (Option Nat)
  /-- `with_time_source` scopes in progress, innermost first: the `previous` of their guards -/
  scopes : List (Option Nat)
  /-- a `RuntimeTimeSourceGuard` is live -/
  rtGuard : Bool

def Env.init : Env :=
  { thread := none, runtime := none, guards := fun _ => none, scopes := [], rtGuard := false }

inductive EOp where
  /-- `let g = set_time_source(source s)` -/
  | install (g s : Nat)
  /-- `drop(g)` -/
  | dropGuard (g : Nat)
  /-- entering `with_time_source(source s, || …)` -/
  | scopeBegin (s : Nat)
  /-- the closure of the innermost `with_time_source` returns -/
  | scopeEnd
  /-- `set_time_source_for_current_runtime(source s)` -/
  | installRt (s : Nat)
  /-- dropping the `RuntimeTimeSourceGuard` -/
  | dropRt
  /-- building a `Stopwatch` / `Timer` / `Timestamp` / `TimestampOnClose`: with an explicit source
  (`*_from_timesource`, `*_with_timesource`) or through a default constructor (`none`) -/
  | construct (explicit : Option Nat)
  deriving Repr, DecidableEq

/-- `get_time_source(explicit)` in the current environment -/
def Env.bind (e : Env) (explicit : Option Nat) : Src :=
  match explicit with
  | some s => .fake s
  | none =>
    match e.thread with
    | some s => .fake s
    | none =>
      match e.runtime with
      | some s => .fake s
      | none => .system

/-- `none` = not expressible (guard name in use / not live, no scope to end, no runtime guard) -/
def Env.step (e : Env) : EOp → Option Env
  | .install g s =>
    match e.guards g with
    | some _ => none
    | none => some { e with thread := some s, guards := fun j => if j = g then some e.thread else e.guards j }
  | .dropGuard g =>
    match e.guards g with
    | none => none
    | some previous => some { e with thread := previous, guards := fun j => if j = g then none else e.guards j }
  | .scopeBegin s => some { e with thread := some s, scopes := e.thread :: e.scopes }
  | .scopeEnd =>
    match e.scopes with
    | [] => none
    | previous :: rest => some { e with thread := previous, scopes := rest }
  | .installRt s =>
    match e.runtime with
    | some _ => some e      -- `assert!(!already_installed)` panics, nothing was inserted, no guard
    | none => if e.rtGuard then none else some { e with runtime := some s, rtGuard := true }
  | .dropRt => if e.rtGuard then some { e with runtime := none, rtGuard := false } else none
  | .construct _ => some e

inductive EOut where
  | nothing
  | panic
  | bound (s : Src)
  deriving Repr, DecidableEq

/-- the observable of an operation -/
def Env.out (e : Env) : EOp → EOut
  | .installRt _ => if e.runtime.isSome then .panic else .nothing
  | .construct x => .bound (e.bind x)
  | _ => .nothing

def Env.run (e : Env) : List EOp → Option Env
  | [] => some e
  | op :: ops => (e.step op).bind fun e' => e'.run ops

end Timers
