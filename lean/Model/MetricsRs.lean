/-
Model of the metrics.rs bridge (`metrique-metricsrs`):

* `accumulator.rs`  — `MetricRecorder`: a `metrics_util` registry of `Arc<AtomicU64>` counters, `Arc<AtomicU64>`
  gauges (f64 bit patterns) and `Arc<metrics_histogram::Histogram>` histograms, plus a `RwLock<HashMap<String, Unit>>`
  of described units (keyed by metric *name*, shared by the three kinds); `Entry for MetricAccumulatorEntry`.
* `generic.rs`      — `readout`: `swap(0)` every counter (dropping zero deltas unless `emit_zero_counters`), `load`
  every gauge, `drain` every histogram, then clone the unit map.
* `metrics_histogram.rs` + `histogram::Config::new(4, 32)` — `value_to_index`, `index_to_lower_bound`,
  `index_to_upper_bound`, `midpoint`, `drain` (one `swap(0)` per bucket, in index order; non-empty buckets only;
  `count as u32`).

Atomic steps are `Ev`; what a step hands to the reader is `Obs`. A *readout* is the event list `readoutEvents`
(one `swapC` per registered counter, one `gload` per gauge, one `hswap` per histogram bucket) followed by
`buildEntry`. The theorems in `Props/C20.lean` quantify over arbitrary event lists, i.e. over every interleaving of
updater steps with the steps of any number of readouts.

Names, label keys, label values and units are `Nat` identifiers (only their identity matters to the bridge); a key is
a name with its label *set* (metrics 0.24 compares and hashes `Key`s irrespective of label order; the harness sends
labels sorted by label key and compares dimensions sorted).
-/
namespace MetricsRs

structure Key where
  name : Nat
  labels : List (Nat × Nat)
  deriving DecidableEq, Repr

/-- 2^64: `AtomicU64::fetch_add` wraps. -/
def two64 : Nat := 18446744073709551616
/-- 2^32: `bucket.count() as u32` truncates. -/
def two32 : Nat := 4294967296

/-! ## The histogram layout `histogram::Config::new(grouping_power, max_value_power)` -/

/-- hand-written copy of the configuration in `Histogram::default_configuration`; `Props/C20.lean` proves it equal to
the constants regenerated from the Rust source (`Generated/MetricsRs.lean`). -/
def histGrouping : Nat := 4
def histMaxPower : Nat := 32

/-- `Config::total_buckets` = `lower_bin_count + upper_bin_count`. -/
def totalBuckets (g n : Nat) : Nat := 2 ^ (g + 1) + (n - (g + 1)) * 2 ^ g

/-- `Config::value_to_index`; `none` is `Err(OutOfRange)`. -/
def valueToIndex (g n v : Nat) : Option Nat :=
  if v < 2 ^ (g + 1) then some v
  else if v > 2 ^ n - 1 then none
  else
    let power := Nat.log2 v
    let logBin := power - (g + 1)
    let offset := (v - 2 ^ power) / 2 ^ (power - g)
    some (2 ^ (g + 1) + logBin * 2 ^ g + offset)

/-- `Config::index_to_lower_bound`. -/
def lowerBound (g i : Nat) : Nat :=
  let gg := i / 2 ^ g
  let h := i - gg * 2 ^ g
  if gg < 1 then h else 2 ^ (g + gg - 1) + 2 ^ (gg - 1) * h

/-- `Config::index_to_upper_bound`. -/
def upperBound (g n i : Nat) : Nat :=
  if i = totalBuckets g n - 1 then 2 ^ n - 1
  else
    let gg := i / 2 ^ g
    let h := i - gg * 2 ^ g + 1
    if gg < 1 then h - 1 else 2 ^ (g + gg - 1) + 2 ^ (gg - 1) * h - 1

/-- `metrics_histogram::midpoint(range)`. -/
def midpoint (lo hi : Nat) : Nat := lo + (hi - lo) / 2

/-- the `value` of the `Bucket` reported for index `i` (`midpoint(bucket.range()) as u32`). -/
def bucketValue (i : Nat) : Nat :=
  midpoint (lowerBound histGrouping i) (upperBound histGrouping histMaxPower i) % two32

def nBuckets : Nat := totalBuckets histGrouping histMaxPower

/-! ## State, atomic steps -/

/-- Finitely supported `Nat`-valued maps (a missing key reads 0), kept small so that the compiled driver stays fast:
`put` replaces in place and drops zero entries. Only `get` is observable; `Props/C20.lean` proves
`get (put m k v) k' = if k' = k then v else get m k'`. -/
abbrev FMap (α : Type) := List (α × Nat)

def FMap.get {α : Type} [DecidableEq α] : FMap α → α → Nat
  | [], _ => 0
  | (k', v) :: r, k => if k' = k then v else FMap.get r k

def FMap.put {α : Type} [DecidableEq α] (m : FMap α) (k : α) (v : Nat) : FMap α :=
  let m' := m.filter (fun p => decide (p.1 ≠ k))
  if v = 0 then m' else (k, v) :: m'

structure State where
  /-- `emit_zero_counters` -/
  emitZero : Bool
  /-- registered keys per kind, in registration order (the registry's hash-map order is not modelled; readouts are
  compared as sorted lists) -/
  regC : List Key
  regG : List Key
  regH : List Key
  /-- counter cells (`AtomicU64`, created 0) -/
  ctr : FMap Key
  /-- gauge cells (`AtomicU64` holding `f64::to_bits`, created 0 = `0.0`) -/
  gauge : FMap Key
  /-- histogram bucket cells (`AtomicU64` each), by (key, bucket index) -/
  hist : FMap (Key × Nat)
  /-- `units: RwLock<HashMap<String, Unit>>`, by metric name; unit 0 = `Unit::None` (same as "not described") -/
  units : FMap Nat

def State.init (emitZero : Bool) : State :=
  { emitZero, regC := [], regG := [], regH := [], ctr := [], gauge := [], hist := [], units := [] }

def State.ctrOf (s : State) (k : Key) : Nat := FMap.get s.ctr k
def State.gaugeOf (s : State) (k : Key) : Nat := FMap.get s.gauge k
def State.histOf (s : State) (k : Key) (i : Nat) : Nat := FMap.get s.hist (k, i)
def State.unitOf (s : State) (name : Nat) : Nat := FMap.get s.units name

inductive Ev where
  /-- `register_counter` / `register_gauge` / `register_histogram` (`get_or_create_*`) -/
  | regC (k : Key)
  | regG (k : Key)
  | regH (k : Key)
  /-- `Counter::increment(n)`: `fetch_add(n)` -/
  | inc (k : Key) (n : Nat)
  /-- `Gauge::set(v)`: store of the bit pattern -/
  | gset (k : Key) (bits : Nat)
  /-- `Histogram::record(v)`: `fetch_add(1)` on bucket `value_to_index(v)` -/
  | hrec (k : Key) (v : Nat)
  /-- `describe_counter` / `describe_gauge` / `describe_histogram`: insert into the unit map -/
  | describe (name : Nat) (unit : Nat)
  /-- readout step: `counter.swap(0)` -/
  | swapC (k : Key)
  /-- readout step: `gauge.load()` -/
  | gload (k : Key)
  /-- readout step: `bucket.swap(0)` for bucket `i` of histogram `k` (inside `AtomicHistogram::drain`) -/
  | hswap (k : Key) (i : Nat)
  deriving DecidableEq, Repr

/-- what a readout step hands to the reader -/
inductive Obs where
  | counter (k : Key) (delta : Nat)
  | gauge (k : Key) (bits : Nat)
  /-- the `u64` swapped out of bucket `i` (before `as u32`) -/
  | bucket (k : Key) (i : Nat) (count : Nat)
  deriving DecidableEq, Repr

def register (reg : List Key) (k : Key) : List Key := if k ∈ reg then reg else reg ++ [k]

def step (s : State) : Ev → State × List Obs
  | .regC k => ({ s with regC := register s.regC k }, [])
  | .regG k => ({ s with regG := register s.regG k }, [])
  | .regH k => ({ s with regH := register s.regH k }, [])
  | .inc k n => ({ s with ctr := s.ctr.put k ((s.ctrOf k + n) % two64) }, [])
  | .gset k b => ({ s with gauge := s.gauge.put k b }, [])
  | .hrec k v =>
    match valueToIndex histGrouping histMaxPower v with
    | some i => ({ s with hist := s.hist.put (k, i) ((s.histOf k i + 1) % two64) }, [])
    | none => (s, [])     -- `expect("known within bounds because of type")`: unreachable for a `u32`
  | .describe nm u => ({ s with units := s.units.put nm u }, [])
  | .swapC k => ({ s with ctr := s.ctr.put k 0 }, [.counter k (s.ctrOf k)])
  | .gload k => (s, [.gauge k (s.gaugeOf k)])
  | .hswap k i => ({ s with hist := s.hist.put (k, i) 0 }, [.bucket k i (s.histOf k i)])

def run (s : State) : List Ev → State × List Obs
  | [] => (s, [])
  | e :: es =>
    let r1 := step s e
    let r2 := run r1.1 es
    (r2.1, r1.2 ++ r2.2)

/-! ## Readout and entry construction -/

/-- the atomic steps of one `readout`, in program order: `visit_counters`, `visit_gauges`, `visit_histograms`
(each `drain` swaps the buckets in index order). -/
def readoutEvents (s : State) : List Ev :=
  s.regC.map .swapC ++ s.regG.map .gload ++
    s.regH.flatMap (fun k => (List.range nBuckets).map (.hswap k))

/-- one `Observation` of a written metric -/
inductive OV where
  | unsigned (n : Nat)
  | floating (bits : Nat)
  /-- `Observation::Repeated { total: value as f64 * count as f64, occurrences: count }` -/
  | repeated (value count : Nat)
  deriving DecidableEq, Repr

/-- one `writer.value(name, MultiObservation { value, unit, dimensions })` -/
structure Item where
  name : Nat
  dims : List (Nat × Nat)
  /-- `0` = `Unit::None` (nothing described under this name, or described without a unit) -/
  unit : Nat
  obs : List OV
  deriving DecidableEq, Repr

structure Entry where
  hasTimestamp : Bool
  allowSplit : Bool
  counters : List Item
  gauges : List Item
  hists : List Item
  deriving DecidableEq, Repr

def Entry.items (e : Entry) : List Item := e.counters ++ e.gauges ++ e.hists

def counterItems (emitZero : Bool) (units : Nat → Nat) : List Obs → List Item
  | [] => []
  | .counter k d :: os =>
    if emitZero || d != 0 then
      { name := k.name, dims := k.labels, unit := units k.name, obs := [.unsigned d] } :: counterItems emitZero units os
    else counterItems emitZero units os
  | _ :: os => counterItems emitZero units os

def gaugeItems (units : Nat → Nat) : List Obs → List Item
  | [] => []
  | .gauge k b :: os =>
    { name := k.name, dims := k.labels, unit := units k.name, obs := [.floating b] } :: gaugeItems units os
  | _ :: os => gaugeItems units os

/-- `Histogram::drain` for key `k`: the non-empty buckets swapped out for `k`, as `Bucket { value, count as u32 }` -/
def bucketsOf (k : Key) : List Obs → List OV
  | [] => []
  | .bucket k' i c :: os =>
    if k' = k ∧ c > 0 then .repeated (bucketValue i) (c % two32) :: bucketsOf k os else bucketsOf k os
  | _ :: os => bucketsOf k os

def histItems (units : Nat → Nat) (regH : List Key) (obs : List Obs) : List Item :=
  regH.map fun k => { name := k.name, dims := k.labels, unit := units k.name, obs := bucketsOf k obs }

/-- `MetricAccumulatorEntry` as written by its `Entry` impl: timestamp, `AllowSplitEntries`, counters, gauges,
histograms. `units` is the map cloned at the end of the readout. -/
def buildEntry (s : State) (obs : List Obs) : Entry :=
  { hasTimestamp := true, allowSplit := true,
    counters := counterItems s.emitZero s.unitOf obs,
    gauges := gaugeItems s.unitOf obs,
    hists := histItems s.unitOf s.regH obs }

/-- `MetricRecorder::readout` run without interference. -/
def readout (s : State) : State × Entry :=
  let r := run s (readoutEvents s)
  (r.1, buildEntry r.1 r.2)

/-! ## A readout interleaved with other threads: the walk, then the unit map

`MetricRecorderInner::readout` hands `V::readout` a *closure* for the unit map; `V::readout` walks the registry
(`visit_counters`, `visit_gauges`, `visit_histograms`: the steps `swapC` / `gload` / `hswap`) and only then evaluates
the closure (`units: units()`). Between any two of these steps other threads run. `tagged` is one such interleaving:
`(true, e)` is a step of this readout's walk, `(false, e)` a step of another thread (an updater, a `describe_*`, a
registration, a step of another readout). The unit map is read after the last event of the list. -/

/-- runs every event; only the observations of this readout's own steps are collected -/
def runTagged (s : State) : List (Bool × Ev) → State × List Obs
  | [] => (s, [])
  | (mine, e) :: es =>
    let r1 := step s e
    let r2 := runTagged r1.1 es
    (r2.1, (if mine then r1.2 else []) ++ r2.2)

/-- the histogram keys this walk visited (first occurrences, in order) -/
def histKeys : List Obs → List Key
  | [] => []
  | .bucket k _ _ :: os => if k ∈ histKeys os then histKeys os else k :: histKeys os
  | _ :: os => histKeys os

/-- the entry of a readout whose walk observed `obs` and whose unit map is `units` -/
def buildEntryWalk (emitZero : Bool) (units : Nat → Nat) (obs : List Obs) : Entry :=
  { hasTimestamp := true, allowSplit := true,
    counters := counterItems emitZero units obs,
    gauges := gaugeItems units obs,
    hists := histItems units (histKeys obs) obs }

/-- the code's order: walk (interleaved with everybody else), then read the unit map -/
def readoutInterleaved (s : State) (tagged : List (Bool × Ev)) : Entry :=
  let r := runTagged s tagged
  buildEntryWalk r.1.emitZero r.1.unitOf r.2

/-- the other order — the unit map cloned before the walk (NOT what the code does; `Props/C20.lean` shows by a
concrete interleaving that this order loses the unit of a metric described and registered during the walk) -/
def readoutUnitsFirst (s : State) (tagged : List (Bool × Ev)) : Entry :=
  let r := runTagged s tagged
  buildEntryWalk r.1.emitZero s.unitOf r.2

/-- `f64` addition / subtraction on bit patterns (`GaugeFn::increment` / `decrement` of `AtomicU64`:
`f64::from_bits(cur) ± value`); executable twin, IEEE binary64 like the Rust side -/
def f64Add (a b : Nat) : Nat := (Float.ofBits a.toUInt64 + Float.ofBits b.toUInt64).toBits.toNat
def f64Sub (a b : Nat) : Nat := (Float.ofBits a.toUInt64 - Float.ofBits b.toUInt64).toBits.toNat

/-- a sequential script: updater steps, whole readouts, and the remaining recording entry points of the handles the
bridge hands out, which are defined by what they do to one cell:
* `recordMany k v n` — `Histogram::record_many(v, n)`: `metrics` 0.24's default `HistogramFn::record_many` is
  `for _ in 0..n { self.record(v) }`, and the bridge's `Histogram` does not override it: `n` `hrec` steps;
* `absolute k n` — `Counter::absolute(n)`: `fetch_max(n)` on the counter cell;
* `gaugeAdd k sub x` — `Gauge::increment(x)` / `decrement(x)`: an atomic read-modify-write with `f64` arithmetic. -/
inductive Op where
  | ev (e : Ev)
  | readout
  | recordMany (k : Key) (v : Nat) (n : Nat)
  | absolute (k : Key) (n : Nat)
  | gaugeAdd (k : Key) (sub : Bool) (x : Nat)
  deriving DecidableEq, Repr

def stepOp (s : State) : Op → State
  | .ev e => (step s e).1
  | .readout => (readout s).1
  | .recordMany k v n => (run s (List.replicate n (.hrec k v))).1
  | .absolute k n => { s with ctr := s.ctr.put k (max (s.ctrOf k) n) }
  | .gaugeAdd k sub x => { s with gauge := s.gauge.put k (if sub then f64Sub (s.gaugeOf k) x else f64Add (s.gaugeOf k) x) }

def runScript (s : State) : List Op → State × List Entry
  | [] => (s, [])
  | .readout :: ops =>
    let r := readout s
    let r2 := runScript r.1 ops
    (r2.1, r.2 :: r2.2)
  | op :: ops => runScript (stepOp s op) ops

end MetricsRs

/-! ## The reporter task (`reporter.rs::spawn_metric_reporter`)

```
while let Either::Left(_) = select(sleep(interval), shutdown.cancelled()).await { publish }   -- pc = sel
publish                                                                                     -- pc = fin
shutdown the sink; task ends                                                                -- pc = done
```
`publish` = `destination.append(recorder.readout())`. `MetricReporter::shutdown()` cancels the token and waits for the
task to end. The task is one thread of control advanced in small steps (`RStep.task fired`: the task runs up to its
next suspension point or publish; `fired` says whether the interval sleep has elapsed — `select` polls the sleep
first); the program's updates and the cancel are interleaved arbitrarily with these steps. -/
namespace Reporter

inductive Pc where
  | head   -- only in the `dedup` variant: about to test `!shutdown.is_cancelled()`
  | sel    -- at / parked in `select(sleep, cancelled)`
  | fin    -- left the loop, final publish pending
  | done
  deriving DecidableEq, Repr

inductive RStep where
  | update            -- the program updates some metric
  | cancel            -- `shutdown()` cancels the token
  | task (fired : Bool)
  | cloneHandle       -- `MetricReporter::clone()` ("may be freely cloned")
  | dropHandle        -- a `MetricReporter` handle is dropped
  deriving DecidableEq, Repr

/-- what an observer sees, in order: updates and published readouts -/
inductive Mark where
  | upd
  | pub
  deriving DecidableEq, Repr

structure RState where
  pc : Pc
  cancelled : Bool
  /-- number of live `MetricReporter` handles: bookkeeping only, no transition of the code reads it -/
  handles : Nat
  deriving DecidableEq, Repr

/-- the code -/
def stepOrig (s : RState) : RStep → RState × List Mark
  | .update => (s, [.upd])
  | .cancel => ({ s with cancelled := true }, [])
  | .task fired =>
    match s.pc with
    | .sel => if fired then (s, [.pub]) else if s.cancelled then ({ s with pc := .fin }, []) else (s, [])
    | .fin => ({ s with pc := .done }, [.pub])
    | .head => ({ s with pc := .sel }, [])     -- not a state of the code; harmless
    | .done => (s, [])
  | .cloneHandle => ({ s with handles := s.handles + 1 }, [])
  | .dropHandle => ({ s with handles := s.handles - 1 }, [])    -- `MetricReporter` has no `Drop`: nothing else happens

/-- a variant in which dropping a handle cancels the shared token (`impl Drop for MetricReporter { cancel }` — NOT the
code; kept for the witness in `Props/C20.lean`) -/
def stepDropCancels (s : RState) : RStep → RState × List Mark
  | .dropHandle => ({ s with handles := s.handles - 1, cancelled := true }, [])
  | e => stepOrig s e

/-- the "deduplicated" loop `while !shutdown.is_cancelled() { select(..).await; publish }` without the trailing
publish (NOT the code; kept for the witness in `Props/C20.lean`) -/
def stepDedup (s : RState) : RStep → RState × List Mark
  | .update => (s, [.upd])
  | .cancel => ({ s with cancelled := true }, [])
  | .task fired =>
    match s.pc with
    | .head => if s.cancelled then ({ s with pc := .done }, []) else ({ s with pc := .sel }, [])
    | .sel => if fired || s.cancelled then ({ s with pc := .head }, [.pub]) else (s, [])
    | .fin => ({ s with pc := .done }, [])
    | .done => (s, [])
  | .cloneHandle => ({ s with handles := s.handles + 1 }, [])
  | .dropHandle => ({ s with handles := s.handles - 1 }, [])

def runR (step : RState → RStep → RState × List Mark) (s : RState) : List RStep → RState × List Mark
  | [] => (s, [])
  | e :: es =>
    let r1 := step s e
    let r2 := runR step r1.1 es
    (r2.1, r1.2 ++ r2.2)

def initOrig : RState := { pc := .sel, cancelled := false, handles := 1 }
def initDedup : RState := { pc := .head, cancelled := false, handles := 1 }

end Reporter
