import Model.KeepAlive
import Model.KeepAliveSpec
/-!
The history a schedule of the micro-step model induces: the observations the T-trace harness
(`harness/src/bin/keepalive.rs`, `run_trace`) records, in the vocabulary of `Spec.Obs`.

The harness logs
* `nF` / `nD` / `nR` after `flush_guard()` / `force_flush_guard()` / `Clone for Handle` returned; `mut:v`, `hit:v`,
  `gm:i:v` at the mutation; `opn:i:m:v` / `opnFail:m` after `open` returned; `delay:i` after `delay_flush`;
  nothing for `.handle()` and for `wait_for_data` polls;
* `bR` / `bF` / `bD` / `bG:i` immediately before a `drop(..)` of an owning reference / free flush guard / force-flush
  guard / slot guard, and `eR` / `eF` / `eD` / `eG:i` immediately after that `drop` returned;
* `app:p:h:slots` inside `sink.append`.

Threads are anonymous in the model, so "the drop returned" is read off the micro-steps: a drop returns with the
last micro-step its thread executes.  For a thread that releases a reference on the guard cell (`relG`) this is
the release itself unless it was the last reference; then the same thread goes on as the `iPc` thread and returns
at `finishInner` (`innerDrop` without a closure / with other value holders, or `emit`).  The model records the
kind of that thread (`iBy`); the one thing it does not record — whether a thread of kind `.fg` dropped a free
flush guard or the flush guard stored in slot guard `i` — is carried along as the ghost `w`.

The begin observation is placed directly before the first micro-step of the drop and the end observation directly
after the last one (the harness can only log earlier resp. later than that).
-/
namespace KeepAlive
open Spec

/-- end observation of a thread of kind `.fg`: a free flush guard (`none`) or the one in slot guard `i` -/
def endFg : Option Nat → Obs
  | none => .eF
  | some i => .eG i

/-- end observation of the thread at `iPc` (the one that dropped the last reference on the guard cell) -/
def innerEnd (s : St) (w : Option Nat) : Obs :=
  match s.iBy with
  | .parent => .eR
  | .dg => .eD
  | .fg => endFg w

/-- a thread ends its drop by releasing a guard-cell reference in state `s`: it returns now (observation `o`)
unless that was the last reference -/
def relObs (s : St) (o : Obs) : List Obs := if s.gS - 1 = 0 then [] else [o]

def relWho (s : St) (w new : Option Nat) : Option Nat := if s.gS - 1 = 0 then new else w

/-- observations made with event `e`, enabled in state `s`; new ghost -/
def obsOf (s : St) (w : Option Nat) : Ev → List Obs × Option Nat
  | .newFG => ([.nF], w)
  | .newDG => ([.nD], w)
  | .mutate v => ([.mut v], w)
  | .hit v => ([.hit v], w)
  | .toHandle => ([], w)
  | .cloneHandle => ([.nR], w)
  | .refDrop => (if s.hS = 1 then [.bR] else [.bR, .eR], w)
  | .open i m v0 =>
    match s.slots[i]? with
    | some sl => (if sl.opened then [.opnFail m] else [.opn i m (if sl.lazy then v0 else sl.init)], w)
    | none => ([], w)
  | .waitBegin _ => ([], w)
  | .waitPoll => ([], w)
  | .waitCancel => ([], w)
  | .fgDrop => (.bF :: relObs s .eF, relWho s w none)
  | .delay i => ([.delay i], w)
  | .gmut i v => ([.gm i v], w)
  | .gSend i => ([.bG i], w)
  | .gRelease i =>
    match s.slots[i]? with
    | some sl => if sl.mode = .wait then (relObs s (.eG i), relWho s w (some i)) else ([.eG i], w)
    | none => ([], w)
  | .dgBegin => (if s.gS = 0 then [.bD, .eD] else [.bD], w)
  | .dgLock => ([], w)
  | .lRun => ([], w)
  | .lUnlock => ([], w)
  | .dgDec => (relObs s .eD, w)
  | .pDecV => ([], w)
  | .pDecG => (relObs s .eR, w)
  | .innerDrop => (if s.closure && s.vS - 1 = 0 then [] else [innerEnd s w], w)
  | .closeSlot => ([], w)
  | .emit => (.app s.plain s.hits (closedVals s.slots) :: (if s.iPc = .app then [innerEnd s w] else []), w)

/-- history of a schedule started in `s` (stops at the first event that is not enabled) -/
def historyFrom (s : St) (w : Option Nat) : List Ev → List Obs
  | [] => []
  | e :: es => match step s e with
    | none => []
    | some s' => (obsOf s w e).1 ++ historyFrom s' (obsOf s w e).2 es

/-- history of a schedule of an entry with slot fields `slots`, from its creation -/
def historyOf (slots : List Slot) (evs : List Ev) : List Obs := historyFrom (init slots) none evs

end KeepAlive
