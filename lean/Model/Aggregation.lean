/-
Model of `metrique-aggregation`:

* `aggregator.rs`  — `KeyedAggregator` (a map key ↦ accumulator, `get_or_create_accum`, `merge`,
  `merge_ref`, `flush` = drain, close, append one result per key) and the key-less embedded
  `Aggregate<T>`;
* `value.rs`       — the field strategies `Sum`, `KeepLast`, `Distribution` (`Histogram<T, SortAndMerge>`),
  `MergeOptions<Sum>`, `Flatten`;
* `histogram.rs`   — `SortAndMerge::{record_many, drain}` (sort, run-length merge of equal values);
* `sink.rs`        — `TeeSink` (`merge_ref` into the first sink, then `merge` into the second; `flush`
  both), `NonAggregatedSink` (append the raw entry; `flush` is a no-op), the merge-on-drop guards;
* `sink/mutex.rs`  — `MutexSink` (a merge is atomic: lock, merge, unlock);
* `sink/worker.rs` — `WorkerSink`: an unbounded FIFO channel of `Entry | Flush` messages and the
  worker loop as it is after commit 123e106 (on `Disconnected`: flush once and return).

The hash map is an association list in insertion order (the real iteration order is "some
permutation": outputs are sorted by key before they are compared with the code). Numbers are `Nat`
(the code uses `u64` and would panic on overflow in a debug build: the correspondence keeps sums
below 2^64, stated as an assumption).
-/
namespace Aggregation

/-! ## A `Merge` implementation: initial accumulator and the merge of one input -/

structure Strat (ι α : Type) where
  /-- `Merge::new_merged(&Default::default())` -/
  empty : α
  /-- `Merge::merge(&mut accum, input)` (and `MergeRef::merge_ref`, which must agree with it) -/
  merge : α → ι → α

/-! ## `KeyedAggregator` -/

section Keyed
variable {κ ι α : Type} [DecidableEq κ]

/-- `get_or_create_accum` followed by `T::Source::merge(accum, entry)`:
look the borrowed key up (hash + `static_key_matches`, i.e. key equality); on a hit merge into the
occupied slot, on a miss insert `new_merged` under the owned key and merge into that. -/
def upsert (S : Strat ι α) (key : ι → κ) : List (κ × α) → ι → List (κ × α)
  | [], e => [(key e, S.merge S.empty e)]
  | (k, a) :: rest, e =>
    if k = key e then (k, S.merge a e) :: rest else (k, a) :: upsert S key rest e

/-- lookup in the association list -/
def find? : List (κ × α) → κ → Option α
  | [], _ => none
  | (k, a) :: rest, q => if k = q then some a else find? rest q

inductive Op (ι : Type) where
  /-- `AggregateSink::merge(entry)` / `AggregateSinkRef::merge_ref(&entry)` -/
  | merge (e : ι)
  /-- `FlushableSink::flush()` -/
  | flush
  deriving Repr

structure KState (κ α : Type) where
  /-- `storage`: per-key partial aggregates since the last flush -/
  storage : List (κ × α) := []
  /-- what was appended to the downstream sink, one list per `flush` call, oldest first -/
  emitted : List (List (κ × α)) := []

def kstep (S : Strat ι α) (key : ι → κ) (s : KState κ α) : Op ι → KState κ α
  | .merge e => { s with storage := upsert S key s.storage e }
  | .flush => { storage := [], emitted := s.emitted ++ [s.storage] }

def krun (S : Strat ι α) (key : ι → κ) (s : KState κ α) (ops : List (Op ι)) : KState κ α :=
  ops.foldl (kstep S key) s

/-- The inputs of an operation sequence grouped by flush epoch (the specification side). -/
structure Epochs (ι : Type) where
  /-- inputs merged since the last flush -/
  cur : List ι := []
  /-- closed epochs, oldest first; one per `flush` -/
  done : List (List ι) := []

def estep (s : Epochs ι) : Op ι → Epochs ι
  | .merge e => { s with cur := s.cur ++ [e] }
  | .flush => { cur := [], done := s.done ++ [s.cur] }

def epochs (s : Epochs ι) (ops : List (Op ι)) : Epochs ι := ops.foldl estep s

/-- embedded `Aggregate<T>`: no key, one accumulator, `insert` = merge; closing yields the accumulator -/
def embedded (S : Strat ι α) (inputs : List ι) : α := inputs.foldl S.merge S.empty

end Keyed

/-! ## `MutexSink<Aggregate<T>>`: one shared accumulator behind `Arc<Mutex<_>>`, any number of handles -/

inductive MOp (ι : Type) where
  /-- `RootSink::merge` through any handle, or the drop of a merge-on-drop guard: lock, merge, unlock -/
  | merge (e : ι)
  /-- `CloseValue::close(self)` of any handle: lock, `mem::take` the accumulator, close what was taken;
  the shared state is left `Default` for the handles that remain -/
  | close
  /-- `Clone` of a handle (a guard owns one) -/
  | clone
  /-- drop of a handle without closing it -/
  | dropHandle
  deriving Repr

structure MState (α : Type) where
  shared : α
  /-- live handles (the `Arc` strong count); a model parameter no step's result depends on -/
  handles : Nat := 1
  /-- what the closes returned, oldest first -/
  emitted : List α := []

def mstep {ι α : Type} (S : Strat ι α) (s : MState α) : MOp ι → MState α
  | .merge e => { s with shared := S.merge s.shared e }
  | .close => { shared := S.empty, handles := s.handles - 1, emitted := s.emitted ++ [s.shared] }
  | .clone => { s with handles := s.handles + 1 }
  | .dropHandle => { s with handles := s.handles - 1 }

def mrun {ι α : Type} (S : Strat ι α) (s : MState α) (ops : List (MOp ι)) : MState α := ops.foldl (mstep S) s

/-- the *rejected* variant (seeded change C10-j): `Arc::try_unwrap(..).unwrap_or_default()` — the
accumulator is only obtained when this is the last handle, otherwise a fresh default is closed and
the shared one stays behind -/
def mstepUnwrap {ι α : Type} (S : Strat ι α) (s : MState α) : MOp ι → MState α
  | .close =>
    if s.handles = 1 then { shared := S.empty, handles := 0, emitted := s.emitted ++ [s.shared] }
    else { s with handles := s.handles - 1, emitted := s.emitted ++ [S.empty] }
  | op => mstep S s op

/-- a mutex-shared aggregate seen as a flushable key-less sink -/
def MOp.toOp {ι : Type} : MOp ι → Option (Op ι)
  | .merge e => some (.merge e)
  | .close => some .flush
  | _ => none

/-! ## `TeeSink<A, B>` over two sinks given by their step functions -/

def teeStep {σ τ ι : Type} (stepA : σ → Op ι → σ) (stepB : τ → Op ι → τ) (s : σ × τ) (op : Op ι) : σ × τ :=
  -- merge: `sink_by_ref.merge_ref(&entry); sink_owned.merge(entry)`; flush: `a.flush(); b.flush()`
  (stepA s.1 op, stepB s.2 op)

/-- `NonAggregatedSink`: merge appends the raw entry, flush does nothing -/
def rawStep {ι : Type} (s : List ι) : Op ι → List ι
  | .merge e => s ++ [e]
  | .flush => s

/-! ## `SortAndMerge` (the `Distribution` strategy) -/

/-- insertion into a sorted list (`sort_by_key(OrderedFloat)` is modelled by insertion sort; only the
sorted result matters) -/
def insertSorted (x : Nat) : List Nat → List Nat
  | [] => [x]
  | y :: ys => if x ≤ y then x :: y :: ys else y :: insertSorted x ys

def isort : List Nat → List Nat
  | [] => []
  | x :: xs => insertSorted x (isort xs)

/-- the loop of `SortAndMerge::drain` with `current_value`, `current_count` -/
def rleGo (cur cnt : Nat) : List Nat → List (Nat × Nat)
  | [] => [(cur, cnt)]
  | v :: vs => if v = cur then rleGo cur (cnt + 1) vs else (cur, cnt) :: rleGo v 1 vs

/-- `SortAndMerge::drain`: sort, then one `Repeated { total = value * count, occurrences = count }`
per distinct value; here `(value, count)` -/
def drain (vals : List Nat) : List (Nat × Nat) :=
  match isort vals with
  | [] => []
  | first :: rest => rleGo first 1 rest

/-- occurrences of `v` recorded in a drained distribution -/
def occ (v : Nat) (d : List (Nat × Nat)) : Nat :=
  (d.map fun p => if p.1 = v then p.2 else 0).sum

/-! ## The harness entry (a real `#[aggregate]` struct in `harness/src/bin/aggregation.rs`) -/

structure Key where
  /-- `#[aggregate(key)] endpoint: String`, as UTF-8 bytes -/
  endpoint : List Nat
  /-- `#[aggregate(key)] shard: u32` -/
  shard : Nat
  deriving DecidableEq, Repr

structure Input where
  key : Key
  /-- `#[aggregate(strategy = Sum)] bytes: u64` -/
  bytes : Nat
  /-- `#[aggregate(strategy = KeepLast)] last: u64` -/
  last : Nat
  /-- `#[aggregate(strategy = Distribution)] latency: Obs` — a value writing the observations
  `(value, occurrences)`: `Unsigned(value)` when `occurrences = 1`, else `Repeated` -/
  obs : List (Nat × Nat)
  /-- `#[aggregate(strategy = MergeOptions<Sum>)] opt: Option<u64>` -/
  opt : Option Nat
  /-- `#[aggregate(strategy = Flatten)] inner: Inner` with `Inner { #[aggregate(strategy = Sum)] inner_count: u64 }` -/
  inner : Nat
  deriving DecidableEq, Repr

/-- `AggregatedInner` -/
structure InnerAccum where
  count : Nat := 0
  deriving DecidableEq, Repr

/-- `AggregatedCall` before closing -/
structure Accum where
  bytes : Nat := 0
  last : Option Nat := none
  /-- `SortAndMerge.values` in insertion order -/
  vals : List Nat := []
  opt : Nat := 0
  inner : InnerAccum := {}
  deriving DecidableEq, Repr

/-- `Histogram::add_value`: every observation written by the value is recorded; `Repeated` with
zero occurrences is skipped, otherwise `record_many(total / occurrences, occurrences)` -/
def expandObs (obs : List (Nat × Nat)) : List Nat :=
  obs.flatMap fun p => List.replicate p.2 p.1

def innerStrat : Strat Nat InnerAccum where
  empty := {}
  merge a x := { count := a.count + x }

/-- the generated `Merge::merge` of the harness struct: one strategy call per non-key field -/
def callStrat : Strat Input Accum where
  empty := {}
  merge a e :=
    { bytes := a.bytes + e.bytes                                   -- Sum
      last := some e.last                                          -- KeepLast
      vals := a.vals ++ expandObs e.obs                            -- Distribution
      opt := match e.opt with | some v => a.opt + v | none => a.opt  -- MergeOptions<Sum>
      inner := innerStrat.merge a.inner e.inner }                  -- Flatten

/-- the closed aggregate as it reaches the downstream sink -/
structure Closed where
  bytes : Nat
  last : Option Nat
  dist : List (Nat × Nat)
  opt : Nat
  inner : Nat
  deriving DecidableEq, Repr

def close (a : Accum) : Closed :=
  { bytes := a.bytes, last := a.last, dist := drain a.vals, opt := a.opt, inner := a.inner.count }

/-- key of the second tee branch (a hand-written `Key` impl with a weak hash): the endpoint only -/
def keyB (e : Input) : List Nat := e.key.endpoint

/-! ## Trace specification (T-trace): what the emitted aggregates of a whole run must satisfy when
the flush boundaries are unknown (timed flushes, several producer threads): per key, the totals over
all emitted aggregates are the totals over all inputs. -/
namespace Spec
variable {κ : Type} [DecidableEq κ]

def sumOver (k : κ) (outs : List (κ × Closed)) (f : Closed → Nat) : Nat :=
  ((outs.filter fun p => p.1 = k).map fun p => f p.2).sum

def inputsOf (key : Input → κ) (k : κ) (ins : List Input) : List Input := ins.filter fun e => key e = k

def keyOk (key : Input → κ) (ins : List Input) (outs : List (κ × Closed)) (k : κ) : Bool :=
  let mine := inputsOf key k ins
  let vals := mine.flatMap fun e => expandObs e.obs
  sumOver k outs (·.bytes) == (mine.map (·.bytes)).sum
  && sumOver k outs (·.opt) == (mine.filterMap (·.opt)).sum
  && sumOver k outs (·.inner) == (mine.map (·.inner)).sum
  && (vals ++ ((outs.filter fun p => p.1 = k).flatMap fun p => p.2.dist.map (·.1))).all fun v =>
       sumOver k outs (fun c => occ v c.dist) == vals.count v

def traceOk (key : Input → κ) (ins : List Input) (outs : List (κ × Closed)) : Bool :=
  (ins.map key ++ outs.map (·.1)).all (keyOk key ins outs)

end Spec

/-! ## `WorkerSink` -/

inductive Msg (ι : Type) where
  | entry (e : ι)
  | flush
  deriving Repr

/-- what the worker thread applied to its inner sink, in order, with the reason of every flush -/
inductive IOp (ι : Type) where
  | merge (e : ι)
  /-- `Ok(QueueMessage::Flush(sender))`: flush, then answer the request -/
  | flushReq
  /-- timed flush (`recv_timeout` timed out, or the interval had elapsed after an entry) -/
  | flushTimer
  /-- `Err(Disconnected)`: the flush before the thread returns -/
  | flushFinal
  deriving Repr

inductive Event (ι : Type) where
  /-- a producer: `sender.send(QueueMessage::Entry(e))` through some live handle -/
  | send (e : ι)
  /-- a producer: `sender.send(QueueMessage::Flush(tx))` -/
  | sendFlush
  /-- `WorkerSink::clone` -/
  | clone
  /-- drop of one handle (a merge-on-drop guard owns one) -/
  | dropHandle
  /-- the worker: `recv_timeout` returned the head of the channel; `timed` says whether the flush
  interval had elapsed after merging an entry (irrelevant for a flush message) -/
  | recv (timed : Bool)
  /-- the worker: `recv_timeout` timed out (only possible with an empty channel and a live sender) -/
  | timeout
  /-- the worker: `recv_timeout` returned `Disconnected` (empty channel, no sender left) -/
  | disconnect
  deriving Repr

structure WState (ι : Type) where
  /-- the mpsc channel, head first -/
  chan : List (Msg ι) := []
  /-- live `Sender` clones -/
  handles : Nat := 1
  /-- operations applied to the inner sink so far -/
  innerOps : List (IOp ι) := []
  /-- number of answered flush requests (they are answered in channel order) -/
  flushDone : Nat := 0
  /-- the thread has returned (and dropped the inner sink) -/
  exited : Bool := false
  deriving Repr

/-- One transition; `none` when the event is not enabled in the state. -/
def wstep {ι : Type} (s : WState ι) : Event ι → Option (WState ι)
  | .send e => if s.handles = 0 then none else some { s with chan := s.chan ++ [.entry e] }
  | .sendFlush => if s.handles = 0 then none else some { s with chan := s.chan ++ [.flush] }
  | .clone => if s.handles = 0 then none else some { s with handles := s.handles + 1 }
  | .dropHandle => if s.handles = 0 then none else some { s with handles := s.handles - 1 }
  | .recv timed =>
    if s.exited then none else
    match s.chan with
    | [] => none
    | .entry e :: rest =>
      some { s with chan := rest,
                    innerOps := s.innerOps ++ (if timed then [.merge e, .flushTimer] else [.merge e]) }
    | .flush :: rest =>
      some { s with chan := rest, innerOps := s.innerOps ++ [.flushReq], flushDone := s.flushDone + 1 }
  | .timeout =>
    if s.exited || !s.chan.isEmpty || s.handles = 0 then none
    else some { s with innerOps := s.innerOps ++ [.flushTimer] }
  | .disconnect =>
    if s.exited || !s.chan.isEmpty || s.handles ≠ 0 then none
    else some { s with innerOps := s.innerOps ++ [.flushFinal], exited := true }

/-- the *rejected* variant (seeded change C10-m): a bounded queue whose `try_send` discards the entry
when `cap` messages are queued; everything else as `wstep` -/
def wstepLossy {ι : Type} (cap : Nat) (s : WState ι) : Event ι → Option (WState ι)
  | .send e =>
    if s.handles = 0 then none
    else if s.chan.length ≥ cap then some s
    else some { s with chan := s.chan ++ [.entry e] }
  | ev => wstep s ev

def wrun {ι : Type} (s : WState ι) : List (Event ι) → Option (WState ι)
  | [] => some s
  | ev :: evs => match wstep s ev with
    | none => none
    | some s' => wrun s' evs

/-- the operations the inner sink saw -/
def IOp.toOp {ι : Type} : IOp ι → Op ι
  | .merge e => .merge e
  | _ => .flush

/-- the worker's only possible move once no handle is left (`none`: it has exited) -/
def workerMove {ι : Type} (s : WState ι) : Option (Event ι) :=
  if s.exited then none else if s.chan.isEmpty then some .disconnect else some (.recv false)

/-- run the worker alone until the next flush request has been answered / the thread has exited /
nothing is enabled; `fuel` ≥ `|chan| + 1` suffices -/
def workerUntilFlushDone {ι : Type} (target : Nat) : Nat → WState ι → WState ι
  | 0, s => s
  | fuel + 1, s =>
    if s.flushDone ≥ target then s else
    match s.chan with
    | [] => s
    | _ :: _ => match wstep s (.recv false) with
      | some s' => workerUntilFlushDone target fuel s'
      | none => s

def workerToExit {ι : Type} : Nat → WState ι → WState ι
  | 0, s => s
  | fuel + 1, s =>
    match workerMove s with
    | none => s
    | some ev => match wstep s ev with
      | some s' => workerToExit fuel s'
      | none => s

end Aggregation
