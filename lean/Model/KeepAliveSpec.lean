import Model.KeepAlive
/-!
Specification predicate for C06 / C13 over *observed histories* (T-trace).

An observation is something a client of the library can see: it created a guard, it began / finished
dropping something, the sink received an entry.  `Spec.accept` is written from the property statements
(not from the micro-step model): at most one append; the append comes only after every owning reference
has begun to drop and (every flush guard has begun to drop or some force-flush guard has begun to drop);
its contents are the entry as last mutated and the slot values demanded by C13; whenever nothing is in
flight and the owner, all handles and (all flush guards or one force-flush guard) are gone, the entry has
been appended.  The clauses correspond one by one to theorems about the micro-step model
(`c06_at_most_once`, `c06_not_early`, `c06_not_late`, `c06_content`, `c13_wait_never_lost`,
`c13_closed_iff_sent`, `c13_not_sent`); the refinement "every schedule of the model yields an accepted
history" is proved in `Props/C06Refine.lean` (`c06_model_histories_accepted`, history = `historyOf` of
`Model/KeepAliveHistory.lean`) and `Props/C13Refine.lean`.  The harness evaluates `accept` on histories recorded from real
threads and compares its verdict with an independently written Rust oracle.
-/
namespace KeepAlive.Spec

inductive Obs where
  | nR | bR | eR            -- owning reference: cloned / drop begins / drop returned
  | nF | bF | eF            -- free flush guard
  | nD | bD | eD            -- force-flush guard
  | mut (v : Nat) | hit (v : Nat)
  | opn (i : Nat) (m : Mode) (v : Nat)   -- successful open; `v` the value now behind the guard
  | opnFail (m : Mode)                   -- open returned None (its mode argument was dropped)
  | delay (i : Nat)
  | gm (i : Nat) (v : Nat)
  | bG (i : Nat) | eG (i : Nat)          -- slot guard: drop begins / drop returned
  | app (plain hits : Nat) (slots : List (Option Nat))
  deriving DecidableEq, Repr

structure SSlot where
  opened : Bool := false
  mode : Mode := .discard
  gval : Nat := 0
  gone : Bool := false     -- the guard's drop has begun
  ended : Bool := false
  sure : Bool := false     -- the guard's drop returned while the append was still impossible
  deriving DecidableEq, Repr

structure SSt where
  refsOut : Nat := 1
  fgOut : Nat := 0
  dgOut : Nat := 0
  dgBegun : Nat := 0
  dgEnded : Nat := 0
  inflight : Nat := 0
  plain : Nat := 0
  hits : Nat := 0
  apps : Nat := 0
  slots : List SSlot := []
  deriving DecidableEq, Repr

def start (n : Nat) : SSt := { slots := List.replicate n {} }

/-- the append is allowed -/
def cond (t : SSt) : Bool := t.refsOut = 0 && (t.fgOut = 0 || t.dgBegun > 0)

/-- the append is due -/
def due (t : SSt) : Bool := t.inflight = 0 && t.refsOut = 0 && (t.fgOut = 0 || t.dgEnded > 0)

def slotOk (forced : Bool) (sl : SSlot) (v : Option Nat) : Bool :=
  if !sl.opened || !sl.gone then v = none
  else (v = none || v = some sl.gval) &&
       (if (sl.mode = .wait && !forced) || sl.sure then v = some sl.gval else true)

def slotsOk (forced : Bool) : List SSlot → List (Option Nat) → Bool
  | [], [] => true
  | sl :: r, v :: vs => slotOk forced sl v && slotsOk forced r vs
  | _, _ => false

def feed (t : SSt) : Obs → Option SSt
  | .nR => if t.refsOut > 0 then some { t with refsOut := t.refsOut + 1 } else none
  | .bR => if t.refsOut > 0 then some { t with refsOut := t.refsOut - 1, inflight := t.inflight + 1 } else none
  | .eR => if t.inflight > 0 then some { t with inflight := t.inflight - 1 } else none
  | .nF => if t.refsOut > 0 then some { t with fgOut := t.fgOut + 1 } else none
  | .bF => if t.fgOut > 0 then some { t with fgOut := t.fgOut - 1, inflight := t.inflight + 1 } else none
  | .eF => if t.inflight > 0 then some { t with inflight := t.inflight - 1 } else none
  | .nD => if t.refsOut > 0 then some { t with dgOut := t.dgOut + 1 } else none
  | .bD => if t.dgOut > 0 then
      some { t with dgOut := t.dgOut - 1, dgBegun := t.dgBegun + 1, inflight := t.inflight + 1 } else none
  | .eD => if t.inflight > 0 then some { t with inflight := t.inflight - 1, dgEnded := t.dgEnded + 1 } else none
  | .mut v => if t.refsOut > 0 then some { t with plain := v } else none
  | .hit v => if t.refsOut > 0 then some { t with hits := v } else none
  | .opn i m v =>
    match t.slots[i]? with
    | some sl => if !sl.opened && t.refsOut > 0 then
        some { t with slots := modifyAt (fun sl => { sl with opened := true, mode := m, gval := v }) t.slots i } else none
    | none => none
  | .opnFail m =>
    if m = .wait then (if t.fgOut > 0 then some { t with fgOut := t.fgOut - 1 } else none) else some t
  | .delay i =>
    match t.slots[i]? with
    | some sl =>
      if sl.opened && !sl.gone && t.fgOut > 0 then
        if sl.mode = .wait then some { t with fgOut := t.fgOut - 1 }
        else some { t with slots := modifyAt (fun sl => { sl with mode := .wait }) t.slots i }
      else none
    | none => none
  | .gm i v =>
    match t.slots[i]? with
    | some sl => if sl.opened && !sl.gone then
        some { t with slots := modifyAt (fun sl => { sl with gval := v }) t.slots i } else none
    | none => none
  | .bG i =>
    match t.slots[i]? with
    | some sl => if sl.opened && !sl.gone then
        some { t with slots := modifyAt (fun sl => { sl with gone := true }) t.slots i,
                      inflight := t.inflight + 1,
                      fgOut := if sl.mode = .wait then t.fgOut - 1 else t.fgOut } else none
    | none => none
  | .eG i =>
    match t.slots[i]? with
    | some sl => if sl.gone && !sl.ended && t.inflight > 0 then
        some { t with slots := modifyAt (fun sl => { sl with ended := true, sure := !cond t }) t.slots i,
                      inflight := t.inflight - 1 } else none
    | none => none
  | .app p h vs =>
    if t.apps = 0 && cond t && p = t.plain && h = t.hits && slotsOk (t.dgBegun > 0) t.slots vs
    then some { t with apps := 1 } else none

/-- one observation, followed by the "not late" check -/
def feedChecked (t : SSt) (o : Obs) : Option SSt :=
  match feed t o with
  | some t' => if due t' && t'.apps = 0 then none else some t'
  | none => none

def acceptFrom (t : SSt) : List Obs → Bool
  | [] => true
  | o :: os => match feedChecked t o with
    | some t' => acceptFrom t' os
    | none => false

def accept (nslots : Nat) (os : List Obs) : Bool := acceptFrom (start nslots) os

/-- index of the first rejected observation -/
def firstReject (t : SSt) : List Obs → Nat → Option Nat
  | [], _ => none
  | o :: os, k => match feedChecked t o with
    | some t' => firstReject t' os (k + 1)
    | none => some k

/-! ### Strengthened "not late" clause: a returned force-flush drop that went through the mutex

`accept` demands the append only at instants where nothing is in flight.  More is true of the code (and, proved, of
the model: `c06_force_return_appended`): once a force-flush guard's drop has *returned* after passing through the
guard-cell mutex, the keep-alive closure has been run completely (the drop ran it itself, or it waited on the mutex
until the thread that took it had run it — inside the lock — and, if that brought the value count to 0, had appended).
Hence from then on: as soon as every owning reference's drop has returned, the entry has been appended — whatever
flush guards are still alive and whatever else is in flight.  A client sees that a force-flush drop went through the
mutex when, at its return, some flush guard's drop had not begun or some owning reference's drop had not begun (the
guard cell was alive during the whole drop, so `upgrade` succeeded).  This is an extra predicate beside `accept`
(whose refinement proof is untouched); the driver and the harness require both. -/

structure FSt where
  /-- owning-reference drops begun and not returned -/
  refsBusy : Nat := 0
  /-- some force-flush drop has returned after going through the mutex -/
  forced : Bool := false
  deriving DecidableEq, Repr

/-- `t` is the `accept` state *before* the observation -/
def forceFeed (t : SSt) (x : FSt) : Obs → FSt
  | .bR => { x with refsBusy := x.refsBusy + 1 }
  | .eR => { x with refsBusy := x.refsBusy - 1 }
  | .eD => { x with forced := x.forced || decide (t.fgOut > 0) || decide (t.refsOut > 0) }
  | _ => x

/-- the strengthened clause is violated in (`t`, `x`): a force-flush drop has returned through the mutex, every
owning reference's drop has returned, and the sink has nothing -/
def forceLate (t : SSt) (x : FSt) : Bool := x.forced && t.refsOut = 0 && x.refsBusy = 0 && t.apps = 0

def firstRejectStrong (t : SSt) (x : FSt) : List Obs → Nat → Option Nat
  | [], _ => none
  | o :: os, k => match feedChecked t o with
    | some t' =>
      let x' := forceFeed t x o
      if forceLate t' x' then some k else firstRejectStrong t' x' os (k + 1)
    | none => some k

def acceptStrong (nslots : Nat) (os : List Obs) : Bool := (firstRejectStrong (start nslots) {} os 0).isNone

def parseMode (s : String) : Option Mode :=
  if s == "w" then some .wait else if s == "d" then some .discard else none

def parseOpt (s : String) : Option (Option Nat) :=
  if s == "n" then some none else s.toNat?.map some

def parseObs (tok : String) : Option Obs :=
  match tok.splitOn ":" with
  | ["nR"] => some .nR | ["bR"] => some .bR | ["eR"] => some .eR
  | ["nF"] => some .nF | ["bF"] => some .bF | ["eF"] => some .eF
  | ["nD"] => some .nD | ["bD"] => some .bD | ["eD"] => some .eD
  | ["mut", v] => v.toNat?.map .mut
  | ["hit", v] => v.toNat?.map .hit
  | ["opn", i, m, v] => match i.toNat?, parseMode m, v.toNat? with
    | some i, some m, some v => some (.opn i m v)
    | _, _, _ => none
  | ["opnFail", m] => (parseMode m).map .opnFail
  | ["delay", i] => i.toNat?.map .delay
  | ["gm", i, v] => match i.toNat?, v.toNat? with
    | some i, some v => some (.gm i v)
    | _, _ => none
  | ["bG", i] => i.toNat?.map .bG
  | ["eG", i] => i.toNat?.map .eG
  | ["app", p, h, vs] => match p.toNat?, h.toNat?, (if vs == "-" then some [] else (vs.splitOn ",").mapM parseOpt) with
    | some p, some h, some vs => some (.app p h vs)
    | _, _, _ => none
  | _ => none

end KeepAlive.Spec
