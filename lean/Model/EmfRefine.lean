import Model.Emf
import Model.EmfSpec
import Model.JsonTree
/-
The bridge between the two EMF models.

* `Model/Emf.lean`     — operational, byte-exact (`Emf.format`), floats arrive as decimal TEXT.
* `Model/EmfSpec.lean` — declarative (`EmfSpec.validate`, `EmfSpec.emit`), generic in the number type `F`.

Input correspondence (`toEmf…`): a SPEC input (configuration, switches, entry over any number type
`F` with its `FloatOps`) plus a text function `txt : F → bytes` (what `dtoa` prints) is turned into the
OPERATIONAL input. The float-text table the operational model needs is computed the way the harness
computes it: `usable` (= `clamp_to_finite`) of the value — of `zero` / `mean total occ` for
`Repeated` — then `txt`; NaN = no text. This direction is total and needs no side condition on the
entry. The other direction (used by the driver, whose requests are operational inputs) is the
instance `F := FText` (`embed…`), for which `toEmf (embed x) = x` is checked at run time.

Output correspondence: `recordJson` is the JSON tree a spec record denotes; `agree` runs both
models and compares (a) the accept/reject class and the list of error kinds up to order, (b) on
accept, the lines of the operational model — read back with `JsonTree.readLine` — with
`recordJson` of the spec's records, as a multiset.
-/
namespace EmfRefine
open EmfSpec JsonTree
open Json (natDigits)

/-! ## input correspondence: spec → operational -/

section
variable {F : Type}

def toEmfObs (ops : FloatOps F) (txt : F → List Nat) : Obs F → Emf.Obs
  | .unsigned v => .unsigned v
  | .floating x => .floating ((ops.usable x).map txt)
  | .repeated t n => .repeated ((ops.usable (if n = 0 then ops.zero else ops.mean t n)).map txt) n

def toEmfFlags : Flag → Emf.Flags
  | .plain => .none
  | .hires => .highRes
  | .noMetric => .noMetric

def toEmfVal (ops : FloatOps F) (txt : F → List Nat) : Val F → Emf.Val
  | .str s => .str s
  | .metric m => .metric (m.obs.map (toEmfObs ops txt)) m.unit m.dims (toEmfFlags m.flag)
  | .error => .error
  | .nothing => .nothing

def toEmfItem (ops : FloatOps F) (txt : F → List Nat) : Item F → Emf.Item
  | .timestamp us => .timestamp us
  | .allowSplit => .allowSplit
  | .otherCfg => .otherCfg
  | .allowUnroutable => .allowUnroutable
  | .entryDims sets => .entryDims sets
  | .value name v => .value name (toEmfVal ops txt v)

def toEmfEntry (ops : FloatOps F) (txt : F → List Nat) (e : Entry F) : List Emf.Item :=
  e.map (toEmfItem ops txt)

/-- an extra directive (`EmfBuilder::directive`). The spec's `Decl` has an optional unit and a
high-resolution bit; serde prints `"Unit"` always (`Unit::None` as the unit named `None`) and
`"StorageResolution"` as 1 | 60 | absent. `unit = none` = `Unit::None`; resolution 60 (`Minute`, the same
as absent for CloudWatch) is not expressible in `EmfSpec.Decl`. -/
def toEmfExtra (d : Directive) : Emf.ExtraDirective where
  dimensions := d.dims
  metrics := d.metrics.map fun m =>
    { name := m.name, unit := m.unit.getD (bytes! "None"), storage := if m.hires then some 1 else none }
  nspace := d.ns

def toEmfCfg (cfg : Config) (sw : Switches) : Emf.Config where
  ns0 := cfg.namespaces.headD []
  moreNs := cfg.namespaces.tail
  defaultDims := cfg.defaultDims
  logGroup := cfg.logGroup
  allowIgnored := cfg.allowIgnored
  extraDirectives := cfg.extra.map toEmfExtra
  validation := ⟨sw.skipUnique, sw.skipDimsExist, sw.skipNames⟩

/-- one `Format::format` / `format_with_sample_rate` (valid rate) call with a writer that never fails -/
def toCall (ops : FloatOps F) (txt : F → List Nat) (mult : Option Nat) (nowMs : Nat) (e : Entry F) : Emf.Call where
  items := toEmfEntry ops txt e
  mult := mult
  badRate := false
  nowMs := nowMs
  ioBudget := none

/-- the operational model on a fresh formatter: result and bytes -/
def runEmf (cfg : Config) (sw : Switches) (ops : FloatOps F) (txt : F → List Nat) (mult : Option Nat)
    (nowMs : Nat) (e : Entry F) : Emf.Result × List Nat :=
  let c := toEmfCfg cfg sw
  let r := Emf.format (Emf.Consts.ofConfig c) (Emf.State.fresh c) (toCall ops txt mult nowMs e)
  (r.2.1, r.2.2.bytes)

/-! ## error kinds -/

def errKind : Err → Emf.ErrKind
  | .multipleTimestamps => .multipleTimestamps
  | .dimsLate => .dimsLate
  | .dimsTwice => .dimsTwice
  | .dimsEmpty => .dimsEmpty
  | .duplicate _ => .duplicateField
  | .emptyName => .nameEmpty
  | .awsName => .nameAws
  | .metricInDimension _ => .metricInDimField
  | .missingDimension _ => .missingDimension
  | .perMetricDims _ => .perMetricDims
  | .valueError _ => .valueError

def kindCode : Emf.ErrKind → Nat
  | .multipleTimestamps => 0 | .dimsLate => 1 | .dimsTwice => 2 | .dimsEmpty => 3
  | .duplicateField => 4 | .missingDimension => 5 | .nameEmpty => 6 | .nameAws => 7
  | .perMetricDims => 8 | .metricInDimField => 9 | .valueError => 10 | .badRate => 11

def insertNat (x : Nat) : List Nat → List Nat
  | [] => [x]
  | y :: ys => if x ≤ y then x :: y :: ys else y :: insertNat x ys

def sortNat (l : List Nat) : List Nat := l.foldr insertNat []

/-- the error kinds as a multiset (sorted codes) -/
def kindBag (ks : List Emf.ErrKind) : List Nat := sortNat (ks.map kindCode)

/-! ## output correspondence: the JSON tree a spec record denotes -/

def numTok (txt : F → List Nat) : Num F → List Nat
  | .int n => natDigits n
  | .flt x => Emf.stripDotZero (txt x)

def mvalJson (txt : F → List Nat) : MVal F → JVal
  | .str s => .str s
  | .scalar x => .num (numTok txt x)
  | .hist vs cs => .obj [(bytes! "Values", .arr (vs.map fun v => .num (numTok txt v))),
                         (bytes! "Counts", .arr (cs.map fun c => .num (natDigits c)))]

def declJson (d : Decl) : JVal :=
  .obj ([(bytes! "Name", JVal.str d.name)] ++
    (match d.unit with | some u => [(bytes! "Unit", JVal.str u)] | none => []) ++
    (if d.hires then [(bytes! "StorageResolution", JVal.num (bytes! "1"))] else []))

def dimsJson (dims : List (List Str)) : JVal := .arr (dims.map fun s => .arr (s.map .str))

/-- a declaration inside an EXTRA directive, as serde prints `MetricDefinition`: `"Unit"` is always
present, `Unit::None` (`unit = none`) is the unit named `None` -/
def extraDeclJson (d : Decl) : JVal :=
  .obj ([(bytes! "Name", JVal.str d.name), (bytes! "Unit", JVal.str (d.unit.getD (bytes! "None")))] ++
    (if d.hires then [(bytes! "StorageResolution", JVal.num (bytes! "1"))] else []))

/-- a directive the formatter writes itself (one per namespace) -/
def nsDirectiveJson (d : Directive) : JVal :=
  .obj [(bytes! "Namespace", .str d.ns), (bytes! "Dimensions", dimsJson d.dims),
        (bytes! "Metrics", .arr (d.metrics.map declJson))]

/-- an extra directive (serde field order) -/
def extraDirectiveJson (d : Directive) : JVal :=
  .obj [(bytes! "Dimensions", dimsJson d.dims), (bytes! "Metrics", .arr (d.metrics.map extraDeclJson)),
        (bytes! "Namespace", .str d.ns)]

/-- The JSON object a record denotes. `nNs` = number of configured namespaces: the first `nNs`
directives are the formatter's own, the others are the extra directives; `nowMs` = the clock, used
when the entry wrote no timestamp. -/
def recordJson (txt : F → List Nat) (nNs nowMs : Nat) (r : Record F) : JVal :=
  .obj ((bytes! "_aws", .obj (
      [(bytes! "CloudWatchMetrics",
          JVal.arr ((r.directives.take nNs).map nsDirectiveJson ++ (r.directives.drop nNs).map extraDirectiveJson))] ++
      (match r.logGroup with | some g => [(bytes! "LogGroupName", JVal.str g)] | none => []) ++
      [(bytes! "Timestamp", JVal.num (natDigits (r.timestamp.getD nowMs)))]))
    :: r.members.map fun m => (m.1, mvalJson txt m.2))

/-! ## the comparison -/

/-- `split_inclusive('\n')` -/
def splitLines (bs : List Nat) : List (List Nat) :=
  let r := bs.foldl (fun (st : Array Nat × Array (List Nat)) b =>
    let cur := st.1.push b
    if b = 10 then (#[], st.2.push cur.toList) else (cur, st.2)) (#[], #[])
  (if r.1.isEmpty then r.2 else r.2.push r.1.toList).toList

def removeFirst (v : JVal) : List JVal → Option (List JVal)
  | [] => none
  | x :: xs => if x == v then some xs else (removeFirst v xs).map (x :: ·)

/-- equal as multisets -/
def sameBag : List JVal → List JVal → Bool
  | [], ys => ys.isEmpty
  | x :: xs, ys => match removeFirst x ys with
    | none => false
    | some ys' => sameBag xs ys'

inductive Verdict where
  /-- both reject with the same bag of error kinds -/
  | bothReject (n : Nat)
  /-- both accept and the lines denote the records, IN THE ORDER of `emit`; `n` = number of records -/
  | bothAccept (n : Nat)
  | classDiffers (emf : String) (spec : String)
  | kindsDiffer (emf spec : List Nat)
  | unreadable (line : Nat)
  | recordsDiffer (nEmf nSpec : Nat)
  /-- the same records, in another order than `emit` lists them -/
  | orderDiffers (n : Nat)
  deriving Repr

def Verdict.ok : Verdict → Bool
  | .bothReject _ | .bothAccept _ => true
  | _ => false

/-- compare an operational outcome (result, bytes) with the spec's `records` -/
def compareWith (out : Emf.Result × List Nat) (cfg : Config) (sw : Switches) (ops : FloatOps F)
    (txt : F → List Nat) (mult : Option Nat) (nowMs : Nat) (e : Entry F) : Verdict :=
  let (res, bytes) := out
  match res, records cfg sw ops mult e with
  | .validation ks, .error errs =>
    if kindBag ks == kindBag (errs.map errKind) then .bothReject ks.length
    else .kindsDiffer (kindBag ks) (kindBag (errs.map errKind))
  | .ok, .ok rs =>
    let lines := splitLines bytes
    match lines.mapM readLine with
    | none => .unreadable ((lines.map readLine).findIdx (·.isNone))
    | some trees =>
      if beqList trees (rs.map (recordJson txt cfg.namespaces.length nowMs)) then .bothAccept rs.length
      else if sameBag trees (rs.map (recordJson txt cfg.namespaces.length nowMs)) then .orderDiffers rs.length
      else .recordsDiffer trees.length rs.length
  | .validation _, .ok _ => .classDiffers "reject" "accept"
  | .ok, .error _ => .classDiffers "accept" "reject"
  | .io, _ => .classDiffers "io" "-"

def compare (cfg : Config) (sw : Switches) (ops : FloatOps F) (txt : F → List Nat) (mult : Option Nat)
    (nowMs : Nat) (e : Entry F) : Verdict :=
  compareWith (runEmf cfg sw ops txt mult nowMs e) cfg sw ops txt mult nowMs e

def agree (cfg : Config) (sw : Switches) (ops : FloatOps F) (txt : F → List Nat) (mult : Option Nat)
    (nowMs : Nat) (e : Entry F) : Bool :=
  (compare cfg sw ops txt mult nowMs e).ok

end

/-! ## the instance `F := FText`: operational inputs read as spec inputs -/

/-- a float known only by its text: `none` = NaN, `some t` = `dtoa` of the clamped value -/
abbrev FText := Option (List Nat)

def zeroText : List Nat := bytes! "0.0"

/-- the text is already the text of the usable value (of the mean, for `Repeated`) -/
def textOps : FloatOps FText where
  zero := some zeroText
  mean := fun t _ => t
  usable := fun x => x.map some

def textTxt (x : FText) : List Nat := x.getD []

def embedObs : Emf.Obs → Obs FText
  | .unsigned v => .unsigned v
  | .floating t => .floating t
  | .repeated t n => .repeated t n

def embedFlags : Emf.Flags → Flag
  | .none => .plain
  | .highRes => .hires
  | .noMetric => .noMetric

def embedVal : Emf.Val → Val FText
  | .str s => .str s
  | .metric obs unit dims flags => .metric ⟨obs.map embedObs, unit, dims, embedFlags flags⟩
  | .error => .error
  | .nothing => .nothing

def embedItem : Emf.Item → Item FText
  | .timestamp us => .timestamp us
  | .allowSplit => .allowSplit
  | .otherCfg => .otherCfg
  | .allowUnroutable => .allowUnroutable
  | .entryDims sets => .entryDims sets
  | .value name v => .value name (embedVal v)

def embedEntry (items : List Emf.Item) : Entry FText := items.map embedItem

def embedCfg (c : Emf.Config) : Config × Switches :=
  ({ namespaces := c.ns0 :: c.moreNs
     defaultDims := c.defaultDims
     logGroup := c.logGroup
     allowIgnored := c.allowIgnored
     extra := c.extraDirectives.map fun d =>
       { ns := d.nspace, dims := d.dimensions,
         metrics := d.metrics.map fun m => ⟨m.name, some m.unit, m.storage == some 1⟩ } },
   ⟨c.validation.skipUnique, c.validation.skipDimsExist, c.validation.skipNames⟩)

/-- the operational input is the image of its reading: the text of a `Repeated` with zero
occurrences is `0.0`, no extra directive has `StorageResolution` 60 -/
def embedExact (c : Emf.Config) (items : List Emf.Item) : Bool :=
  let (cfg, sw) := embedCfg c
  decide (toEmfCfg cfg sw = c) && decide (toEmfEntry textOps textTxt (embedEntry items) = items)

/-- compare the two models on an OPERATIONAL input (the operational model runs on the input itself, not on
the image of its reading: when `embedExact` is false a disagreement is expected) -/
def compareEmf (c : Emf.Config) (mult : Option Nat) (nowMs : Nat) (items : List Emf.Item) : Verdict :=
  let (cfg, sw) := embedCfg c
  let r := Emf.format (Emf.Consts.ofConfig c) (Emf.State.fresh c)
    { items := items, mult := mult, badRate := false, nowMs := nowMs, ioBudget := none }
  compareWith (r.2.1, r.2.2.bytes) cfg sw textOps textTxt mult nowMs (embedEntry items)

end EmfRefine
