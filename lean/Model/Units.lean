import Model.Chars
/-!
Model of `metrique-writer-core/src/unit.rs` (units, `Convert::RATIO`, `Convert::convert`, the
`WithUnit` value writer), of the `Duration` value (`value/primitive.rs`) and of the unit checks of
`Distribution` / `Mean` (`metrique-writer/src/value/distribution.rs`).

* `Tag` mirrors the Rust `Unit` enum restricted to the 26 unit tags declared in `unit.rs`
  (`Unit::Custom` is not modelled).
* Numbers are abstract (`Arith α`): the theorems instantiate `α := Rat` (exact), the driver
  instantiates `α := Float` (IEEE binary64, the same operations in the same order as the Rust code)
  so that results can be compared bit by bit.
* A `Value` writes at most once into its `ValueWriter` (every method consumes the writer): what it
  wrote is an `Out`.  Wrappers are functions `Out → Out`.
-/
namespace Units

-- ------------------------------------------------------------------------------------------------
-- Units

/-- `NegativeScale` -/
inductive Neg where
  | micro | milli | one
  deriving DecidableEq, Repr

/-- `PositiveScale` -/
inductive Pos where
  | one | kilo | mega | giga | tera
  deriving DecidableEq, Repr

/-- the four scaled data units of `Unit` -/
inductive Base where
  | byte | bytePerSecond | bit | bitPerSecond
  deriving DecidableEq, Repr

/-- a `UnitTag` of `unit.rs` = the `Unit` value it carries -/
inductive Tag where
  | none | count | percent
  | second (s : Neg)
  | data (b : Base) (s : Pos)
  deriving DecidableEq, Repr

/-- `NegativeScale::reduction_factor` -/
def Neg.reductionFactor : Neg → Nat
  | .micro => 1000000
  | .milli => 1000
  | .one => 1

/-- `PositiveScale::expansion_factor` -/
def Pos.expansionFactor : Pos → Nat
  | .one => 1
  | .kilo => 1000
  | .mega => 1000000
  | .giga => 1000000000
  | .tera => 1000000000000

/-- the `$bits` column of `bit_unit_tag!` -/
def Base.bits : Base → Nat
  | .byte => 8
  | .bytePerSecond => 8
  | .bit => 1
  | .bitPerSecond => 1

/-- `TimeTag::FROM_SECONDS` -/
def fromSeconds (s : Neg) : Nat := s.reductionFactor

/-- `BitTag::FROM_BITS = $bits * PositiveScale::$scale.expansion_factor()` -/
def fromBits (b : Base) (s : Pos) : Nat := b.bits * s.expansionFactor

def Neg.all : List Neg := [.one, .milli, .micro]
def Pos.all : List Pos := [.one, .kilo, .mega, .giga, .tera]
def Base.all : List Base := [.byte, .bit, .bytePerSecond, .bitPerSecond]

/-- all 26 tags, in the order in which `unit.rs` declares them -/
def Tag.all : List Tag :=
  [.none, .count, .percent] ++ Neg.all.map .second ++
    Base.all.flatMap (fun b => Pos.all.map (fun s => Tag.data b s))

-- names -------------------------------------------------------------------------------------------

/-- name of the enum variant in the Rust source -/
def Neg.variant : Neg → List Char
  | .micro => chars! "Micro" | .milli => chars! "Milli" | .one => chars! "One"

def Pos.variant : Pos → List Char
  | .one => chars! "One" | .kilo => chars! "Kilo" | .mega => chars! "Mega"
  | .giga => chars! "Giga" | .tera => chars! "Tera"

def Base.variant : Base → List Char
  | .byte => chars! "Byte" | .bytePerSecond => chars! "BytePerSecond"
  | .bit => chars! "Bit" | .bitPerSecond => chars! "BitPerSecond"

/-- the prefix a positive scale puts in front of a struct / unit name -/
def Pos.pre : Pos → List Char
  | .one => [] | s => s.variant

def lower : List Char → List Char
  | [] => []
  | c :: cs => c.toLower :: cs

/-- identifier of the tag struct in `unit.rs` (`Second`, `KilobytePerSecond`, …) -/
def Tag.rustName : Tag → List Char
  | .none => chars! "None" | .count => chars! "Count" | .percent => chars! "Percent"
  | .second .one => chars! "Second"
  | .second .milli => chars! "Millisecond"
  | .second .micro => chars! "Microsecond"
  | .data b .one => b.variant
  | .data b s => s.pre ++ lower b.variant

/-- `Unit::name`: the name CloudWatch defines for the unit, as the code computes it
(`positive_scale!(scale, base, scaled)`) -/
def Tag.name : Tag → List Char
  | .none => chars! "None" | .count => chars! "Count" | .percent => chars! "Percent"
  | .second .micro => chars! "Microseconds"
  | .second .milli => chars! "Milliseconds"
  | .second .one => chars! "Seconds"
  | .data b s =>
    let (base, scaled) : List Char × List Char := match b with
      | .byte => (chars! "Bytes", chars! "bytes")
      | .bytePerSecond => (chars! "Bytes/Second", chars! "bytes/Second")
      | .bit => (chars! "Bits", chars! "bits")
      | .bitPerSecond => (chars! "Bits/Second", chars! "bits/Second")
    match s with
    | .one => base
    | s => s.variant ++ scaled

def Tag.ofRustName (n : List Char) : Option Tag := Tag.all.find? (fun t => t.rustName == n)

-- ratios ------------------------------------------------------------------------------------------

/-- `<a as Convert<b>>::RATIO` as an exact fraction (numerator, denominator); `none` when the
trait is not implemented for the pair.
* `impl<U: UnitTag> Convert<U> for None { RATIO = 1.0 }`
* time: `U::FROM_SECONDS / Self::FROM_SECONDS`
* bits: `Self::FROM_BITS / U::FROM_BITS` -/
def ratioND : Tag → Tag → Option (Nat × Nat)
  | .none, _ => some (1, 1)
  | .second s, .second t => some (fromSeconds t, fromSeconds s)
  | .data b s, .data b' s' => some (fromBits b s, fromBits b' s')
  | _, _ => none

def convertible (a b : Tag) : Bool := (ratioND a b).isSome

/-- all ordered pairs `(a, b)` with `a: Convert<b>` -/
def convertiblePairs : List (Tag × Tag) :=
  Tag.all.flatMap (fun a => (Tag.all.filter (convertible a)).map (fun b => (a, b)))

-- ------------------------------------------------------------------------------------------------
-- binary64 rounding of a positive fraction, exact over `Nat`/`Int`

/-- `n / d` scaled by `2^k`, as a fraction `(N, D)` -/
def scaleBy (n d : Nat) (k : Int) : Nat × Nat :=
  if 0 ≤ k then (n * 2 ^ k.toNat, d) else (n, d * 2 ^ (-k).toNat)

/-- nearest integer to `N / D`, ties to even -/
def roundHalfEven (N D : Nat) : Nat :=
  let q := N / D
  let r := N % D
  if 2 * r < D then q else if D < 2 * r then q + 1 else if q % 2 = 0 then q else q + 1

/-- one attempt with binary exponent `-k`: succeeds when `2^52 ≤ (n/d)·2^k < 2^53`; the result
`(m, e)` stands for `m · 2^e` with `2^52 ≤ m < 2^53`. -/
def rneAt (n d : Nat) (k : Int) : Option (Nat × Int) :=
  let (N, D) := scaleBy n d k
  if 0 < D ∧ 2 ^ 52 * D ≤ N ∧ N < 2 ^ 53 * D then
    let m := roundHalfEven N D
    if m = 2 ^ 53 then some (2 ^ 52, -k + 1) else some (m, -k)
  else none

/-- round-to-nearest-even of the positive fraction `n / d` to a binary64 *normal* number
`m · 2^e`; `none` for `n = 0`, `d = 0` or outside the normal range. -/
def rne (n d : Nat) : Option (Nat × Int) :=
  if n = 0 ∨ d = 0 then none else
  let k : Int := 52 + (Nat.log2 d : Int) - (Nat.log2 n : Int)
  let r := match rneAt n d k with
    | some r => some r
    | none => rneAt n d (k + 1)
  match r with
  | some (m, e) => if -1022 ≤ e + 52 ∧ e + 52 ≤ 1023 then some (m, e) else none
  | none => none

/-- IEEE-754 binary64 bit pattern of the positive normal number `m · 2^e` (`2^52 ≤ m < 2^53`) -/
def f64Bits (m : Nat) (e : Int) : Nat :=
  (e + 52 + 1023).toNat * 2 ^ 52 + (m - 2 ^ 52)

/-- bit pattern of the `f64` constant `<a as Convert<b>>::RATIO`: the quotient of two integers
that are exact in binary64, i.e. the correctly rounded value of the exact fraction -/
def ratioBits (a b : Tag) : Option Nat :=
  match ratioND a b with
  | some (n, d) => (rne n d).map (fun (m, e) => f64Bits m e)
  | none => none

-- ------------------------------------------------------------------------------------------------
-- numbers

/-- the arithmetic the code performs on values (`f64` in the code) -/
structure Arith (α : Type) where
  add : α → α → α
  mul : α → α → α
  div : α → α → α
  /-- `u as f64` -/
  ofNat : Nat → α
  /-- `x == 1.0` -/
  isOne : α → Bool

def ratArith : Arith Rat where
  add := (· + ·)
  mul := (· * ·)
  div := (· / ·)
  ofNat := fun n => (n : Rat)
  isOne := fun x => decide (x = 1)

/-- IEEE binary64; `ofNat` is only applied to values below `2^64` (`u64 as f64`) -/
def floatArith : Arith Float where
  add := (· + ·)
  mul := (· * ·)
  div := (· / ·)
  ofNat := fun n => n.toUInt64.toFloat
  isOne := fun x => x == 1.0

-- ------------------------------------------------------------------------------------------------
-- observations and `Convert::convert`

/-- `Observation` -/
inductive Obs (α : Type) where
  | unsigned (u : Nat)
  | floating (f : α)
  | repeated (total : α) (occurrences : Nat)
  deriving Repr, DecidableEq

/-- `Convert::convert` with `RATIO = r` -/
def convert {α : Type} (A : Arith α) (r : α) (o : Obs α) : Obs α :=
  if A.isOne r then o
  else match o with
    | .unsigned u => .floating (A.mul (A.ofNat u) r)
    | .floating f => .floating (A.mul f r)
    | .repeated total occurrences => .repeated (A.mul total r) occurrences

/-- the numeric content of an observation (sum of the observed values) -/
def Obs.total {α : Type} (A : Arith α) : Obs α → α
  | .unsigned u => A.ofNat u
  | .floating f => f
  | .repeated t _ => t

/-- how many occurrences an observation stands for -/
def Obs.occurrences {α : Type} : Obs α → Nat
  | .unsigned _ => 1
  | .floating _ => 1
  | .repeated _ n => n

-- ------------------------------------------------------------------------------------------------
-- what a `Value` writes

/-- kinds of validation error raised by the modelled code -/
inductive Err where
  /-- "can't apply a unit to a string value" -/
  | unitOnString
  /-- "value promised to write unit `promised` but wrote `wrote` instead" -/
  | mismatch (promised wrote : Tag)
  /-- "can't construct a distribution of strings" -/
  | distStrings
  /-- "dimensions must be added after collecting into a distribution" -/
  | distDims
  deriving Repr, DecidableEq

/-- the single call a `Value` makes on its `ValueWriter` (or none). Dimensions are `(key, value)`
identifiers; flags are not modelled. -/
inductive Out (α : Type) where
  | nothing
  | str
  | metric (obs : List (Obs α)) (unit : Tag) (dims : List (Nat × Nat))
  | error (es : List Err)
  deriving Repr, DecidableEq

/-- `<WithUnit<V, dst> as Value>::write` where `V::Unit = src`, `<src as Convert<dst>>::RATIO = r`
and the inner value wrote `o`. -/
def withUnit {α : Type} (A : Arith α) (r : α) (src dst : Tag) : Out α → Out α
  | .nothing => .nothing
  | .str => .error [.unitOnString]
  | .metric obs unit dims =>
    if unit ≠ src then .error [.mismatch src unit]
    else .metric (obs.map (convert A r)) dst dims
  | .error es => .error es

/-- `Option<V>` -/
def optional {α : Type} : Option (Out α) → Out α
  | none => .nothing
  | some o => o

/-- the `Collector` of distribution.rs over the outputs of the collected values: accumulated
errors and observations -/
def collect {α : Type} (expected : Tag) : List (Out α) → List Err × List (Obs α)
  | [] => ([], [])
  | o :: rest =>
    let (es, os) := collect expected rest
    match o with
    | .nothing => (es, os)
    | .str => (.distStrings :: es, os)
    | .metric obs unit dims =>
      if unit ≠ expected then (.mismatch expected unit :: es, os)
      else if dims ≠ [] then (.distDims :: es, os)
      else (es, obs ++ os)
    | .error es' => (es' ++ es, os)

/-- `<Distribution<V> as Value>::write` with `V::Unit = unit` -/
def distribution {α : Type} (unit : Tag) (elems : List (Out α)) : Out α :=
  if elems.isEmpty then .nothing
  else
    let (es, os) := collect unit elems
    if es.isEmpty then .metric os unit [] else .error es

/-- state of a `Mean<U>`: `(total, occurrences)` -/
abbrev MeanSt (α : Type) := α × Nat

/-- `Mean::record_value` applied to the output of one value: the observations are added even if an
error is reported for the same value (the caller discards the mean then) -/
def meanRecord {α : Type} (A : Arith α) (unit : Tag) (st : MeanSt α) (o : Out α) : List Err × MeanSt α :=
  let (es, os) := collect unit [o]
  (es, os.foldl (fun (st : MeanSt α) ob => (A.add st.1 (Obs.total A ob), st.2 + ob.occurrences)) st)

/-- `Mean::try_new(values)`: stops at the first value that reports errors -/
def meanTryExtend {α : Type} (A : Arith α) (unit : Tag) : MeanSt α → List (Out α) → Except (List Err) (MeanSt α)
  | st, [] => .ok st
  | st, o :: rest =>
    match meanRecord A unit st o with
    | ([], st') => meanTryExtend A unit st' rest
    | (es, _) => .error es

/-- `<Mean<U> as Value>::write` -/
def meanWrite {α : Type} (unit : Tag) (st : MeanSt α) : Out α :=
  if 0 < st.2 then .metric [.repeated st.1 st.2] unit [] else .nothing

-- leaves ------------------------------------------------------------------------------------------

/-- `duration_as_millis_with_nano_precision`: `Duration::as_secs_f64() * (Milli.reduction_factor() as f64)`
with `as_secs_f64 = secs as f64 + nanos as f64 / 1e9` (std) -/
def durationMillis {α : Type} (A : Arith α) (secs nanos : Nat) : α :=
  A.mul (A.add (A.ofNat secs) (A.div (A.ofNat nanos) (A.ofNat 1000000000)))
    (A.ofNat Neg.milli.reductionFactor)

/-- `<Duration as Value>::write`; `<Duration as MetricValue>::Unit = Millisecond` -/
def durationOut {α : Type} (A : Arith α) (secs nanos : Nat) : Out α :=
  .metric [.floating (durationMillis A secs nanos)] (.second .milli) []

/-- unsigned integers (`u64`, `u32`, …, `bool`, `usize`) -/
def unsignedOut {α : Type} (u : Nat) : Out α := .metric [.unsigned u] .none []

/-- `f64`, `f32` -/
def floatingOut {α : Type} (f : α) : Out α := .metric [.floating f] .none []

/-- `Observation` as a value -/
def observationOut {α : Type} (o : Obs α) : Out α := .metric [o] .none []

-- the Float instance ---------------------------------------------------------------------------------

/-- the `f64` constant `RATIO` -/
def ratioF (a b : Tag) : Option Float := (ratioBits a b).map (fun bits => Float.ofBits bits.toUInt64)

/-- exact ratio -/
def ratioQ (a b : Tag) : Rat :=
  match ratioND a b with
  | some (n, d) => (n : Rat) / (d : Rat)
  | none => 0

-- ------------------------------------------------------------------------------------------------
-- exact reading of binary64 values, and the error bound evaluated on observed conversions

/-- `2^e` as a rational -/
def pow2 (e : Int) : Rat :=
  if 0 ≤ e then ((2 ^ e.toNat : Nat) : Rat) else 1 / ((2 ^ (-e).toNat : Nat) : Rat)

/-- the exact value of a finite binary64 bit pattern (`none` for NaN and ±∞) -/
def f64ToRat (bits : Nat) : Option Rat :=
  let negative : Bool := decide (bits / 2 ^ 63 % 2 = 1)
  let E : Nat := bits / 2 ^ 52 % 2 ^ 11
  let M : Nat := bits % 2 ^ 52
  if E = 2047 then none
  else
    let mag : Rat :=
      if E = 0 then (M : Rat) * pow2 (-1074)
      else ((M + 2 ^ 52 : Nat) : Rat) * pow2 ((E : Int) - 1075)
    some (if negative then -mag else mag)

/-- is the bit pattern a normal number (neither zero, subnormal, infinite nor NaN)? -/
def f64IsNormal (bits : Nat) : Bool :=
  let E : Nat := bits / 2 ^ 52 % 2 ^ 11
  decide (0 < E ∧ E < 2047)

def absQ (x : Rat) : Rat := if x < 0 then -x else x

/-- `|x − y| ≤ ε·|y|` -/
def nearB (ε x y : Rat) : Bool := decide (absQ (x - y) ≤ ε * absQ y)

/-- unit roundoff `2⁻⁵³` and `(1+u)^k − 1` -/
def roundoff : Rat := 1 / ((2 ^ 53 : Nat) : Rat)
def epsQ (k : Nat) : Rat := (1 + roundoff) ^ k - 1

/-- the conclusion of the binary64 error theorem (`c19_f64_convert_error`) evaluated on one observed
conversion: exact input `v`, emitted bit pattern `zbits` (a normal number), pair `a → b`:
`|z − v·ratio| ≤ ((1+2⁻⁵³)³ − 1)·|v·ratio|`. -/
def convertBoundOk (a b : Tag) (v : Rat) (zbits : Nat) : Option Bool :=
  match ratioND a b, f64ToRat zbits with
  | some (n, d), some z => some (nearB (epsQ 3) z (v * ((n : Rat) / (d : Rat))))
  | _, _ => none

end Units
