import Model.Naming
/-
Re-implementation of `Inflector` 0.11.4 (`src/cases/case/mod.rs`: `to_case_camel_like` with the
options of `to_pascal_case`, `to_case_snake_like` with `"_"`/`"-"` and `"lower"`) **for ASCII
input** — the generator only inflects ASCII text (Rust identifiers, prefixes the macro restricts to
alphanumerics/`_`/`-`, ASCII tag names). On ASCII, `char::is_alphanumeric/is_numeric/is_lowercase/
is_uppercase` are the ASCII classes and `char_indices` are character positions.

The theorems of C07 take the inflector as a parameter; this file only feeds the driver and is
compared with the crate on ~20k identifiers per run (component `naming/inflector`).
-/
namespace Naming.Inflector

def isAlnum (c : Char) : Bool := c.isAlphanum

/-- `trim_right`: `trim_end_matches(is_not_alphanumeric)` -/
def trimRight (s : Str) : Str := (s.reverse.dropWhile fun c => !isAlnum c).reverse

/-- `char_is_uppercase`: `c == c.to_ascii_uppercase()` (true for digits!) -/
def charIsUppercase (c : Char) : Bool := c == c.toUpper

/-- `next_or_previous_char_is_lowercase(convertable_string, i)` on the *untrimmed* string -/
def nextOrPrevLower (orig : Str) (i : Nat) : Bool :=
  (orig.getD (i + 1) 'A').isLower || (orig.getD (i - 1) 'A').isLower

/-- loop of `to_case_snake_like` (`case = "lower"`) -/
def snakeLoop (sep : Char) (orig : Str) : Nat → Bool → Str → Str → Str
  | _, _, acc, [] => acc
  | i, first, acc, ch :: rest =>
    if !isAlnum ch then
      if !first then snakeLoop sep orig (i + 1) true (acc ++ [sep]) rest
      else snakeLoop sep orig (i + 1) first acc rest
    else if !first && charIsUppercase ch && nextOrPrevLower orig i then
      snakeLoop sep orig (i + 1) false (acc ++ [sep, ch.toLower]) rest
    else
      snakeLoop sep orig (i + 1) false (acc ++ [ch.toLower]) rest

def toSnakeLike (sep : Char) (s : Str) : Str := snakeLoop sep s 0 true [] (trimRight s)

/-- loop of `to_case_camel_like` with `to_pascal_case`'s options (`new_word = true`,
`last_char = ' '`, no separator, not inverted); state `(new_word, last_char, found_real_char)` -/
def camelLoop : Bool → Char → Bool → Str → Str → Str
  | _, _, _, acc, [] => acc
  | newWord, last, found, acc, ch :: rest =>
    if !isAlnum ch && found then camelLoop true last found acc rest
    else if !found && !isAlnum ch then camelLoop newWord last found acc rest
    else if ch.isDigit then camelLoop true last true (acc ++ [ch]) rest
    else if newWord || (last.isLower && ch.isUpper && last != ' ') then
      camelLoop false last true (acc ++ [ch.toUpper]) rest
    else camelLoop newWord ch true (acc ++ [ch.toLower]) rest

def toPascal (s : Str) : Str := camelLoop true ' ' false [] (trimRight s)

/-- the inflector the driver instantiates the model with -/
def infl : Infl := fun st s =>
  match st with
  | .preserve => s
  | .pascal => toPascal s
  | .snake => toSnakeLike '_' s
  | .kebab => toSnakeLike '-' s

end Naming.Inflector
