/-
Model of the entry / value wrappers of `metrique-writer-core`, `metrique-writer` and `metrique`
(property C15).

A *writer* is modelled by what it is in the code: a bundle of methods over some state `σ`
(`EntryWriter`: `timestamp`, `value`, `config`; `ValueWriter`: `string`, `metric`, `error`, each
consuming the writer and producing a result `ρ`).  A `&mut` becomes a returned state.
Entries and values are *deep embeddings* of the Rust types (`Ent`, `Val`): one constructor per
wrapper type, and `Ent.write` / `Val.write` / `Ent.sampleGroup` transcribe the corresponding
`impl Entry` / `impl Value` one by one, including the writer-wrapping structs they create
(`Wrapper`, `EntryWriterWrapper`, `ForceFlagEntryWriter`, `EntryWriterToDyn`/`FromDyn`,
`ValueWriterToDyn` with its `Option::take`, `ValueWriterFromDyn` with its `SmallVec` collects).

The *specification* is a set of plain list functions on call logs (`Wrapper.specLog`,
`Wrapper.specSG`, `Val.spec`): `id`, `++`, `map addDims`, … .  `Props/C15.lean` proves the two agree
for every entry, every writer and every composition of wrappers.

Strings (names, string values, dimension keys/values, unit names, configs, error messages) are opaque
tokens `Str = List Nat` (the character codes of the line-protocol token); only their identity matters
(the deny list compares names).
-/
namespace Wrappers

abbrev Str := List Nat
abbrev Dims := List (Str × Str)

/-- `metrique_writer_core::Observation` (floats as bit patterns). -/
inductive Obs where
  | u (n : Nat)
  | f (bits : Nat)
  | r (bits : Nat) (occ : Nat)
  deriving Repr, DecidableEq

/-- `metrique_writer_format_emf::StorageMode`; declaration order is "who wins". -/
inductive Mode where
  | high
  | noMetric
  deriving Repr, DecidableEq

/-- `MetricFlags<'_>(Option<&dyn MetricOptions>)` restricted to the EMF options. -/
abbrev Flags := Option Mode

/-- `std::cmp::max` on `StorageMode` (derived `Ord`: `HighStorageResolution < NoMetric`). -/
def Mode.max : Mode → Mode → Mode
  | .noMetric, _ => .noMetric
  | _, .noMetric => .noMetric
  | .high, .high => .high

/-- `MetricFlags::try_merge` with `EmfOptions::try_merge` (flags.rs:52, emf.rs:1632). -/
def tryMerge (self other : Flags) : Flags :=
  match self, other with
  | none, none => none
  | some a, none => some a
  | none, some b => some b
  | some f1, some f2 => some (Mode.max f2 f1)

structure Metric where
  obs : List Obs
  unit : Str
  dims : Dims
  flags : Flags
  deriving Repr, DecidableEq

/-- The one call a `Value` makes on its `ValueWriter` (the methods take `self`, so at most one). -/
inductive VCall where
  | string (s : Str)
  | metric (m : Metric)
  | error (e : Str)
  deriving Repr, DecidableEq

/-- `trait ValueWriter`: every method consumes the writer; `ρ` is the effect of the call. -/
structure VWriter (ρ : Type) where
  string : Str → ρ
  metric : List Obs → Str → Dims → Flags → ρ
  error : Str → ρ

/-- Performing a recorded call on a writer. -/
def VCall.apply {ρ : Type} (w : VWriter ρ) : VCall → ρ
  | .string s => w.string s
  | .metric m => w.metric m.obs m.unit m.dims m.flags
  | .error e => w.error e

/-- The recording `ValueWriter`: the effect of a call is the call. -/
def recVW : VWriter VCall where
  string s := .string s
  metric o u d f := .metric ⟨o, u, d, f⟩
  error e := .error e

/-- `iter.collect::<SmallVec<_>>()` followed by `.as_slice()`/`.into_iter()`: pushes one by one. -/
def collect {α : Type} (it : List α) : List α :=
  it.foldl (fun sv x => sv ++ [x]) []

/-! ### Value-writer wrappers -/

/-- `value/dimensions.rs`: `impl ValueWriter for Wrapper<'_, W>` — dimensions chained AFTER existing. -/
def dimsVW {ρ : Type} (dims : Dims) (w : VWriter ρ) : VWriter ρ where
  string s := w.string s
  metric o u d f := w.metric o u (d ++ dims) f
  error e := w.error e

/-- `metrique-writer/src/entry/dimensions.rs`: `ValueWriterWrapper`. -/
def globalDimsVW {ρ : Type} (dims : Dims) (w : VWriter ρ) : VWriter ρ where
  string s := w.string s
  metric o u d f := w.metric o u (d ++ dims) f
  error e := w.error e

/-- `value/force.rs`: the local `Wrapper<W, FLAGS>`: `flags.try_merge(FLAGS::construct())`.
`forced` is whatever `FLAGS::construct()` returns — possibly `MetricFlags::empty()` (`none`). -/
def flagVW {ρ : Type} (forced : Flags) (w : VWriter ρ) : VWriter ρ where
  string s := w.string s
  metric o u d f := w.metric o u d (tryMerge f forced)
  error e := w.error e

/-- `trait DynValueWriter` (`&mut self` methods): state-passing. -/
structure DynVWriter (δ : Type) where
  string : δ → Str → δ
  metric : δ → List Obs → Str → Dims → Flags → δ
  error : δ → Str → δ

/-- State of a `ValueWriterToDyn<W>(Option<W>)`: the slot, the effect produced on the underlying
writer so far, and whether `take().unwrap()` hit `None` (a panic in the code). -/
structure ToDyn (ρ : Type) where
  slot : Option (VWriter ρ)
  out : Option ρ
  panicked : Bool

/-- `impl DynValueWriter for ValueWriterToDyn<W>` (boxed.rs:143). -/
def toDynVW {ρ : Type} : DynVWriter (ToDyn ρ) where
  string st s :=
    match st.slot with
    | some w => { slot := none, out := some (w.string s), panicked := st.panicked }
    | none => { st with panicked := true }
  metric st o u d f :=
    match st.slot with
    | some w => { slot := none, out := some (w.metric o u d f), panicked := st.panicked }
    | none => { st with panicked := true }
  error st e :=
    match st.slot with
    | some w => { slot := none, out := some (w.error e), panicked := st.panicked }
    | none => { st with panicked := true }

/-- `impl ValueWriter for ValueWriterFromDyn<'_>` (boxed.rs:168): holds `&mut dyn DynValueWriter`
(here: the dyn writer and its current state); `metric` collects distribution and dimensions into
`SmallVec`s first. -/
def fromDynVW {δ : Type} (d : DynVWriter δ) (st : δ) : VWriter δ where
  string s := d.string st s
  metric o u dm f := d.metric st (collect o) u (collect dm) f
  error e := d.error st e

/-! ### Values -/

/-- The harness's `ValueFormatter`s: `id` calls `value.write(writer)`; `count` writes the number of
observations of a metric (0 otherwise) as `Unsigned` with unit `Count`, no dimensions, no flags. -/
inductive Fmt where
  | id
  | count
  deriving Repr, DecidableEq

/-- token of `Unit::Count` in the line protocol: `u436f756e74` -/
def countUnit : Str := [117, 52, 51, 54, 102, 55, 53, 54, 101, 55, 52]

def Fmt.apply {ρ : Type} (fmt : Fmt) (c : Option VCall) (w : VWriter ρ) : Option ρ :=
  match fmt with
  | .id => c.map (VCall.apply w)
  | .count =>
    let n := match c with
      | some (.metric m) => m.obs.length
      | _ => 0
    some (w.metric [Obs.u n] countUnit [] none)

/-- Deep embedding of the `Value` types. -/
inductive Val where
  /-- a plain value: makes the call `c`, or writes nothing -/
  | leaf (c : Option VCall)
  | ref (v : Val)        -- `&T`
  | box (v : Val)        -- `Box<T>`
  | arc (v : Val)        -- `Arc<T>`
  | cow (v : Val)        -- `Cow<'_, T>` (borrowed or owned: both deref)
  | optSome (v : Val)    -- `Some(v)`
  | optNone              -- `None::<T>`
  | withDims (v : Val) (dims : Dims)    -- `WithDimensions<V, N>` and value/dimensions.rs `Wrapper { value, dimensions }`
  | globalDims (v : Val) (dims : Dims)  -- entry/dimensions.rs `ValueWrapper { value, global_dimensions }`
  | forceFlag (v : Val) (f : Flags)      -- `ForceFlag<V, FLAGS>`
  | dyn (v : Val)                       -- `ValueFromDyn(&ValueToDyn(v))`: the double-dispatch bridge of boxed.rs
  | formatted (fmt : Fmt) (v : Val)     -- `FormattedValue<V, VF, Lifted>`, `V` = containers over a plain value
  deriving Repr

/-- The lifted `ValueFormatter` impls of value/formatter.rs (`&V`, `Option<V>`, `Box<V>`, `Arc<V>`,
`Cow<V>`), bottoming out at the formatter's own impl for the plain value.  Any other shape does not
type-check in Rust (no `ValueFormatter` impl) and is modelled as writing nothing. -/
def Val.format {ρ : Type} (fmt : Fmt) : Val → VWriter ρ → Option ρ
  | .leaf c, w => fmt.apply c w
  | .ref v, w => Val.format fmt v w
  | .box v, w => Val.format fmt v w
  | .arc v, w => Val.format fmt v w
  | .cow v, w => Val.format fmt v w
  | .optSome v, w => Val.format fmt v w
  | .optNone, _ => none
  | _, _ => none

/-- `Value::write(&self, writer: impl ValueWriter)`; `none` = the value made no call. -/
def Val.write : Val → {ρ : Type} → VWriter ρ → Option ρ
  | .leaf c, _, w => c.map (VCall.apply w)
  | .ref v, _, w => v.write w
  | .box v, _, w => v.write w
  | .arc v, _, w => v.write w
  | .cow v, _, w => v.write w
  | .optSome v, _, w => v.write w
  | .optNone, _, _ => none
  | .withDims v dims, _, w => v.write (dimsVW dims w)
  | .globalDims v dims, _, w => v.write (globalDimsVW dims w)
  | .forceFlag v f, _, w => v.write (flagVW f w)
  | .dyn v, ρ, w =>
    -- ValueFromDyn::write: `self.0.write(&mut ValueWriterToDyn(Some(writer)))`;
    -- ValueToDyn::write:   `self.0.write(ValueWriterFromDyn(writer))`
    let st0 : ToDyn ρ := { slot := some w, out := none, panicked := false }
    let st := (v.write (fromDynVW toDynVW st0)).getD st0
    st.out
  | .formatted fmt v, _, w => Val.format fmt v w

/-- Whether the `take().unwrap()` of `ValueWriterToDyn` panics while `v` is written through the bridge. -/
def Val.dynPanics (v : Val) : Bool :=
  let st0 : ToDyn VCall := { slot := some recVW, out := none, panicked := false }
  ((v.write (fromDynVW toDynVW st0)).getD st0).panicked

/-- What a recording writer sees. -/
def Val.sem (v : Val) : Option VCall := v.write recVW

/-! ### Entries -/

inductive Item where
  | timestamp (t : Int)
  | config (c : Str)
  | value (name : Str) (v : Val)
  deriving Repr

/-- `trait EntryWriter<'a>` over a state `σ`. -/
structure EWriter (σ : Type) where
  timestamp : σ → Int → σ
  value : σ → Str → Val → σ
  config : σ → Str → σ

/-- `trait DynEntryWriter<'a>`; the `Val` of `value` stands for the `&dyn DynValue` `ValueToDyn(v)`. -/
structure DynEWriter (σ : Type) where
  timestamp : σ → Int → σ
  value : σ → Str → Val → σ
  config : σ → Str → σ

/-- `impl EntryWriter for &mut W` (entry/mod.rs:239). -/
def refMutEW {σ : Type} (w : EWriter σ) : EWriter σ where
  timestamp s t := w.timestamp s t
  value s n v := w.value s n v
  config s c := w.config s c

/-- `impl DynEntryWriter for EntryWriterToDyn<W>`: hands the format `ValueFromDyn(value)`. -/
def toDynEW {σ : Type} (w : EWriter σ) : DynEWriter σ where
  timestamp s t := w.timestamp s t
  value s n v := w.value s n (Val.dyn v)
  config s c := w.config s c

/-- `impl EntryWriter for EntryWriterFromDyn`: hands the dyn writer `ValueToDyn(value)`. -/
def fromDynEW {σ : Type} (d : DynEWriter σ) : EWriter σ where
  timestamp s t := d.timestamp s t
  value s n v := d.value s n v
  config s c := d.config s c

/-- value/dimensions.rs: `impl EntryWriter for Wrapper<'_, W>`. -/
def dimsEW {σ : Type} (dims : Dims) (w : EWriter σ) : EWriter σ where
  timestamp s t := w.timestamp s t
  value s n v := w.value s n (Val.withDims v dims)
  config s c := w.config s c

/-- entry/dimensions.rs: `EntryWriterWrapper` with the deny list (`HashSet::contains(&name)`). -/
def globalDimsEW {σ : Type} (dims : Dims) (deny : List Str) (w : EWriter σ) : EWriter σ where
  timestamp s t := w.timestamp s t
  value s n v := if deny.contains n then w.value s n v else w.value s n (Val.globalDims v dims)
  config s c := w.config s c

/-- value/force.rs: `ForceFlagEntryWriter`: `ForceFlag::<_, FLAGS>::from(value)` with `value: &V`. -/
def flagEW {σ : Type} (f : Flags) (w : EWriter σ) : EWriter σ where
  timestamp s t := w.timestamp s t
  value s n v := w.value s n (Val.forceFlag (Val.ref v) f)
  config s c := w.config s c

def writeItem {σ : Type} (w : EWriter σ) (s : σ) : Item → σ
  | .timestamp t => w.timestamp s t
  | .config c => w.config s c
  | .value n v => w.value s n v

/-- Deep embedding of the `Entry` types. -/
inductive Ent where
  /-- a plain entry: makes these calls in order; has this sample group -/
  | base (items : List Item) (sg : Dims)
  | boxed (e : Ent)                    -- `BoxEntry`
  | merged (a b : Ent)                 -- `Merged<E1, E2>`
  | mergedRef (a b : Ent)              -- `MergedRef<'_, E1, E2>`
  | withDims (e : Ent) (dims : Dims)   -- `WithDimensions<E, N>` as an entry
  | globalDims (e : Ent) (dims : Dims) (deny : List Str)  -- `WithGlobalDimensions<E, N>`
  | forceFlag (e : Ent) (f : Flags)     -- `ForceFlag<E, FLAGS>` as an entry
  | ref (e : Ent)                      -- `&T`
  | box (e : Ent)                      -- `Box<T>`
  | arc (e : Ent)                      -- `Arc<T>`
  | cow (e : Ent)                      -- `Cow<'_, T>`
  | optSome (e : Ent)                  -- `Some(e)`
  | optNone                            -- `None::<T>`
  | root (e : Ent)                     -- `RootEntry<M>` over an `InflectableEntry` that delegates to `e`
  deriving Repr

/-- `Entry::write(&self, writer: &mut impl EntryWriter)`. -/
def Ent.write : Ent → {σ : Type} → EWriter σ → σ → σ
  | .base items _, _, w, s => items.foldl (writeItem w) s
  | .boxed e, _, w, s => e.write (fromDynEW (toDynEW (refMutEW w))) s
  | .merged a b, _, w, s => b.write w (a.write w s)
  | .mergedRef a b, _, w, s => b.write w (a.write w s)
  | .withDims e dims, _, w, s => e.write (dimsEW dims (refMutEW w)) s
  | .globalDims e dims deny, _, w, s => e.write (globalDimsEW dims deny (refMutEW w)) s
  | .forceFlag e f, _, w, s => e.write (flagEW f w) s
  | .ref e, _, w, s => e.write w s
  | .box e, _, w, s => e.write w s
  | .arc e, _, w, s => e.write w s
  | .cow e, _, w, s => e.write w s
  | .optSome e, _, w, s => e.write w s
  | .optNone, _, _, s => s
  | .root e, _, w, s => e.write w s

/-- `Entry::sample_group(&self)`. -/
def Ent.sampleGroup : Ent → Dims
  | .base _ sg => sg
  | .boxed e => collect e.sampleGroup          -- DynEntry::sample_group collects into a SmallVec
  | .merged a b => a.sampleGroup ++ b.sampleGroup      -- `.chain`
  | .mergedRef a b => a.sampleGroup ++ b.sampleGroup
  | .withDims e _ => e.sampleGroup
  | .globalDims e _ _ => e.sampleGroup
  | .forceFlag e _ => e.sampleGroup
  | .ref e => e.sampleGroup
  | .box e => e.sampleGroup
  | .arc e => e.sampleGroup
  | .cow e => e.sampleGroup
  | .optSome e => e.sampleGroup
  | .optNone => []
  | .root e => e.sampleGroup

/-! ### The recording entry writer and call logs -/

inductive Call where
  | ts (t : Int)
  | cfg (c : Str)
  | val (name : Str) (c : Option VCall)
  deriving Repr, DecidableEq

abbrev Log := List Call

/-- The recording `EntryWriter`: appends what it is told; a value is run against `recVW`. -/
def recEW : EWriter Log where
  timestamp log t := log ++ [Call.ts t]
  value log n v := log ++ [Call.val n v.sem]
  config log c := log ++ [Call.cfg c]

def Ent.log (e : Ent) : Log := e.write recEW []

/-! ### Wrappers as operations on entries, and their specification on logs -/

inductive Wrapper where
  | boxed
  | mergeAfter (other : Ent)      -- `e.merge(other)`            = `Merged(e, other)`
  | mergeBefore (other : Ent)     -- `other.merge(e)`            = `Merged(other, e)`
  | mergeRefAfter (other : Ent)   -- `e.merge_by_ref(&other)`    = `MergedRef(&e, &other)`
  | mergeRefBefore (other : Ent)  -- `other.merge_by_ref(&e)`
  | withDims (dims : Dims)
  | globalDims (dims : Dims) (deny : List Str)
  | forceFlag (f : Flags)
  | ref | box | arc | cow | optSome | optNone | root
  /-- `MergeGlobals<S, G>::next/format`: `stream.next(&globals.merge_by_ref(entry))` -/
  | streamMergeGlobals (globals : Ent)
  /-- `MergeGlobalDimensions<S, N>::next/format` with its empty-dimension shortcut -/
  | streamGlobalDims (dims : Dims) (deny : List Str)
  /-- `impl EntryIoStream for ForceFlag<S, FLAGS>`: `self.0.next(&ForceFlag(entry, _))` -/
  | streamForceFlag (f : Flags)
  deriving Repr

def Wrapper.apply : Wrapper → Ent → Ent
  | .boxed, e => .boxed e
  | .mergeAfter o, e => .merged e o
  | .mergeBefore o, e => .merged o e
  | .mergeRefAfter o, e => .mergedRef e o
  | .mergeRefBefore o, e => .mergedRef o e
  | .withDims d, e => .withDims e d
  | .globalDims d deny, e => .globalDims e d deny
  | .forceFlag f, e => .forceFlag e f
  | .ref, e => .ref e
  | .box, e => .box e
  | .arc, e => .arc e
  | .cow, e => .cow e
  | .optSome, e => .optSome e
  | .optNone, _ => .optNone
  | .root, e => .root e
  | .streamMergeGlobals g, e => .mergedRef g e
  | .streamGlobalDims d deny, e =>
    if d.isEmpty then .ref (.ref e)      -- `self.stream.next(&entry)` with `entry: &E`
    else .globalDims (.ref e) d deny     -- `WithGlobalDimensions::new(entry, dims.clone(), deny.clone())`
  | .streamForceFlag f, e => .forceFlag (.ref e) f

/-- innermost wrapper first -/
def applyAll (ws : List Wrapper) (e : Ent) : Ent := ws.foldl (fun e w => w.apply e) e

/-! #### Specification: plain list functions -/

def VCall.addDims (d : Dims) : VCall → VCall
  | .metric m => .metric { m with dims := m.dims ++ d }
  | c => c

/-- lattice join on `none < high < noMetric` -/
def joinFlags : Flags → Flags → Flags
  | some .noMetric, _ => some .noMetric
  | _, some .noMetric => some .noMetric
  | some .high, _ => some .high
  | _, some .high => some .high
  | none, none => none

def VCall.forceFlag (f : Flags) : VCall → VCall
  | .metric m => .metric { m with flags := joinFlags m.flags f }
  | c => c

def Call.mapVal (g : Str → VCall → VCall) : Call → Call
  | .val n c => .val n (c.map (g n))
  | c => c

def Wrapper.specLog : Wrapper → Log → Log
  | .boxed, l => l
  | .mergeAfter o, l => l ++ o.log
  | .mergeBefore o, l => o.log ++ l
  | .mergeRefAfter o, l => l ++ o.log
  | .mergeRefBefore o, l => o.log ++ l
  | .withDims d, l => l.map (Call.mapVal fun _ => VCall.addDims d)
  | .globalDims d deny, l => l.map (Call.mapVal fun n c => if n ∈ deny then c else VCall.addDims d c)
  | .forceFlag f, l => l.map (Call.mapVal fun _ => VCall.forceFlag f)
  | .ref, l => l
  | .box, l => l
  | .arc, l => l
  | .cow, l => l
  | .optSome, l => l
  | .optNone, _ => []
  | .root, l => l
  | .streamMergeGlobals g, l => g.log ++ l        -- global fields FIRST
  | .streamGlobalDims d deny, l => l.map (Call.mapVal fun n c => if n ∈ deny then c else VCall.addDims d c)
  | .streamForceFlag f, l => l.map (Call.mapVal fun _ => VCall.forceFlag f)

def Wrapper.specSG : Wrapper → Dims → Dims
  | .mergeAfter o, g => g ++ o.sampleGroup
  | .mergeBefore o, g => o.sampleGroup ++ g
  | .mergeRefAfter o, g => g ++ o.sampleGroup
  | .mergeRefBefore o, g => o.sampleGroup ++ g
  | .streamMergeGlobals gl, g => gl.sampleGroup ++ g
  | .optNone, _ => []
  | _, g => g

def specLogAll (ws : List Wrapper) (l : Log) : Log := ws.foldl (fun l w => w.specLog l) l
def specSGAll (ws : List Wrapper) (g : Dims) : Dims := ws.foldl (fun g w => w.specSG g) g

/-! ### Value wrappers -/

inductive VWrapper where
  | ref | box | arc | cow | optSome | optNone
  | withDims (d : Dims)
  | forceFlag (f : Flags)
  | formatted (fmt : Fmt)
  | dyn
  deriving Repr

def VWrapper.apply : VWrapper → Val → Val
  | .ref, v => .ref v
  | .box, v => .box v
  | .arc, v => .arc v
  | .cow, v => .cow v
  | .optSome, v => .optSome v
  | .optNone, _ => .optNone
  | .withDims d, v => .withDims v d
  | .forceFlag f, v => .forceFlag v f
  | .formatted fmt, v => .formatted fmt v
  | .dyn, v => .dyn v

def applyAllV (ws : List VWrapper) (v : Val) : Val := ws.foldl (fun v w => w.apply v) v

/-- What a formatter makes of a plain value's call. -/
def Fmt.spec : Fmt → Option VCall → Option VCall
  | .id, c => c
  | .count, some (.metric m) => some (.metric ⟨[Obs.u m.obs.length], countUnit, [], none⟩)
  | .count, _ => some (.metric ⟨[Obs.u 0], countUnit, [], none⟩)

/-- The plain value under a stack of containers: `none` when some `Option` on the way is `None`
(or the shape is not containers-over-plain). -/
def Val.plain : Val → Option (Option VCall)
  | .leaf c => some c
  | .ref v => v.plain
  | .box v => v.plain
  | .arc v => v.plain
  | .cow v => v.plain
  | .optSome v => v.plain
  | _ => none

/-- Specification of a value: what call it makes, as a function of the plain value's call. -/
def Val.spec : Val → Option VCall
  | .leaf c => c
  | .ref v => v.spec
  | .box v => v.spec
  | .arc v => v.spec
  | .cow v => v.spec
  | .optSome v => v.spec
  | .optNone => none
  | .withDims v d => v.spec.map (VCall.addDims d)
  | .globalDims v d => v.spec.map (VCall.addDims d)
  | .forceFlag v f => v.spec.map (VCall.forceFlag f)
  | .dyn v => v.spec
  | .formatted fmt v => v.plain.bind (Fmt.spec fmt)

/-! ### Stream / format adapters as long-lived objects

`MergeGlobals`, `MergeGlobalDimensions` and the `ForceFlag` stream are values that live as long as the
sink: `next(&mut self, entry)` / `format(&mut self, entry, out)` is called once per entry on the SAME
instance.  Here the instance's fields are explicit state: every call returns the fields as they are
when the call returns, whatever the stream below answered. -/

/-- `Result<(), IoStreamError>` of the stream / format below -/
inductive IoRes where
  | ok
  | validation
  | io
  deriving Repr, DecidableEq

/-- The recording stream at the bottom: remembers what every entry it was given wrote, and answers
from a script (then `Ok`). -/
structure RecStream where
  seen : List (Log × Dims)
  script : List IoRes
  deriving Repr

def RecStream.next (r : RecStream) (e : Ent) : RecStream × IoRes :=
  ({ seen := r.seen ++ [(e.log, e.sampleGroup)], script := r.script.tail }, r.script.headD .ok)

/-- One adapter layer: its fields (`globals` / `global_dimensions`, `global_dimensions_denylist` / the
flag type). -/
inductive Adapter where
  | mergeGlobals (globals : Ent)
  | globalDims (dims : Dims) (deny : List Str)
  | forceFlag (f : Flags)
  deriving Repr

/-- `next` / `format` of one layer over the stream `below` (stream.rs:190-228, format.rs:271-299,
force.rs:176): returns the layer's fields after the call, what `below` returned as its new state, and
the result, which is passed up unchanged.  `MergeGlobalDimensions` CLONES its dimensions and deny list
into the per-entry `WithGlobalDimensions`; its own fields are untouched on every path. -/
def Adapter.call {β : Type} (a : Adapter) (e : Ent) (below : Ent → β × IoRes) : Adapter × β × IoRes :=
  match a with
  | .mergeGlobals g =>
    let (b, res) := below (.mergedRef g e)
    (.mergeGlobals g, b, res)
  | .globalDims d deny =>
    if d.isEmpty then
      let (b, res) := below (.ref (.ref e))
      (.globalDims d deny, b, res)
    else
      let (b, res) := below (.globalDims (.ref e) d deny)
      (.globalDims d deny, b, res)
  | .forceFlag f =>
    let (b, res) := below (.forceFlag (.ref e) f)
    (.forceFlag f, b, res)

/-- A stack of adapters (outermost first) over the recording stream: one `next` call. -/
def stackNext : List Adapter → RecStream → Ent → List Adapter × RecStream × IoRes
  | [], r, e =>
    let (r', res) := r.next e
    ([], r', res)
  | a :: rest, r, e =>
    let (a', (rest', r'), res) := a.call e (fun e' =>
      let (x, y, z) := stackNext rest r e'
      ((x, y), z))
    (a' :: rest', r', res)

/-- The same long-lived stack receives a sequence of entries. -/
def runSeq : List Adapter → RecStream → List Ent → List Adapter × RecStream × List IoRes
  | as, r, [] => (as, r, [])
  | as, r, e :: es =>
    let (as', r', res) := stackNext as r e
    let (as'', r'', rs) := runSeq as' r' es
    (as'', r'', res :: rs)

def Adapter.toWrapper : Adapter → Wrapper
  | .mergeGlobals g => .streamMergeGlobals g
  | .globalDims d deny => .streamGlobalDims d deny
  | .forceFlag f => .streamForceFlag f

/-- the first `n` answers of a script (`Ok` once it is exhausted) -/
def scriptResults : Nat → List IoRes → List IoRes
  | 0, _ => []
  | n + 1, s => s.headD .ok :: scriptResults n s.tail

end Wrappers
