/-
Model of the sampling path of metrique:

* `metrique-writer/src/sample/mod.rs`      `FixedFractionSample::format`
* `metrique-writer/src/sample/congress.rs` `CongressSample::{format, sample_rate, update_rates}`,
                                            `GroupState::update_and_retain`, `ExpMovingAverage`
* `metrique-writer-format-emf/src/emf.rs`  `rate_to_n_alpha`, `rate_to_n`,
                                            `SampledEmf::format_with_sample_rate`, `write_observation`

Floating point is modelled *exactly*: a non-negative finite float is a dyadic `m · 2^e` (`Dy`); every
IEEE operation is "exact result, then round to nearest even to `p` significant bits" (`rneP`), all
over `Nat`/`Int`.  Nothing here uses Lean's `Float`.  (Subnormal / overflowing results cannot arise
on the modelled paths; the binary32 twin poisons a value that leaves the normal range so that the
driver reports it instead of silently mis-rounding.)
-/
namespace Sampling

/-! ## Dyadics and round-to-nearest-even -/

/-- The non-negative dyadic `m · 2^e`. -/
structure Dy where
  m : Nat
  e : Int
  deriving DecidableEq, Repr

/-- `⌊N / D⌉` with ties to even (`D > 0`). -/
def divRne (N D : Nat) : Nat :=
  if 2 * (N % D) < D then N / D
  else if D < 2 * (N % D) then N / D + 1
  else if (N / D) % 2 = 0 then N / D else N / D + 1

/-- The shifts used by `rneP`: the quotient `num·2^up / (den·2^down)` has exactly `p` bits. -/
def rneUp (p num den : Nat) : Nat :=
  let up0 := p - 1 + Nat.log2 den
  if num * 2 ^ up0 / (den * 2 ^ Nat.log2 num) < 2 ^ (p - 1) then up0 + 1 else up0

/-- `num / den` (both positive) rounded to nearest-even to `p` significant bits, exponent unbounded.
The result is `M · 2^(down - up)` with `M = ⌊num·2^up / (den·2^down)⌉`. -/
def rneP (p num den : Nat) : Dy :=
  if num = 0 then ⟨0, 0⟩
  else ⟨divRne (num * 2 ^ rneUp p num den) (den * 2 ^ Nat.log2 num),
        (Nat.log2 num : Int) - (rneUp p num den : Int)⟩

/-- numerators of two dyadics over the common exponent `min a.e b.e` -/
def Dy.align (a b : Dy) : Nat × Nat × Int :=
  let c := min a.e b.e
  (a.m * 2 ^ (a.e - c).toNat, b.m * 2 ^ (b.e - c).toNat, c)

def Dy.le (a b : Dy) : Bool := (a.align b).1 ≤ (a.align b).2.1
def Dy.lt (a b : Dy) : Bool := (a.align b).1 < (a.align b).2.1
def Dy.beq (a b : Dy) : Bool := (a.align b).1 = (a.align b).2.1

/-- exact `a - b` (truncated at 0; callers establish `b ≤ a`) -/
def Dy.sub (a b : Dy) : Dy := ⟨(a.align b).1 - (a.align b).2.1, (a.align b).2.2⟩
/-- exact `a + b` -/
def Dy.add (a b : Dy) : Dy := ⟨(a.align b).1 + (a.align b).2.1, (a.align b).2.2⟩
/-- exact `a * b` -/
def Dy.mul (a b : Dy) : Dy := ⟨a.m * b.m, a.e + b.e⟩

/-- `⌊d⌋` -/
def Dy.floor (d : Dy) : Nat :=
  if 0 ≤ d.e then d.m * 2 ^ d.e.toNat else d.m / 2 ^ (-d.e).toNat

/-- `d` as a fraction `(num, den)` -/
def Dy.frac (d : Dy) : Nat × Nat :=
  if 0 ≤ d.e then (d.m * 2 ^ d.e.toNat, 1) else (d.m, 2 ^ (-d.e).toNat)

/-- `1 / d` as a fraction `(num, den)` -/
def Dy.recip (d : Dy) : Nat × Nat := (d.frac.2, d.frac.1)

/-- round an exact dyadic to `p` bits -/
def Dy.round (p : Nat) (d : Dy) : Dy := rneP p d.frac.1 d.frac.2

/-! ## IEEE encodings (non-negative, finite) -/

/-- binary32 bit pattern → dyadic; `none` for negative numbers, infinities and NaN. -/
def f32Decode (bits : Nat) : Option Dy :=
  let ex : Nat := (bits / 2 ^ 23) % 256
  let fr : Nat := bits % 2 ^ 23
  if 2 ^ 31 ≤ bits then none
  else if ex = 255 then none
  else if ex = 0 then some ⟨fr, -149⟩
  else some ⟨fr + 2 ^ 23, (ex : Int) - 150⟩

/-- Encode a dyadic that is exactly representable as a binary float with `fb` fraction bits and bias
`bias` (normal, subnormal or zero); `none` if it is not (needs more bits / overflows). -/
def encodeFloat (fb bias : Nat) (d : Dy) : Option Nat :=
  if d.m = 0 then some 0
  else
    let L := Nat.log2 d.m
    let E : Int := (L : Int) + d.e            -- unbiased exponent
    let be : Int := E + (bias : Int)
    if (2 * bias : Int) < be then none
    else if be < 1 then
      -- subnormal: a multiple of 2^(1 - bias - fb) below 2^(1 - bias)
      let s : Int := d.e - (1 - (bias : Int) - (fb : Int))
      if 0 ≤ s then some (d.m * 2 ^ s.toNat)
      else if d.m % 2 ^ (-s).toNat = 0 then some (d.m / 2 ^ (-s).toNat) else none
    else if L ≤ fb then some (be.toNat * 2 ^ fb + (d.m * 2 ^ (fb - L) - 2 ^ fb))
    else if d.m % 2 ^ (L - fb) = 0 then some (be.toNat * 2 ^ fb + (d.m / 2 ^ (L - fb) - 2 ^ fb))
    else none

def f64Encode : Dy → Option Nat := encodeFloat 52 1023
def f32Encode : Dy → Option Nat := encodeFloat 23 127

/-! ## Random draws (rand 0.9 `StandardUniform`) -/

/-- `rng.random::<f32>()`: the top 24 bits of a `u32`, times `2^-24`. -/
def drawF32 (word32 : Nat) : Dy := ⟨(word32 % 2 ^ 32) / 2 ^ 8, -24⟩
/-- `rng.random::<f64>()`: the top 53 bits of a `u64`, times `2^-53`. -/
def drawF64 (word64 : Nat) : Dy := ⟨(word64 % 2 ^ 64) / 2 ^ 11, -53⟩

/-! ## The default random number generator (`DefaultRng<R>`)

`DefaultRng<R>` is stateless: every `RngCore` method builds `R::default()` and forwards to the *same*
method of it (`ThreadRng::default()` is a handle on the thread's generator). The inner generator is a
script of 64-bit words (zeros after its end): `next_u64` = the next word, `next_u32` = the top 32 bits of
the next word, `fill_bytes` = the little-endian bytes of successive words (the harness's scripted `R`).
`narrow` is `false` in the code; `true` is the variant whose `next_u64` is `next_u32` zero-extended,
stated so that it can be refuted (`Props/C12.lean`, `c12_default_rng_narrow_breaks`). -/

structure Script where
  words : List Nat
  pos : Nat
  deriving Repr

def Script.next (s : Script) : Nat × Script := ((s.words.getD s.pos 0) % 2 ^ 64, { s with pos := s.pos + 1 })

inductive RngCall where
  | u32 | u64
  | fill (len : Nat)
  /-- `rng.random::<f32>()` -/
  | f32
  /-- `rng.random::<f64>()` -/
  | f64
  deriving Repr, DecidableEq

/-- little-endian bytes of a 64-bit word -/
def leBytes (w : Nat) : List Nat := (List.range 8).map fun i => (w / 2 ^ (8 * i)) % 256

def fillBytes : Nat → Nat → Script → List Nat × Script
  | 0, _, s => ([], s)
  | _ + 1, 0, s => ([], s)
  | fuel + 1, len + 1, s =>
    let (w, s') := s.next
    let take := min (len + 1) 8
    let (rest, s'') := fillBytes fuel (len + 1 - take) s'
    ((leBytes w).take take ++ rest, s'')

/-- what a call returns: the integer, the bytes, or the numerator of the draw -/
def innerCall (s : Script) : RngCall → List Nat × Script
  | .u32 => ([s.next.1 / 2 ^ 32], s.next.2)
  | .u64 => ([s.next.1], s.next.2)
  | .fill len => fillBytes (len + 1) len s
  | .f32 => ([(drawF32 (s.next.1 / 2 ^ 32)).m], s.next.2)
  | .f64 => ([(drawF64 s.next.1).m], s.next.2)

/-- `DefaultRng<R>`'s methods (`narrow = false`: the code) -/
def wrapperCall (narrow : Bool) (s : Script) : RngCall → List Nat × Script
  | .u64 => if narrow then innerCall s .u32 else innerCall s .u64
  | .f64 => if narrow then ([(drawF64 (s.next.1 / 2 ^ 32)).m], s.next.2) else innerCall s .f64
  | c => innerCall s c

def runCalls (f : Script → RngCall → List Nat × Script) (s : Script) : List RngCall → List (List Nat)
  | [] => []
  | c :: cs => (f s c).1 :: runCalls f (f s c).2 cs

/-! ## The sampling decision -/

def one : Dy := ⟨1, 0⟩

/-- `FixedFractionSample::format`: `rng.random::<f32>() <= self.rate`; on `true` the inner format is
called with `self.rate`. The result is `some rate'` = "inner format called with rate'", `none` = dropped. -/
def fixedDecision (draw rate : Dy) : Option Dy :=
  if draw.le rate then some rate else none

/-- `CongressSample::format`: `rate == 1.0 || rng.random::<f32>() <= rate`. -/
def congressDecision (draw rate : Dy) : Option Dy :=
  if rate.beq one || draw.le rate then some rate else none

/-! ## `rate_to_n_alpha`, `rate_to_n` -/

def u64Max : Nat := 2 ^ 64 - 1

/-- `1.0 / (rate as f64)`, correctly rounded binary64. -/
def invRate (rate : Dy) : Dy := rneP 53 rate.recip.1 rate.recip.2

/-- `x as f64` for an unsigned integer: exact below `2^53`, otherwise rounded to nearest even. -/
def natToF64 (x : Nat) : Dy := if x < 2 ^ 53 then ⟨x, 0⟩ else rneP 53 x 1

/-- `rate_to_n_alpha`: `n = inv as u64` (truncating, saturating), `alpha = (n+1) as f64 - inv`.
The subtraction is kept exact here; `c12_alpha_exact` shows the exact value needs at most 53 bits
whenever `1/rate < 2^53`, so the IEEE subtraction does not round (and `f64Encode` succeeds). -/
def rateToNAlpha (rate : Dy) : Nat × Dy :=
  let inv := invRate rate
  let n := min inv.floor u64Max
  (n, (natToF64 (n + 1)).sub inv)

/-- `1.0 / (i64::MAX as f32)` = `2^-63` -/
def satThreshold : Dy := ⟨1, -63⟩

/-- `rate_to_n(rate, rng)` with `draw = rng.random::<f64>()`. -/
def rateToN (rate draw : Dy) : Nat :=
  if rate.lt satThreshold then u64Max
  else
    let na := rateToNAlpha rate
    if draw.lt na.2 then na.1 else min (na.1 + 1) u64Max

/-! ## Counts of one EMF record (`write_observation`) -/

/-- What matters of an `Observation` for the `Counts` array. -/
inductive Obs where
  /-- `Unsigned(_)` or a `Floating(_)` that is not NaN -/
  | single
  /-- `Repeated { occurrences, .. }` whose mean is not NaN -/
  | repeated (occurrences : Nat)
  /-- skipped (NaN) -/
  | skipped
  deriving Repr, DecidableEq

def satMul (a b : Nat) : Nat := min (a * b) u64Max

/-- the `Counts` array of one metric under multiplicity `w` -/
def countsOf (w : Nat) (obs : List Obs) : List Nat :=
  obs.filterMap fun o => match o with
    | .single => some w
    | .repeated occ => some (satMul occ w)
    | .skipped => none

/-- `SampledEmf::format_with_sample_rate`: one weight for the whole record (all its metrics). -/
def recordCounts (rate draw : Dy) (metrics : List (List Obs)) : List (List Nat) :=
  metrics.map (countsOf (rateToN rate draw))

/-! ## Congressional sampler, generic over the arithmetic

The same expression tree is instantiated with exact rationals (theorems, `Props/C12.lean`) and with
correctly rounded binary32 (`f32Arith`, compared bit for bit with the implementation). -/

/-! ### Group identity

An entry yields its sample group as a list of `(key, value)` pairs in whatever order it likes
(`Entry::sample_group`: "the order of (key, value) pairs in the group doesn't matter, but each key must
be unique"). `CongressSample::format` sorts the pairs (`group.sort_unstable()`) before anything else:
the group's identity is the *sorted* pair list. Keys and values are numbered (`Nat`). -/

abbrev Pair := Nat × Nat
/-- a group key: a list of pairs; canonical when sorted (`canon`) -/
abbrev Key := List Pair

/-- lexicographic order on pairs (the order of Rust tuples) -/
def pairLe (a b : Pair) : Bool := a.1 < b.1 || (a.1 == b.1 && a.2 ≤ b.2)

def insertPair (a : Pair) : Key → Key
  | [] => [a]
  | b :: l => if pairLe a b then a :: b :: l else b :: insertPair a l

/-- `group.sort_unstable()` (insertion sort: the result of sorting does not depend on the algorithm) -/
def canon (l : Key) : Key := l.foldr insertPair []

/-- the `validate_groups` check on a sorted group: two neighbours with the same key name -/
def hasDupKey : Key → Bool
  | a :: b :: l => a.1 == b.1 || hasDupKey (b :: l)
  | _ => false

/-- lexicographic order on keys (only used to print groups in a canonical order) -/
def keyLt : Key → Key → Bool
  | [], [] => false
  | [], _ :: _ => true
  | _ :: _, [] => false
  | a :: l, b :: m => if a = b then keyLt l m else pairLe a b

structure Arith (α : Type) where
  ofNat : Nat → α
  add : α → α → α
  sub : α → α → α
  mul : α → α → α
  div : α → α → α
  lt : α → α → Bool
  le : α → α → Bool

/-- generated from `EXP_MOVING_AVERAGE_WINDOW` / `NO_OBSERVATIONS_TTL` (see `Generated/Sampling.lean`;
the driver and the theorems pass the generated values) -/
structure Consts where
  window : Nat
  ttl : Nat

structure Group (α : Type) where
  /-- the group's identity: the sorted pair list -/
  gid : Key
  /-- `GroupState::current_observed` -/
  cur : Nat
  /-- `consecutive_no_observations` -/
  noObs : Nat
  /-- `ExpMovingAverage::samples` -/
  samples : Nat
  /-- `ExpMovingAverage::value` -/
  avg : α
  /-- `sample_rate` -/
  rate : α
  /-- `size_in_congress` -/
  size : α

structure State (α : Type) where
  target : Nat
  /-- `CongressSample::current_observed` -/
  cur : Nat
  groups : List (Group α)

variable {α : Type}

def Arith.min (A : Arith α) (a b : α) : α := if A.lt b a then b else a

def State.init (target : Nat) : State α := ⟨target, 0, []⟩

/-- `sample_rate(group)` without the clock: counts the observation, creates the group with rate 1,
returns the group's rate. -/
def observeGroups (A : Arith α) (gid : Key) : List (Group α) → List (Group α) × α
  | [] => ([⟨gid, 1, 0, 0, A.ofNat 0, A.ofNat 1, A.ofNat 0⟩], A.ofNat 1)
  | g :: gs =>
    if g.gid = gid then ({ g with cur := g.cur + 1 } :: gs, g.rate)
    else ((g :: (observeGroups A gid gs).1), (observeGroups A gid gs).2)

def observe (A : Arith α) (s : State α) (gid : Key) : State α × α :=
  ({ s with cur := s.cur + 1, groups := (observeGroups A gid s.groups).1 }, (observeGroups A gid s.groups).2)

/-- `ExpMovingAverage::add_sample` -/
def addSample (A : Arith α) (C : Consts) (g : Group α) (sample : Nat) : Group α :=
  let samples := min C.window (g.samples + 1)
  let decay := A.div (A.ofNat 1) (A.ofNat samples)
  { g with samples := samples,
           avg := A.add (A.mul decay (A.ofNat sample)) (A.mul (A.sub (A.ofNat 1) decay) g.avg) }

/-- `GroupState::update_and_retain` (`none` = dropped) -/
def updateAndRetain (A : Arith α) (C : Consts) (g : Group α) : Option (Group α) :=
  if 0 < g.cur then some { addSample A C g g.cur with cur := 0, noObs := 0 }
  else if C.ttl ≤ g.noObs then none
  else some { g with noObs := g.noObs + 1 }

/-- `size_in_congress` of one group -/
def congressSize (A : Arith α) (flat senate avg : α) : α :=
  let house := A.mul flat avg
  if A.lt house senate then A.min avg senate else house

/-- the final rate of one group in the above-target branch -/
def scaledRate (A : Arith α) (scale : α) (g : Group α) : α :=
  if A.le g.avg (A.ofNat 0) then A.ofNat 1
  else A.min (A.div (A.mul g.size scale) g.avg) (A.ofNat 1)

/-- Put the groups into the order in which the implementation's hash map iterates (`order` lists
group ids; repeated ids and ids not present are ignored, groups not listed keep their relative order at the end).
Only the floating-point *sum* `congress_size` depends on it. -/
def reorder (order : List Key) (gs : List (Group α)) : List (Group α) :=
  (order.eraseDups.filterMap fun id => gs.find? (·.gid = id)) ++ gs.filter (fun g => !order.contains g.gid)

/-- `update_rates` -/
def updateRates (A : Arith α) (C : Consts) (order : List Key) (s : State α) : State α :=
  let retained := reorder order (s.groups.filterMap (updateAndRetain A C))
  let cur := A.ofNat s.cur
  let target := A.ofNat s.target
  let flat := A.div target cur
  let senate := A.div target (A.ofNat retained.length)
  let sized := retained.map fun g => { g with size := congressSize A flat senate g.avg }
  let congress := sized.foldl (fun acc g => A.add acc g.size) (A.ofNat 0)
  if A.le cur target then
    { s with cur := 0, groups := sized.map fun g => { g with rate := A.ofNat 1 } }
  else
    let scale := A.div target congress
    { s with cur := 0, groups := sized.map fun g => { g with rate := scaledRate A scale g } }

/-- One step of a history. -/
inductive Op where
  /-- one entry of group `gid` is formatted -/
  | obs (gid : Key)
  /-- `n` entries of group `gid` (same as `n` times `obs gid`, see `c12_obsN`) -/
  | obsN (gid : Key) (n : Nat)
  /-- the interval ends; `order` = iteration order of the hash map -/
  | endInterval (order : List Key)
  deriving Repr

def observeN (A : Arith α) (s : State α) (gid : Key) : Nat → State α
  | 0 => s
  | n + 1 => observeN A (observe A s gid).1 gid n

/-- add `k` to the count of the first group with id `gid` -/
def bumpFirst (gid : Key) (k : Nat) : List (Group α) → List (Group α)
  | [] => []
  | g :: gs => if g.gid = gid then { g with cur := g.cur + k } :: gs else g :: bumpFirst gid k gs

/-- closed form of `observeN` (used by the driver for large volumes; `c12_obsN_bulk`) -/
def observeBulk (A : Arith α) (s : State α) (gid : Key) (n : Nat) : State α :=
  if n = 0 then s
  else { s with cur := s.cur + n, groups := bumpFirst gid (n - 1) (observeGroups A gid s.groups).1 }

def step (A : Arith α) (C : Consts) (s : State α) : Op → State α
  | .obs gid => (observe A s gid).1
  | .obsN gid n => observeN A s gid n
  | .endInterval order => updateRates A C order s

def run (A : Arith α) (C : Consts) (s : State α) (ops : List Op) : State α :=
  ops.foldl (step A C) s

/-! ### Entries: from the pairs an entry yields to the group key

`κ` is the canonicalisation applied to the yielded pairs: `canon` in the code (`group.sort_unstable()`
runs unconditionally). The parameter exists so that the broken variant (no sort: `κ = id`) can be
stated and refuted (`Props/C12.lean`, `c12_sort_needed`). -/

/-- what the sampler is fed -/
inductive EOp where
  /-- one entry whose `sample_group()` yields these pairs, in this order -/
  | entry (pairs : Key)
  /-- `n` such entries -/
  | entries (pairs : Key) (n : Nat)
  | endInterval (order : List Key)
  deriving Repr

/-- `CongressSample::format` up to the call of `sample_rate`: `none` = the duplicate-key assertion
fires (`validate_groups`), the sampler's state is untouched. -/
def entryKey (κ : Key → Key) (validate : Bool) (pairs : Key) : Option Key :=
  if validate && hasDupKey (κ pairs) then none else some (κ pairs)

def toOp (κ : Key → Key) (validate : Bool) : EOp → Option Op
  | .entry p => (entryKey κ validate p).map .obs
  | .entries p n => (entryKey κ validate p).map (.obsN · n)
  | .endInterval order => some (.endInterval order)

/-- a history of entries is a history of group observations -/
def runE (A : Arith α) (C : Consts) (κ : Key → Key) (validate : Bool) (s : State α) (eops : List EOp) : State α :=
  run A C s (eops.filterMap (toOp κ validate))

/-- the rate handed to the next entry yielding `pairs` (`none` = panic) -/
def entryRate (A : Arith α) (κ : Key → Key) (validate : Bool) (s : State α) (pairs : Key) : Option α :=
  (entryKey κ validate pairs).map fun k => (observe A s k).2

/-! ### The clock

`CongressSample::sample_rate` reads `Instant::now()` on every call; when `now > next_interval_start` it
sets `next_interval_start = now + interval` and calls `update_rates` — once, however many intervals
have elapsed — *before* counting the entry. Times are natural numbers (nanoseconds since any epoch).
`stride` is 1 in the code: the clock is read unconditionally. The parameter exists so that the variant
that looks at the clock only every `stride`-th observation can be stated and refuted
(`Props/C12.lean`, `c12_clock_stride_breaks`). -/

structure Clocked (α : Type) where
  st : State α
  /-- `next_interval_start` -/
  next : Nat
  /-- `interval` -/
  interval : Nat

/-- does this call roll the interval over? -/
def rollsOver (stride : Nat) (c : Clocked α) (now : Nat) : Bool :=
  c.st.cur % stride == 0 && decide (c.next < now)

/-- `sample_rate(group)` at time `now`; `order` = hash-map iteration order, used if the call rolls over -/
def sampleRateAt (A : Arith α) (C : Consts) (stride : Nat) (order : List Key) (c : Clocked α) (now : Nat)
    (key : Key) : Clocked α × α :=
  let c' := if rollsOver stride c now then
      { c with next := now + c.interval, st := updateRates A C order c.st } else c
  ({ c' with st := (observe A c'.st key).1 }, (observe A c'.st key).2)

/-- a timed history: `(now, key, order)` per entry -/
def runClocked (A : Arith α) (C : Consts) (stride : Nat) (c : Clocked α) :
    List (Nat × Key × List Key) → Clocked α × List α
  | [] => (c, [])
  | (now, key, order) :: rest =>
    let r := sampleRateAt A C stride order c now key
    let rr := runClocked A C stride r.1 rest
    (rr.1, r.2 :: rr.2)

/-! ### binary32 instance -/

/-- a binary32 value: a dyadic exactly representable as a normal binary32 (or zero), or `bad` when
some operation left that range (never on the modelled paths; reported by the driver) -/
inductive F32 where
  | fin (d : Dy)
  | bad
  deriving Repr

def F32.chk (d : Dy) : F32 := if (f32Encode d).isSome then .fin d else .bad

def F32.lift2 (f : Dy → Dy → Dy) : F32 → F32 → F32
  | .fin a, .fin b => F32.chk (f a b)
  | _, _ => .bad

def f32Div (a b : Dy) : Dy :=
  -- (a.m / b.m) · 2^(a.e - b.e); division by zero poisons (the implementation would produce inf/NaN)
  if b.m = 0 then ⟨1, 1000⟩ else
  let q := rneP 24 a.m b.m
  ⟨q.m, q.e + a.e - b.e⟩

def f32Arith : Arith F32 where
  ofNat n := F32.chk (rneP 24 n 1)
  add := F32.lift2 fun a b => (a.add b).round 24
  sub := F32.lift2 fun a b => (a.sub b).round 24
  mul := F32.lift2 fun a b => (a.mul b).round 24
  div := F32.lift2 f32Div
  lt a b := match a, b with | .fin a, .fin b => a.lt b | _, _ => false
  le a b := match a, b with | .fin a, .fin b => a.le b | _, _ => false

end Sampling
