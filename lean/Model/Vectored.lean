/-
Model of `metrique-writer-format-emf/src/buf.rs`: `advance_slices` and `write_all_vectored`.

Bytes are `Nat`s (only their identity matters). The underlying `io::Write` is a *script*: the list
of responses it gives to successive `write_vectored` calls. `ok n` means "accepted the first `n`
bytes of what was offered" (a writer cannot accept more than it was offered; the real code would hit
`assert_eq!(remaining, 0)` in that case, modelled as `Outcome.panic`).
-/
namespace Vectored

abbrev Bytes := List Nat

inductive Resp where
  | ok (n : Nat)
  | interrupted
  | err
  deriving Repr, DecidableEq

inductive Outcome where
  | ok            -- `Ok(())`
  | writeZero     -- `Err(ErrorKind::WriteZero)`
  | ioErr         -- the writer's own hard error
  | panic         -- `assert_eq!(remaining, 0)` failed (writer claimed more than it was offered)
  | exhausted     -- the script ran out (not a behaviour of the code; the script was too short)
  deriving Repr, DecidableEq

/-- `advance_slices(&mut slices, count)`. Returns `none` when the final `assert_eq!` fails. -/
def advance : List Bytes → Nat → Option (List Bytes)
  | [], 0 => some []
  | [], _ + 1 => none
  | first :: rest, remaining =>
    if first.length ≤ remaining then advance rest (remaining - first.length)
    else some (first.drop remaining :: rest)

structure Result where
  outcome : Outcome
  /-- every byte the writer accepted, in order -/
  accepted : Bytes
  /-- number of `write_vectored` calls made -/
  calls : Nat
  /-- the slice lists offered at each call (for the "never offers an empty first slice" property) -/
  offered : List (List Bytes)
  deriving Repr

/-- The `while !slices.is_empty()` loop; `slices` has already been normalised by `advance _ 0`.
Each iteration consumes one response of the script. -/
def loop : List Resp → List Bytes → Bytes → Nat → List (List Bytes) → Result
  | _, [], acc, calls, offered => ⟨.ok, acc, calls, offered⟩
  | [], _ :: _, acc, calls, offered => ⟨.exhausted, acc, calls, offered⟩
  | .ok 0 :: _, s :: ss, acc, calls, offered => ⟨.writeZero, acc, calls + 1, offered ++ [s :: ss]⟩
  | .ok (n + 1) :: script', s :: ss, acc, calls, offered =>
    match advance (s :: ss) (n + 1) with
    | none => ⟨.panic, acc ++ (s :: ss).flatten, calls + 1, offered ++ [s :: ss]⟩
    | some slices' =>
      loop script' slices' (acc ++ ((s :: ss).flatten.take (n + 1))) (calls + 1) (offered ++ [s :: ss])
  | .interrupted :: script', s :: ss, acc, calls, offered =>
    loop script' (s :: ss) acc (calls + 1) (offered ++ [s :: ss])
  | .err :: _, s :: ss, acc, calls, offered => ⟨.ioErr, acc, calls + 1, offered ++ [s :: ss]⟩

def writeAllVectored (bufs : List Bytes) (script : List Resp) : Result :=
  match advance bufs 0 with
  | none => ⟨.panic, [], 0, []⟩   -- unreachable (advance _ 0 never fails); kept total
  | some slices => loop script slices [] 0 []

end Vectored
