/-
Model of `metrique-writer-format-emf/src/buf.rs`: `advance_slices` and `write_all_vectored`.

Bytes are `Nat`s (only their identity matters). The underlying `io::Write` is a *script*: the list
of responses it gives to successive `write_vectored` calls. `ok n` means "accepted the first `n`
bytes of what was offered" (a writer cannot accept more than it was offered; the real code would hit
`assert_eq!(remaining, 0)` in that case, modelled as `Outcome.panic`).
-/
namespace Vectored

abbrev Bytes := List Nat

inductive Resp where
  | ok (n : Nat)
  | interrupted
  | err
  deriving Repr, DecidableEq

inductive Outcome where
  | ok            -- `Ok(())`
  | writeZero     -- `Err(ErrorKind::WriteZero)`
  | ioErr         -- the writer's own hard error
  | panic         -- `assert_eq!(remaining, 0)` failed (writer claimed more than it was offered)
  | exhausted     -- the script ran out (not a behaviour of the code; the script was too short)
  deriving Repr, DecidableEq

/-- `advance_slices(&mut slices, count)`. Returns `none` when the final `assert_eq!` fails. -/
def advance : List Bytes → Nat → Option (List Bytes)
  | [], 0 => some []
  | [], _ + 1 => none
  | first :: rest, remaining =>
    if first.length ≤ remaining then advance rest (remaining - first.length)
    else some (first.drop remaining :: rest)

structure Result where
  outcome : Outcome
  /-- every byte the writer accepted, in order -/
  accepted : Bytes
  /-- number of `write_vectored` calls made -/
  calls : Nat
  /-- the slice lists offered at each call (for the "never offers an empty first slice" property) -/
  offered : List (List Bytes)
  deriving Repr

/-- The `while !slices.is_empty()` loop; `slices` has already been normalised by `advance _ 0`.
Each iteration consumes one response of the script. -/
def loop : List Resp → List Bytes → Bytes → Nat → List (List Bytes) → Result
  | _, [], acc, calls, offered => ⟨.ok, acc, calls, offered⟩
  | [], _ :: _, acc, calls, offered => ⟨.exhausted, acc, calls, offered⟩
  | .ok 0 :: _, s :: ss, acc, calls, offered => ⟨.writeZero, acc, calls + 1, offered ++ [s :: ss]⟩
  | .ok (n + 1) :: script', s :: ss, acc, calls, offered =>
    match advance (s :: ss) (n + 1) with
    | none => ⟨.panic, acc ++ (s :: ss).flatten, calls + 1, offered ++ [s :: ss]⟩
    | some slices' =>
      loop script' slices' (acc ++ ((s :: ss).flatten.take (n + 1))) (calls + 1) (offered ++ [s :: ss])
  | .interrupted :: script', s :: ss, acc, calls, offered =>
    loop script' (s :: ss) acc (calls + 1) (offered ++ [s :: ss])
  | .err :: _, s :: ss, acc, calls, offered => ⟨.ioErr, acc, calls + 1, offered ++ [s :: ss]⟩

def writeAllVectored (bufs : List Bytes) (script : List Resp) : Result :=
  match advance bufs 0 with
  | none => ⟨.panic, [], 0, []⟩   -- unreachable (advance _ 0 never fails); kept total
  | some slices => loop script slices [] 0 []


/-! ## Entry level and stream level

`EntryWriter::finish` (emf.rs) emits the lines of one entry one after the other, each with its own
`write_all_vectored(buf, output)?` — the first error ends the entry (`?`), the remaining lines are
not attempted. A formatter-backed stream (`FormattedEntryIoStream::next`) does this entry after
entry on the same `io::Write`, whatever the result of the previous entry was. The writer's script
is consumed call by call: what is left for the next line / entry is `script.drop calls`. -/

structure EntryResult where
  outcome : Outcome
  /-- every byte the writer accepted for this entry, in order -/
  accepted : Bytes
  /-- `write_vectored` calls made for this entry -/
  calls : Nat
  /-- slice lists offered at each of those calls -/
  offered : List (List Bytes)
  /-- number of lines written completely -/
  linesDone : Nat
  deriving Repr

/-- one entry = its lines in emission order; a line = the slices handed to `write_all_vectored` -/
abbrev Entry := List (List Bytes)

def writeLines : Entry → List Resp → EntryResult
  | [], _ => ⟨.ok, [], 0, [], 0⟩
  | l :: ls, script =>
    let r := writeAllVectored l script
    match r.outcome with
    | .ok =>
      let rest := writeLines ls (script.drop r.calls)
      ⟨rest.outcome, r.accepted ++ rest.accepted, r.calls + rest.calls, r.offered ++ rest.offered, rest.linesDone + 1⟩
    | o => ⟨o, r.accepted, r.calls, r.offered, 0⟩

def Entry.bytes (e : Entry) : Bytes := (e.map List.flatten).flatten

/-- a stream of entries over one writer; every entry is attempted, whatever happened before -/
def writeEntries : List Entry → List Resp → List EntryResult
  | [], _ => []
  | e :: es, script =>
    let r := writeLines e script
    r :: writeEntries es (script.drop r.calls)

/-- everything the writer received, in order -/
def streamBytes (rs : List EntryResult) : Bytes := (rs.map (·.accepted)).flatten

end Vectored
