import Props.QueueLemmas
/-!
# C09 — a full queue never blocks: it drops the oldest entry, keeps order, counts losses

Theorems about the transition system `Queue.step` (model of `sink/background.rs`), for every
capacity, every event sequence (any number of producers, any interleaving with the writer's
micro-steps, including a writer that never moves) — `Reachable` quantifies over all of them.
-/
namespace Queue

/-- entries not (yet) displaced, in push order -/
def survivors (pushOrder displ : List Ent) : List Ent :=
  pushOrder.filter fun e => decide (e ∉ displ)

/-- The conservation invariant on the core of a state. -/
structure Conserve (k : Core) : Prop where
  idx : k.pushOrder.map Prod.snd = List.range k.pushOrder.length
  cons : k.deliv ++ k.hold ++ k.ring = survivors k.pushOrder k.displ
  suffix : k.ring <:+ k.pushOrder
  count : k.overflow = k.displ.length
  newer : ∀ d ∈ k.displ, ∃ pre nw, k.pushOrder = pre ++ d :: nw ∧ k.cap ≤ nw.length
  bound : k.ring.length ≤ max k.cap 1

theorem pushOrder_nodup {k : Core} (h : Conserve k) : k.pushOrder.Nodup := by
  have : (k.pushOrder.map Prod.snd).Nodup := by rw [h.idx]; exact List.nodup_range
  exact List.Pairwise.of_map Prod.snd (fun a b hab heq => hab (heq ▸ rfl)) this

theorem fresh_not_mem {k : Core} (h : Conserve k) (p : Nat) : (p, k.pushOrder.length) ∉ k.pushOrder := by
  intro hm
  have : (p, k.pushOrder.length).2 ∈ k.pushOrder.map Prod.snd := List.mem_map_of_mem hm
  rw [h.idx] at this
  simp at this

theorem survivors_nodup {k : Core} (h : Conserve k) : (survivors k.pushOrder k.displ).Nodup :=
  (pushOrder_nodup h).sublist List.filter_sublist

theorem filter_ne_of_nodup (a t : List Ent) (d : Ent) (h : (a ++ d :: t).Nodup) :
    (a ++ d :: t).filter (fun e => decide (e ≠ d)) = a ++ t := by
  rw [List.nodup_append] at h
  obtain ⟨_, hdt, hdisj⟩ := h
  rw [List.nodup_cons] at hdt
  rw [List.filter_append, List.filter_cons]
  have h1 : a.filter (fun e => decide (e ≠ d)) = a := by
    apply List.filter_eq_self.mpr
    intro x hx
    have := hdisj x hx d (List.mem_cons_self)
    simpa using this
  have h2 : t.filter (fun e => decide (e ≠ d)) = t := by
    apply List.filter_eq_self.mpr
    intro x hx
    have : x ≠ d := fun hxd => hdt.1 (hxd ▸ hx)
    simpa using this
  rw [h1, h2]; simp

theorem survivors_snoc_displ (po displ : List Ent) (d : Ent) :
    survivors po (displ ++ [d]) = (survivors po displ).filter (fun e => decide (e ≠ d)) := by
  unfold survivors
  rw [List.filter_filter]
  congr 1
  funext e
  simp [List.mem_append, not_or, Bool.and_comm]

theorem survivors_snoc_fresh (po displ : List Ent) (e : Ent) (h : e ∉ displ) :
    survivors (po ++ [e]) displ = survivors po displ ++ [e] := by
  simp [survivors, List.filter_append, h]

theorem conserve_init (cap res ns) : Conserve (core (init cap res ns)) := by
  refine ⟨rfl, rfl, ?_, rfl, ?_, ?_⟩
  · simp [core, init]
  · intro d hd; simp [core, init] at hd
  · simp [core, init]

theorem displ_subset {k : Core} (h : Conserve k) {d : Ent} (hd : d ∈ k.displ) : d ∈ k.pushOrder := by
  obtain ⟨pre, nw, hp, _⟩ := h.newer d hd
  rw [hp]; simp

theorem conserve_push {s s' : QState} {p : Nat} (hc : Conserve (core s)) (h : step s (.push p) = some s') :
    Conserve (core s') := by
  obtain ⟨hpc, hpo, hwpc, hcap, _⟩ := push_core h
  have hfresh := fresh_not_mem hc p
  have hfresh_d : (p, s.pushOrder.length) ∉ displaced s.log := fun hm => hfresh (displ_subset hc hm)
  have hidx : s'.pushOrder.map Prod.snd = List.range s'.pushOrder.length := by
    rw [hpo]
    have := hc.idx
    simp only [core] at this
    simp [List.map_append, this, List.range_succ]
  cases hpc with
  | room hlt hring hlog hov =>
    refine ⟨hidx, ?_, ?_, ?_, ?_, ?_⟩
    · have := hc.cons
      simp only [core] at this ⊢
      rw [hwpc, hlog, hring, hpo, survivors_snoc_fresh _ _ _ hfresh_d, ← this]
      simp [List.append_assoc]
    · simp only [core]; rw [hring, hpo]
      have := hc.suffix; simp only [core] at this
      obtain ⟨pre, hpre⟩ := this
      exact ⟨pre, by rw [← hpre, List.append_assoc]⟩
    · simp only [core]; rw [hov, hlog]; exact hc.count
    · intro d hd
      simp only [core] at hd ⊢
      rw [hlog] at hd
      obtain ⟨pre, nw, hp, hn⟩ := hc.newer d hd
      simp only [core] at hp hn
      exact ⟨pre, nw ++ [(p, s.pushOrder.length)], by rw [hpo, hp]; simp, by rw [hcap]; simp; omega⟩
    · simp only [core]; rw [hring, hcap]; simp; omega
  | zero hnil hring hlog hov =>
    refine ⟨hidx, ?_, ?_, ?_, ?_, ?_⟩
    · have := hc.cons
      simp only [core] at this ⊢
      rw [hwpc, hlog, hring, hpo, survivors_snoc_fresh _ _ _ hfresh_d, ← this, hnil]
      simp
    · simp only [core]; rw [hring, hpo]; exact ⟨s.pushOrder, rfl⟩
    · simp only [core]; rw [hov, hlog]; exact hc.count
    · intro d hd
      simp only [core] at hd ⊢
      rw [hlog] at hd
      obtain ⟨pre, nw, hp, hn⟩ := hc.newer d hd
      simp only [core] at hp hn
      exact ⟨pre, nw ++ [(p, s.pushOrder.length)], by rw [hpo, hp]; simp, by rw [hcap]; simp; omega⟩
    · simp only [core]; rw [hring]; simp; omega
  | displace d t hge hr hring hlog hov =>
    have hcons := hc.cons
    simp only [core] at hcons
    have hnd := survivors_nodup hc
    simp only [core] at hnd
    rw [← hcons, hr] at hnd
    have hne : (p, s.pushOrder.length) ≠ d := by
      intro heq
      have : d ∈ s.pushOrder := by
        have := hc.suffix; simp only [core] at this
        exact this.subset (by rw [hr]; simp)
      exact hfresh (heq ▸ this)
    refine ⟨hidx, ?_, ?_, ?_, ?_, ?_⟩
    · simp only [core]
      rw [hwpc, hlog, hring, hpo, displaced_append]
      have hd1 : displaced [Obs.displaced d] = [d] := rfl
      rw [hd1, survivors_snoc_displ, survivors_snoc_fresh _ _ _ hfresh_d, ← hcons, hr, List.filter_append]
      have := filter_ne_of_nodup (delivered s.log ++ holding s.wpc) t d (by simpa [List.append_assoc] using hnd)
      rw [this]
      have hd2 : delivered [Obs.displaced d] = [] := rfl
      simp [hne, hd2, List.append_assoc]
    · simp only [core]; rw [hring, hpo]
      have := hc.suffix; simp only [core] at this
      obtain ⟨pre, hpre⟩ := this
      rw [hr] at hpre
      exact ⟨pre ++ [d], by rw [← hpre]; simp⟩
    · simp only [core]; rw [hov, hlog, displaced_append]
      have := hc.count; simp only [core] at this
      simp [this, displaced]
    · intro d0 hd0
      simp only [core] at hd0 ⊢
      rw [hlog, displaced_append] at hd0
      have hsuf := hc.suffix; simp only [core] at hsuf
      obtain ⟨pre, hpre⟩ := hsuf
      rcases List.mem_append.mp hd0 with h0 | h0
      · obtain ⟨pre0, nw, hp, hn⟩ := hc.newer d0 h0
        simp only [core] at hp hn
        exact ⟨pre0, nw ++ [(p, s.pushOrder.length)], by rw [hpo, hp]; simp, by rw [hcap]; simp; omega⟩
      · have : d0 = d := by simpa [displaced] using h0
        subst this
        refine ⟨pre, t ++ [(p, s.pushOrder.length)], ?_, ?_⟩
        · rw [hpo, ← hpre, hr]; simp
        · rw [hcap]; rw [hr] at hge; simp at hge ⊢; omega
    · simp only [core]; rw [hring, hcap]
      have := hc.bound; simp only [core] at this
      rw [hr] at this; simp at this ⊢; omega

theorem conserve_wstep {s s' : QState} {c : Clock} (hc : Conserve (core s)) (h : wstep s c = some s') :
    Conserve (core s') := by
  cases wstep_core h with
  | same heq => rw [heq]; exact hc
  | pop e t hr hh hr' hh' hcap hlog hpo hov =>
    have hcons := hc.cons
    refine ⟨?_, ?_, ?_, ?_, ?_, ?_⟩
    · have := hc.idx; simp only [core] at this ⊢; rw [hpo]; exact this
    · simp only [core] at hcons ⊢
      rw [hlog, hh', hr', hpo, ← hcons, hh, hr]; simp
    · have := hc.suffix; simp only [core] at this ⊢
      rw [hr', hpo]; rw [hr] at this
      exact (List.suffix_cons e t).trans this
    · have := hc.count; simp only [core] at this ⊢; rw [hov, hlog]; exact this
    · intro d hd
      simp only [core] at hd ⊢
      rw [hlog] at hd
      obtain ⟨pre, nw, hp, hn⟩ := hc.newer d hd
      simp only [core] at hp hn
      exact ⟨pre, nw, by rw [hpo, hp], by rw [hcap]; exact hn⟩
    · have := hc.bound; simp only [core] at this ⊢
      rw [hr', hcap]; rw [hr] at this; simp at this; omega
  | consume e hh hh' hr hdel hdis hcap hpo hov =>
    have hcons := hc.cons
    refine ⟨?_, ?_, ?_, ?_, ?_, ?_⟩
    · have := hc.idx; simp only [core] at this ⊢; rw [hpo]; exact this
    · simp only [core] at hcons ⊢
      rw [hdel, hh', hr, hpo, hdis, ← hcons, hh]; simp
    · have := hc.suffix; simp only [core] at this ⊢; rw [hr, hpo]; exact this
    · have := hc.count; simp only [core] at this ⊢; rw [hov, hdis]; exact this
    · intro d hd
      simp only [core] at hd ⊢
      rw [hdis] at hd
      obtain ⟨pre, nw, hp, hn⟩ := hc.newer d hd
      simp only [core] at hp hn
      exact ⟨pre, nw, by rw [hpo, hp], by rw [hcap]; exact hn⟩
    · have := hc.bound; simp only [core] at this ⊢; rw [hr, hcap]; exact this

theorem conserve_step {s s' : QState} {ev : Ev} (hc : Conserve (core s)) (h : step s ev = some s') :
    Conserve (core s') := by
  cases ev with
  | push p => exact conserve_push hc h
  | w c => exact conserve_wstep hc h
  | unpark p => rw [other_core h (by intro p; simp) (by intro c; simp)]; exact hc
  | flushSend => rw [other_core h (by intro p; simp) (by intro c; simp)]; exact hc
  | flushUnpark i => rw [other_core h (by intro p; simp) (by intro c; simp)]; exact hc
  | clone => rw [other_core h (by intro p; simp) (by intro c; simp)]; exact hc
  | dropHandle => rw [other_core h (by intro p; simp) (by intro c; simp)]; exact hc
  | forget => rw [other_core h (by intro p; simp) (by intro c; simp)]; exact hc
  | setSubscriber b => rw [other_core h (by intro p; simp) (by intro c; simp)]; exact hc
  | dropJoinBegin => rw [other_core h (by intro p; simp) (by intro c; simp)]; exact hc
  | dropJoinUnpark => rw [other_core h (by intro p; simp) (by intro c; simp)]; exact hc
  | dropJoinEnd => rw [other_core h (by intro p; simp) (by intro c; simp)]; exact hc

theorem conserve_reachable {s : QState} (hr : Reachable s) : Conserve (core s) :=
  Reachable.inv (P := fun s => Conserve (core s)) conserve_init (fun _ _ _ _ hc h => conserve_step hc h) hr

/-! ## Property theorems -/

/-- `append` never blocks or fails: with a live handle, `push` is enabled in every state —
whatever the writer is doing (stalled inside `next`, parked, mid-drain, exited) and however full
the ring is. -/
theorem c09_push_always_enabled (s : QState) (p : Nat) (hh : 0 < s.handles) :
    ∃ s', step s (.push p) = some s' := by
  simp only [step]
  have : ¬ s.handles = 0 := by omega
  simp only [this, if_false]
  split <;> exact ⟨_, rfl⟩

/-- A push on a full ring discards exactly the oldest queued entry and appends the new one at the
tail; it is recorded as displaced and counted once. -/
theorem c09_drops_oldest {s s' : QState} {p : Nat} (hcap : 0 < s.cap) (hfull : s.ring.length = s.cap)
    (h : step s (.push p) = some s') :
    ∃ d t, s.ring = d :: t ∧ s'.ring = t ++ [(p, s.pushOrder.length)] ∧
      s'.log = s.log ++ [.displaced d] ∧ s'.overflow = s.overflow + 1 := by
  obtain ⟨hpc, _⟩ := push_core h
  cases hpc with
  | room hlt _ _ _ => omega
  | zero hnil _ _ _ => rw [hnil] at hfull; simp at hfull; omega
  | displace d t _ hr hring hlog hov => exact ⟨d, t, hr, hring, hlog, hov⟩

/-- A push on a ring that is not full displaces nothing. -/
theorem c09_no_loss_when_room {s s' : QState} {p : Nat} (hroom : s.ring.length < s.cap)
    (h : step s (.push p) = some s') :
    s'.ring = s.ring ++ [(p, s.pushOrder.length)] ∧ s'.log = s.log ∧ s'.overflow = s.overflow := by
  obtain ⟨hpc, _⟩ := push_core h
  cases hpc with
  | room _ hring hlog hov => exact ⟨hring, hlog, hov⟩
  | zero hnil hring hlog hov => exact ⟨by rw [hring, hnil]; rfl, hlog, hov⟩
  | displace d t hge _ _ _ _ => exact absurd hroom (by omega)

/-- Conservation with overflow: what was handed to the stream, the entry being written and the
ring are, in this order, exactly the pushed entries minus the displaced ones — in every reachable
state. In particular the stream sees a subsequence of the push order (nothing reordered, nothing
duplicated), and every entry that is neither delivered nor queued has been displaced. -/
theorem c09_order_with_overflow {s : QState} (hr : Reachable s) :
    delivered s.log ++ holding s.wpc ++ s.ring = survivors s.pushOrder (displaced s.log) ∧
    (delivered s.log).Sublist s.pushOrder ∧ s.pushOrder.Nodup := by
  have hc := conserve_reachable hr
  refine ⟨hc.cons, ?_, pushOrder_nodup hc⟩
  have h1 : (delivered s.log).Sublist (delivered s.log ++ holding s.wpc ++ s.ring) := by
    rw [List.append_assoc]; exact List.sublist_append_left _ _
  have h2 := hc.cons
  simp only [core] at h2
  rw [h2] at h1
  exact h1.trans List.filter_sublist

/-- An entry is lost only if at least `cap` newer entries were pushed while it was still queued:
for every displaced `d` the push order continues after `d` with at least `cap` entries, and `d`
was never taken by the writer (it is neither delivered nor being written). -/
theorem c09_lost_only_if_cap_newer {s : QState} (hr : Reachable s) {d : Ent} (hd : d ∈ displaced s.log) :
    (∃ pre newer, s.pushOrder = pre ++ d :: newer ∧ s.cap ≤ newer.length) ∧
    d ∉ delivered s.log ∧ d ∉ holding s.wpc ∧ d ∉ s.ring := by
  have hc := conserve_reachable hr
  refine ⟨hc.newer d hd, ?_⟩
  have hcons := hc.cons
  simp only [core] at hcons
  have hnot : d ∉ survivors s.pushOrder (displaced s.log) := by
    simp [survivors, hd]
  rw [← hcons] at hnot
  simp only [List.mem_append, not_or] at hnot
  exact ⟨hnot.1.1, hnot.1.2, hnot.2⟩

/-- The overflow counter reported to the recorder equals the number of displaced entries. -/
theorem c09_counter {s : QState} (hr : Reachable s) : s.overflow = (displaced s.log).length :=
  (conserve_reachable hr).count

/-- The ring never holds more than `cap` entries. -/
theorem c09_ring_bounded {s : QState} (hr : Reachable s) (hcap : 0 < s.cap) : s.ring.length ≤ s.cap := by
  have := (conserve_reachable hr).bound
  simp only [core] at this
  omega

/-- The ring is always a contiguous tail of the push order (the newest entries). -/
theorem c09_ring_is_newest {s : QState} (hr : Reachable s) : s.ring <:+ s.pushOrder :=
  (conserve_reachable hr).suffix

/-- **Trace specification (T-trace).** The executable predicate the driver evaluates on histories of
real multi-threaded runs holds of every reachable state of the model: with overflow, each producer's
delivered entries are a subsequence of that producer's pushes, and only pushed entries are delivered. -/
theorem c09_spec_accepts {s : QState} (hr : Reachable s) (n : Nat) (hn : ∀ e ∈ s.pushOrder, e.1 < n) (final : Bool) :
    Spec.acceptOrder n s.pushOrder (delivered s.log) true final = true := by
  have hsub := (c09_order_with_overflow hr).2.1
  simp only [Spec.acceptOrder, Bool.and_eq_true, List.all_eq_true, if_true]
  refine ⟨fun p _ => ?_, fun e he => by simpa using hn e (hsub.subset he)⟩
  simp only [Spec.producerSublist, Spec.ofProducer, List.isSublist_iff_sublist]
  exact hsub.filter _

/-! ## Non-vacuity: a concrete run with a stalled writer, capacity 2, three producers -/

def nvClock : Clock := ⟨false, false, false, false⟩

/-- writer pops entry 0 and stalls inside `next`; then four more pushes from producers 0,1,2: the
ring wraps twice -/
def nvRun : Option QState :=
  run (init 2 (fun _ => .ok) true)
    [.push 0, .w nvClock, .w nvClock, .w nvClock, .w nvClock, .w nvClock, .push 1, .push 2, .push 0, .push 1, .unpark 1]

/-- The capacity in `c09_lost_only_if_cap_newer` is the *configured* one, and the bound is tight: a ring
that is silently smaller than configured (the seeded cap at 64 MiB / size_of entry) is not a refinement.
Witness: configured 3, effective 2 — the run of the 2-slot system displaces entry `(0,1)` with only two newer
pushes behind it; in the 3-slot system the same events displace nothing. -/
theorem c09_smaller_ring_violates :
    (run (init 2 (fun _ => .ok) true) [.push 0, .w nvClock, .push 0, .push 0, .push 0]).map
      (fun s => (displaced s.log, s.pushOrder.length, s.overflow)) = some ([(0, 1)], 4, 1) ∧
    (run (init 3 (fun _ => .ok) true) [.push 0, .w nvClock, .push 0, .push 0, .push 0]).map
      (fun s => (displaced s.log, s.pushOrder.length, s.overflow)) = some ([], 4, 0) := by decide

example : (nvRun.map fun s => (s.ring, holding s.wpc, displaced s.log, s.overflow, s.pushOrder.length)) =
    some ([(0, 3), (1, 4)], [], [(1, 1), (2, 2)], 2, 5) := by decide

example : ∃ s, nvRun = some s ∧ Reachable s ∧ s.ring.length = s.cap ∧ 0 < s.handles :=
  match h : nvRun with
  | some s => ⟨s, rfl, Reachable.run (Reachable.init _ _ _) h, by
      have : (nvRun.map fun s => (s.ring.length, s.cap, s.handles)) = some (2, 2, 1) := by decide
      rw [h] at this; simp at this; omega, by
      have : (nvRun.map fun s => (s.ring.length, s.cap, s.handles)) = some (2, 2, 1) := by decide
      rw [h] at this; simp at this; omega⟩
  | none => by
      have : nvRun.isSome = true := by decide
      rw [h] at this; simp at this

end Queue

#print axioms Queue.c09_push_always_enabled
#print axioms Queue.c09_drops_oldest
#print axioms Queue.c09_no_loss_when_room
#print axioms Queue.c09_order_with_overflow
#print axioms Queue.c09_lost_only_if_cap_newer
#print axioms Queue.c09_counter
#print axioms Queue.c09_ring_bounded
#print axioms Queue.c09_ring_is_newest
#print axioms Queue.c09_spec_accepts
#print axioms Queue.c09_smaller_ring_violates
