import Model.Histogram
/-!
# C11 — lemmas

Bucket-layout arithmetic for grouping power 4 (`cfg4 M`), the bucket array, the interleaving
invariant of the atomic variant, sort-and-merge, and the exact binary64 scaling. The property
theorems (`c11_…`) are in `Props/C11.lean`.
-/
namespace Histogram
open Config

theorem pow_split (p : Nat) (h : 4 ≤ p) : 2 ^ p = 16 * 2 ^ (p - 4) := by
  have := Nat.pow_add 2 4 (p - 4)
  rw [show 4 + (p - 4) = p by omega] at this
  omega

theorem log2_eq {m p : Nat} (h1 : 2 ^ p ≤ m) (h2 : m < 2 ^ (p + 1)) : m.log2 = p := by
  have hm : m ≠ 0 := by
    have := Nat.two_pow_pos p
    omega
  have a : m.log2 < p + 1 := (Nat.log2_lt hm).2 h2
  have b : ¬ m.log2 < p := fun h => by
    have := (Nat.log2_lt hm).1 h
    omega
  omega

/-- The layout with grouping power 4 (16 sub-buckets per power of two). -/
def cfg4 (M : Nat) : Config := ⟨4, M⟩

theorem totalBuckets_cfg4 (M : Nat) (hM : 5 ≤ M) : (cfg4 M).totalBuckets = 16 * (M - 3) := by
  simp only [cfg4, totalBuckets, lowerBinCount, cutoffValue, cutoffPower, upperBinCount, upperBinDivisions]
  omega

/-- closed forms of the bounds of bucket `16 g + h` -/
theorem lowerBound_cfg4 (M g h : Nat) (hh : h < 16) :
    (cfg4 M).lowerBound (16 * g + h) = if g = 0 then h else 16 * 2 ^ (g - 1) + 2 ^ (g - 1) * h := by
  simp only [cfg4, lowerBound, Nat.shiftRight_eq_div_pow]
  have e1 : (16 * g + h) / 2 ^ 4 = g := by omega
  rw [e1]
  have e2 : 16 * g + h - g * 2 ^ 4 = h := by omega
  rw [e2]
  by_cases hg : g = 0
  · simp [hg]
  · have : ¬ g < 1 := by omega
    simp only [this, hg, if_false]
    rw [show 4 + g - 1 = 4 + (g - 1) by omega, Nat.pow_add]

theorem max_cfg4 (M : Nat) (hM : 5 ≤ M) : (cfg4 M).max = 32 * 2 ^ (M - 5) - 1 := by
  simp only [cfg4, Config.max]
  have := Nat.pow_add 2 5 (M - 5)
  rw [show 5 + (M - 5) = M by omega] at this
  omega

theorem upperBound_cfg4 (M g h : Nat) (hM : 5 ≤ M) (hh : h < 16) (hi : 16 * g + h < 16 * (M - 3)) :
    (cfg4 M).upperBound (16 * g + h) = if g = 0 then h else 16 * 2 ^ (g - 1) + 2 ^ (g - 1) * (h + 1) - 1 := by
  have hT := totalBuckets_cfg4 M hM
  simp only [totalBuckets] at hT
  unfold upperBound
  rw [hT]
  by_cases hlast : 16 * g + h = 16 * (M - 3) - 1
  · -- the last bucket: `max` coincides with the formula
    rw [if_pos hlast, max_cfg4 M hM]
    have hg : g = M - 4 := by omega
    have hh' : h = 15 := by omega
    have hg0 : g ≠ 0 := by omega
    rw [if_neg hg0, hh', hg, show M - 4 - 1 = M - 5 by omega]
    omega
  · rw [if_neg hlast]
    simp only [cfg4, Nat.shiftRight_eq_div_pow]
    have e1 : (16 * g + h) / 2 ^ 4 = g := by omega
    rw [e1]
    have e2 : 16 * g + h - g * 2 ^ 4 + 1 = h + 1 := by omega
    rw [e2]
    by_cases hg : g = 0
    · simp [hg]
    · have : ¬ g < 1 := by omega
      simp only [this, hg, if_false]
      rw [show 4 + g - 1 = 4 + (g - 1) by omega, Nat.pow_add]

/-- `value_to_index` in closed form -/
theorem valueToIndex_small (M n : Nat) (hn : n < 32) : (cfg4 M).valueToIndex n = some n := by
  have h : n < (cfg4 M).cutoffValue := by
    simp only [cfg4, cutoffValue, cutoffPower]; omega
  unfold valueToIndex
  rw [if_pos h]

theorem valueToIndex_large (M n : Nat) (h32 : 32 ≤ n) (hn : n < 2 ^ M) :
    (cfg4 M).valueToIndex n = some (16 * (n.log2 - 3) + (n - 2 ^ n.log2) / 2 ^ (n.log2 - 4)) ∧
      5 ≤ n.log2 ∧ n.log2 < M := by
  have hn0 : n ≠ 0 := by omega
  have hp5 : 5 ≤ n.log2 := by
    have : ¬ n.log2 < 5 := fun h => by
      have := (Nat.log2_lt hn0).1 h
      omega
    omega
  have hpM : n.log2 < M := (Nat.log2_lt hn0).2 hn
  refine ⟨?_, hp5, hpM⟩
  have h1 : ¬ n < (cfg4 M).cutoffValue := by
    simp only [cfg4, cutoffValue, cutoffPower]; omega
  have h2 : ¬ n > (cfg4 M).max := by
    simp only [cfg4, Config.max]; omega
  unfold valueToIndex
  rw [if_neg h1, if_neg h2]
  simp only [cfg4, cutoffValue, cutoffPower, lowerBinCount, upperBinDivisions, Nat.shiftRight_eq_div_pow]
  congr 1
  omega

/-- Every scaled value in the range of bucket `i` is mapped to `i` (buckets are disjoint). -/
theorem bucket_unique (M g h m : Nat) (hM : 5 ≤ M) (hh : h < 16) (hi : 16 * g + h < 16 * (M - 3))
    (hlo : (cfg4 M).lowerBound (16 * g + h) ≤ m) (hhi : m ≤ (cfg4 M).upperBound (16 * g + h)) :
    (cfg4 M).valueToIndex m = some (16 * g + h) := by
  rw [lowerBound_cfg4 M g h hh] at hlo
  rw [upperBound_cfg4 M g h hM hh hi] at hhi
  by_cases hg : g = 0
  · simp only [hg, if_true] at hlo hhi
    have : m = h := by omega
    subst this
    rw [valueToIndex_small M m (by omega), hg]
    simp
  · simp only [hg, if_false] at hlo hhi
    have hW : 0 < 2 ^ (g - 1) := Nat.two_pow_pos _
    generalize hWd : 2 ^ (g - 1) = W at hlo hhi hW
    rw [Nat.mul_succ] at hhi
    by_cases hg1 : g = 1
    · -- width 1, still in the linear region
      have hW1 : W = 1 := by rw [← hWd, hg1]
      subst hW1
      have : m = 16 + h := by omega
      subst this
      rw [valueToIndex_small M _ (by omega), hg1]
    · have hmul : W * h ≤ W * 15 := Nat.mul_le_mul_left W (by omega)
      have hp : 2 ^ (g + 3) = 16 * W := by
        rw [pow_split (g + 3) (by omega), show g + 3 - 4 = g - 1 by omega, hWd]
      have hp1 : 2 ^ (g + 3 + 1) = 32 * W := by
        rw [Nat.pow_succ, hp]; omega
      have hlog : m.log2 = g + 3 := log2_eq (by omega) (by omega)
      have hgM : g + 3 < M := by omega
      have hmM : m < 2 ^ M := by
        have : 2 ^ (g + 3 + 1) ≤ 2 ^ M := Nat.pow_le_pow_right (by omega) (by omega)
        omega
      have hm32 : 32 ≤ m := by
        have : 2 ≤ W := by
          rw [← hWd]
          have : 2 ^ 1 ≤ 2 ^ (g - 1) := Nat.pow_le_pow_right (by omega) (by omega)
          omega
        omega
      rw [(valueToIndex_large M m hm32 hmM).1, hlog, show g + 3 - 4 = g - 1 by omega, hWd, hp]
      have hdiv : (m - 16 * W) / W = h := by
        have e0 : h * W = W * h := Nat.mul_comm _ _
        have e1 : (h + 1) * W = W * h + W := by rw [Nat.succ_mul, e0]
        apply Nat.div_eq_of_lt_le
        · rw [e0]; omega
        · rw [e1]; omega
      rw [hdiv]
      congr 1

/-- Where a scaled value lands: its bucket exists, contains it, and has width `2^(⌊log₂ n⌋ - 4)`
(truncated subtraction: width 1 below 32). -/
theorem bucket_of (M n : Nat) (hM : 5 ≤ M) (hn : n < 2 ^ M) :
    ∃ i, i < (cfg4 M).totalBuckets ∧ (cfg4 M).valueToIndex n = some i ∧
      (cfg4 M).lowerBound i ≤ n ∧ n ≤ (cfg4 M).upperBound i ∧
      (cfg4 M).upperBound i + 1 - (cfg4 M).lowerBound i = 2 ^ (n.log2 - 4) ∧
      (32 ≤ n → 16 * 2 ^ (n.log2 - 4) ≤ (cfg4 M).lowerBound i ∧ 2 ≤ 2 ^ (n.log2 - 4)) := by
  rw [totalBuckets_cfg4 M hM]
  by_cases h32 : n < 32
  · -- linear region: bucket n, width 1
    refine ⟨n, by omega, valueToIndex_small M n h32, ?_⟩
    have hi : 16 * (n / 16) + n % 16 < 16 * (M - 3) := by omega
    have hlo := lowerBound_cfg4 M (n / 16) (n % 16) (by omega)
    have hup := upperBound_cfg4 M (n / 16) (n % 16) hM (by omega) hi
    rw [show 16 * (n / 16) + n % 16 = n by omega] at hlo hup
    have hlog : n.log2 - 4 = 0 := by
      by_cases h0 : n = 0
      · subst h0; decide
      · have : n.log2 < 5 := (Nat.log2_lt h0).2 (by omega)
        omega
    rw [hlog]
    by_cases hg : n / 16 = 0
    · rw [if_pos hg] at hlo hup
      rw [hlo, hup]
      refine ⟨by omega, by omega, by omega, by omega⟩
    · rw [if_neg hg] at hlo hup
      have hg1 : n / 16 - 1 = 0 := by omega
      rw [hg1] at hlo hup
      rw [hlo, hup]
      refine ⟨by omega, by omega, by omega, by omega⟩
  · have h32' : 32 ≤ n := by omega
    obtain ⟨hidx, hp5, hpM⟩ := valueToIndex_large M n h32' hn
    have hW : 0 < 2 ^ (n.log2 - 4) := Nat.two_pow_pos _
    have hW2 : 2 ≤ 2 ^ (n.log2 - 4) := by
      have : 2 ^ 1 ≤ 2 ^ (n.log2 - 4) := Nat.pow_le_pow_right (by omega) (by omega)
      omega
    have hp : 2 ^ n.log2 = 16 * 2 ^ (n.log2 - 4) := pow_split _ (by omega)
    have hlow : 2 ^ n.log2 ≤ n := Nat.log2_self_le (by omega)
    have hupp : n < 2 ^ (n.log2 + 1) := Nat.lt_log2_self
    rw [Nat.pow_succ, hp] at hupp
    rw [hp] at hlow hidx
    generalize hWd : 2 ^ (n.log2 - 4) = W at *
    -- off = (n - 16 W) / W
    have hoff1 : W * ((n - 16 * W) / W) ≤ n - 16 * W := Nat.mul_div_le _ _
    have hoff2 : n - 16 * W < W * ((n - 16 * W) / W + 1) := Nat.lt_mul_div_succ _ hW
    generalize (n - 16 * W) / W = off at *
    rw [Nat.mul_succ] at hoff2
    have hoff16 : off < 16 := by
      apply Nat.lt_of_mul_lt_mul_left (a := W)
      omega
    have hg : n.log2 - 3 ≠ 0 := by omega
    have hi : 16 * (n.log2 - 3) + off < 16 * (M - 3) := by omega
    have hlo := lowerBound_cfg4 M (n.log2 - 3) off hoff16
    have hup := upperBound_cfg4 M (n.log2 - 3) off hM hoff16 hi
    rw [if_neg hg, show n.log2 - 3 - 1 = n.log2 - 4 by omega, hWd] at hlo hup
    refine ⟨16 * (n.log2 - 3) + off, hi, hidx, ?_⟩
    rw [hlo, hup, Nat.mul_succ]
    refine ⟨by omega, by omega, by omega, fun _ => ⟨by omega, hW2⟩⟩

/-- Relative error. `x = X/den` is the exact scaled value (`X`, `den` arbitrary naturals),
`n = ⌊x⌋` what `as u64` yields. If `n ≥ 32` the bucket midpoint `mid` satisfies
`|mid − x| ≤ x/16`, stated without division: `16·mid·den ≤ 17·X` and `15·X ≤ 16·mid·den`. -/
theorem rel_error (M X den : Nat) (hM : 5 ≤ M) (hden : 0 < den) (hn : X / den < 2 ^ M) (h32 : 32 ≤ X / den) :
    ∃ i, (cfg4 M).valueToIndex (X / den) = some i ∧
      16 * ((cfg4 M).midpoint i * den) ≤ 17 * X ∧ 15 * X ≤ 16 * ((cfg4 M).midpoint i * den) := by
  obtain ⟨i, -, hidx, hlo, hup, hw, hbig⟩ := bucket_of M (X / den) hM hn
  obtain ⟨h16, hW2⟩ := hbig h32
  refine ⟨i, hidx, ?_⟩
  have hX1 : X / den * den ≤ X := Nat.div_mul_le_self X den
  have hX2 : X < den * (X / den + 1) := Nat.lt_mul_div_succ X hden
  rw [Nat.mul_succ, Nat.mul_comm den] at hX2
  unfold midpoint
  generalize (cfg4 M).lowerBound i = lo at *
  generalize (cfg4 M).upperBound i = up at *
  generalize 2 ^ ((X / den).log2 - 4) = W at *
  generalize X / den = n at *
  -- mid = lo + s with 2 s + 1 ≤ W ≤ 2 s + 2
  have hmid : (lo + up) / 2 = lo + (W - 1) / 2 := by omega
  rw [hmid]
  generalize hs : (W - 1) / 2 = s
  have hs1 : 2 * s + 1 ≤ W := by omega
  have a1 : (16 * W) * den ≤ lo * den := Nat.mul_le_mul_right den h16
  have a2 : (2 * s + 1) * den ≤ W * den := Nat.mul_le_mul_right den hs1
  have a3 : lo * den ≤ n * den := Nat.mul_le_mul_right den hlo
  have a4 : (n + 1) * den ≤ (lo + W) * den := Nat.mul_le_mul_right den (by omega)
  simp only [Nat.add_mul, Nat.mul_assoc, Nat.one_mul] at a1 a2 a4 ⊢
  omega

/-- Absolute error in the linear region: `n = ⌊x⌋ < 32` is its own bucket and midpoint, so
`|mid − x| < 1`, i.e. `|mid·den − X| < den`. -/
theorem abs_error (M X den : Nat) (hden : 0 < den) (h32 : X / den < 32) :
    (cfg4 M).valueToIndex (X / den) = some (X / den) ∧
      ((cfg4 M).lowerBound (X / den) = X / den ∧ (5 ≤ M → (cfg4 M).midpoint (X / den) = X / den)) ∧
      X / den * den ≤ X ∧ X < X / den * den + den := by
  have hX1 : X / den * den ≤ X := Nat.div_mul_le_self X den
  have hX2 : X < den * (X / den + 1) := Nat.lt_mul_div_succ X hden
  rw [Nat.mul_succ, Nat.mul_comm den] at hX2
  generalize X / den = n at *
  refine ⟨valueToIndex_small M _ h32, ⟨?_, ?_⟩, hX1, hX2⟩
  · have hlo := lowerBound_cfg4 M (n / 16) (n % 16) (by omega)
    rw [show 16 * (n / 16) + n % 16 = n by omega] at hlo
    rw [hlo]
    by_cases hg : n / 16 = 0
    · rw [if_pos hg]; omega
    · rw [if_neg hg, show n / 16 - 1 = 0 by omega]; omega
  · intro hM
    have h2M : n < 2 ^ M := by
      have : 2 ^ 5 ≤ 2 ^ M := Nat.pow_le_pow_right (by omega) hM
      omega
    obtain ⟨i, -, hidx, hlo, hup, hw, -⟩ := bucket_of M n hM h2M
    rw [valueToIndex_small M _ h32] at hidx
    cases hidx
    have hlog : n.log2 - 4 = 0 := by
      by_cases h0 : n = 0
      · rw [h0]; decide
      · have : n.log2 < 5 := (Nat.log2_lt h0).2 (by omega)
        omega
    rw [hlog] at hw
    unfold midpoint
    omega

theorem lower_le_upper (M i : Nat) (hM : 5 ≤ M) (hi : i < (cfg4 M).totalBuckets) :
    (cfg4 M).lowerBound i ≤ (cfg4 M).upperBound i := by
  rw [totalBuckets_cfg4 M hM] at hi
  have hlo := lowerBound_cfg4 M (i / 16) (i % 16) (by omega)
  have hup := upperBound_cfg4 M (i / 16) (i % 16) hM (by omega) (by omega)
  rw [show 16 * (i / 16) + i % 16 = i by omega] at hlo hup
  rw [hlo, hup]
  by_cases hg : i / 16 = 0
  · simp [hg]
  · rw [if_neg hg, if_neg hg, Nat.mul_succ]
    have := Nat.two_pow_pos (i / 16 - 1)
    omega

/-- Re-aggregation fixed point at the level of one bucket: the midpoint of bucket `i` is mapped
back to bucket `i`. -/
theorem midpoint_index (M i : Nat) (hM : 5 ≤ M) (hi : i < (cfg4 M).totalBuckets) :
    (cfg4 M).valueToIndex ((cfg4 M).midpoint i) = some i := by
  have hle := lower_le_upper M i hM hi
  rw [totalBuckets_cfg4 M hM] at hi
  have := bucket_unique M (i / 16) (i % 16) ((cfg4 M).midpoint i) hM (by omega) (by omega)
  rw [show 16 * (i / 16) + i % 16 = i by omega] at this
  apply this
  · unfold midpoint; omega
  · unfold midpoint; omega

/-! ### the bucket array -/

theorem addAt_length (bs : List Nat) (i n : Nat) : (addAt bs i n).length = bs.length := by
  induction bs generalizing i with
  | nil => rfl
  | cons b bs ih => cases i <;> simp [addAt, ih]

theorem le_sum_of_getD (bs : List Nat) (i : Nat) : bs.getD i 0 ≤ bs.sum := by
  induction bs generalizing i with
  | nil => simp
  | cons b bs ih =>
    cases i with
    | zero => simp
    | succ i => have := ih i; simp only [List.getD_cons_succ, List.sum_cons]; omega

theorem addAt_sum (bs : List Nat) (i n : Nat) (hi : i < bs.length) (h : bs.sum + n < 2 ^ 64) :
    (addAt bs i n).sum = bs.sum + n := by
  induction bs generalizing i with
  | nil => simp at hi
  | cons b bs ih =>
    cases i with
    | zero =>
      simp only [addAt, List.sum_cons] at h ⊢
      rw [Nat.mod_eq_of_lt (by omega)]; omega
    | succ i =>
      simp only [addAt, List.sum_cons, List.length_cons] at h hi ⊢
      rw [ih i (by omega) (by omega)]; omega

theorem nonEmptyFrom_sum (bs : List Nat) (k : Nat) : ((nonEmptyFrom bs k).map (·.2)).sum = bs.sum := by
  induction bs generalizing k with
  | nil => rfl
  | cons b bs ih =>
    simp only [nonEmptyFrom]
    split
    · simp [ih]
    · have : b = 0 := by omega
      simp [ih, this]

theorem nonEmptyFrom_pos (bs : List Nat) (k : Nat) : ∀ e ∈ nonEmptyFrom bs k, 0 < e.2 := by
  induction bs generalizing k with
  | nil => simp [nonEmptyFrom]
  | cons b bs ih =>
    simp only [nonEmptyFrom]
    split
    · intro e he
      rcases List.mem_cons.mp he with h | h
      · subst h; assumption
      · exact ih _ e h
    · exact ih _

theorem addAt_append (pre tl : List Nat) (x n : Nat) :
    addAt (pre ++ x :: tl) pre.length n = pre ++ ((x + n) % 2 ^ 64) :: tl := by
  induction pre with
  | nil => rfl
  | cons p pre ih => simp [addAt, ih]

theorem readdAll_nonEmptyFrom (M : Nat) (hM : 5 ≤ M) (bs pre : List Nat)
    (hlen : pre.length + bs.length = (cfg4 M).totalBuckets) (hb : ∀ b ∈ bs, b < 2 ^ 64) :
    readdAll (cfg4 M) (pre ++ List.replicate bs.length 0) (nonEmptyFrom bs pre.length) = pre ++ bs := by
  induction bs generalizing pre with
  | nil => simp [nonEmptyFrom, readdAll]
  | cons b bs ih =>
    have hb' : ∀ x ∈ bs, x < 2 ^ 64 := fun x hx => hb x (List.mem_cons_of_mem _ hx)
    have hbb : b < 2 ^ 64 := hb b List.mem_cons_self
    simp only [List.length_cons] at hlen
    have step := ih (pre ++ [b]) (by simp only [List.length_append, List.length_singleton]; omega) hb'
    simp only [List.length_append, List.length_singleton, List.append_assoc, List.singleton_append] at step
    simp only [nonEmptyFrom]
    split
    · simp only [readdAll, add]
      rw [midpoint_index M pre.length hM (by omega)]
      simp only [List.length_cons, List.replicate_succ]
      rw [addAt_append, Nat.zero_add, Nat.mod_eq_of_lt hbb]
      exact step
    · have : b = 0 := by omega
      subst this
      simpa only [List.length_cons, List.replicate_succ] using step

/-- sum of the counts of a record sequence -/
def countSum (recs : List (Nat × Nat)) : Nat := (recs.map (·.2)).sum

theorem scaleFloorPow_le (s bits : Nat) : scaleFloorPow s bits ≤ u64Max := by
  unfold scaleFloorPow
  split
  · exact Nat.le_refl _
  · split
    · exact Nat.zero_le _
    · exact Nat.min_le_right _ _

theorem add_sum64 (bs : List Nat) (v n : Nat) (hlen : bs.length = (cfg4 64).totalBuckets)
    (hv : v ≤ u64Max) (h : bs.sum + n < 2 ^ 64) :
    (add (cfg4 64) bs v n).sum = bs.sum + n ∧ (add (cfg4 64) bs v n).length = bs.length := by
  have hv' : v < 2 ^ 64 := by unfold u64Max at hv; omega
  obtain ⟨i, hi, hidx, -⟩ := bucket_of 64 v (by omega) hv'
  unfold add
  rw [hidx]
  exact ⟨addAt_sum bs i n (by omega) h, addAt_length bs i n⟩

theorem recordAll_sum64 (s : Nat) (recs : List (Nat × Nat)) (bs : List Nat)
    (hlen : bs.length = (cfg4 64).totalBuckets) (h : bs.sum + countSum recs < 2 ^ 64) :
    (recordAll ⟨cfg4 64, s⟩ bs recs).sum = bs.sum + countSum recs ∧
      (recordAll ⟨cfg4 64, s⟩ bs recs).length = bs.length := by
  induction recs generalizing bs with
  | nil => simp [recordAll, countSum]
  | cons r recs ih =>
    obtain ⟨v, n⟩ := r
    simp only [countSum, List.map_cons, List.sum_cons] at h
    have h1 := add_sum64 bs (scaleFloorPow s v) n hlen (scaleFloorPow_le s v) (by omega)
    have h2 := ih (recordMany ⟨cfg4 64, s⟩ bs v n) (by simp only [recordMany]; rw [h1.2]; exact hlen)
      (by simp only [recordMany]; rw [h1.1]; simp only [countSum]; omega)
    simp only [recordMany, countSum] at h2
    simp only [recordAll, recordMany, countSum, List.map_cons, List.sum_cons]
    rw [h2.1, h2.2, h1.1, h1.2]
    exact ⟨by omega, rfl⟩

/-! ### concurrent recording into the atomic variant -/

/-- what bucket `i` has received so far and where it is now: still in the shared array, or in the
snapshot of exactly one drainer -/
def credit (s : AState) (i : Nat) : Nat :=
  s.buckets.getD i 0 + (s.drainers.map fun d => d.got.getD i 0).sum

/-- occurrences added to bucket `i` by a sequence of events -/
def addsTo (i : Nat) : List Ev → Nat
  | [] => 0
  | .add j n :: es => (if j = i then n else 0) + addsTo i es
  | _ :: es => addsTo i es

theorem getD_addAt (bs : List Nat) (i j n : Nat) :
    (addAt bs j n).getD i 0 = if i = j ∧ j < bs.length then (bs.getD i 0 + n) % 2 ^ 64 else bs.getD i 0 := by
  induction bs generalizing i j with
  | nil => simp [addAt]
  | cons b bs ih =>
    cases j with
    | zero =>
      cases i with
      | zero => simp [addAt]
      | succ i => simp [addAt]
    | succ j =>
      cases i with
      | zero => simp [addAt]
      | succ i =>
        simp only [addAt, List.getD_cons_succ, ih, List.length_cons]
        simp only [Nat.add_lt_add_iff_right, Nat.add_right_cancel_iff]

theorem setAt_length (bs : List Nat) (i v : Nat) : (setAt bs i v).length = bs.length := by
  induction bs generalizing i with
  | nil => rfl
  | cons b bs ih => cases i <;> simp [setAt, ih]

theorem getD_setAt (bs : List Nat) (i j v : Nat) :
    (setAt bs j v).getD i 0 = if i = j ∧ j < bs.length then v else bs.getD i 0 := by
  induction bs generalizing i j with
  | nil => simp [setAt]
  | cons b bs ih =>
    cases j with
    | zero =>
      cases i with
      | zero => simp [setAt]
      | succ i => simp [setAt]
    | succ j =>
      cases i with
      | zero => simp [setAt]
      | succ i =>
        simp only [setAt, List.getD_cons_succ, ih, List.length_cons]
        simp only [Nat.add_lt_add_iff_right, Nat.add_right_cancel_iff]

theorem getD_snoc (l : List Nat) (x i : Nat) :
    (l ++ [x]).getD i 0 = if i = l.length then x else l.getD i 0 := by
  induction l generalizing i with
  | nil => cases i <;> simp
  | cons a l ih =>
    cases i with
    | zero => simp
    | succ i => simp only [List.cons_append, List.getD_cons_succ, ih, List.length_cons, Nat.add_right_cancel_iff]

theorem getD_of_length_le (l : List Nat) (i : Nat) (h : l.length ≤ i) : l.getD i 0 = 0 := by
  induction l generalizing i with
  | nil => simp
  | cons a l ih =>
    cases i with
    | zero => simp at h
    | succ i => simp only [List.getD_cons_succ]; exact ih i (by simpa using h)

/-- one swap moves the content of one bucket from the shared array into one snapshot -/
theorem stepDrainer_credit (buckets : List Nat) (ds : List Drainer) (k i : Nat) :
    (stepDrainer buckets ds k).1.getD i 0 + ((stepDrainer buckets ds k).2.map fun d => d.got.getD i 0).sum
      = buckets.getD i 0 + (ds.map fun d => d.got.getD i 0).sum ∧
    (stepDrainer buckets ds k).1.length = buckets.length := by
  induction ds generalizing k with
  | nil => simp [stepDrainer]
  | cons d ds ih =>
    cases k with
    | zero =>
      simp only [stepDrainer]
      split
      · rename_i hlt
        simp only [List.map_cons, List.sum_cons, getD_setAt, getD_snoc, setAt_length]
        refine ⟨?_, trivial⟩
        by_cases hi : i = d.got.length
        · subst hi
          simp only [hlt, and_self, if_true]
          rw [getD_of_length_le d.got _ (Nat.le_refl _)]
          omega
        · simp only [hi, false_and, if_false]
      · simp
    | succ k =>
      have := ih k
      simp only [stepDrainer, List.map_cons, List.sum_cons]
      omega

theorem step_length (s : AState) (e : Ev) : (s.step e).buckets.length = s.buckets.length := by
  cases e with
  | add i n => simp [AState.step, addAt_length]
  | start => simp [AState.step]
  | swap d => simp [AState.step, (stepDrainer_credit s.buckets s.drainers d 0).2]

theorem run_credit (evs : List Ev) (s : AState) (i : Nat) (hi : i < s.buckets.length)
    (h : credit s i + addsTo i evs < 2 ^ 64) :
    credit (s.run evs) i = credit s i + addsTo i evs := by
  induction evs generalizing s with
  | nil => simp [AState.run, addsTo]
  | cons e evs ih =>
    have hlen := step_length s e
    simp only [AState.run]
    cases e with
    | add j n =>
      simp only [addsTo] at h
      have hc : credit (s.step (.add j n)) i = credit s i + (if j = i then n else 0) := by
        simp only [credit, AState.step, getD_addAt]
        by_cases hj : j = i
        · subst hj
          simp only [hi, and_self, if_true]
          rw [Nat.mod_eq_of_lt (by simp only [credit, if_true] at h; omega)]
          omega
        · have : ¬ (i = j ∧ j < s.buckets.length) := fun hh => hj hh.1.symm
          simp only [this, hj, if_false]
          omega
      rw [ih (s.step (.add j n)) (by rw [hlen]; exact hi) (by rw [hc]; omega), hc]
      simp only [addsTo]
      omega
    | start =>
      have hc : credit (s.step .start) i = credit s i := by
        simp [credit, AState.step]
      simp only [addsTo] at h ⊢
      rw [ih (s.step .start) (by rw [hlen]; exact hi) (by rw [hc]; exact h), hc]
    | swap d =>
      have hc : credit (s.step (.swap d)) i = credit s i := by
        simp only [credit, AState.step]
        exact (stepDrainer_credit s.buckets s.drainers d i).1
      simp only [addsTo] at h ⊢
      rw [ih (s.step (.swap d)) (by rw [hlen]; exact hi) (by rw [hc]; exact h), hc]


/-! ### sort-and-merge -/

theorem samLe_of_key_eq {a b : Nat} (h : samKey a = samKey b) : samLe a b = true := by
  unfold samLe; rw [h]; cases samKey b <;> simp

theorem samLe_trans (a b c : Nat) (h1 : samLe a b = true) (h2 : samLe b c = true) : samLe a c = true := by
  unfold samLe at *
  cases ha : samKey a <;> cases hb : samKey b <;> cases hc : samKey c <;> simp_all
  omega

theorem samLe_total (a b : Nat) : (samLe a b || samLe b a) = true := by
  unfold samLe
  cases samKey a <;> cases samKey b <;> simp
  omega

theorem samLe_antisymm {a b : Nat} (h1 : samLe a b = true) (h2 : samLe b a = true) : samKey a = samKey b := by
  unfold samLe at *
  cases ha : samKey a <;> cases hb : samKey b <;> simp_all
  omega

/-- strictly below in `OrderedFloat`'s order -/
def samLt (a b : Nat) : Prop := samLe a b = true ∧ samKey a ≠ samKey b

theorem groupGo_sorted (cur cnt : Nat) (rest : List Nat)
    (h : (cur :: rest).Pairwise fun a b => samLe a b = true) :
    (∀ r ∈ groupGo cur cnt rest, samLe cur r.1 = true) ∧
      (groupGo cur cnt rest).Pairwise fun a b => samLt a.1 b.1 := by
  induction rest generalizing cur cnt with
  | nil => simp [groupGo, samLe_of_key_eq]
  | cons v rest ih =>
    have hcv : samLe cur v = true := (List.pairwise_cons.mp h).1 v List.mem_cons_self
    have hrest : (v :: rest).Pairwise fun a b => samLe a b = true := (List.pairwise_cons.mp h).2
    simp only [groupGo]
    split
    · rename_i heq
      -- same run: continue with `cur`
      have h' : (cur :: rest).Pairwise fun a b => samLe a b = true := by
        refine List.pairwise_cons.mpr ⟨fun x hx => ?_, (List.pairwise_cons.mp hrest).2⟩
        exact (List.pairwise_cons.mp h).1 x (List.mem_cons_of_mem _ hx)
      exact ih cur (cnt + 1) h'
    · rename_i hne
      obtain ⟨ih1, ih2⟩ := ih v 1 hrest
      refine ⟨?_, ?_⟩
      · intro r hr
        rcases List.mem_cons.mp hr with h1 | h1
        · subst h1; exact samLe_of_key_eq rfl
        · exact samLe_trans _ _ _ hcv (ih1 r h1)
      · refine List.pairwise_cons.mpr ⟨fun r hr => ⟨samLe_trans _ _ _ hcv (ih1 r hr), fun hk => ?_⟩, ih2⟩
        -- key r = key cur would force key v = key cur
        have h1 : samLe r.1 cur = true := samLe_of_key_eq hk.symm
        have h2 : samLe v cur = true := samLe_trans _ _ _ (ih1 r hr) h1
        exact hne (samLe_antisymm h2 hcv)

/-- occurrences reported for key `k` -/
def rowsCount (k : Option Int) : List (Nat × Nat) → Nat
  | [] => 0
  | r :: rs => (if samKey r.1 = k then r.2 else 0) + rowsCount k rs

/-- occurrences recorded with key `k` -/
def valsCount (k : Option Int) : List Nat → Nat
  | [] => 0
  | v :: vs => (if samKey v = k then 1 else 0) + valsCount k vs

theorem groupGo_count (k : Option Int) (cur cnt : Nat) (rest : List Nat) :
    rowsCount k (groupGo cur cnt rest) = (if samKey cur = k then cnt else 0) + valsCount k rest := by
  induction rest generalizing cur cnt with
  | nil => simp [groupGo, rowsCount, valsCount]
  | cons v rest ih =>
    simp only [groupGo]
    split
    · rename_i heq
      rw [ih cur (cnt + 1)]
      simp only [valsCount, heq]
      split <;> omega
    · rw [rowsCount, ih v 1]
      simp only [valsCount]

theorem valsCount_perm (k : Option Int) {l1 l2 : List Nat} (h : l1.Perm l2) : valsCount k l1 = valsCount k l2 := by
  induction h with
  | nil => rfl
  | cons x _ ih => simp only [valsCount, ih]
  | swap x y l => simp only [valsCount]; omega
  | trans _ _ ih1 ih2 => exact ih1.trans ih2

theorem samKey_none_iff (v : Nat) : samKey v = none ↔ f64IsNaN v = true := by
  unfold samKey
  by_cases h : f64IsNaN v = true
  · simp [h]
  · have h' : f64IsNaN v = false := by simpa using h
    rw [h']
    by_cases hs : f64Sign v = 1 <;> simp [hs]

theorem valsCount_filter (x : Int) (l : List Nat) :
    valsCount (some x) (l.filter fun b => !f64IsNaN b) = valsCount (some x) l := by
  induction l with
  | nil => rfl
  | cons v l ih =>
    by_cases h : f64IsNaN v = true
    · have hk : samKey v = none := (samKey_none_iff v).2 h
      simp [h, valsCount, hk, ih]
    · have h' : f64IsNaN v = false := by simpa using h
      simp [h', valsCount, ih]

theorem valsCount_replicate (k : Option Int) (v n : Nat) :
    valsCount k (List.replicate n v) = if samKey v = k then n else 0 := by
  induction n with
  | zero => simp [valsCount]
  | succ n ih => simp only [List.replicate_succ, valsCount, ih]; split <;> omega

theorem valsCount_append (k : Option Int) (l1 l2 : List Nat) :
    valsCount k (l1 ++ l2) = valsCount k l1 + valsCount k l2 := by
  induction l1 with
  | nil => simp [valsCount]
  | cons v l ih => simp only [List.cons_append, valsCount, ih]; omega

theorem groupRuns_count (k : Option Int) (l : List Nat) : rowsCount k (groupRuns l) = valsCount k l := by
  cases l with
  | nil => rfl
  | cons v rest => simp only [groupRuns, groupGo_count, valsCount]

theorem groupGo_mem (cur cnt : Nat) (rest : List Nat) (hc : 0 < cnt) :
    ∀ r ∈ groupGo cur cnt rest, 0 < r.2 ∧ (r.1 = cur ∨ r.1 ∈ rest) := by
  induction rest generalizing cur cnt with
  | nil => simp [groupGo]; omega
  | cons v rest ih =>
    simp only [groupGo]
    split
    · intro r hr
      obtain ⟨h1, h2⟩ := ih cur (cnt + 1) (by omega) r hr
      exact ⟨h1, h2.elim Or.inl fun h => Or.inr (List.mem_cons_of_mem _ h)⟩
    · intro r hr
      rcases List.mem_cons.mp hr with h | h
      · subst h; exact ⟨hc, Or.inl rfl⟩
      · obtain ⟨h1, h2⟩ := ih v 1 (by omega) r h
        exact ⟨h1, Or.inr (h2.elim (fun e => e ▸ List.mem_cons_self) fun m => List.mem_cons_of_mem _ m)⟩

/-- everything recorded into a sort-and-merge histogram by a sequence of `record_many` calls -/
def samRecordAll (vals : List Nat) : List (Nat × Nat) → List Nat
  | [] => vals
  | (v, n) :: rest => samRecordAll (samRecordMany vals v n) rest

/-- **Sort-and-merge.** The drained rows are strictly ascending in `OrderedFloat`'s order (hence
pairwise distinct), contain no NaN, have positive counts, every reported value is one of the recorded
bit patterns, and for every non-NaN value the reported occurrences of (values equal to) it are
exactly the number of times it was recorded. -/
theorem sam_drain_spec (vals : List Nat) :
    (samDrain vals).Pairwise (fun a b => samLt a.1 b.1) ∧
      (∀ r ∈ samDrain vals, f64IsNaN r.1 = false ∧ 0 < r.2 ∧ r.1 ∈ vals) ∧
      (∀ x : Int, rowsCount (some x) (samDrain vals) = valsCount (some x) vals) := by
  have hsorted : ((vals.mergeSort samLe).filter fun b => !f64IsNaN b).Pairwise fun a b => samLe a b = true :=
    (List.pairwise_mergeSort samLe_trans samLe_total vals).filter _
  have hmem : ∀ v ∈ (vals.mergeSort samLe).filter (fun b => !f64IsNaN b), f64IsNaN v = false ∧ v ∈ vals := by
    intro v hv
    obtain ⟨h1, h2⟩ := List.mem_filter.mp hv
    exact ⟨by simpa using h2, (List.mergeSort_perm vals samLe).mem_iff.mp h1⟩
  refine ⟨?_, ?_, ?_⟩
  · unfold samDrain
    cases hl : (vals.mergeSort samLe).filter (fun b => !f64IsNaN b) with
    | nil => simp [groupRuns]
    | cons v rest => rw [hl] at hsorted; exact (groupGo_sorted v 1 rest hsorted).2
  · unfold samDrain
    cases hl : (vals.mergeSort samLe).filter (fun b => !f64IsNaN b) with
    | nil => simp [groupRuns]
    | cons v rest =>
      rw [hl] at hmem
      intro r hr
      obtain ⟨h1, h2⟩ := groupGo_mem v 1 rest (by omega) r hr
      have hin : r.1 ∈ v :: rest := h2.elim (fun e => e ▸ List.mem_cons_self) fun m => List.mem_cons_of_mem _ m
      exact ⟨(hmem _ hin).1, h1, (hmem _ hin).2⟩
  · intro x
    unfold samDrain
    rw [groupRuns_count, valsCount_filter, valsCount_perm _ (List.mergeSort_perm vals samLe)]


/-! ### binary64: the exact value of a bit pattern and of its scaled truncation -/

/-- numerator / denominator of the magnitude of a finite binary64 (`mant · 2^(expo − 1075)`) -/
def f64Num (bits : Nat) : Nat :=
  if 1075 ≤ f64Expo bits then f64Mant bits * 2 ^ (f64Expo bits - 1075) else f64Mant bits
def f64Den (bits : Nat) : Nat :=
  if 1075 ≤ f64Expo bits then 1 else 2 ^ (1075 - f64Expo bits)

theorem f64Den_pos (bits : Nat) : 0 < f64Den bits := by
  unfold f64Den; split
  · omega
  · exact Nat.two_pow_pos _

/-- `(v * 2^s).min(u64::MAX as f64) as u64` is exactly `min ⌊2^s · v⌋ (2^64 − 1)` for every
non-NaN, non-negative `v`. -/
theorem scaleFloor_exact (s bits : Nat) (hnan : f64IsNaN bits = false) (hsign : f64Sign bits ≠ 1) :
    scaleFloorPow s bits = Nat.min (2 ^ s * f64Num bits / f64Den bits) u64Max := by
  unfold scaleFloorPow f64Num f64Den
  simp only [hnan, hsign, if_false, Bool.false_eq_true]
  generalize f64Mant bits = m
  generalize f64Expo bits = e
  congr 1
  by_cases h1 : 1075 ≤ e
  · have h2 : 1075 ≤ e + s := by omega
    rw [if_pos h1, if_pos h1, if_pos h2, Nat.div_one]
    have he : e + s - 1075 = s + (e - 1075) := by omega
    rw [he, Nat.pow_add, Nat.mul_left_comm]
  · rw [if_neg h1, if_neg h1]
    by_cases h2 : 1075 ≤ e + s
    · rw [if_pos h2]
      have hs : s = (1075 - e) + (e + s - 1075) := by omega
      have : 2 ^ s = 2 ^ (1075 - e) * 2 ^ (e + s - 1075) := by
        rw [← Nat.pow_add, ← hs]
      rw [this, Nat.mul_assoc, Nat.mul_div_cancel_left _ (Nat.two_pow_pos _), Nat.mul_comm]
    · rw [if_neg h2]
      have hs : 1075 - e = s + (1075 - (e + s)) := by omega
      have : 2 ^ (1075 - e) = 2 ^ s * 2 ^ (1075 - (e + s)) := by
        rw [← Nat.pow_add, ← hs]
      rw [this, Nat.mul_div_mul_left _ _ (Nat.two_pow_pos _)]

/-! ### observation capture: `add_value` over a list of observations -/

theorem recordAll_append (p : Params) (bs : List Nat) (a b : List (Nat × Nat)) :
    recordAll p bs (a ++ b) = recordAll p (recordAll p bs a) b := by
  induction a generalizing bs with
  | nil => rfl
  | cons r a ih => obtain ⟨v, n⟩ := r; simp only [List.cons_append, recordAll, ih]

/-- the capturer's loop is the fold of the single-observation step: it records exactly the captured
observations, in order; empty repeats are no-ops -/
theorem addValue_eq (ops : CaptureOps) (p : Params) (bs : List Nat) (obs : List Obs) :
    addValue ops p bs obs = recordAll p bs (captureAll ops obs) := by
  induction obs generalizing bs with
  | nil => rfl
  | cons o obs ih =>
    simp only [addValue, captureAll, List.filterMap_cons]
    cases h : captureStep ops o with
    | none => simpa [captureAll] using ih bs
    | some r => obtain ⟨v, n⟩ := r; simpa [captureAll, recordAll] using ih (recordMany p bs v n)

theorem addValues_eq (ops : CaptureOps) (p : Params) (bs : List Nat) (calls : List (List Obs)) :
    addValues ops p bs calls = recordAll p bs (calls.flatMap (captureAll ops)) := by
  induction calls generalizing bs with
  | nil => rfl
  | cons c calls ih => simp only [addValues, List.flatMap_cons, recordAll_append, ih, addValue_eq]

theorem countSum_append (a b : List (Nat × Nat)) : countSum (a ++ b) = countSum a + countSum b := by
  simp [countSum]

theorem countSum_captureAll (ops : CaptureOps) (obs : List Obs) :
    countSum (captureAll ops obs) = (obs.map Obs.count).sum := by
  induction obs with
  | nil => rfl
  | cons o obs ih =>
    simp only [captureAll, List.filterMap_cons, List.map_cons, List.sum_cons]
    cases o with
    | unsigned v => simp only [captureStep, countSum, List.map_cons, List.sum_cons, Obs.count]; simpa [countSum, captureAll] using ih
    | floating b => simp only [captureStep, countSum, List.map_cons, List.sum_cons, Obs.count]; simpa [countSum, captureAll] using ih
    | repeated t n =>
      by_cases hn : n > 0
      · simp only [captureStep, hn, if_true, countSum, List.map_cons, List.sum_cons, Obs.count]
        simpa [countSum, captureAll] using ih
      · have : n = 0 := by omega
        subst this
        simp only [captureStep, Nat.lt_irrefl, if_false, Obs.count, Nat.zero_add]
        simpa [captureAll] using ih

theorem countSum_flatMap_captureAll (ops : CaptureOps) (calls : List (List Obs)) :
    countSum (calls.flatMap (captureAll ops)) = (calls.flatten.map Obs.count).sum := by
  induction calls with
  | nil => rfl
  | cons c calls ih =>
    simp only [List.flatMap_cons, countSum_append, ih, countSum_captureAll, List.flatten_cons, List.map_append,
      List.sum_append]

theorem samRecordAll_append (vals : List Nat) (a b : List (Nat × Nat)) :
    samRecordAll vals (a ++ b) = samRecordAll (samRecordAll vals a) b := by
  induction a generalizing vals with
  | nil => rfl
  | cons r a ih => obtain ⟨v, n⟩ := r; simp only [List.cons_append, samRecordAll, ih]

theorem samAddValue_eq (ops : CaptureOps) (vals : List Nat) (obs : List Obs) :
    samAddValue ops vals obs = samRecordAll vals (captureAll ops obs) := by
  induction obs generalizing vals with
  | nil => rfl
  | cons o obs ih =>
    simp only [samAddValue, captureAll, List.filterMap_cons]
    cases h : captureStep ops o with
    | none => simpa [captureAll] using ih vals
    | some r => obtain ⟨v, n⟩ := r; simpa [captureAll, samRecordAll] using ih (samRecordMany vals v n)

theorem samAddValues_eq (ops : CaptureOps) (vals : List Nat) (calls : List (List Obs)) :
    samAddValues ops vals calls = samRecordAll vals (calls.flatMap (captureAll ops)) := by
  induction calls generalizing vals with
  | nil => rfl
  | cons c calls ih => simp only [samAddValues, List.flatMap_cons, samRecordAll_append, ih, samAddValue_eq]


end Histogram
