import Model.Aggregation
/-!
# C10 — aggregation conserves inputs: each merged entry is in exactly one aggregate

Theorems about the model in `Model/Aggregation.lean`, for every operation sequence / event sequence
(no bound on lengths, number of keys, producers or interleavings).
-/
namespace Aggregation

section Keyed
variable {κ ι α : Type} [DecidableEq κ]

/-! ## The association list -/

theorem find?_upsert (S : Strat ι α) (key : ι → κ) (st : List (κ × α)) (e : ι) (q : κ) :
    find? (upsert S key st e) q =
      if q = key e then some (S.merge ((find? st q).getD S.empty) e) else find? st q := by
  induction st with
  | nil =>
    by_cases h : q = key e
    · subst h; simp [upsert, find?]
    · have h' : ¬ key e = q := fun x => h x.symm
      simp [upsert, find?, h, h']
  | cons p rest ih =>
    obtain ⟨k, a⟩ := p
    by_cases hk : k = key e
    · subst hk
      by_cases hq : q = key e
      · subst hq; simp [upsert, find?]
      · have hq' : ¬ key e = q := fun x => hq x.symm
        simp [upsert, find?, hq, hq']
    · by_cases hq : q = key e
      · subst hq
        simp [upsert, find?, hk, ih]
      · by_cases hkq : k = q
        · subst hkq; simp [upsert, find?, hk]
        · simp [upsert, find?, hk, hkq, ih, hq]

theorem keys_upsert (S : Strat ι α) (key : ι → κ) (st : List (κ × α)) (e : ι) :
    (upsert S key st e).map (·.1) =
      if key e ∈ st.map (·.1) then st.map (·.1) else st.map (·.1) ++ [key e] := by
  induction st with
  | nil => simp [upsert]
  | cons p rest ih =>
    obtain ⟨k, a⟩ := p
    by_cases hk : k = key e
    · subst hk; simp [upsert]
    · have hk' : ¬ key e = k := fun x => hk x.symm
      simp only [upsert, hk, if_false, List.map_cons, ih, List.mem_cons, hk', false_or]
      split <;> simp

theorem nodup_upsert (S : Strat ι α) (key : ι → κ) (st : List (κ × α)) (e : ι)
    (h : (st.map (·.1)).Nodup) : ((upsert S key st e).map (·.1)).Nodup := by
  rw [keys_upsert]
  split
  · exact h
  · rename_i hn
    rw [List.nodup_append]
    refine ⟨h, by simp, ?_⟩
    intro a ha b hb
    simp at hb
    subst hb
    intro hab
    exact hn (hab ▸ ha)

theorem find?_eq_none_iff (st : List (κ × α)) (k : κ) : find? st k = none ↔ k ∉ st.map (·.1) := by
  induction st with
  | nil => simp [find?]
  | cons p rest ih =>
    obtain ⟨k', a⟩ := p
    by_cases h : k' = k
    · subst h; simp [find?]
    · have h' : ¬ k = k' := fun x => h x.symm
      simp [find?, h, h', ih]

theorem find?_eq_some_iff (st : List (κ × α)) (k : κ) (a : α) (h : (st.map (·.1)).Nodup) :
    find? st k = some a ↔ (k, a) ∈ st := by
  induction st with
  | nil => simp [find?]
  | cons p rest ih =>
    obtain ⟨k', a'⟩ := p
    simp only [List.map_cons, List.nodup_cons] at h
    by_cases hk : k' = k
    · subst hk
      simp only [find?, if_true, Option.some.injEq, List.mem_cons, Prod.mk.injEq, true_and]
      constructor
      · intro x; exact Or.inl x.symm
      · rintro (x | x)
        · exact x.symm
        · exact absurd (List.mem_map_of_mem (f := (·.1)) x) h.1
    · have hk' : ¬ k = k' := fun x => hk x.symm
      simp [find?, hk, hk', ih h.2]

/-! ## The invariant of one epoch: the storage is the per-key fold of the epoch's inputs -/

/-- the inputs of `k` among `inputs` -/
def group (key : ι → κ) (k : κ) (inputs : List ι) : List ι := inputs.filter fun e => key e = k

/-- the specified aggregate of a list of inputs -/
def foldAll (S : Strat ι α) (l : List ι) : α := l.foldl S.merge S.empty

def KInv (S : Strat ι α) (key : ι → κ) (inputs : List ι) (st : List (κ × α)) : Prop :=
  (st.map (·.1)).Nodup ∧
  ∀ k, find? st k = if group key k inputs = [] then none else some (foldAll S (group key k inputs))

theorem kinv_nil (S : Strat ι α) (key : ι → κ) : KInv S key [] [] := by
  simp [KInv, find?, group]

theorem kinv_upsert (S : Strat ι α) (key : ι → κ) (inputs : List ι) (st : List (κ × α)) (e : ι)
    (h : KInv S key inputs st) : KInv S key (inputs ++ [e]) (upsert S key st e) := by
  refine ⟨nodup_upsert S key st e h.1, fun k => ?_⟩
  rw [find?_upsert]
  by_cases hk : k = key e
  · subst hk
    have hg : group key (key e) (inputs ++ [e]) = group key (key e) inputs ++ [e] := by
      simp [group, List.filter_append]
    rw [hg]
    simp only [if_true, List.append_eq_nil_iff, List.cons_ne_nil, and_false, if_false]
    congr 1
    rw [h.2]
    unfold foldAll
    rw [List.foldl_append]
    split
    · rename_i hnil; simp [hnil]
    · simp
  · have hk' : ¬ key e = k := fun x => hk x.symm
    have hg : group key k (inputs ++ [e]) = group key k inputs := by
      simp [group, List.filter_append, hk']
    rw [hg]
    simp only [hk, if_false]
    exact h.2 k

/-- What "the aggregates `aggs` account for the inputs `inputs`" means:
one aggregate per distinct key, each the fold (per-field totals) of exactly the inputs of its key,
and the groups of the emitted keys partition the inputs (every input lies in exactly one). -/
structure Explains (S : Strat ι α) (key : ι → κ) (inputs : List ι) (aggs : List (κ × α)) : Prop where
  /-- at most one aggregate per key -/
  nodup : (aggs.map (·.1)).Nodup
  /-- an aggregate for exactly the keys that occur -/
  keys : ∀ k, k ∈ aggs.map (·.1) ↔ ∃ e ∈ inputs, key e = k
  /-- each aggregate is the merge, in order, of exactly the inputs with its key -/
  value : ∀ k a, (k, a) ∈ aggs → a = foldAll S (group key k inputs)
  /-- every input is counted in exactly one aggregate -/
  partition : (aggs.flatMap fun p => group key p.1 inputs).Perm inputs

theorem group_eq_nil_iff (key : ι → κ) (k : κ) (inputs : List ι) :
    group key k inputs = [] ↔ ¬ ∃ e ∈ inputs, key e = k := by
  simp [group, List.filter_eq_nil_iff]

theorem flatMap_congr' {β γ : Type} (l : List β) (f g : β → List γ) (h : ∀ x ∈ l, f x = g x) :
    l.flatMap f = l.flatMap g := by
  induction l with
  | nil => rfl
  | cons x xs ih =>
    simp only [List.flatMap_cons]
    rw [h x (by simp), ih (fun y hy => h y (by simp [hy]))]

/-- Splitting a list along a duplicate-free list of keys covering all its keys is a permutation. -/
theorem partition_perm (key : ι → κ) (ks : List κ) (hnd : ks.Nodup) (inputs : List ι)
    (hcov : ∀ e ∈ inputs, key e ∈ ks) :
    (ks.flatMap fun k => group key k inputs).Perm inputs := by
  induction ks generalizing inputs with
  | nil =>
    cases inputs with
    | nil => simp
    | cons e r => exact absurd (hcov e (by simp)) (by simp)
  | cons k ks ih =>
    simp only [List.nodup_cons] at hnd
    simp only [List.flatMap_cons]
    have hsplit : (group key k inputs ++ inputs.filter (fun e => !decide (key e = k))).Perm inputs :=
      List.filter_append_perm _ _
    refine List.Perm.trans ?_ hsplit
    refine List.Perm.append_left _ ?_
    have hrest := ih hnd.2 (inputs.filter (fun e => !decide (key e = k))) (by
      intro e he
      simp only [List.mem_filter, Bool.not_eq_eq_eq_not, Bool.not_true, decide_eq_false_iff_not] at he
      have := hcov e he.1
      simp only [List.mem_cons] at this
      rcases this with h | h
      · exact absurd h he.2
      · exact h)
    refine List.Perm.trans (List.Perm.of_eq ?_) hrest
    apply flatMap_congr'
    intro k' hk'
    have hne : k' ≠ k := fun x => hnd.1 (x ▸ hk')
    simp only [group, List.filter_filter]
    apply List.filter_congr
    intro e _
    by_cases h : key e = k'
    · simp [h, hne]
    · simp [h]

theorem explains_of_kinv (S : Strat ι α) (key : ι → κ) (inputs : List ι) (st : List (κ × α))
    (h : KInv S key inputs st) : Explains S key inputs st := by
  have hkeys : ∀ k, k ∈ st.map (·.1) ↔ ∃ e ∈ inputs, key e = k := by
    intro k
    have := find?_eq_none_iff st k
    rw [h.2 k] at this
    by_cases hg : group key k inputs = []
    · simp only [hg, if_true, true_iff] at this
      rw [group_eq_nil_iff] at hg
      exact ⟨fun x => absurd x this, fun x => absurd x hg⟩
    · simp only [hg, if_false, reduceCtorEq, false_iff, Classical.not_not] at this
      rw [group_eq_nil_iff, Classical.not_not] at hg
      exact ⟨fun _ => hg, fun _ => this⟩
  refine ⟨h.1, hkeys, ?_, ?_⟩
  · intro k a hmem
    have hf := (find?_eq_some_iff st k a h.1).mpr hmem
    rw [h.2 k] at hf
    split at hf
    · cases hf
    · exact (Option.some.inj hf).symm
  · have := partition_perm key (st.map (·.1)) h.1 inputs (fun e he => (hkeys (key e)).mpr ⟨e, he, rfl⟩)
    simpa [List.flatMap_map] using this

/-! ## Operation sequences -/

def RInv (S : Strat ι α) (key : ι → κ) (s : KState κ α) (h : Epochs ι) : Prop :=
  KInv S key h.cur s.storage ∧ s.emitted.length = h.done.length ∧
  ∀ p ∈ List.zip h.done s.emitted, Explains S key p.1 p.2

theorem rinv_step (S : Strat ι α) (key : ι → κ) (s : KState κ α) (h : Epochs ι) (op : Op ι)
    (inv : RInv S key s h) : RInv S key (kstep S key s op) (estep h op) := by
  obtain ⟨hk, hl, hz⟩ := inv
  cases op with
  | merge e => exact ⟨kinv_upsert S key h.cur s.storage e hk, hl, hz⟩
  | flush =>
    refine ⟨kinv_nil S key, by simp [kstep, estep, hl], ?_⟩
    intro p hp
    simp only [kstep, estep] at hp
    rw [List.zip_append hl.symm] at hp
    simp only [List.zip_cons_cons, List.zip_nil_right, List.mem_append, List.mem_cons, List.not_mem_nil,
      or_false] at hp
    rcases hp with hp | hp
    · exact hz p hp
    · subst hp; exact explains_of_kinv S key _ _ hk

theorem rinv_run (S : Strat ι α) (key : ι → κ) (ops : List (Op ι)) (s : KState κ α) (h : Epochs ι)
    (inv : RInv S key s h) : RInv S key (krun S key s ops) (epochs h ops) := by
  induction ops generalizing s h with
  | nil => exact inv
  | cons op ops ih => exact ih _ _ (rinv_step S key s h op inv)

/-- **C10, conservation.** For every `Merge` implementation, every key function and every sequence
of `merge e | flush` operations on a fresh `KeyedAggregator`: there is one emission per flush; the
aggregates emitted by the i-th flush account for exactly the inputs merged between flush i-1 and
flush i (one aggregate per distinct key, each the in-order merge of exactly the inputs of its key,
the groups partitioning the epoch's inputs); and what is still held accounts for the inputs since
the last flush. -/
theorem c10_conservation (S : Strat ι α) (key : ι → κ) (ops : List (Op ι)) :
    (krun S key {} ops).emitted.length = (epochs {} ops).done.length ∧
    (∀ p ∈ List.zip (epochs {} ops).done (krun S key {} ops).emitted, Explains S key p.1 p.2) ∧
    Explains S key (epochs {} ops).cur (krun S key {} ops).storage := by
  have h := rinv_run S key ops {} {} ⟨kinv_nil S key, rfl, by simp⟩
  exact ⟨h.2.1, h.2.2, explains_of_kinv S key _ _ h.1⟩

/-- all inputs of an operation sequence, in order -/
def inputsOf : List (Op ι) → List ι
  | [] => []
  | .merge e :: ops => e :: inputsOf ops
  | .flush :: ops => inputsOf ops

def flushCount : List (Op ι) → Nat
  | [] => 0
  | .merge _ :: ops => flushCount ops
  | .flush :: ops => flushCount ops + 1

theorem epochs_spec (ops : List (Op ι)) (h : Epochs ι) :
    (epochs h ops).done.flatten ++ (epochs h ops).cur = h.done.flatten ++ h.cur ++ inputsOf ops ∧
    (epochs h ops).done.length = h.done.length + flushCount ops := by
  induction ops generalizing h with
  | nil => simp [epochs, inputsOf, flushCount]
  | cons op ops ih =>
    have := ih (estep h op)
    simp only [epochs, List.foldl_cons] at this ⊢
    cases op with
    | merge e => simp [estep, inputsOf, flushCount] at this ⊢; exact this
    | flush => simp [estep, inputsOf, flushCount] at this ⊢; exact ⟨this.1, by omega⟩

/-- **C10: every input belongs to exactly one epoch.** The epochs, in order, followed by the open
tail are exactly the inputs of the operation sequence, in order, and there is one epoch per flush. -/
theorem c10_epochs_partition (ops : List (Op ι)) :
    (epochs {} ops).done.flatten ++ (epochs {} ops).cur = inputsOf ops ∧
    (epochs {} ops).done.length = flushCount ops := by
  have := epochs_spec ops ({} : Epochs ι)
  simpa using this

/-- embedded `Aggregate<T>`: the one aggregate is the in-order merge of every inserted entry -/
theorem c10_embedded (S : Strat ι α) (inputs : List ι) (e : ι) :
    embedded S (inputs ++ [e]) = S.merge (embedded S inputs) e ∧ embedded S [] = S.empty := by
  simp [embedded, List.foldl_append]

end Keyed

/-! ## `TeeSink` -/

theorem tee_run {σ τ ι : Type} (stepA : σ → Op ι → σ) (stepB : τ → Op ι → τ) (ops : List (Op ι)) (s : σ × τ) :
    ops.foldl (teeStep stepA stepB) s = (ops.foldl stepA s.1, ops.foldl stepB s.2) := by
  induction ops generalizing s with
  | nil => rfl
  | cons op ops ih => simp [List.foldl_cons, ih, teeStep]

theorem raw_run {ι : Type} (ops : List (Op ι)) (s : List ι) : ops.foldl rawStep s = s ++ inputsOf ops := by
  induction ops generalizing s with
  | nil => simp [inputsOf]
  | cons op ops ih => cases op <;> simp [List.foldl_cons, ih, rawStep, inputsOf]

/-- **C10, tee.** A `TeeSink` of two keyed aggregators (any two key functions) and a non-aggregating
branch: each keyed branch is in exactly the state it would be in had it received the operation
sequence alone, hence satisfies `c10_conservation`; the raw branch received every input once, in order. -/
theorem c10_tee {κ₁ κ₂ ι α : Type} [DecidableEq κ₁] [DecidableEq κ₂] (S : Strat ι α)
    (keyA : ι → κ₁) (keyB : ι → κ₂) (ops : List (Op ι)) :
    let s := ops.foldl (teeStep (kstep S keyA) (teeStep (kstep S keyB) rawStep)) ({}, ({}, []))
    s.1 = krun S keyA {} ops ∧ s.2.1 = krun S keyB {} ops ∧ s.2.2 = inputsOf ops ∧
    (∀ p ∈ List.zip (epochs {} ops).done s.1.emitted, Explains S keyA p.1 p.2) ∧
    (∀ p ∈ List.zip (epochs {} ops).done s.2.1.emitted, Explains S keyB p.1 p.2) ∧
    s.1.emitted.length = flushCount ops ∧ s.2.1.emitted.length = flushCount ops := by
  intro s
  have h1 : s.1 = krun S keyA {} ops := by simp [s, tee_run, krun]
  have h2 : s.2.1 = krun S keyB {} ops := by simp [s, tee_run, krun]
  have h3 : s.2.2 = inputsOf ops := by simp [s, tee_run, raw_run]
  have cA := c10_conservation S keyA ops
  have cB := c10_conservation S keyB ops
  have hp := (c10_epochs_partition ops).2
  refine ⟨h1, h2, h3, ?_, ?_, ?_, ?_⟩
  · rw [h1]; exact cA.2.1
  · rw [h2]; exact cB.2.1
  · rw [h1, cA.1, hp]
  · rw [h2, cB.1, hp]

/-! ## `MutexSink<Aggregate<T>>`: `close` is a function of the shared state, not of the handles -/

section Mutex
variable {ι α : Type}

def mopsOf (ops : List (MOp ι)) : List (Op ι) := ops.filterMap MOp.toOp

@[simp] theorem toOp_clone : MOp.toOp (MOp.clone : MOp ι) = none := rfl
@[simp] theorem toOp_dropHandle : MOp.toOp (MOp.dropHandle : MOp ι) = none := rfl

theorem mrun_spec (S : Strat ι α) (ops : List (MOp ι)) (s : MState α) (h : Epochs ι)
    (hs : s.shared = foldAll S h.cur) (he : s.emitted = h.done.map (foldAll S)) :
    (mrun S s ops).shared = foldAll S (epochs h (mopsOf ops)).cur ∧
    (mrun S s ops).emitted = (epochs h (mopsOf ops)).done.map (foldAll S) := by
  induction ops generalizing s h with
  | nil => exact ⟨hs, he⟩
  | cons op ops ih =>
    cases op with
    | merge e =>
      have := ih (mstep S s (.merge e)) (estep h (.merge e))
        (by simp [mstep, estep, hs, foldAll, List.foldl_append]) (by simpa [mstep, estep] using he)
      simpa [mrun, mopsOf, MOp.toOp, epochs] using this
    | close =>
      have := ih (mstep S s .close) (estep h .flush)
        (by simp [mstep, estep, foldAll]) (by simp [mstep, estep, he, hs])
      simpa [mrun, mopsOf, MOp.toOp, epochs] using this
    | clone =>
      have := ih (mstep S s .clone) h (by simpa [mstep] using hs) (by simpa [mstep] using he)
      simpa [mrun, mopsOf, List.filterMap_cons, epochs] using this
    | dropHandle =>
      have := ih (mstep S s .dropHandle) h (by simpa [mstep] using hs) (by simpa [mstep] using he)
      simpa [mrun, mopsOf, List.filterMap_cons, epochs] using this

/-- **C10, mutex-shared aggregate.** For every `Merge` implementation, every initial number of handles
and every sequence of merges (through any handle or guard), closes (of any handle), clones and drops:
the i-th close returns the in-order merge of exactly the entries merged between close i-1 and close i,
and the shared accumulator holds the merge of the entries since the last close. Clones and drops do
not appear on the right-hand side: `close` is a function of the shared state, not of how many other
handles or merge-on-drop guards are alive; entries merged through surviving handles after a close
belong to the next close. -/
theorem c10_mutex_close_ignores_handles (S : Strat ι α) (n : Nat) (ops : List (MOp ι)) :
    (mrun S { shared := S.empty, handles := n } ops).emitted =
      (epochs {} (mopsOf ops)).done.map (foldAll S) ∧
    (mrun S { shared := S.empty, handles := n } ops).shared = foldAll S (epochs {} (mopsOf ops)).cur := by
  have := mrun_spec S ops { shared := S.empty, handles := n } {} (by simp [foldAll]) (by simp)
  exact ⟨this.2, this.1⟩

end Mutex

/-! ## The field strategies of the harness struct -/

theorem fold_call (l : List Input) (a : Accum) :
    (l.foldl callStrat.merge a).bytes = a.bytes + (l.map (·.bytes)).sum ∧
    (l.foldl callStrat.merge a).vals = a.vals ++ l.flatMap (fun e => expandObs e.obs) ∧
    (l.foldl callStrat.merge a).opt = a.opt + (l.filterMap (·.opt)).sum ∧
    (l.foldl callStrat.merge a).inner.count = a.inner.count + (l.map (·.inner)).sum := by
  induction l generalizing a with
  | nil => simp
  | cons e l ih =>
    obtain ⟨h1, h2, h3, h4⟩ := ih (callStrat.merge a e)
    simp only [List.foldl_cons]
    refine ⟨?_, ?_, ?_, ?_⟩
    · rw [h1]; simp [callStrat]; omega
    · rw [h2]; simp [callStrat]
    · rw [h3]
      cases ho : e.opt with
      | none => simp [callStrat, ho]
      | some v => simp [callStrat, ho]; omega
    · rw [h4]; simp [callStrat, innerStrat]; omega

theorem fold_call_last (l : List Input) (a : Accum) :
    (l.foldl callStrat.merge a).last = match l.getLast? with
      | some e => some e.last
      | none => a.last := by
  induction l generalizing a with
  | nil => simp
  | cons e l ih =>
    simp only [List.foldl_cons]
    rw [ih]
    cases l with
    | nil => simp [callStrat]
    | cons y ys =>
      rw [List.getLast?_cons_cons]
      cases h : (y :: ys).getLast? with
      | none => simp at h
      | some z => rfl

/-- **C10, fields.** The aggregate of a group of inputs: `Sum` fields are the sums, the `KeepLast`
field is the last input's value, the `Distribution` holds exactly the inputs' observations (each
`occurrences` times, in order), `MergeOptions<Sum>` sums the present values, the flattened nested
aggregate sums its field. -/
theorem c10_fields (l : List Input) :
    (foldAll callStrat l).bytes = (l.map (·.bytes)).sum ∧
    (foldAll callStrat l).last = l.getLast?.map (·.last) ∧
    (foldAll callStrat l).vals = l.flatMap (fun e => expandObs e.obs) ∧
    (foldAll callStrat l).opt = (l.filterMap (·.opt)).sum ∧
    (foldAll callStrat l).inner.count = (l.map (·.inner)).sum := by
  obtain ⟨h1, h2, h3, h4⟩ := fold_call l callStrat.empty
  have h5 := fold_call_last l callStrat.empty
  refine ⟨by simpa [foldAll, callStrat] using h1, ?_, by simpa [foldAll, callStrat] using h2,
    by simpa [foldAll, callStrat] using h3, by simpa [foldAll, callStrat, innerStrat] using h4⟩
  unfold foldAll
  rw [h5]
  cases l.getLast? <;> simp [callStrat]

/-! ## `SortAndMerge::drain` -/

theorem count_insertSorted (x v : Nat) (l : List Nat) :
    (insertSorted x l).count v = (x :: l).count v := by
  induction l with
  | nil => simp [insertSorted]
  | cons y ys ih =>
    simp only [insertSorted]
    split
    · rfl
    · simp only [List.count_cons] at ih ⊢
      omega

theorem count_isort (v : Nat) (l : List Nat) : (isort l).count v = l.count v := by
  induction l with
  | nil => simp [isort]
  | cons x xs ih => simp only [isort, count_insertSorted, List.count_cons, ih]

theorem occ_rleGo (v cur cnt : Nat) (vs : List Nat) :
    occ v (rleGo cur cnt vs) = (if cur = v then cnt else 0) + vs.count v := by
  induction vs generalizing cur cnt with
  | nil => simp [rleGo, occ]
  | cons x xs ih =>
    simp only [rleGo]
    split
    · rename_i h
      subst h
      rw [ih]
      simp only [List.count_cons, beq_iff_eq]
      split <;> omega
    · rename_i h
      have : occ v ((cur, cnt) :: rleGo x 1 xs) = (if cur = v then cnt else 0) + occ v (rleGo x 1 xs) := by
        simp [occ]
      rw [this, ih]
      simp only [List.count_cons, beq_iff_eq]
      split <;> split <;> omega

/-- **C10, distribution.** Closing a `Distribution` conserves the observations by count: for every
value the occurrences reported by the drained distribution are the number of times it was recorded. -/
theorem c10_distribution_counts (vals : List Nat) (v : Nat) : occ v (drain vals) = vals.count v := by
  unfold drain
  have h := count_isort v vals
  cases hs : isort vals with
  | nil => rw [hs] at h; simp [occ, ← h]
  | cons first rest =>
    rw [hs] at h
    simp only [occ_rleGo]
    rw [← h, List.count_cons]
    simp only [beq_iff_eq]
    split <;> omega

theorem sorted_insertSorted (x : Nat) (l : List Nat) (h : l.Pairwise (· ≤ ·)) :
    (insertSorted x l).Pairwise (· ≤ ·) ∧ ∀ y ∈ insertSorted x l, y = x ∨ y ∈ l := by
  induction l with
  | nil => simp [insertSorted]
  | cons y ys ih =>
    simp only [List.pairwise_cons] at h
    obtain ⟨ihs, ihm⟩ := ih h.2
    simp only [insertSorted]
    split
    · rename_i hle
      refine ⟨?_, by simp⟩
      simp only [List.pairwise_cons, List.mem_cons]
      refine ⟨?_, h.1, h.2⟩
      rintro a (rfl | ha)
      · exact hle
      · exact Nat.le_trans hle (h.1 a ha)
    · rename_i hgt
      refine ⟨?_, ?_⟩
      · simp only [List.pairwise_cons]
        refine ⟨?_, ihs⟩
        intro a ha
        rcases ihm a ha with rfl | ha
        · omega
        · exact h.1 a ha
      · intro a ha
        simp only [List.mem_cons] at ha ⊢
        rcases ha with rfl | ha
        · exact Or.inr (Or.inl rfl)
        · rcases ihm a ha with rfl | ha
          · exact Or.inl rfl
          · exact Or.inr (Or.inr ha)

theorem sorted_isort (l : List Nat) : (isort l).Pairwise (· ≤ ·) := by
  induction l with
  | nil => simp [isort]
  | cons x xs ih => exact (sorted_insertSorted x (isort xs) ih).1

theorem rleGo_increasing (cur cnt : Nat) (vs : List Nat) (hcnt : 0 < cnt)
    (hle : ∀ x ∈ vs, cur ≤ x) (hs : vs.Pairwise (· ≤ ·)) :
    ((rleGo cur cnt vs).map (·.1)).Pairwise (· < ·) ∧ (∀ p ∈ rleGo cur cnt vs, cur ≤ p.1 ∧ 0 < p.2) := by
  induction vs generalizing cur cnt with
  | nil => simp [rleGo, hcnt]
  | cons x xs ih =>
    simp only [List.pairwise_cons] at hs
    simp only [rleGo]
    split
    · rename_i h
      subst h
      exact ih x (cnt + 1) (by omega) (fun y hy => hs.1 y hy) hs.2
    · rename_i h
      have hx : cur < x := by
        have := hle x (by simp)
        omega
      obtain ⟨i1, i2⟩ := ih x 1 (by omega) (fun y hy => hs.1 y hy) hs.2
      refine ⟨?_, ?_⟩
      · simp only [List.map_cons, List.pairwise_cons]
        refine ⟨?_, i1⟩
        intro a ha
        simp only [List.mem_map] at ha
        obtain ⟨p, hp, rfl⟩ := ha
        have := (i2 p hp).1
        omega
      · intro p hp
        simp only [List.mem_cons] at hp
        rcases hp with rfl | hp
        · exact ⟨Nat.le_refl _, hcnt⟩
        · have := i2 p hp
          exact ⟨by omega, this.2⟩

/-- **C10, distribution shape.** The drained distribution lists every distinct value once (values
strictly increasing), each with a positive count. -/
theorem c10_distribution_one_entry_per_value (vals : List Nat) :
    ((drain vals).map (·.1)).Pairwise (· < ·) ∧ ∀ p ∈ drain vals, 0 < p.2 := by
  unfold drain
  have hs := sorted_isort vals
  cases h : isort vals with
  | nil => simp
  | cons first rest =>
    rw [h] at hs
    simp only [List.pairwise_cons] at hs
    have := rleGo_increasing first 1 rest (by omega) hs.1 hs.2
    exact ⟨this.1, fun p hp => (this.2 p hp).2⟩

/-! ## `WorkerSink`: producers' sends interleave arbitrarily with the worker's steps -/

section Worker
variable {ι : Type}

/-- the messages put on the channel by an event sequence, in order -/
def sentMsgs : List (Event ι) → List (Msg ι)
  | [] => []
  | ev :: evs => (match ev with
    | .send e => [.entry e]
    | .sendFlush => [.flush]
    | _ => []) ++ sentMsgs evs

def IOp.msg? : IOp ι → Option (Msg ι)
  | .merge e => some (.entry e)
  | .flushReq => some .flush
  | _ => none

/-- the channel messages the worker has consumed, in order (timed / final flushes come from no message) -/
def msgsOf (ops : List (IOp ι)) : List (Msg ι) := ops.filterMap IOp.msg?

@[simp] theorem msg?_merge (e : ι) : IOp.msg? (IOp.merge e) = some (Msg.entry e) := rfl
@[simp] theorem msg?_flushReq : IOp.msg? (IOp.flushReq : IOp ι) = some Msg.flush := rfl
@[simp] theorem msg?_flushTimer : IOp.msg? (IOp.flushTimer : IOp ι) = none := rfl
@[simp] theorem msg?_flushFinal : IOp.msg? (IOp.flushFinal : IOp ι) = none := rfl

def countFlush : List (Msg ι) → Nat
  | [] => 0
  | .flush :: l => countFlush l + 1
  | .entry _ :: l => countFlush l

def entriesOf : List (Msg ι) → List ι
  | [] => []
  | .entry e :: l => e :: entriesOf l
  | .flush :: l => entriesOf l

theorem sentMsgs_append (a b : List (Event ι)) : sentMsgs (a ++ b) = sentMsgs a ++ sentMsgs b := by
  induction a with
  | nil => rfl
  | cons ev a ih => simp [sentMsgs, ih]

theorem msgsOf_append (a b : List (IOp ι)) : msgsOf (a ++ b) = msgsOf a ++ msgsOf b := by
  simp [msgsOf]

theorem countFlush_append (a b : List (Msg ι)) : countFlush (a ++ b) = countFlush a + countFlush b := by
  induction a with
  | nil => simp [countFlush]
  | cons m a ih => cases m <;> simp [countFlush, ih] <;> omega

/-- invariant: answered flush requests are the consumed flush messages; an exited worker has an
empty channel, no sender, and its last action was the final flush -/
def WInv (s : WState ι) : Prop :=
  s.flushDone = countFlush (msgsOf s.innerOps) ∧
  (s.exited = true → s.chan = [] ∧ s.handles = 0 ∧ s.innerOps.getLast? = some .flushFinal)

theorem winv_init : WInv ({} : WState ι) := by simp [WInv, msgsOf, countFlush]

theorem wstep_spec (s s' : WState ι) (ev : Event ι) (h : wstep s ev = some s') :
    msgsOf s'.innerOps ++ s'.chan = msgsOf s.innerOps ++ s.chan ++ sentMsgs [ev] ∧ (WInv s → WInv s') := by
  cases ev with
  | send e =>
    simp only [wstep] at h
    split at h
    · cases h
    · rename_i hh
      cases h
      refine ⟨by simp [sentMsgs], ?_⟩
      intro ⟨i1, i2⟩
      refine ⟨i1, fun hx => ?_⟩
      have := i2 hx
      exact absurd this.2.1 hh
  | sendFlush =>
    simp only [wstep] at h
    split at h
    · cases h
    · rename_i hh
      cases h
      refine ⟨by simp [sentMsgs], ?_⟩
      intro ⟨i1, i2⟩
      refine ⟨i1, fun hx => ?_⟩
      have := i2 hx
      exact absurd this.2.1 hh
  | clone =>
    simp only [wstep] at h
    split at h
    · cases h
    · rename_i hh
      cases h
      refine ⟨by simp [sentMsgs], ?_⟩
      intro ⟨i1, i2⟩
      refine ⟨i1, fun hx => ?_⟩
      have := i2 hx
      exact absurd this.2.1 hh
  | dropHandle =>
    simp only [wstep] at h
    split at h
    · cases h
    · rename_i hh
      cases h
      refine ⟨by simp [sentMsgs], ?_⟩
      intro ⟨i1, i2⟩
      refine ⟨i1, fun hx => ?_⟩
      have := i2 hx
      exact absurd this.2.1 hh
  | recv timed =>
    simp only [wstep] at h
    split at h
    · cases h
    · rename_i hex
      split at h
      · cases h
      · rename_i e rest hc
        cases h
        refine ⟨?_, ?_⟩
        · cases timed <;> simp [sentMsgs, msgsOf, IOp.msg?, hc]
        · intro ⟨i1, i2⟩
          refine ⟨?_, fun hx => absurd hx hex⟩
          cases timed <;> simp [msgsOf, IOp.msg?, countFlush_append, countFlush] <;> exact i1
      · rename_i rest hc
        cases h
        refine ⟨by simp [sentMsgs, msgsOf, IOp.msg?, hc], ?_⟩
        intro ⟨i1, i2⟩
        refine ⟨?_, fun hx => absurd hx hex⟩
        simp [msgsOf, IOp.msg?, countFlush_append, countFlush]
        exact i1
  | timeout =>
    simp only [wstep] at h
    split at h
    · cases h
    · rename_i hh
      cases h
      simp only [Bool.or_eq_true, Bool.not_eq_eq_eq_not, Bool.not_true, decide_eq_true_eq, not_or] at hh
      refine ⟨by simp [sentMsgs, msgsOf, IOp.msg?], ?_⟩
      intro ⟨i1, i2⟩
      refine ⟨?_, fun hx => ?_⟩
      · simpa [msgsOf, List.filterMap_cons] using i1
      · exact absurd hx (by simpa using hh.1.1)
  | disconnect =>
    simp only [wstep] at h
    split at h
    · cases h
    · rename_i hh
      cases h
      simp only [Bool.or_eq_true, Bool.not_eq_eq_eq_not, Bool.not_true, decide_eq_true_eq, not_or] at hh
      refine ⟨by simp [sentMsgs, msgsOf, IOp.msg?], ?_⟩
      intro ⟨i1, i2⟩
      refine ⟨?_, fun _ => ⟨?_, ?_, by simp⟩⟩
      · simpa [msgsOf, List.filterMap_cons] using i1
      · simpa using hh.1.2
      · simpa using hh.2

theorem wrun_spec (evs : List (Event ι)) (s s' : WState ι) (h : wrun s evs = some s') :
    msgsOf s'.innerOps ++ s'.chan = msgsOf s.innerOps ++ s.chan ++ sentMsgs evs ∧ (WInv s → WInv s') := by
  induction evs generalizing s with
  | nil => simp only [wrun] at h; cases h; simp [sentMsgs]
  | cons ev evs ih =>
    simp only [wrun] at h
    split at h
    · cases h
    · rename_i s1 hs1
      obtain ⟨a1, a2⟩ := wstep_spec s s1 ev hs1
      obtain ⟨b1, b2⟩ := ih s1 h
      refine ⟨?_, fun x => b2 (a2 x)⟩
      rw [b1, a1]
      simp [sentMsgs]

/-- **C10, the channel is FIFO and lossless.** In every reachable state (any interleaving of any
number of producers, clones, drops, timed flushes and worker steps): what the worker has merged or
answered, followed by what is still in the channel, is exactly what was sent, in order — no entry
is lost, duplicated or overtaken by a flush request. -/
theorem c10_worker_fifo (evs : List (Event ι)) (s : WState ι) (h : wrun {} evs = some s) :
    msgsOf s.innerOps ++ s.chan = sentMsgs evs ∧ s.flushDone = countFlush (msgsOf s.innerOps) := by
  obtain ⟨a, b⟩ := wrun_spec evs {} s h
  exact ⟨by simpa [msgsOf] using a, (b winv_init).1⟩

theorem prefix_of_more_flushes (p q m c : List (Msg ι)) (h : m ++ c = p ++ .flush :: q)
    (hc : countFlush p < countFlush m) : ∃ m', m = p ++ .flush :: m' := by
  induction p generalizing m with
  | nil =>
    cases m with
    | nil => simp [countFlush] at hc
    | cons x m'' =>
      simp only [List.cons_append, List.nil_append, List.cons.injEq] at h
      exact ⟨m'', by simp [h.1]⟩
  | cons x p ih =>
    cases m with
    | nil => simp [countFlush] at hc
    | cons y m'' =>
      simp only [List.cons_append, List.cons.injEq] at h
      obtain ⟨rfl, h2⟩ := h
      have hc' : countFlush p < countFlush m'' := by
        cases y <;> simp [countFlush] at hc <;> omega
      obtain ⟨m', hm'⟩ := ih m'' h2 hc'
      exact ⟨m', by simp [hm']⟩

theorem msgsOf_split (ops : List (IOp ι)) (p m' : List (Msg ι)) (h : msgsOf ops = p ++ .flush :: m') :
    ∃ a b, ops = a ++ .flushReq :: b ∧ msgsOf a = p := by
  induction ops generalizing p with
  | nil => simp [msgsOf] at h
  | cons o rest ih =>
    cases o with
    | merge e =>
      cases p with
      | nil => simp [msgsOf, IOp.msg?] at h
      | cons x p' =>
        simp only [msgsOf, List.filterMap_cons, IOp.msg?, List.cons_append, List.cons.injEq] at h
        obtain ⟨a, b, h1, h2⟩ := ih p' h.2
        exact ⟨.merge e :: a, b, by simp [h1], by simp [msgsOf, IOp.msg?, ← h2, h.1]⟩
    | flushReq =>
      cases p with
      | nil => exact ⟨[], rest, rfl, rfl⟩
      | cons x p' =>
        simp only [msgsOf, List.filterMap_cons, IOp.msg?, List.cons_append, List.cons.injEq] at h
        obtain ⟨a, b, h1, h2⟩ := ih p' h.2
        exact ⟨.flushReq :: a, b, by simp [h1], by simp [msgsOf, IOp.msg?, ← h2, h.1]⟩
    | flushTimer =>
      simp only [msgsOf, List.filterMap_cons, IOp.msg?] at h
      obtain ⟨a, b, h1, h2⟩ := ih p h
      exact ⟨.flushTimer :: a, b, by simp [h1], by simp [msgsOf, List.filterMap_cons, ← h2]⟩
    | flushFinal =>
      simp only [msgsOf, List.filterMap_cons, IOp.msg?] at h
      obtain ⟨a, b, h1, h2⟩ := ih p h
      exact ⟨.flushFinal :: a, b, by simp [h1], by simp [msgsOf, List.filterMap_cons, ← h2]⟩

/-- **C10, flush barrier.** Take any interleaving in which a flush request is sent after the events
`pre`. In any later state in which that request has been answered (`flushDone` exceeds the number
of flush requests sent before it; requests are answered in channel order), the worker's history
splits as `a ++ flushReq :: b` where the messages consumed in `a` are *exactly* the messages sent
before the request, in order: every entry sent before `Flush i` was merged before the flush that
answers it, none later, none twice. -/
theorem c10_worker_flush_barrier (pre post : List (Event ι)) (s : WState ι)
    (h : wrun {} (pre ++ .sendFlush :: post) = some s)
    (hdone : countFlush (sentMsgs pre) < s.flushDone) :
    ∃ a b, s.innerOps = a ++ .flushReq :: b ∧ msgsOf a = sentMsgs pre := by
  obtain ⟨h1, h2⟩ := c10_worker_fifo _ s h
  rw [sentMsgs_append] at h1
  have h1' : msgsOf s.innerOps ++ s.chan = sentMsgs pre ++ .flush :: sentMsgs post := by
    rw [h1]; simp [sentMsgs]
  rw [h2] at hdone
  obtain ⟨m', hm'⟩ := prefix_of_more_flushes _ _ _ _ h1' hdone
  exact msgsOf_split _ _ _ hm'

/-! ### after the last handle is gone -/

/-- remaining worker steps: one per queued message plus the final one -/
def mu (s : WState ι) : Nat := if s.exited then 0 else s.chan.length + 1

theorem wstep_no_handles (s s' : WState ι) (ev : Event ι) (h0 : s.handles = 0) (h : wstep s ev = some s') :
    s'.handles = 0 ∧ mu s' + 1 = mu s := by
  cases ev with
  | send e => simp [wstep, h0] at h
  | sendFlush => simp [wstep, h0] at h
  | clone => simp [wstep, h0] at h
  | dropHandle => simp [wstep, h0] at h
  | timeout => simp [wstep, h0] at h
  | recv timed =>
    simp only [wstep] at h
    split at h
    · cases h
    · rename_i hex
      split at h
      · cases h
      · rename_i e rest hc
        cases h
        simp [mu, hex, hc, h0]
      · rename_i rest hc
        cases h
        simp [mu, hex, hc, h0]
  | disconnect =>
    simp only [wstep] at h
    split at h
    · cases h
    · rename_i hh
      cases h
      simp only [Bool.or_eq_true, Bool.not_eq_eq_eq_not, Bool.not_true, decide_eq_true_eq, not_or] at hh
      have hex : s.exited = false := by simpa using hh.1.1
      have hc : s.chan = [] := by simpa using hh.1.2
      simp [mu, hex, hc, h0]

theorem wrun_no_handles (evs : List (Event ι)) (s s' : WState ι) (h0 : s.handles = 0)
    (h : wrun s evs = some s') : s'.handles = 0 ∧ mu s' + evs.length = mu s := by
  induction evs generalizing s with
  | nil => simp only [wrun] at h; cases h; simp [h0]
  | cons ev evs ih =>
    simp only [wrun] at h
    split at h
    · cases h
    · rename_i s1 hs1
      obtain ⟨a1, a2⟩ := wstep_no_handles s s1 ev h0 hs1
      obtain ⟨b1, b2⟩ := ih s1 a1 h
      exact ⟨b1, by simp only [List.length_cons]; omega⟩

theorem worker_progress (s : WState ι) (h0 : s.handles = 0) (hex : s.exited = false) :
    ∃ ev s', workerMove s = some ev ∧ wstep s ev = some s' := by
  have : ∃ ev, workerMove s = some ev ∧ (wstep s ev).isSome := by
    cases hc : s.chan with
    | nil => exact ⟨.disconnect, by simp [workerMove, hex, hc], by simp [wstep, hex, hc, h0]⟩
    | cons m rest =>
      cases m with
      | entry e => exact ⟨.recv false, by simp [workerMove, hex, hc], by simp [wstep, hex, hc]⟩
      | flush => exact ⟨.recv false, by simp [workerMove, hex, hc], by simp [wstep, hex, hc]⟩
  obtain ⟨ev, h1, h2⟩ := this
  obtain ⟨s', hs'⟩ := Option.isSome_iff_exists.mp h2
  exact ⟨ev, s', h1, hs'⟩

/-- no producer event is enabled without a handle -/
theorem sent_nil_no_handles (evs : List (Event ι)) (s s' : WState ι) (h0 : s.handles = 0)
    (h : wrun s evs = some s') : sentMsgs evs = [] := by
  induction evs generalizing s with
  | nil => rfl
  | cons ev evs ih =>
    simp only [wrun] at h
    split at h
    · cases h
    · rename_i s1 hs1
      have hh := (wstep_no_handles s s1 ev h0 hs1).1
      have := ih s1 hh h
      cases ev <;> simp_all [sentMsgs, wstep]

/-- **C10, the worker drains and exits.** From any reachable state in which the last handle has been
dropped, whatever happens next: only worker steps are possible; there are at most `|channel| + 1` of
them (so it cannot spin); the worker is never stuck before it has exited; after `|channel| + 1` steps
it has exited; and once exited the channel is empty, everything that was ever sent has been merged
exactly once, in order, and the last thing the worker did was the final flush. -/
theorem c10_worker_drains_and_exits (evs0 : List (Event ι)) (s : WState ι)
    (hr : wrun {} evs0 = some s) (h0 : s.handles = 0) (evs : List (Event ι)) (s' : WState ι)
    (h : wrun s evs = some s') :
    evs.length ≤ s.chan.length + 1 ∧
    (evs.length = s.chan.length + 1 → s'.exited = true) ∧
    (s'.exited = false → ∃ ev s'', wstep s' ev = some s'') ∧
    (s'.exited = true →
      s'.chan = [] ∧ msgsOf s'.innerOps = sentMsgs evs0 ∧ s'.innerOps.getLast? = some .flushFinal) := by
  obtain ⟨b1, b2⟩ := wrun_no_handles evs s s' h0 h
  have hmu : mu s ≤ s.chan.length + 1 := by unfold mu; split <;> omega
  refine ⟨by omega, ?_, ?_, ?_⟩
  · intro hl
    have : mu s' = 0 := by omega
    unfold mu at this
    split at this
    · assumption
    · omega
  · intro hex
    obtain ⟨ev, s'', _, hs⟩ := worker_progress s' b1 hex
    exact ⟨ev, s'', hs⟩
  · intro hex
    obtain ⟨r1, r2⟩ := wrun_spec evs0 {} s hr
    obtain ⟨q1, q2⟩ := wrun_spec evs s s' h
    have inv' := q2 (r2 winv_init)
    obtain ⟨c1, _, c3⟩ := inv'.2 hex
    refine ⟨c1, ?_, c3⟩
    have hsent : sentMsgs evs = [] := sent_nil_no_handles evs s s' h0 h
    rw [c1, hsent] at q1
    simp only [List.append_nil] at q1
    rw [q1]
    simpa [msgsOf] using r1

/-- the executable schedule used by the correspondence (worker alone, `|channel| + 1` steps of fuel)
does reach the exit -/
theorem c10_worker_to_exit (s : WState ι) (h0 : s.handles = 0) (fuel : Nat) (hf : mu s ≤ fuel) :
    (workerToExit fuel s).exited = true := by
  induction fuel generalizing s with
  | zero =>
    simp only [workerToExit]
    unfold mu at hf
    split at hf
    · assumption
    · omega
  | succ n ih =>
    cases hex : s.exited with
    | true => simp [workerToExit, workerMove, hex]
    | false =>
      obtain ⟨ev, s', hm, hs⟩ := worker_progress s h0 hex
      simp only [workerToExit, hm, hs]
      obtain ⟨a1, a2⟩ := wstep_no_handles s s' ev h0 hs
      exact ih s' a1 (by omega)

end Worker

/-! ## Worker and aggregator together -/

section WorkerAgg
variable {κ ι α : Type} [DecidableEq κ]

theorem inputsOf_toOp (ops : List (IOp ι)) : inputsOf (ops.map IOp.toOp) = entriesOf (msgsOf ops) := by
  induction ops with
  | nil => rfl
  | cons o ops ih => cases o <;> simp [inputsOf, IOp.toOp, msgsOf, IOp.msg?, entriesOf] <;> exact ih

theorem krun_append (S : Strat ι α) (key : ι → κ) (s : KState κ α) (a b : List (Op ι)) :
    krun S key s (a ++ b) = krun S key (krun S key s a) b := by
  simp [krun, List.foldl_append]

theorem krun_emitted_prefix (S : Strat ι α) (key : ι → κ) (ops : List (Op ι)) (s : KState κ α) :
    ∃ more, (krun S key s ops).emitted = s.emitted ++ more := by
  induction ops generalizing s with
  | nil => exact ⟨[], by simp [krun]⟩
  | cons op ops ih =>
    obtain ⟨m, hm⟩ := ih (kstep S key s op)
    cases op with
    | merge e => exact ⟨m, by simpa [krun, kstep] using hm⟩
    | flush => exact ⟨[s.storage] ++ m, by simpa [krun, kstep] using hm⟩

/-- **C10, exit emits everything once.** When the worker of any run has exited, the inner keyed
aggregator has merged exactly the entries that were ever sent (in order, each once) and holds
nothing: by `c10_conservation` every sent entry is in exactly one emitted aggregate. -/
theorem c10_worker_exit_emits_all (S : Strat ι α) (key : ι → κ) (evs0 : List (Event ι)) (s : WState ι)
    (hr : wrun {} evs0 = some s) (hex : s.exited = true) :
    inputsOf (s.innerOps.map IOp.toOp) = entriesOf (sentMsgs evs0) ∧
    (krun S key {} (s.innerOps.map IOp.toOp)).storage = [] ∧
    (epochs {} (s.innerOps.map IOp.toOp)).cur = [] := by
  obtain ⟨r1, r2⟩ := wrun_spec evs0 {} s hr
  obtain ⟨c1, _, c3⟩ := (r2 winv_init).2 hex
  rw [c1] at r1
  refine ⟨?_, ?_, ?_⟩
  · rw [inputsOf_toOp]
    have : msgsOf s.innerOps = sentMsgs evs0 := by simpa [msgsOf] using r1
    rw [this]
  · obtain ⟨ys, hys⟩ := List.getLast?_eq_some_iff.mp c3
    rw [hys]
    simp [krun, List.foldl_append, kstep, IOp.toOp]
  · obtain ⟨ys, hys⟩ := List.getLast?_eq_some_iff.mp c3
    rw [hys]
    simp [epochs, List.foldl_append, estep, IOp.toOp]

/-- **C10, flush barrier, at the sink.** With the split of `c10_worker_flush_barrier`: the operations
up to and including the answering flush contain exactly the entries sent before the request, leave
nothing held, and what they emitted is a prefix of what has been emitted now. -/
theorem c10_worker_flush_barrier_emitted (S : Strat ι α) (key : ι → κ) (pre post : List (Event ι))
    (s : WState ι) (h : wrun {} (pre ++ .sendFlush :: post) = some s)
    (hdone : countFlush (sentMsgs pre) < s.flushDone) :
    ∃ a b, s.innerOps = a ++ .flushReq :: b ∧ msgsOf a = sentMsgs pre ∧
      inputsOf ((a ++ [IOp.flushReq]).map IOp.toOp) = entriesOf (sentMsgs pre) ∧
      (epochs {} ((a ++ [IOp.flushReq]).map IOp.toOp)).cur = [] ∧
      ∃ more, (krun S key {} (s.innerOps.map IOp.toOp)).emitted =
        (krun S key {} ((a ++ [IOp.flushReq]).map IOp.toOp)).emitted ++ more := by
  obtain ⟨a, b, h1, h2⟩ := c10_worker_flush_barrier pre post s h hdone
  refine ⟨a, b, h1, h2, ?_, ?_, ?_⟩
  · rw [inputsOf_toOp, msgsOf_append, h2]
    simp [msgsOf, IOp.msg?]
    induction sentMsgs pre with
    | nil => rfl
    | cons m l ih => cases m <;> simp [entriesOf, ih]
  · simp [epochs, List.foldl_append, estep, IOp.toOp]
  · have : s.innerOps.map IOp.toOp = (a ++ [IOp.flushReq]).map IOp.toOp ++ b.map IOp.toOp := by
      rw [h1]; simp
    rw [this, krun_append]
    exact krun_emitted_prefix S key _ _

/-- the `i`-th flush request of a history -/
theorem nth_flush_split (evs : List (Event ι)) (i : Nat) (h : i < countFlush (sentMsgs evs)) :
    ∃ pre post, evs = pre ++ .sendFlush :: post ∧ countFlush (sentMsgs pre) = i := by
  induction evs generalizing i with
  | nil => simp [sentMsgs, countFlush] at h
  | cons ev evs ih =>
    cases ev with
    | sendFlush =>
      cases i with
      | zero => exact ⟨[], evs, rfl, rfl⟩
      | succ j =>
        have hj : j < countFlush (sentMsgs evs) := by simp [sentMsgs, countFlush] at h; omega
        obtain ⟨pre, post, h1, h2⟩ := ih j hj
        exact ⟨.sendFlush :: pre, post, by simp [h1], by simp [sentMsgs, countFlush, h2]⟩
    | send e =>
      have hj : i < countFlush (sentMsgs evs) := by simpa [sentMsgs, countFlush] using h
      obtain ⟨pre, post, h1, h2⟩ := ih i hj
      exact ⟨.send e :: pre, post, by simp [h1], by simp [sentMsgs, countFlush, h2]⟩
    | clone =>
      have hj : i < countFlush (sentMsgs evs) := by simpa [sentMsgs] using h
      obtain ⟨pre, post, h1, h2⟩ := ih i hj
      exact ⟨.clone :: pre, post, by simp [h1], by simp [sentMsgs, h2]⟩
    | dropHandle =>
      have hj : i < countFlush (sentMsgs evs) := by simpa [sentMsgs] using h
      obtain ⟨pre, post, h1, h2⟩ := ih i hj
      exact ⟨.dropHandle :: pre, post, by simp [h1], by simp [sentMsgs, h2]⟩
    | recv t =>
      have hj : i < countFlush (sentMsgs evs) := by simpa [sentMsgs] using h
      obtain ⟨pre, post, h1, h2⟩ := ih i hj
      exact ⟨.recv t :: pre, post, by simp [h1], by simp [sentMsgs, h2]⟩
    | timeout =>
      have hj : i < countFlush (sentMsgs evs) := by simpa [sentMsgs] using h
      obtain ⟨pre, post, h1, h2⟩ := ih i hj
      exact ⟨.timeout :: pre, post, by simp [h1], by simp [sentMsgs, h2]⟩
    | disconnect =>
      have hj : i < countFlush (sentMsgs evs) := by simpa [sentMsgs] using h
      obtain ⟨pre, post, h1, h2⟩ := ih i hj
      exact ⟨.disconnect :: pre, post, by simp [h1], by simp [sentMsgs, h2]⟩

/-- **C10, flush barrier for EVERY answered request** (any number of requests outstanding at once,
from any handles, in any interleaving with the worker): in every reachable state, for each `i`
below the number of answered requests, the `i`-th flush request of the history exists, and the
worker's history splits at the flush that answers it as `a ++ flushReq :: b` where the messages
consumed in `a` are exactly the messages sent before that request (entries and the `i` earlier
requests, in order); the operations up to and including that flush contain exactly the entries
sent before the request, leave nothing held, and their emissions are a prefix of what has been
emitted. In particular each answered request has its own flush of the inner sink, after every
entry sent before it: requests are neither answered early nor coalesced. -/
theorem c10_worker_every_flush_barrier (S : Strat ι α) (key : ι → κ) (evs : List (Event ι)) (s : WState ι)
    (h : wrun {} evs = some s) (i : Nat) (hi : i < s.flushDone) :
    ∃ pre post a b, evs = pre ++ .sendFlush :: post ∧ countFlush (sentMsgs pre) = i ∧
      s.innerOps = a ++ .flushReq :: b ∧ msgsOf a = sentMsgs pre ∧
      inputsOf ((a ++ [IOp.flushReq]).map IOp.toOp) = entriesOf (sentMsgs pre) ∧
      (epochs {} ((a ++ [IOp.flushReq]).map IOp.toOp)).cur = [] ∧
      ∃ more, (krun S key {} (s.innerOps.map IOp.toOp)).emitted =
        (krun S key {} ((a ++ [IOp.flushReq]).map IOp.toOp)).emitted ++ more := by
  obtain ⟨f1, f2⟩ := c10_worker_fifo evs s h
  have hle : s.flushDone ≤ countFlush (sentMsgs evs) := by
    rw [← f1, countFlush_append, f2]; omega
  obtain ⟨pre, post, e1, e2⟩ := nth_flush_split evs i (by omega)
  subst e1
  obtain ⟨a, b, r⟩ := c10_worker_flush_barrier_emitted S key pre post s h (by omega)
  exact ⟨pre, post, a, b, rfl, e2, r⟩

end WorkerAgg

/-! ## Non-vacuity -/

def exA : Input := { key := ⟨[97], 1⟩, bytes := 3, last := 4, obs := [(5, 1), (5, 2)], opt := none, inner := 7 }
def exB : Input := { key := ⟨[97], 1⟩, bytes := 2, last := 9, obs := [], opt := some 4, inner := 1 }
def exC : Input := { key := ⟨[98], 1⟩, bytes := 1, last := 1, obs := [(7, 0), (2, 1)], opt := none, inner := 0 }

/-- two inputs of one key and one of another, a flush, an empty flush: two aggregates, then none -/
example :
    ((krun callStrat (·.key) {} [.merge exA, .merge exC, .merge exB, .flush, .flush]).emitted.map
      (fun l => l.map fun p => (p.1, close p.2))) =
    [[(⟨[97], 1⟩, { bytes := 5, last := some 9, dist := [(5, 3)], opt := 4, inner := 8 }),
      (⟨[98], 1⟩, { bytes := 1, last := some 1, dist := [(2, 1)], opt := 0, inner := 0 })], []] := by
  decide

/-- a worker run: send, request a flush, send again, the worker consumes both, the handle is dropped,
a last message is consumed, disconnect: the flush was answered after exactly the first entry, the
worker exited after the final flush -/
example :
    (wrun ({} : WState Nat) [.send 1, .sendFlush, .send 2, .recv false, .recv false, .dropHandle,
        .recv true, .disconnect]).map (fun s => (s.innerOps.map IOp.toOp |>.length, s.flushDone, s.exited, s.chan.length)) =
      some (5, 1, true, 0) := by
  decide

/-- the hypotheses of the flush barrier are satisfiable -/
example : ∃ s, wrun ({} : WState Nat) ([.send 1] ++ .sendFlush :: [.send 2, .recv false, .recv false]) = some s ∧
    countFlush (sentMsgs ([.send 1] : List (Event Nat))) < s.flushDone := by
  refine ⟨_, rfl, ?_⟩
  decide

/-- two flush requests in flight at once (from two handles), an entry between them: both are
answered, each by its own flush, the second only after the entry sent between them was merged -/
example :
    (wrun ({} : WState Nat) [.send 1, .clone, .sendFlush, .send 2, .sendFlush,
        .recv false, .recv false, .recv false, .recv false]).map
      (fun s => (s.flushDone, s.chan.length, s.innerOps.map fun o => match o with
        | .merge e => e | .flushReq => 100 | .flushTimer => 200 | .flushFinal => 300)) =
      some (2, 0, [1, 100, 2, 100]) := by
  decide

/-- mutex-shared aggregate closed while a clone is alive: the close returns what was merged; the
`Arc::try_unwrap(..).unwrap_or_default()` variant (seeded change C10-j) returns an empty aggregate
instead — a decided witness that it is not the modelled (and proved) behaviour -/
example :
    (mrun callStrat { shared := callStrat.empty } [.merge exA, .clone, .merge exB, .close]).emitted.map close =
      [{ bytes := 5, last := some 9, dist := [(5, 3)], opt := 4, inner := 8 }] ∧
    ([MOp.merge exA, .clone, .merge exB, .close].foldl (mstepUnwrap callStrat)
        { shared := callStrat.empty }).emitted.map close =
      [{ bytes := 0, last := none, dist := [], opt := 0, inner := 0 }] ∧
    -- after the close the surviving clone's merge goes to the next aggregate
    (mrun callStrat { shared := callStrat.empty } [.merge exA, .clone, .close, .merge exB, .close]).emitted.map close =
      [{ bytes := 3, last := some 4, dist := [(5, 3)], opt := 0, inner := 7 },
       { bytes := 2, last := some 9, dist := [], opt := 4, inner := 1 }] := by
  decide

/-- the channel of the specification is an unbounded FIFO (`c10_worker_fifo`); a bounded queue with a
discarding `try_send` (seeded change C10-m, here with capacity 2) loses the third entry sent while the
worker is busy: what the worker merges is not what was sent — conservation fails -/
example :
    let evs : List (Event Nat) := [.send 1, .send 2, .send 3, .recv false, .recv false, .recv false]
    (wrun ({} : WState Nat) evs).map (fun s => entriesOf (msgsOf s.innerOps)) = some [1, 2, 3] ∧
    ((evs.take 5).foldl (fun (s : Option (WState Nat)) ev => s.bind (wstepLossy 2 · ev)) (some {})).map
      (fun s => (entriesOf (msgsOf s.innerOps), s.chan.length)) = some ([1, 2], 0) := by
  decide

end Aggregation

#print axioms Aggregation.c10_conservation
#print axioms Aggregation.c10_epochs_partition
#print axioms Aggregation.c10_embedded
#print axioms Aggregation.c10_tee
#print axioms Aggregation.c10_fields
#print axioms Aggregation.c10_distribution_counts
#print axioms Aggregation.c10_distribution_one_entry_per_value
#print axioms Aggregation.c10_worker_fifo
#print axioms Aggregation.c10_worker_flush_barrier
#print axioms Aggregation.c10_worker_drains_and_exits
#print axioms Aggregation.c10_worker_to_exit
#print axioms Aggregation.c10_worker_exit_emits_all
#print axioms Aggregation.c10_worker_flush_barrier_emitted
#print axioms Aggregation.c10_worker_every_flush_barrier
#print axioms Aggregation.c10_mutex_close_ignores_handles
