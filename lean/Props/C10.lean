import Model.Aggregation
namespace Aggregation

theorem c10_stub : (1 : Nat) = 1 := rfl

end Aggregation

#print axioms Aggregation.c10_stub
