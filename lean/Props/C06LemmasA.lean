import Props.C06Lemmas
/-! `Inv` is preserved by every event that does not touch a slot (one lemma per event). -/
namespace KeepAlive

theorem inv_newFG {s s' : St}  (hi : Inv s) (h : step s (.newFG) = some s') : Inv s' := by
  obtain ⟨h1,h2,h3,h4,h5,h6,h7,h8,h9,h10,h11,h11b,h12,h13,h14⟩ := hi
  inv_ev h

theorem inv_newDG {s s' : St}  (hi : Inv s) (h : step s (.newDG) = some s') : Inv s' := by
  obtain ⟨h1,h2,h3,h4,h5,h6,h7,h8,h9,h10,h11,h11b,h12,h13,h14⟩ := hi
  inv_ev h

theorem inv_mutate {s s' : St} (v : Nat) (hi : Inv s) (h : step s (.mutate v) = some s') : Inv s' := by
  obtain ⟨h1,h2,h3,h4,h5,h6,h7,h8,h9,h10,h11,h11b,h12,h13,h14⟩ := hi
  inv_ev h

theorem inv_hit {s s' : St} (v : Nat) (hi : Inv s) (h : step s (.hit v) = some s') : Inv s' := by
  obtain ⟨h1,h2,h3,h4,h5,h6,h7,h8,h9,h10,h11,h11b,h12,h13,h14⟩ := hi
  inv_ev h

theorem inv_toHandle {s s' : St}  (hi : Inv s) (h : step s (.toHandle) = some s') : Inv s' := by
  obtain ⟨h1,h2,h3,h4,h5,h6,h7,h8,h9,h10,h11,h11b,h12,h13,h14⟩ := hi
  inv_ev h

theorem inv_cloneHandle {s s' : St}  (hi : Inv s) (h : step s (.cloneHandle) = some s') : Inv s' := by
  obtain ⟨h1,h2,h3,h4,h5,h6,h7,h8,h9,h10,h11,h11b,h12,h13,h14⟩ := hi
  inv_ev h

theorem inv_refDrop {s s' : St}  (hi : Inv s) (h : step s (.refDrop) = some s') : Inv s' := by
  obtain ⟨h1,h2,h3,h4,h5,h6,h7,h8,h9,h10,h11,h11b,h12,h13,h14⟩ := hi
  inv_ev h

theorem inv_waitCancel {s s' : St}  (hi : Inv s) (h : step s (.waitCancel) = some s') : Inv s' := by
  obtain ⟨h1,h2,h3,h4,h5,h6,h7,h8,h9,h10,h11,h11b,h12,h13,h14⟩ := hi
  inv_ev h

theorem inv_fgDrop {s s' : St}  (hi : Inv s) (h : step s (.fgDrop) = some s') : Inv s' := by
  obtain ⟨h1,h2,h3,h4,h5,h6,h7,h8,h9,h10,h11,h11b,h12,h13,h14⟩ := hi
  inv_ev h

theorem inv_dgBegin {s s' : St}  (hi : Inv s) (h : step s (.dgBegin) = some s') : Inv s' := by
  obtain ⟨h1,h2,h3,h4,h5,h6,h7,h8,h9,h10,h11,h11b,h12,h13,h14⟩ := hi
  inv_ev h

theorem inv_pDecV {s s' : St}  (hi : Inv s) (h : step s (.pDecV) = some s') : Inv s' := by
  obtain ⟨h1,h2,h3,h4,h5,h6,h7,h8,h9,h10,h11,h11b,h12,h13,h14⟩ := hi
  inv_ev h

theorem inv_pDecG {s s' : St}  (hi : Inv s) (h : step s (.pDecG) = some s') : Inv s' := by
  obtain ⟨h1,h2,h3,h4,h5,h6,h7,h8,h9,h10,h11,h11b,h12,h13,h14⟩ := hi
  inv_ev h

theorem inv_innerDrop {s s' : St}  (hi : Inv s) (h : step s (.innerDrop) = some s') : Inv s' := by
  obtain ⟨h1,h2,h3,h4,h5,h6,h7,h8,h9,h10,h11,h11b,h12,h13,h14⟩ := hi
  inv_ev h

theorem inv_dgLock {s s' : St}  (hi : Inv s) (h : step s (.dgLock) = some s') : Inv s' := by
  obtain ⟨h1,h2,h3,h4,h5,h6,h7,h8,h9,h10,h11,h11b,h12,h13,h14⟩ := hi
  inv_ev h

theorem inv_lRun {s s' : St}  (hi : Inv s) (h : step s (.lRun) = some s') : Inv s' := by
  obtain ⟨h1,h2,h3,h4,h5,h6,h7,h8,h9,h10,h11,h11b,h12,h13,h14⟩ := hi
  inv_ev h

theorem inv_lUnlock {s s' : St}  (hi : Inv s) (h : step s (.lUnlock) = some s') : Inv s' := by
  obtain ⟨h1,h2,h3,h4,h5,h6,h7,h8,h9,h10,h11,h11b,h12,h13,h14⟩ := hi
  inv_ev h

theorem inv_dgDec {s s' : St}  (hi : Inv s) (h : step s (.dgDec) = some s') : Inv s' := by
  obtain ⟨h1,h2,h3,h4,h5,h6,h7,h8,h9,h10,h11,h11b,h12,h13,h14⟩ := hi
  inv_ev h

end KeepAlive
