import Model.Sinks
/-!
# C16 (sink level) — validation and I/O errors never stop a sink

For every tee tree, every entry sequence and every script of per-entry results / flush results:
each leaf stream is handed each entry exactly once, in order, and flushed after each entry,
whatever any stream returned.
-/
namespace Sinks

theorem next_log (res : Nat → Nat → Res) (t : Tree) (e : Nat) (w : World) :
    (t.next res e w).1.log = w.log ++ t.leaves.map (fun i => (i, Call.next e)) := by
  induction t generalizing w with
  | leaf i => simp [Tree.next, Tree.leaves]
  | tee l r ihl ihr =>
    simp only [Tree.next, Tree.leaves, List.map_append]
    rw [ihr, ihl, List.append_assoc]

/-- first non-`ok` result in a list, `ok` if none -/
def firstErr : List Res → Res
  | [] => .ok
  | .ok :: rs => firstErr rs
  | r :: _ => r

theorem firstErr_append (a b : List Res) : firstErr (a ++ b) = (firstErr a).and (firstErr b) := by
  induction a with
  | nil => simp [firstErr, Res.and]
  | cons r rs ih => cases r <;> simp [firstErr, Res.and, ih]

theorem next_result (res : Nat → Nat → Res) (t : Tree) (e : Nat) (w : World) :
    (t.next res e w).2 = firstErr (t.leaves.map (fun i => res i e)) := by
  induction t generalizing w with
  | leaf i => cases h : res i e <;> simp [Tree.next, Tree.leaves, firstErr, h]
  | tee l r ihl ihr =>
    simp only [Tree.next, Tree.leaves, List.map_append, firstErr_append]
    rw [ihl, ihr]

theorem flush_log (fres : Nat → Nat → Bool) (t : Tree) (w : World) :
    (t.flush fres w).1.log = w.log ++ t.leaves.map (fun i => (i, Call.flush)) := by
  induction t generalizing w with
  | leaf i => simp [Tree.flush, Tree.leaves]
  | tee l r ihl ihr =>
    simp only [Tree.flush, Tree.leaves, List.map_append]
    rw [ihr, ihl, List.append_assoc]

/-- **C16: a tee hands the entry to every branch, whatever the branches return**, left to right,
and returns the first error. -/
theorem c16_tee_next (res : Nat → Nat → Res) (t : Tree) (e : Nat) (w : World) :
    (t.next res e w).1.log = w.log ++ t.leaves.map (fun i => (i, Call.next e)) ∧
    (t.next res e w).2 = firstErr (t.leaves.map (fun i => res i e)) :=
  ⟨next_log res t e w, next_result res t e w⟩

/-- **C16: a tee flushes every branch even if an earlier branch's flush failed.** -/
theorem c16_tee_flush (fres : Nat → Nat → Bool) (t : Tree) (w : World) :
    (t.flush fres w).1.log = w.log ++ t.leaves.map (fun i => (i, Call.flush)) :=
  flush_log fres t w

/-- what an error-free run looks like: per entry, one `next` per leaf then one `flush` per leaf -/
def idealLog (t : Tree) (es : List Nat) : List (Nat × Call) :=
  es.flatMap (fun e => t.leaves.map (fun i => (i, Call.next e)) ++ t.leaves.map (fun i => (i, Call.flush)))

theorem immediate_fold (res : Nat → Nat → Res) (fres : Nat → Nat → Bool) (t : Tree) (es : List Nat) (w : World) :
    (es.foldl (immediateAppend res fres t) w).log = w.log ++ idealLog t es := by
  induction es generalizing w with
  | nil => simp [idealLog]
  | cons e es ih =>
    simp only [List.foldl_cons]
    rw [ih]
    simp only [immediateAppend, flush_log, next_log, idealLog, List.flatMap_cons, List.append_assoc]

/-- **C16: neither validation nor I/O errors (of `next` or of `flush`) stop the immediate sink.**
For every result script the calls made are those of an error-free run: every leaf stream receives
every entry exactly once, in append order, and is flushed after each. -/
theorem c16_immediate_errors_local (res : Nat → Nat → Res) (fres : Nat → Nat → Bool) (t : Tree) (es : List Nat) :
    (immediateRun res fres t es).log = idealLog t es := by
  simp [immediateRun, immediate_fold]

/-- Corollary: two runs that differ only in the results the streams return make the same calls. -/
theorem c16_results_irrelevant (res res' : Nat → Nat → Res) (fres fres' : Nat → Nat → Bool) (t : Tree) (es : List Nat) :
    (immediateRun res fres t es).log = (immediateRun res' fres' t es).log := by
  rw [c16_immediate_errors_local, c16_immediate_errors_local]

theorem nextsOf_idealLog_leaf (i : Nat) (es : List Nat) :
    (World.mk (idealLog (.leaf i) es)).nextsOf i = es := by
  induction es with
  | nil => simp [idealLog, World.nextsOf]
  | cons e es ih =>
    simp only [idealLog, World.nextsOf, Tree.leaves, List.flatMap_cons, List.map_cons, List.map_nil,
      List.filterMap_append] at ih ⊢
    rw [ih]
    simp

/-- Single stream: the stream sees exactly the appended entries, in order, for any error script. -/
theorem c16_single_stream_sees_all (res : Nat → Nat → Res) (fres : Nat → Nat → Bool) (i : Nat) (es : List Nat) :
    (immediateRun res fres (.leaf i) es).nextsOf i = es := by
  have h := c16_immediate_errors_local res fres (.leaf i) es
  have : immediateRun res fres (.leaf i) es = World.mk (idealLog (.leaf i) es) := by
    cases hw : immediateRun res fres (.leaf i) es; simp_all
  rw [this, nextsOf_idealLog_leaf]

/-- Non-vacuity: three leaves, the first fails validation on entry 7, the second's flush fails:
all three still see both entries and the tee reports the validation error. -/
example :
    let res : Nat → Nat → Res := fun i e => if i == 0 && e == 7 then .validation else if i == 2 then .io else .ok
    let t := Tree.tee (.tee (.leaf 0) (.leaf 1)) (.leaf 2)
    (immediateRun res (fun i _ => i != 1) t [7, 8]).nextsOf 2 = [7, 8] ∧
    (t.next res 7 ⟨[]⟩).2 = .validation ∧ (t.next res 8 ⟨[]⟩).2 = .io := by
  decide

end Sinks


/-! ### formatter-backed stream over a buffering writer -/
namespace Sinks.FmtBuf

/-- nothing accepted is ever lost, duplicated or reordered between buffer and wire -/
theorem run_conserves (w : W) (ops : List Op) :
    (run w ops).1.delivered ++ (run w ops).1.buf = w.delivered ++ w.buf ++ written ops := by
  induction ops generalizing w with
  | nil => simp [run, written]
  | cons op ops ih =>
    cases op with
    | next bs => simp only [run, step, written]; rw [ih]; simp
    | flush ok => cases ok <;> simp only [run, step, written] <;> rw [ih] <;> simp

/-- every stream flush reaches the writer: the writer sees exactly as many `flush` calls as the stream -/
theorem run_flushCalls (w : W) (ops : List Op) :
    (run w ops).1.flushCalls = w.flushCalls + (ops.filter (fun o => match o with | .flush _ => true | _ => false)).length := by
  induction ops generalizing w with
  | nil => simp [run]
  | cons op ops ih =>
    cases op with
    | next bs => simp only [run, step]; rw [ih]; simp
    | flush ok => cases ok <;> simp only [run, step] <;> rw [ih] <;> simp <;> omega

/-- results: `next` is `Ok`, `flush` returns what the writer's flush returned -/
theorem run_results (w : W) (ops : List Op) :
    (run w ops).2 = ops.map (fun o => match o with | .next _ => true | .flush ok => ok) := by
  induction ops generalizing w with
  | nil => simp [run]
  | cons op ops ih =>
    cases op with
    | next bs => simp only [run, step, List.map_cons]; rw [ih]
    | flush ok => cases ok <;> simp only [run, step, List.map_cons] <;> rw [ih]

/-- **C16: a flush error is not sticky.** Whatever happened before (failed flushes included), after a
stream flush whose writer flush succeeds, everything accepted so far is on the wire and the buffer
is empty. -/
theorem c16_flush_after_error_delivers (ops : List Op) :
    (run init (ops ++ [.flush true])).1.buf = [] ∧
    (run init (ops ++ [.flush true])).1.delivered = written ops := by
  have hrun : ∀ (w : W) (a b : List Op), (run w (a ++ b)).1 = (run (run w a).1 b).1 := by
    intro w a b
    induction a generalizing w with
    | nil => simp [run]
    | cons op a ih => simp only [List.cons_append, run]; exact ih _
  have h1 : (run init (ops ++ [.flush true])).1.buf = [] := by
    rw [hrun]; simp [run, step]
  refine ⟨h1, ?_⟩
  have h := run_conserves init (ops ++ [.flush true])
  rw [h1] at h
  have hw : ∀ (a b : List Op), written (a ++ b) = written a ++ written b := by
    intro a b
    induction a with
    | nil => simp [written]
    | cons op a ih => cases op <;> simp [written, ih]
  simpa [init, hw, written] using h

/-- the immediate sink over such a stream: after the last append whose flush succeeded nothing is
left behind, however many earlier flushes failed -/
theorem c16_imm_last_ok_delivers (es : List (List Nat × Bool)) (bs : List Nat) :
    (run init (immOps (es ++ [(bs, true)]))).1.delivered = written (immOps (es ++ [(bs, true)])) ∧
    (run init (immOps (es ++ [(bs, true)]))).1.buf = [] := by
  have himm : ∀ (a b : List (List Nat × Bool)), immOps (a ++ b) = immOps a ++ immOps b := by
    intro a b
    induction a with
    | nil => simp [immOps]
    | cons e a ih => obtain ⟨x, y⟩ := e; simp [immOps, ih]
  have hw : ∀ (a b : List Op), written (a ++ b) = written a ++ written b := by
    intro a b
    induction a with
    | nil => simp [written]
    | cons op a ih => cases op <;> simp [written, ih]
  have := c16_flush_after_error_delivers (immOps es ++ [.next bs])
  rw [himm]
  simp only [immOps, List.append_assoc, List.cons_append, List.nil_append] at this ⊢
  refine ⟨?_, this.1⟩
  rw [this.2]; simp [hw, written]

/-- Witness that the statement has content: the "dirty flag" variant (flag cleared before the flush
result is known) leaves an accepted entry in the buffer after `next, flush ✗, flush ✓`, while the
modelled code delivers it. -/
example :
    let ops := [Op.next [1, 2, 3], .flush false, .flush true]
    (run init ops).1.delivered = [1, 2, 3] ∧ (run init ops).1.flushCalls = 2 ∧
    ((ops.foldl (fun s o => (stepDirty s o).1) (init, false)).1.delivered = [] ∧
     (ops.foldl (fun s o => (stepDirty s o).1) (init, false)).1.buf = [1, 2, 3]) := by
  decide

end Sinks.FmtBuf

#print axioms Sinks.c16_tee_next
#print axioms Sinks.c16_tee_flush
#print axioms Sinks.c16_immediate_errors_local
#print axioms Sinks.c16_results_irrelevant
#print axioms Sinks.c16_single_stream_sees_all
#print axioms Sinks.FmtBuf.run_conserves
#print axioms Sinks.FmtBuf.run_flushCalls
#print axioms Sinks.FmtBuf.run_results
#print axioms Sinks.FmtBuf.c16_flush_after_error_delivers
#print axioms Sinks.FmtBuf.c16_imm_last_ok_delivers
