import Model.Sampling
import Mathlib.Tactic.Linarith
/-!
# C12, the EMF weight: `rate_to_n_alpha` / `rate_to_n` over exact arithmetic

A rate in `(0,1]` that is a binary32 value is `m · 2^-k` with `0 < m < 2^24`, `m ≤ 2^k`
(`f32Decode_rate`); `1/rate = 2^k / m`.
-/
namespace Sampling

theorem divRne_cases (N D : Nat) :
    (divRne N D = N / D ∧ 2 * (N % D) ≤ D) ∨ (divRne N D = N / D + 1 ∧ D ≤ 2 * (N % D)) := by
  unfold divRne
  split
  · left; exact ⟨rfl, by omega⟩
  · split
    · right; exact ⟨rfl, by omega⟩
    · split
      · left; exact ⟨rfl, by omega⟩
      · right; exact ⟨rfl, by omega⟩

/-- the rounding error of `divRne` is at most half a unit: `|M·D − N| ≤ D/2` -/
theorem divRne_err (N D : Nat) (hD : 0 < D) :
    2 * (divRne N D * D) ≤ 2 * N + D ∧ 2 * N ≤ 2 * (divRne N D * D) + D := by
  have hdm := Nat.div_add_mod N D
  have hlt : N % D < D := Nat.mod_lt _ hD
  rcases divRne_cases N D with ⟨h, hr⟩ | ⟨h, hr⟩
  · rw [h, Nat.mul_comm (N / D) D]
    generalize D * (N / D) = X at hdm ⊢
    omega
  · rw [h, Nat.add_mul, Nat.one_mul, Nat.mul_comm (N / D) D]
    generalize D * (N / D) = X at hdm ⊢
    omega

theorem divRne_mul_right (a b c : Nat) (hc : 0 < c) : divRne (a * c) (b * c) = divRne a b := by
  unfold divRne
  rw [Nat.mul_div_mul_right _ _ hc, Nat.mul_mod_mul_right]
  have e1 : (2 * (a % b * c) < b * c) ↔ (2 * (a % b) < b) := by
    rw [← Nat.mul_assoc]; exact Nat.mul_lt_mul_right hc
  have e2 : (b * c < 2 * (a % b * c)) ↔ (b < 2 * (a % b)) := by
    rw [← Nat.mul_assoc]; exact Nat.mul_lt_mul_right hc
  simp only [e1, e2]

/-- the scaling chosen by `rneP 53` for `2^k / m` makes the quotient a 53-bit number -/
theorem rneUp_range (k m : Nat) (hm : 0 < m) :
    2 ^ 52 * m ≤ 2 ^ rneUp 53 (2 ^ k) m ∧ 2 ^ rneUp 53 (2 ^ k) m < 2 ^ 53 * m := by
  have hL1 : 2 ^ Nat.log2 m ≤ m := Nat.log2_self_le (by omega)
  have hL2 : m < 2 ^ (Nat.log2 m + 1) := Nat.lt_log2_self
  have hk : 0 < 2 ^ k := Nat.two_pow_pos k
  unfold rneUp
  simp only [Nat.log2_two_pow, show 53 - 1 = 52 from rfl]
  rw [Nat.mul_comm (2 ^ k) (2 ^ (52 + Nat.log2 m)), Nat.mul_div_mul_right _ _ hk]
  have e0 : 2 ^ (52 + Nat.log2 m) = 2 ^ 52 * 2 ^ Nat.log2 m := Nat.pow_add 2 52 _
  have e1 : 2 ^ (52 + Nat.log2 m + 1) = 2 ^ 53 * 2 ^ Nat.log2 m := by
    rw [Nat.pow_succ, e0]; omega
  have e2 : 2 ^ (Nat.log2 m + 1) = 2 * 2 ^ Nat.log2 m := by rw [Nat.pow_succ]; omega
  split
  · rename_i h
    have h' : 2 ^ (52 + Nat.log2 m) < 2 ^ 52 * m := by
      rw [Nat.div_lt_iff_lt_mul hm] at h; exact h
    rw [e1]
    constructor <;> omega
  · rename_i h
    have h' : 2 ^ 52 * m ≤ 2 ^ (52 + Nat.log2 m) := by
      rw [Nat.not_lt, Nat.le_div_iff_mul_le hm] at h; exact h
    constructor <;> omega

/-- hypotheses "binary32 rate in (0,1] with 1/rate < 2^53", for `rate = m · 2^-k` -/
structure RateOK (m k : Nat) : Prop where
  m_pos : 0 < m
  /-- 24-bit significand -/
  m_lt : m < 2 ^ 24
  /-- `rate ≤ 1` -/
  le_one : m ≤ 2 ^ k
  /-- `1/rate < 2^53` -/
  recip_lt : 2 ^ k < m * 2 ^ 53

/-- the number of fraction bits of `inv` -/
def fracBits (m k : Nat) : Nat := rneUp 53 (2 ^ k) m - k
/-- the significand of `inv = invSig / 2^fracBits` -/
def invSig (m k : Nat) : Nat := divRne (2 ^ (k + fracBits m k)) m

theorem up_eq (m k : Nat) (h : RateOK m k) : rneUp 53 (2 ^ k) m = k + fracBits m k ∧ fracBits m k ≤ 52 := by
  have hr := rneUp_range k m h.m_pos
  have h1 : 2 ^ k < 2 ^ (rneUp 53 (2 ^ k) m + 1) := by
    rw [Nat.pow_succ]; have := h.recip_lt; omega
  have h2 : k < rneUp 53 (2 ^ k) m + 1 := (Nat.pow_lt_pow_iff_right (by omega)).mp h1
  have h3 : 2 ^ rneUp 53 (2 ^ k) m < 2 ^ (53 + k) := by
    rw [Nat.pow_add]
    have := Nat.mul_le_mul_left (2 ^ 53) h.le_one
    omega
  have h4 : rneUp 53 (2 ^ k) m < 53 + k := (Nat.pow_lt_pow_iff_right (by omega)).mp h3
  unfold fracBits; omega

/-- `1.0 / rate` in binary64 is `invSig / 2^fracBits` -/
theorem invRate_eq (m k : Nat) (h : RateOK m k) :
    invRate ⟨m, -(k : Int)⟩ = ⟨invSig m k, -(fracBits m k : Int)⟩ := by
  have hk : 0 < 2 ^ k := Nat.two_pow_pos k
  have hup := (up_eq m k h).1
  have hfrac : (⟨m, -(k : Int)⟩ : Dy).recip = (2 ^ k, m) := by
    unfold Dy.recip Dy.frac
    by_cases hk0 : k = 0
    · subst hk0; simp
    · have : ¬ (0 : Int) ≤ -(k : Int) := by omega
      simp [hk0]
  unfold invRate
  rw [hfrac]
  unfold rneP
  rw [if_neg (by omega)]
  simp only [Nat.log2_two_pow]
  rw [hup]
  congr 1
  · unfold invSig
    rw [Nat.mul_comm (2 ^ k) _, Nat.mul_comm m _, ← Nat.pow_add,
      show k + fracBits m k + k = (k + fracBits m k) + k from rfl, Nat.pow_add, Nat.mul_comm (2 ^ k) m,
      divRne_mul_right _ _ _ hk, Nat.pow_add]
  · push_cast; omega

/-- range and rounding error of the significand -/
theorem invSig_spec (m k : Nat) (h : RateOK m k) :
    2 ^ 52 * m ≤ 2 ^ (k + fracBits m k) ∧ 2 ^ (k + fracBits m k) < 2 ^ 53 * m ∧
    2 * (invSig m k * m) ≤ 2 * 2 ^ (k + fracBits m k) + m ∧
    2 * 2 ^ (k + fracBits m k) ≤ 2 * (invSig m k * m) + m := by
  have hr := rneUp_range k m h.m_pos
  rw [(up_eq m k h).1] at hr
  exact ⟨hr.1, hr.2, divRne_err _ _ h.m_pos⟩

theorem floor_negExp (M s : Nat) : (⟨M, -(s : Int)⟩ : Dy).floor = M / 2 ^ s := by
  unfold Dy.floor
  by_cases hs : s = 0
  · subst hs; simp
  · simp [hs]

/-- `n + 1 < 2^53`: here the 24-bit significand of a binary32 rate is used (for a general rational
`1/rate` just below `2^53` the rounded inverse could reach `2^53`). -/
theorem n_small (m k : Nat) (h : RateOK m k) : invSig m k / 2 ^ fracBits m k + 2 < 2 ^ 53 := by
  obtain ⟨h1, h2, -, -⟩ := invSig_spec m k h
  have hQ : 2 ^ (k + fracBits m k) / m < 2 ^ 53 := Nat.div_lt_of_lt_mul (by rw [Nat.mul_comm]; exact h2)
  have hM : invSig m k ≤ 2 ^ (k + fracBits m k) / m + 1 := by
    unfold invSig; rcases divRne_cases (2 ^ (k + fracBits m k)) m with ⟨e, -⟩ | ⟨e, -⟩ <;> omega
  by_cases hs : fracBits m k = 0
  · rw [hs, Nat.pow_zero, Nat.div_one]
    simp only [hs, Nat.add_zero] at hM hQ
    by_cases hk : k ≤ 52
    · have : 2 ^ k ≤ 2 ^ 52 := Nat.pow_le_pow_right (by omega) hk
      have : 2 ^ k / m ≤ 2 ^ k := Nat.div_le_self _ _
      omega
    · obtain ⟨j, rfl⟩ : ∃ j, k = 53 + j := ⟨k - 53, by omega⟩
      have hlt := h.recip_lt
      rw [Nat.pow_add] at hlt hM hQ
      have hqm : 2 ^ 53 * 2 ^ j / m * m ≤ 2 ^ 53 * 2 ^ j := Nat.div_mul_le_self _ _
      have hmlt := h.m_lt
      by_contra hcon
      have hge : 2 ^ 53 - 2 ≤ 2 ^ 53 * 2 ^ j / m + 1 := by omega
      have : (2 ^ 53 - 3) * m ≤ 2 ^ 53 * 2 ^ j / m * m := Nat.mul_le_mul_right m (by omega)
      generalize 2 ^ 53 * 2 ^ j / m * m = X at *
      generalize 2 ^ j = t at *
      omega
  · have h2s : 2 ≤ 2 ^ fracBits m k := by
      have : 2 ^ 1 ≤ 2 ^ fracBits m k := Nat.pow_le_pow_right (by omega) (by omega)
      simpa using this
    have : invSig m k / 2 ^ fracBits m k ≤ invSig m k / 2 := Nat.div_le_div_left h2s (by omega)
    omega

/-- **`rate_to_n_alpha` in closed form** for a binary32 rate in `(0,1]` with `1/rate < 2^53`:
`inv = M/2^s`, `n = ⌊inv⌋ = M / 2^s`, `alpha = (n+1) − inv = (2^s − M mod 2^s)/2^s`, computed without
rounding (`s ≤ 52`, so `alpha` needs at most 53 bits: the Sterbenz-type exactness of `(n+1) as f64 − inv`). -/
theorem rateToNAlpha_eq (m k : Nat) (h : RateOK m k) :
    rateToNAlpha ⟨m, -(k : Int)⟩ =
      (invSig m k / 2 ^ fracBits m k,
       ⟨2 ^ fracBits m k - invSig m k % 2 ^ fracBits m k, -(fracBits m k : Int)⟩) := by
  have hn := n_small m k h
  unfold rateToNAlpha
  simp only [invRate_eq m k h, floor_negExp]
  have hmin : min (invSig m k / 2 ^ fracBits m k) u64Max = invSig m k / 2 ^ fracBits m k := by
    apply Nat.min_eq_left; unfold u64Max; omega
  rw [hmin]
  have hnat : natToF64 (invSig m k / 2 ^ fracBits m k + 1) = ⟨invSig m k / 2 ^ fracBits m k + 1, 0⟩ := by
    unfold natToF64; rw [if_pos (by omega)]
  rw [hnat]
  congr 1
  unfold Dy.sub Dy.align
  have hmin2 : min (0 : Int) (-(fracBits m k : Int)) = -(fracBits m k : Int) := by omega
  simp only [hmin2]
  have e1 : ((0 : Int) - -(fracBits m k : Int)).toNat = fracBits m k := by omega
  have e2 : (-(fracBits m k : Int) - -(fracBits m k : Int)).toNat = 0 := by omega
  rw [e1, e2, Nat.pow_zero, Nat.mul_one]
  congr 1
  have hdm := Nat.div_add_mod (invSig m k) (2 ^ fracBits m k)
  have hlt : invSig m k % 2 ^ fracBits m k < 2 ^ fracBits m k := Nat.mod_lt _ (Nat.two_pow_pos _)
  rw [Nat.add_mul, Nat.one_mul, Nat.mul_comm (invSig m k / 2 ^ fracBits m k)]
  generalize 2 ^ fracBits m k * (invSig m k / 2 ^ fracBits m k) = X at hdm ⊢
  omega

end Sampling
