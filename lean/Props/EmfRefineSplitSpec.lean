import Props.EmfRefineSplitFinish
/-!
Stage 3 lemmas: the abstract dimension-set map after the entry is the declarative model's list of split
records (`splitKeys`, `routedTo`), and a split line is the printed `recordJson` of `mkRecord … (some k) …`.
-/
namespace EmfRefine
open JsonTree Json EmfSpec

variable {F : Type}

/-! ### a split line is the printed record -/

theorem dimFieldsPrefix_eq (k : Key) : Emf.dimFieldsPrefix k = 125 :: strBytes k := rfl

theorem splitLine_eq_print (cfg : Config) (sw : Switches) (txt : F → List Nat) (ns0 : Str) (more : List Str)
    (hns : cfg.namespaces = ns0 :: more) (base : List (List Str)) (k : Key) (idx : Nat) (decls : List Decl) (T : Nat)
    (fields : List (Str × MVal F)) (strs : List (Str × Str)) :
    splitLine txt (Emf.Consts.ofConfig (toEmfCfg cfg sw)) (base.map jarrStrings) (natDigits T) (strBytes strs)
        ⟨k, idx, fields, decls⟩
      = print (.obj ((bytes! "_aws", .obj (
            [(bytes! "CloudWatchMetrics",
              JVal.arr (cfg.namespaces.map fun ns => nsDirectiveJson ⟨ns, base.map (· ++ k.map (·.1)), decls⟩))] ++
            (match cfg.logGroup with | some g => [(bytes! "LogGroupName", JVal.str g)] | none => []) ++
            [(bytes! "Timestamp", JVal.num (natDigits T))]))
          :: (k.map (fun kv => (kv.1, JVal.str kv.2)) ++ fields.map (fun m => (m.1, mvalJson txt m.2)) ++
              strs.map fun p => (p.1, JVal.str p.2)))) ++ [10] := by
  have hF : fieldBytes txt fields = ((fields.map fun m => (m.1, mvalJson txt m.2)).map fun y => 44 :: pm y).flatten := by
    simp [fieldBytes, List.map_map, Function.comp_def]
  have hSt : ∀ l : List (Str × Str), strBytes l = ((l.map fun p => (p.1, JVal.str p.2)).map fun y => 44 :: pm y).flatten := by
    intro l; simp [strBytes, List.map_map, Function.comp_def, pm, print]
  have hdims : sepBy [44] ((base.map jarrStrings).map fun d => Emf.extendWithStrings d (k.map (·.1)))
      = sepBy [44] ((base.map (· ++ k.map (·.1))).map jarrStrings) := by
    simp only [List.map_map]
    congr 1
    apply List.map_congr_left
    intro d _
    simp [extendWithStrings_jarr]
  have hX : dimMetricsPrefix (Emf.Consts.ofConfig (toEmfCfg cfg sw)) (base.map jarrStrings) k ++
        printElems (decls.map declJson) ++ bytes! "]}"
      = (Emf.awsOpen ++ jstr ns0) ++ (Emf.dimensionsAfterNs ++ sepBy [44] ((base.map (· ++ k.map (·.1))).map jarrStrings) ++
          Emf.metricsPrefix ++ printElems (decls.map declJson) ++ bytes! "]}") := by
    simp only [dimMetricsPrefix, hdims]
    simp [Emf.Consts.ofConfig, toEmfCfg, hns, List.append_assoc]
  have hreps : ((Emf.Consts.ofConfig (toEmfCfg cfg sw)).moreNs.map fun ns =>
        Emf.nsOpen ++ ns ++ (Emf.dimensionsAfterNs ++ sepBy [44] ((base.map (· ++ k.map (·.1))).map jarrStrings) ++
          Emf.metricsPrefix ++ printElems (decls.map declJson) ++ bytes! "]}")).flatten
      = ((more.map fun ns => nsDirectiveJson ⟨ns, base.map (· ++ k.map (·.1)), decls⟩).map fun y => 44 :: print y).flatten := by
    simp only [Emf.Consts.ofConfig, toEmfCfg, hns, List.tail_cons, List.map_map]
    congr 1
    apply List.map_congr_left
    intro ns _
    simp [nsDirective_print, Emf.nsOpen, List.append_assoc]
  have hns0 : (Emf.Consts.ofConfig (toEmfCfg cfg sw)).ns0 = jstr ns0 := by
    simp [Emf.Consts.ofConfig, toEmfCfg, hns]
  unfold splitLine
  simp only [hX, hns0, List.drop_left, hreps, hF, hSt, dimFieldsPrefix_eq]
  simp only [print, printMembers_cons, pm, hns, List.map_cons, printElems_cons, nsDirective_print,
    List.map_append, List.flatten_append, List.map_map]
  cases hlg : cfg.logGroup with
  | none =>
    simp [Emf.awsOpen, toEmfCfg, Emf.Consts.ofConfig, Emf.logGroupTsStr, hlg, printMembers, print,
      jstr_aws, jstr_CWM, jstr_Timestamp, Function.comp_def, List.append_assoc, pm, printElems_cons, nsDirective_print,
      Emf.dimensionsAfterNs, Emf.metricsPrefix]
  | some g =>
    simp [Emf.awsOpen, toEmfCfg, Emf.Consts.ofConfig, Emf.logGroupTsStr, hlg, printMembers, print,
      jstr_aws, jstr_CWM, jstr_Timestamp, jstr_LGN, Function.comp_def, List.append_assoc, pm, printElems_cons,
      nsDirective_print, Emf.dimensionsAfterNs, Emf.metricsPrefix]

/-! ### the abstract map after the entry = the declarative split records -/

abbrev Tri (F : Type) := Key × List (Str × MVal F) × List Decl

def tri (a : AEntry F) : Tri F := (a.key, a.fields, a.decls)

/-- the metrics routed to the split record `k` -/
def Rk (cfg : Config) (k : Key) (e : Entry F) : List (Str × Metric F) := routedTo cfg (some k) (metricItems e)

def newT (cfg : Config) (ops : FloatOps F) (mult : Option Nat) (e : Entry F) (k : Key) : Tri F :=
  (k, fieldsOf ops mult (Rk cfg k e), declsOf ops mult (Rk cfg k e))

def extT (cfg : Config) (ops : FloatOps F) (mult : Option Nat) (e : Entry F) (t : Tri F) : Tri F :=
  (t.1, t.2.1 ++ fieldsOf ops mult (Rk cfg t.1 e), t.2.2 ++ declsOf ops mult (Rk cfg t.1 e))

/-- an item either leaves the split side alone or is a metric routed to a split record -/
theorem item_cases (cfg : Config) (ops : FloatOps F) (mult : Option Nat) (it : Item F) (e : Entry F) :
    ((∀ ad, adStep cfg ops mult ad it = ad) ∧ splitKeys cfg (it :: e) = splitKeys cfg e ∧
      ∀ k, Rk cfg k (it :: e) = Rk cfg k e) ∨
    (∃ n m k0, it = .value n (.metric m) ∧ routeOf cfg m = some k0) := by
  cases it with
  | value n v =>
    cases v with
    | metric m =>
      cases hro : routeOf cfg m with
      | some k0 => exact Or.inr ⟨n, m, k0, rfl, hro⟩
      | none =>
        refine Or.inl ⟨fun ad => by simp [adStep, hro], by simp [splitKeys, metricItems, hro], fun k => ?_⟩
        simp [Rk, metricItems, routedTo, hro]
    | str s => exact Or.inl ⟨fun _ => rfl, rfl, fun _ => rfl⟩
    | error => exact Or.inl ⟨fun _ => rfl, rfl, fun _ => rfl⟩
    | nothing => exact Or.inl ⟨fun _ => rfl, rfl, fun _ => rfl⟩
  | timestamp t => exact Or.inl ⟨fun _ => rfl, rfl, fun _ => rfl⟩
  | allowSplit => exact Or.inl ⟨fun _ => rfl, rfl, fun _ => rfl⟩
  | otherCfg => exact Or.inl ⟨fun _ => rfl, rfl, fun _ => rfl⟩
  | allowUnroutable => exact Or.inl ⟨fun _ => rfl, rfl, fun _ => rfl⟩
  | entryDims s => exact Or.inl ⟨fun _ => rfl, rfl, fun _ => rfl⟩

theorem splitKeys_cons_split (cfg : Config) (n : Str) (m : Metric F) (k0 : Key) (e : Entry F)
    (hro : routeOf cfg m = some k0) :
    splitKeys cfg (.value n (.metric m) :: e) = k0 :: (splitKeys cfg e).filter (· ≠ k0) := by
  simp [splitKeys, metricItems, hro, dedup]

theorem Rk_cons_split (cfg : Config) (n : Str) (m : Metric F) (k0 k : Key) (e : Entry F)
    (hro : routeOf cfg m = some k0) :
    Rk cfg k (.value n (.metric m) :: e) = if k0 = k then (n, m) :: Rk cfg k e else Rk cfg k e := by
  simp only [Rk, metricItems, routedTo, List.filter_cons, hro, Option.some.injEq]
  by_cases h : k0 = k <;> simp [h]

theorem fieldsOf_cons' (ops : FloatOps F) (mult : Option Nat) (p : Str × Metric F) (l : List (Str × Metric F)) :
    fieldsOf ops mult (p :: l) = fieldsOf ops mult [p] ++ fieldsOf ops mult l := by
  rw [← fieldsOf_append]; rfl

theorem declsOf_cons' (ops : FloatOps F) (mult : Option Nat) (p : Str × Metric F) (l : List (Str × Metric F)) :
    declsOf ops mult (p :: l) = declsOf ops mult [p] ++ declsOf ops mult l := by
  rw [← declsOf_append]; rfl

theorem adFold_spec (cfg : Config) (ops : FloatOps F) (mult : Option Nat) (e : Entry F) (ad : List (AEntry F)) :
    (e.foldl (adStep cfg ops mult) ad).map tri =
      (ad.map tri).map (extT cfg ops mult e) ++
      ((splitKeys cfg e).filter fun k => decide (k ∉ ad.map (·.key))).map (newT cfg ops mult e) := by
  induction e generalizing ad with
  | nil =>
    simp only [List.foldl_nil, splitKeys, metricItems, List.filterMap_nil, dedup, List.filter_nil, List.map_nil,
      List.append_nil]
    rw [List.map_map]
    apply List.map_congr_left
    intro a _
    simp [extT, tri, Rk, metricItems, routedTo, fieldsOf, declsOf]
  | cons it e ih =>
    simp only [List.foldl_cons]
    rcases item_cases cfg ops mult it e with ⟨h1, h2, h3⟩ | ⟨n, m, k0, rfl, hro⟩
    · rw [h1, ih, h2]
      congr 1
      · apply List.map_congr_left
        intro t _
        simp [extT, h3]
      · apply List.map_congr_left
        intro k _
        simp [newT, h3]
    · rw [ih]
      have hR : Rk cfg k0 (.value n (.metric m) :: e) = (n, m) :: Rk cfg k0 e := by
        rw [Rk_cons_split cfg n m k0 k0 e hro]; simp
      have hfo : fieldsOf ops mult ((n, m) :: Rk cfg k0 e) = fieldsOf ops mult [(n, m)] ++ fieldsOf ops mult (Rk cfg k0 e) :=
        fieldsOf_cons' ops mult (n, m) _
      have hdo : declsOf ops mult ((n, m) :: Rk cfg k0 e) = declsOf ops mult [(n, m)] ++ declsOf ops mult (Rk cfg k0 e) :=
        declsOf_cons' ops mult (n, m) _
      simp only [adStep, hro]
      unfold adAdd
      cases hf : adFind? ad k0 with
      | some a0 =>
        have hk0 : k0 ∈ ad.map (·.key) := by
          have := adFind_some hf
          exact List.mem_map.mpr ⟨a0, this.1, this.2⟩
        simp only
        -- keys are unchanged
        have hkeys : ∀ f : AEntry F → AEntry F, (∀ a, (f a).key = a.key) → (adUpd ad k0 f).map (·.key) = ad.map (·.key) := by
          intro f hfk
          simp only [adUpd, List.map_map]
          apply List.map_congr_left
          intro a _
          simp only [Function.comp_apply]
          split
          · exact hfk a
          · rfl
        rw [hkeys (fun a => ⟨a.key, a.index, a.fields ++ fieldsOf ops mult [(n, m)], a.decls ++ declsOf ops mult [(n, m)]⟩) (fun _ => rfl)]
        congr 1
        · simp only [adUpd, List.map_map]
          apply List.map_congr_left
          intro a _
          simp only [Function.comp_apply, extT, tri]
          by_cases hk : a.key = k0
          · simp only [hk, if_true, hR, hfo, hdo, List.append_assoc]
          · have hk' : ¬ k0 = a.key := fun c => hk c.symm
            simp [hk, Rk_cons_split cfg n m k0 a.key e hro, hk']
        · rw [splitKeys_cons_split cfg n m k0 e hro]
          simp only [List.filter_cons, hk0, not_true_eq_false, decide_false, Bool.false_eq_true, if_false,
            List.filter_filter]
          have hfil : (splitKeys cfg e).filter (fun k => decide (k ∉ ad.map (·.key)) && decide (k ≠ k0))
              = (splitKeys cfg e).filter (fun k => decide (k ∉ ad.map (·.key))) := by
            apply List.filter_congr
            intro k _
            by_cases hk : k ∈ ad.map (·.key)
            · simp [hk]
            · have : k ≠ k0 := fun c => hk (c ▸ hk0)
              simp [hk, this]
          rw [hfil]
          apply List.map_congr_left
          intro k hk
          have hk1 := (List.mem_filter.mp hk).2
          have hne : ¬ k0 = k := by
            intro c; subst c; simp [hk0] at hk1
          simp [newT, Rk_cons_split cfg n m k0 k e hro, hne]
      | none =>
        have hk0 : k0 ∉ ad.map (·.key) := (adFind_none ad k0).mp hf
        simp only [List.map_append, List.map_cons, List.map_nil]
        rw [splitKeys_cons_split cfg n m k0 e hro]
        simp only [List.filter_cons, hk0, not_false_eq_true, decide_true, if_true, List.map_cons, List.filter_filter,
          List.append_assoc]
        congr 1
        · rw [List.map_map, List.map_map]
          apply List.map_congr_left
          intro a ha
          have hne : ¬ k0 = a.key := fun c => hk0 (List.mem_map.mpr ⟨a, ha, c.symm⟩)
          simp [extT, tri, Rk_cons_split cfg n m k0 a.key e hro, hne]
        · simp only [List.singleton_append, List.cons_append, List.nil_append]
          congr 1
          · simp only [extT, tri, newT, hR, hfo, hdo]
          · have hfil : (splitKeys cfg e).filter (fun k => decide (k ∉ ad.map (·.key) ++ [k0]))
                = (splitKeys cfg e).filter (fun k => decide (k ∉ ad.map (·.key)) && decide (k ≠ k0)) := by
              apply List.filter_congr
              intro k _
              simp [List.mem_append, not_or]
            rw [hfil]
            apply List.map_congr_left
            intro k hk
            have hk1 := (List.mem_filter.mp hk).2
            have hne : ¬ k0 = k := by
              intro c; subst c; simp at hk1
            simp [newT, Rk_cons_split cfg n m k0 k e hro, hne]

end EmfRefine
