import Props.EmfRefineStage3
import Props.C08
/-!
# Stage 3, lifted: reachable states, the reader, and C03 / C08 facts about the BYTES

`Decodes bytes trees`: the bytes are a sequence of lines, each of which the reader reads back as the
corresponding tree. `emf_refines_spec_split_read`: the output of the operational model decodes to the trees
`recordJson r` of the declarative records, in order. Every theorem of C03 / C08 about `emit` is thereby a
theorem about the decoded output of the byte-level model; two are spelled out (`emf_lines_metrics_once`,
`emf_lines_no_dup_members_partial`).
-/

namespace JsonTree
/-- the member names of a JSON object, in order, duplicates kept -/
def JVal.keys : JVal → List (List Nat)
  | .obj ms => ms.map (·.1)
  | _ => []

def JVal.isStr : JVal → Bool
  | .str _ => true
  | _ => false

/-- the members of a record line after `_aws` that are not strings: the metric members -/
def JVal.metricMembers : JVal → List (List Nat × JVal)
  | .obj (_ :: ms) => ms.filter fun p => !p.2.isStr
  | _ => []
end JsonTree

namespace EmfRefine
open JsonTree Json EmfSpec

variable {F : Type}

/-- `bytes` is a sequence of lines that read back as `trees` -/
def Decodes (bytes : List Nat) (trees : List JVal) : Prop :=
  ∃ lines : List (List Nat), bytes = lines.flatten ∧ lines.map readLine = trees.map some

/-! ### any formatter history -/

/-- `emf_refines_spec_split` for a formatter with any history (C14) -/
theorem emf_refines_spec_split_reachable (cfg : Config) (sw : Switches) (ops : FloatOps F) (txt : F → List Nat)
    (mult : Option Nat) (nowMs : Nat) (e : Entry F) {s : Emf.State} (hs : Emf.Reachable (toEmfCfg cfg sw) s)
    (hns : cfg.namespaces ≠ []) (hm : multOk mult) (hv : validate cfg sw e = []) :
    let r := Emf.format (Emf.Consts.ofConfig (toEmfCfg cfg sw)) s (toCall ops txt mult nowMs e)
    r.2.1 = .ok ∧
    r.2.2.bytes = ((emit cfg ops mult e).map (lineOf txt cfg.namespaces.length nowMs)).flatten := by
  have h := (emf_refines_spec_split cfg sw ops txt mult nowMs e hns hm hv).2
  have hc := Emf.c14_history_independent (toEmfCfg cfg sw) hs (toCall ops txt mult nowMs e)
  simp only [runEmf] at h
  simp only
  rw [hc]
  exact ⟨congrArg Prod.fst h, congrArg Prod.snd h⟩

/-! ### the reader -/

theorem mkRecord_members_ok (cfg : Config) (ops : FloatOps F) (txt : F → List Nat) (ht : TxtOk ops txt)
    (mult : Option Nat) (e : Entry F) (route : Option Key) (ms : List (Str × Metric F)) (extra : List Directive) :
    ∀ m ∈ (mkRecord cfg ops mult e route ms extra).members, MValOk txt m.2 := by
  intro m hmem
  simp only [mkRecord, List.mem_append, List.mem_map] at hmem
  rcases hmem with (⟨kv, _, rfl⟩ | hmem) | ⟨p, _, rfl⟩
  · trivial
  · unfold fieldsOf at hmem
    obtain ⟨p, _, hp⟩ := List.mem_filterMap.mp hmem
    cases hf : fieldOf ops mult p.2 with
    | none => simp [hf] at hp
    | some v =>
      simp only [hf, Option.map_some, Option.some.injEq] at hp
      rw [← hp]
      exact fieldOf_ok ops txt ht mult p.2 v hf
  · trivial

theorem emit_lines_read (cfg : Config) (ops : FloatOps F) (txt : F → List Nat) (ht : TxtOk ops txt)
    (mult : Option Nat) (nowMs : Nat) (e : Entry F) (r : Record F) (h : r ∈ emit cfg ops mult e) :
    readLine (lineOf txt cfg.namespaces.length nowMs r) = some (recordJson txt cfg.namespaces.length nowMs r) := by
  refine readLine_print _ (WF_recordJson txt _ _ _ ?_)
  rcases mem_emit h with ⟨k, _, rfl, _⟩ | rfl <;> exact mkRecord_members_ok cfg ops txt ht mult e _ _ _

/-- **Stage 3, reader form.** Under the hypotheses of `emf_refines_spec_split` and the dtoa law: the operational
model returns `ok` and its bytes are a sequence of lines that read back, one by one and in order, as the JSON
trees of the declarative model's records. -/
theorem emf_refines_spec_split_read (cfg : Config) (sw : Switches) (ops : FloatOps F) (txt : F → List Nat)
    (mult : Option Nat) (nowMs : Nat) (e : Entry F)
    (hns : cfg.namespaces ≠ []) (hm : multOk mult) (ht : TxtOk ops txt)
    (hv : validate cfg sw e = []) :
    (runEmf cfg sw ops txt mult nowMs e).1 = .ok ∧
    Decodes (runEmf cfg sw ops txt mult nowMs e).2
      ((emit cfg ops mult e).map (recordJson txt cfg.namespaces.length nowMs)) := by
  have h := (emf_refines_spec_split cfg sw ops txt mult nowMs e hns hm hv).2
  rw [h]
  refine ⟨rfl, (emit cfg ops mult e).map (lineOf txt cfg.namespaces.length nowMs), rfl, ?_⟩
  rw [List.map_map, List.map_map]
  apply List.map_congr_left
  intro r hr
  exact emit_lines_read cfg ops txt ht mult nowMs e r hr

/-- the same for a formatter with any history -/
theorem emf_refines_spec_split_read_reachable (cfg : Config) (sw : Switches) (ops : FloatOps F) (txt : F → List Nat)
    (mult : Option Nat) (nowMs : Nat) (e : Entry F) {s : Emf.State} (hs : Emf.Reachable (toEmfCfg cfg sw) s)
    (hns : cfg.namespaces ≠ []) (hm : multOk mult) (ht : TxtOk ops txt)
    (hv : validate cfg sw e = []) :
    let r := Emf.format (Emf.Consts.ofConfig (toEmfCfg cfg sw)) s (toCall ops txt mult nowMs e)
    r.2.1 = .ok ∧ Decodes r.2.2.bytes ((emit cfg ops mult e).map (recordJson txt cfg.namespaces.length nowMs)) := by
  have h := emf_refines_spec_split_read cfg sw ops txt mult nowMs e hns hm ht hv
  have hc := Emf.c14_history_independent (toEmfCfg cfg sw) hs (toCall ops txt mult nowMs e)
  simp only [runEmf] at h
  simp only
  rw [hc]
  exact h

/-! ### C03 on the bytes: every usable metric exactly once -/

theorem recordJson_keys (txt : F → List Nat) (n now : Nat) (r : Record F) :
    (recordJson txt n now r).keys = r.memberNames := by
  simp [recordJson, JVal.keys, Record.memberNames, List.map_map, Function.comp_def]
  rfl

theorem mvalJson_isStr (txt : F → List Nat) (v : MVal F) : (mvalJson txt v).isStr = v.isStr := by
  cases v <;> rfl

theorem recordJson_metricMembers (txt : F → List Nat) (n now : Nat) (r : Record F) :
    (recordJson txt n now r).metricMembers = r.metricMembers.map fun p => (p.1, mvalJson txt p.2) := by
  simp only [recordJson, JVal.metricMembers, Record.metricMembers, List.filter_map]
  congr 1
  apply List.filter_congr
  intro p _
  simp [mvalJson_isStr]

/-- **C03 conservation, on the bytes.** The output of the byte-level model decodes to a list of JSON objects
whose metric members (the non-string members after `_aws`), taken over all lines together, are — as a multiset —
exactly the usable metric fields of the entry (`fieldOf … = some v`), each once, as the JSON value of `v`
(scalar, or `Values` / `Counts` = usable values / occurrences saturating-times multiplicity by `c03_values_counts`);
a metric without a usable observation appears nowhere, nothing else appears. -/
theorem emf_lines_metrics_once (cfg : Config) (sw : Switches) (ops : FloatOps F) (txt : F → List Nat)
    (mult : Option Nat) (nowMs : Nat) (e : Entry F)
    (hns : cfg.namespaces ≠ []) (hm : multOk mult) (ht : TxtOk ops txt)
    (hv : validate cfg sw e = []) :
    ∃ trees, Decodes (runEmf cfg sw ops txt mult nowMs e).2 trees ∧
      (trees.flatMap JVal.metricMembers).Perm
        ((fieldsOf ops mult (metricItems e)).map fun p => (p.1, mvalJson txt p.2)) := by
  refine ⟨_, (emf_refines_spec_split_read cfg sw ops txt mult nowMs e hns hm ht hv).2, ?_⟩
  have h := (c03_metric_once cfg ops mult e).map fun p => (p.1, mvalJson txt p.2)
  refine List.Perm.trans (List.Perm.of_eq ?_) h
  simp only [List.flatMap_map, List.map_flatMap, recordJson_metricMembers]

/-- **C03 presence and declaration, on the bytes.** A metric of the entry with a usable observation is a metric
member of one decoded line — the line of its own route — and, unless flagged no-metric, is declared there with its
unit and resolution in the directive of every configured namespace. -/
theorem emf_lines_usable_somewhere (cfg : Config) (sw : Switches) (ops : FloatOps F) (txt : F → List Nat)
    (mult : Option Nat) (nowMs : Nat) (e : Entry F)
    (hns : cfg.namespaces ≠ []) (hm : multOk mult) (ht : TxtOk ops txt)
    (hv : validate cfg sw e = []) (n : Str) (m : Metric F) (v : MVal F)
    (hmem : (n, m) ∈ metricItems e) (hfv : fieldOf ops mult m = some v) :
    ∃ trees, Decodes (runEmf cfg sw ops txt mult nowMs e).2 trees ∧
      ∃ r ∈ emit cfg ops mult e, recordJson txt cfg.namespaces.length nowMs r ∈ trees ∧ r.route = routeOf cfg m ∧
        (n, mvalJson txt v) ∈ (recordJson txt cfg.namespaces.length nowMs r).metricMembers ∧
        ∀ ns ∈ cfg.namespaces, ∃ d ∈ r.directives, d.ns = ns ∧
          (m.flag ≠ .noMetric → (⟨n, m.unit, decide (m.flag = .hires)⟩ : Decl) ∈ d.metrics) := by
  refine ⟨_, (emf_refines_spec_split_read cfg sw ops txt mult nowMs e hns hm ht hv).2, ?_⟩
  obtain ⟨r, hr, hroute, hin⟩ := c03_usable_somewhere cfg ops mult e n m v hmem hfv
  refine ⟨r, hr, List.mem_map.mpr ⟨r, hr, rfl⟩, hroute, ?_, ?_⟩
  · rw [recordJson_metricMembers]
    exact List.mem_map.mpr ⟨(n, v), hin, rfl⟩
  · intro ns hnsm
    exact c03_decl_of_metric cfg ops mult e r hr n m hmem hroute.symm (by simp [hfv]) ns hnsm

/-! ### C08 on the bytes: no duplicate member -/

/-- **`c08_no_dup_members_partial`, on the bytes.** With all validations on, for an accepted entry without
`AllowUnroutableEntries` whose per-metric dimension keys collide with nothing (`dimKeysDisjoint`, the hypothesis
of C08's record-level theorem — the code does not check it): every line the byte-level model writes reads back
as a JSON object whose member names are pairwise distinct. -/
theorem emf_lines_no_dup_members_partial (cfg : Config) (ops : FloatOps F) (txt : F → List Nat)
    (mult : Option Nat) (nowMs : Nat) (e : Entry F)
    (hns : cfg.namespaces ≠ []) (hm : multOk mult) (ht : TxtOk ops txt)
    (hu : noUnroutable e = true) (hv : validate cfg allOn e = []) (hd : dimKeysDisjoint cfg e = true) :
    (runEmf cfg allOn ops txt mult nowMs e).1 = .ok ∧
    ∃ trees, Decodes (runEmf cfg allOn ops txt mult nowMs e).2 trees ∧ ∀ t ∈ trees, t.keys.Nodup := by
  obtain ⟨h1, h2⟩ := emf_refines_spec_split_read cfg allOn ops txt mult nowMs e hns hm ht hv
  refine ⟨h1, _, h2, ?_⟩
  intro t htm
  obtain ⟨r, hr, rfl⟩ := List.mem_map.mp htm
  rw [recordJson_keys]
  exact (c08_no_dup_members_partial cfg ops mult e hu hv hd).2 r hr

end EmfRefine

#print axioms EmfRefine.emf_refines_spec_split_reachable
#print axioms EmfRefine.emf_refines_spec_split_read
#print axioms EmfRefine.emf_refines_spec_split_read_reachable
#print axioms EmfRefine.emf_lines_metrics_once
#print axioms EmfRefine.emf_lines_usable_somewhere
#print axioms EmfRefine.emf_lines_no_dup_members_partial
