import Props.C13LemmasB
import Model.KeepAliveX
/-!
# C06 over the extended model (`Model/KeepAliveX.lean`)

Histories that additionally contain a slot guard whose drop panics in `close()` (`gSendFail`) and slot fields replaced
while their guard is alive (`slotReplace`, orphan guards with `oDelay` / `oGmut` / `oSend` / `oSendFail` / `oRelease`).
For the reference-count protocol these add nothing new — a panicking guard drop is a guard drop, an orphan guard that was
handed a flush guard by `delay_flush` is a holder of a flush guard — so the invariant `Inv` of the base component is
preserved, together with "flush guards held by slot guards and by orphans ≤ `fgLive`".  The C06 theorems follow for every
schedule of the extended model (`ReachableX`).
-/
namespace KeepAlive

variable {cfg : List (Bool × Nat)} {x x' : StX}

inductive ReachableX (cfg : List (Bool × Nat)) : StX → Prop where
  | init : ReachableX cfg (initX (cfg.map fresh))
  | step {x x' : StX} (e : EvX) : ReachableX cfg x → stepX x e = some x' → ReachableX cfg x'

theorem reachableX_run {x x' : StX} (es : List EvX) (hr : ReachableX cfg x) (h : runX x es = some x') :
    ReachableX cfg x' := by
  induction es generalizing x with
  | nil => simp [runX] at h; exact h ▸ hr
  | cons e es ih =>
    simp only [runX] at h
    split at h
    · cases h
    · rename_i x1 hs; exact ih (ReachableX.step e hr hs) h

structure InvX (x : StX) : Prop where
  inv : Inv x.b
  /-- flush guards inside slot guards and inside orphan guards are distinct live flush guards -/
  heldx : held x.b.slots + heldO x.orph ≤ x.b.fgLive

theorem heldByO_le_one (o : OGuard) : heldByO o ≤ 1 := by unfold heldByO; split <;> omega

theorem heldO_append (a b : List OGuard) : heldO (a ++ b) = heldO a + heldO b := by
  induction a with
  | nil => simp [heldO]
  | cons o r ih => simp [heldO, ih]; omega

theorem heldO_modify {l : List OGuard} {j : Nat} {o : OGuard} (f : OGuard → OGuard) (h : l[j]? = some o) :
    heldO (modifyAt f l j) + heldByO o = heldO l + heldByO (f o) := by
  induction l generalizing j with
  | nil => simp at h
  | cons a r ih =>
    cases j with
    | zero => simp at h; subst h; simp [modifyAt, heldO]; omega
    | succ j => simp at h; have := ih h; simp [modifyAt, heldO]; omega

theorem heldO_erase {l : List OGuard} {j : Nat} {o : OGuard} (h : l[j]? = some o) :
    heldO (l.eraseIdx j) + heldByO o = heldO l := by
  induction l generalizing j with
  | nil => simp at h
  | cons a r ih =>
    cases j with
    | zero => simp at h; subst h; simp [heldO]; omega
    | succ j => simp at h; have := ih h; simp [heldO]; omega

/-- the number of free flush guards (`fgLive − held`) goes down by at most one, and only with an event that takes one -/
theorem step_free {s s' : St} {e : Ev} (hi : Inv s) (h : step s e = some s') :
    held s'.slots + s.fgLive ≤ held s.slots + s'.fgLive + (if needsFree e then 1 else 0) := by
  have hle := hi.heldle
  cases e
  case «open» i m v0 =>
    simp only [step] at h
    split at h
    · cases h
    · rename_i sl hsl
      have hm := held_modify (fun sl => { sl with opened := true, g := .live, mode := m,
                                                   gval := if sl.lazy then v0 else sl.init }) hsl
      have hnew : heldBy { sl with opened := true, g := .live, mode := m,
                                   gval := if sl.lazy then v0 else sl.init } = if m = .wait then 1 else 0 := by
        simp [heldBy]
      rw [hnew] at hm
      cases m <;> simp only [dropFG, setSlot, needsFree] at h ⊢ <;> (repeat' split at h) <;> (try cases h) <;>
        simp_all [relG_more] <;> omega
  case waitBegin i =>
    simp only [step] at h
    split at h
    · cases h
    · rename_i sl hsl
      have hm := held_modify (fun _ => (poll sl).1) hsl
      rw [heldBy_poll] at hm
      split at h
      · cases h; simp only [setSlot, needsFree]; simp; omega
      · cases h
  case waitPoll =>
    simp only [step] at h
    split at h
    · cases h
    · split at h
      · cases h
      · rename_i sl hsl
        have hm := held_modify (fun _ => (poll sl).1) hsl
        rw [heldBy_poll] at hm
        cases h; simp only [setSlot, needsFree]; simp; omega
  case delay i =>
    simp only [step] at h
    split at h
    · cases h
    · rename_i sl hsl
      have hm := held_modify (fun sl => { sl with mode := .wait }) hsl
      have := heldBy_le_one { sl with mode := .wait }
      simp only [dropFG, setSlot, needsFree] at h ⊢
      (repeat' split at h) <;> (try cases h) <;> simp_all [relG_more] <;> omega
  case gmut i v =>
    simp only [step] at h
    split at h
    · cases h
    · rename_i sl hsl
      have hm := held_modify (fun sl => { sl with gval := v }) hsl
      have : heldBy { sl with gval := v } = heldBy sl := rfl
      split at h
      · cases h; simp only [setSlot, needsFree]; simp; omega
      · cases h
  case gSend i =>
    simp only [step] at h
    split at h
    · cases h
    · rename_i sl hsl
      have hm := held_modify (fun sl => { sl with g := .sent, cell := (if sl.rx then some sl.gval else none), sentOk := sl.closedAs.isNone }) hsl
      split at h
      · rename_i hg
        have : heldBy { sl with g := .sent, cell := (if sl.rx then some sl.gval else none), sentOk := sl.closedAs.isNone } = heldBy sl := by
          simp [heldBy, hg]
        cases h; simp only [setSlot, needsFree]; simp; omega
      · cases h
  case gRelease i =>
    simp only [step] at h
    split at h
    · cases h
    · rename_i sl hsl
      have hm := held_modify (fun sl => { sl with g := .none }) hsl
      have hnew : heldBy { sl with g := .none } = 0 := by simp [heldBy]
      rw [hnew] at hm
      have hb := heldBy_le_held hsl
      split at h
      · rename_i hg
        have hold : sl.mode = .wait → heldBy sl = 1 := by intro hw; simp [heldBy, hg, hw]
        simp only [dropFG, setSlot, needsFree] at h ⊢
        (repeat' split at h) <;> (try cases h) <;> simp_all [relG_more] <;> omega
      · cases h
  case closeSlot =>
    simp only [step] at h
    split at h
    · split at h
      · rename_i l hl
        have := held_closeFirst hl
        cases h; simp only [needsFree]; simp; omega
      · cases h
    · cases h
  all_goals
    simp only [step, dropFG, finishInner, needsFree] at h ⊢
    (repeat' split at h) <;> (try cases h) <;> simp_all [relG_more] <;> omega

theorem dropFG_is_fgDrop {s : St} (h : held s.slots < s.fgLive) : step s .fgDrop = some (dropFG s) := by
  simp [step, h]

theorem dropFG_fields (s : St) : (dropFG s).fgLive = s.fgLive - 1 ∧ (dropFG s).slots = s.slots ∧
    (dropFG s).appended = s.appended := by
  simp [dropFG, relG_more, relG_frozen]

theorem invX_init (cfg : List (Bool × Nat)) : InvX (initX (cfg.map fresh)) :=
  ⟨inv_init cfg, by simp [initX, init, held_fresh, heldO]⟩

theorem invX_step {e : EvX} (hx : InvX x) (h : stepX x e = some x') : InvX x' := by
  obtain ⟨hi, hh⟩ := hx
  cases e
  case base e =>
    simp only [stepX] at h
    split at h
    · cases h
    · rename_i hn
      cases hs : step x.b e with
      | none => simp [hs] at h
      | some b' =>
        simp [hs] at h; subst h
        refine ⟨inv_step hi hs, ?_⟩
        have hf := step_free hi hs
        simp only [Bool.and_eq_true, Bool.not_eq_eq_eq_not, Bool.not_true, not_and, Bool.not_eq_false] at hn
        by_cases hne : needsFree e = true
        · have := hn hne
          simp only [freeFG, decide_eq_true_eq] at this
          simp only [hne, ite_true] at hf
          show held b'.slots + heldO x.orph ≤ b'.fgLive
          omega
        · simp only [hne] at hf
          show held b'.slots + heldO x.orph ≤ b'.fgLive
          simp at hf; omega
  case gSendFail i =>
    simp only [stepX] at h
    split at h
    · cases h
    · rename_i sl hsl
      split at h
      · rename_i hg
        cases h
        have hm := held_modify (fun sl => { sl with g := .sent, sentOk := false, failed := true }) hsl
        have : heldBy { sl with g := .sent, sentOk := false, failed := true } = heldBy sl := by simp [heldBy, hg]
        exact ⟨inv_slotOnly hi (by omega), by simp only [setSlot]; omega⟩
      · cases h
  case slotReplace i v =>
    simp only [stepX] at h
    split at h
    · cases h
    · rename_i sl hsl
      split at h
      · cases h
        have hm := held_modify (fun sl => ({ lazy := sl.lazy, init := v } : Slot)) hsl
        have hz : heldBy ({ lazy := sl.lazy, init := v } : Slot) = 0 := by simp [heldBy]
        rw [hz] at hm
        refine ⟨inv_slotOnly hi (by omega), ?_⟩
        simp only [setSlot, heldO_append]
        by_cases hg : sl.g = .none
        · simp [hg, heldO]; omega
        · have : heldByO { g := sl.g, mode := sl.mode, gval := sl.gval } = heldBy sl := by simp [heldByO, heldBy]
          simp [hg, heldO, this]; omega
      · cases h
  case oDelay j =>
    simp only [stepX] at h
    split at h
    · cases h
    · rename_i o ho
      split at h
      · rename_i hc
        have hfree := hc.2
        simp only [freeFG, decide_eq_true_eq] at hfree
        split at h
        · cases h
          have hlt : held x.b.slots < x.b.fgLive := by omega
          have := dropFG_fields x.b
          exact ⟨inv_step hi (dropFG_is_fgDrop hlt), by simp only [this]; omega⟩
        · rename_i hm
          cases h
          have hmod := heldO_modify (fun o => { o with mode := .wait }) ho
          have := heldByO_le_one { o with mode := .wait }
          exact ⟨hi, by simp only; omega⟩
      · cases h
  case oGmut j v =>
    simp only [stepX] at h
    split at h
    · cases h
    · rename_i o ho
      split at h
      · cases h
        have hmod := heldO_modify (fun o => { o with gval := v }) ho
        have : heldByO { o with gval := v } = heldByO o := rfl
        exact ⟨hi, by simp only; omega⟩
      · cases h
  case oSend j =>
    simp only [stepX] at h
    split at h
    · cases h
    · rename_i o ho
      split at h
      · rename_i hg
        cases h
        have hmod := heldO_modify (fun o => { o with g := .sent }) ho
        have : heldByO { o with g := .sent } = heldByO o := by simp [heldByO, hg]
        exact ⟨hi, by simp only; omega⟩
      · cases h
  case oSendFail j =>
    simp only [stepX] at h
    split at h
    · cases h
    · rename_i o ho
      split at h
      · rename_i hg
        cases h
        have hmod := heldO_modify (fun o => { o with g := .sent }) ho
        have : heldByO { o with g := .sent } = heldByO o := by simp [heldByO, hg]
        exact ⟨hi, by simp only; omega⟩
      · cases h
  case oRelease j =>
    simp only [stepX] at h
    split at h
    · cases h
    · rename_i o ho
      split at h
      · rename_i hg
        have her := heldO_erase ho
        cases h
        split
        · rename_i hw
          have h1 : heldByO o = 1 := by simp [heldByO, hg, hw]
          have hlt : held x.b.slots < x.b.fgLive := by omega
          have := dropFG_fields x.b
          exact ⟨inv_step hi (dropFG_is_fgDrop hlt), by simp only [this]; omega⟩
        · exact ⟨hi, by simp only; omega⟩
      · cases h

theorem invX_reachable (hr : ReachableX cfg x) : InvX x := by
  induction hr with
  | init => exact invX_init cfg
  | step e _ h ih => exact invX_step ih h

/-- only the base `emit` hands something to the sink -/
theorem appendedX_unchanged {e : EvX} (h : stepX x e = some x') (he : e ≠ .base .emit) :
    x'.b.appended = x.b.appended := by
  cases e
  case base e =>
    simp only [stepX] at h
    split at h
    · cases h
    · cases hs : step x.b e with
      | none => simp [hs] at h
      | some b' =>
        simp [hs] at h; subst h
        exact appended_unchanged hs (by intro hc; exact he (by rw [hc]))
  all_goals
    simp only [stepX, setSlot] at h
    (repeat' split at h) <;> (try cases h) <;> simp [(dropFG_fields _).2.2]

/-- **C06 (extended) never twice.** -/
theorem c06_x_at_most_once (hr : ReachableX cfg x) : x.b.appended.length ≤ 1 := by
  have hi := (invX_reachable hr).inv
  have h0 := hi.apps0
  have h1 := hi.apps1
  by_cases h : x.b.vS = 0
  · have := h0 h; omega
  · have := h1 (by omega); omega

theorem anyApp_cond_inv {s : St} (hi : Inv s) (ha : anyApp s = true) :
    s.hS = 0 ∧ (s.fgLive = 0 ∨ s.dgBegun > 0) := by
  obtain ⟨h1,h2,h3,h4,h5,h6,h7,h8,h9,h10,h11,h11b,h12,h13,h14⟩ := hi
  simp only [anyApp] at ha
  dsimp only [nApp] at *
  constructor <;> grind [pV, pG, pA, iA, lA, lV, b2n]

/-- **C06 (extended) never early.** A step that makes the sink receive the entry is enabled only when the owner and all
handles have begun to drop and either some force-flush guard has begun to drop or **no flush guard is left at all —
neither free, nor in a slot guard, nor in an orphan guard** (a guard whose slot field was replaced and that was handed
a flush guard by `delay_flush` afterwards keeps delaying the append until it is dropped; a guard whose drop panics in
`close()` releases its flush guard like any other). -/
theorem c06_x_not_early {e : EvX} (hr : ReachableX cfg x) (h : stepX x e = some x')
    (hch : x'.b.appended ≠ x.b.appended) :
    x.b.hS = 0 ∧ ((x.b.fgLive = 0 ∧ held x.b.slots = 0 ∧ heldO x.orph = 0) ∨ x.b.dgBegun > 0) := by
  have hx := invX_reachable hr
  have he : e = .base .emit := by
    by_cases he : e = .base .emit
    · exact he
    · exact absurd (appendedX_unchanged h he) hch
  subst he
  simp only [stepX, needsFree] at h
  cases hs : step x.b .emit with
  | none => simp [hs] at h
  | some b' =>
    have ha : anyApp x.b = true := by
      simp only [step] at hs
      split at hs
      · rename_i hc; exact hc.1
      · cases hs
    obtain ⟨h0, hc⟩ := anyApp_cond_inv hx.inv ha
    refine ⟨h0, ?_⟩
    rcases hc with hc | hc
    · have := hx.heldx
      exact Or.inl ⟨hc, by omega, by omega⟩
    · exact Or.inr hc

/-- while an orphan guard (or a slot guard) holds a flush guard and no force-flush guard has begun to drop, nothing has
been appended and no thread is in the entry's destructor -/
theorem c06_x_held_guard_delays (hr : ReachableX cfg x) (hh : held x.b.slots + heldO x.orph > 0)
    (hd : x.b.dgBegun = 0) : anyApp x.b = false ∧ x.b.appended = [] := by
  have hx := invX_reachable hr
  have hfg : x.b.fgLive > 0 := by have := hx.heldx; omega
  have hna : anyApp x.b = false := by
    cases ha : anyApp x.b with
    | false => rfl
    | true => have := (anyApp_cond_inv hx.inv ha).2; omega
  refine ⟨hna, ?_⟩
  cases hap : x.b.appended with
  | nil => rfl
  | cons a l =>
    exfalso
    obtain ⟨h1,h2,h3,h4,h5,h6,h7,h8,h9,h10,h11,h11b,h12,h13,h14⟩ := hx.inv
    simp only [hap, List.length_cons] at h3 h4
    dsimp only [nApp] at *
    grind [pV, pG, pA, iA, lA, lV, b2n]

/-- **C06 (extended) never not at all.** Nothing in flight (orphans included), owner and handles gone, and all flush
guards gone or a force-flush drop returned ⇒ exactly one entry. -/
theorem c06_x_not_late (hr : ReachableX cfg x) (hq : inFlightX x = false) (hown : x.b.hS = 0)
    (hg : x.b.fgLive = 0 ∨ x.b.dgDone > 0) : x.b.appended.length = 1 := by
  obtain ⟨h1,h2,h3,h4,h5,h6,h7,h8,h9,h10,h11,h11b,h12,h13,h14⟩ := (invX_reachable hr).inv
  simp only [inFlightX, inFlight, Bool.or_eq_false_iff, Bool.and_eq_false_iff] at hq
  dsimp only [nApp] at *
  grind [pV, pG, pA, iA, lA, lV, b2n]

/-- **C06 (extended) content.** -/
theorem c06_x_content_snapshot (hr : ReachableX cfg x) {a : Appended} (ha : a ∈ x.b.appended) :
    x.b.atDrop = some (a.plain, a.hits) :=
  (invX_reachable hr).inv.appval a ha

/-- the extended model is conservative: a schedule of base events only is a schedule of the base model -/
theorem c06_x_conservative {s s' : St} {e : Ev} (h : step s e = some s') (hfree : needsFree e = true → held s.slots < s.fgLive) :
    stepX { b := s } (.base e) = some { b := s' } := by
  simp only [stepX, freeFG, heldO]
  by_cases hn : needsFree e = true
  · have := hfree hn
    simp [hn, this, h]
  · simp [hn, h]

/-! ## Non-vacuity -/

/-- the C06-j shape: open a slot, replace the field while the guard is alive, `delay_flush(flush guard)` on the orphan,
drop the owner: nothing is appended until the orphan is dropped. -/
example : (runX (initX [fresh (false, 3)]) [.base (.open 0 .discard 0), .slotReplace 0 8, .base .newFG, .oDelay 0,
            .base .refDrop, .base .pDecV, .base .pDecG]).map (fun x => (x.b.appended.length, x.b.hS, x.b.pPc, heldO x.orph))
    = some (0, 0, .done, 1) := by decide

example : (runX (initX [fresh (false, 3)]) [.base (.open 0 .discard 0), .slotReplace 0 8, .base .newFG, .oDelay 0,
            .base .refDrop, .base .pDecV, .base .pDecG, .oSend 0, .oRelease 0, .base .innerDrop, .base .closeSlot,
            .base .emit]).map (fun x => (x.b.appended, inFlightX x))
    = some ([⟨0, 0, [none]⟩], false) := by decide

end KeepAlive

#print axioms KeepAlive.c06_x_at_most_once
#print axioms KeepAlive.c06_x_not_early
#print axioms KeepAlive.c06_x_held_guard_delays
#print axioms KeepAlive.c06_x_not_late
#print axioms KeepAlive.c06_x_content_snapshot
#print axioms KeepAlive.c06_x_conservative
