import Model.Json
/-!
# JSON lemmas for C02: a fragment calculus over the strict recogniser of `Model/Json.lean`

Fragments of compact JSON are characterised by what they do to the recogniser's state:
`IsVal f` — `f` is one complete value (from any "value expected" state to "value complete", stack
unchanged); `IsKey`; `IsMembers f` — `f` is `,"k":v,"k":v…` inside an object; `IsElems f` — `,v,v…`
inside an array; `IsItems f` — `v,v,…` (possibly empty), the inside of an array.
Closure lemmas build arrays and objects from them; strings produced by `jstr` (serde_json escaping),
`itoa` output and anything satisfying `isNumber` are values.
-/
namespace Json

abbrev Bytes := List Nat

theorem run_append (ws : Bool) (st : St) (a b : Bytes) :
    run ws st (a ++ b) = (run ws st a).bind fun st' => run ws st' b := by
  induction a generalizing st with
  | nil => rfl
  | cons c cs ih =>
    simp only [List.cons_append, run]
    cases step ws st c with
    | none => rfl
    | some st' => exact ih st'

theorem run_append_of {ws : Bool} {st st' : St} {a : Bytes} (h : run ws st a = some st') (b : Bytes) :
    run ws st (a ++ b) = run ws st' b := by
  rw [run_append, h]; rfl

/-! ### Delimiters after a complete value -/

def Done (m : Mode) : Prop := m = .after ∨ ∃ s, m = .num s ∧ s.final = true
def Ready (m : Mode) : Prop := m = .val ∨ m = .valOrClose
def KeyReady (m : Mode) : Prop := m = .key ∨ m = .keyOrClose

theorem done_after : Done .after := Or.inl rfl

theorem step_done {ws : Bool} {stack : List Ctx} {m : Mode} (h : Done m) {c : Nat}
    (hc : c = 44 ∨ c = 93 ∨ c = 125) : step ws ⟨stack, m⟩ c = afterValue stack c := by
  rcases h with rfl | ⟨s, rfl, hs⟩
  · rcases hc with rfl | rfl | rfl <;> simp [step, isWs]
  · rcases hc with rfl | rfl | rfl <;> cases s <;> simp_all [step, numStep, isWs, isDigit, NumSt.final]

/-! ### Fragment predicates (compact form: `ws = false`) -/

def IsVal (f : Bytes) : Prop :=
  ∀ stack m, Ready m → ∃ m', run false ⟨stack, m⟩ f = some ⟨stack, m'⟩ ∧ Done m'

def IsKey (f : Bytes) : Prop :=
  ∀ stack m, KeyReady m → run false ⟨stack, m⟩ f = some ⟨stack, .colon⟩

def IsMembers (f : Bytes) : Prop :=
  ∀ stack m, Done m → ∃ m', run false ⟨.obj :: stack, m⟩ f = some ⟨.obj :: stack, m'⟩ ∧ Done m'

def IsElems (f : Bytes) : Prop :=
  ∀ stack m, Done m → ∃ m', run false ⟨.arr :: stack, m⟩ f = some ⟨.arr :: stack, m'⟩ ∧ Done m'

/-- `v,v,…,v` or nothing -/
def IsItems (f : Bytes) : Prop := f = [] ∨ ∃ v rest, f = v ++ rest ∧ IsVal v ∧ IsElems rest

theorem IsVal.ne_nil {f : Bytes} (h : IsVal f) : f ≠ [] := by
  rintro rfl
  obtain ⟨m', hr, hd⟩ := h [] .val (Or.inl rfl)
  simp only [run, Option.some.injEq, St.mk.injEq, true_and] at hr
  subst hr
  rcases hd with h | ⟨s, h, _⟩ <;> cases h

theorem IsMembers.nil : IsMembers [] := fun _ m hm => ⟨m, rfl, hm⟩
theorem IsElems.nil : IsElems [] := fun _ m hm => ⟨m, rfl, hm⟩

theorem IsMembers.append {a b : Bytes} (ha : IsMembers a) (hb : IsMembers b) : IsMembers (a ++ b) := by
  intro stack m hm
  obtain ⟨m1, h1, d1⟩ := ha stack m hm
  obtain ⟨m2, h2, d2⟩ := hb stack m1 d1
  exact ⟨m2, by rw [run_append_of h1, h2], d2⟩

theorem IsElems.append {a b : Bytes} (ha : IsElems a) (hb : IsElems b) : IsElems (a ++ b) := by
  intro stack m hm
  obtain ⟨m1, h1, d1⟩ := ha stack m hm
  obtain ⟨m2, h2, d2⟩ := hb stack m1 d1
  exact ⟨m2, by rw [run_append_of h1, h2], d2⟩

/-- `,"k":v` -/
theorem IsMembers.one {k v : Bytes} (hk : IsKey k) (hv : IsVal v) : IsMembers (44 :: (k ++ 58 :: v)) := by
  intro stack m hm
  obtain ⟨m', h2, d2⟩ := hv (.obj :: stack) .val (Or.inl rfl)
  refine ⟨m', ?_, d2⟩
  have h1 := hk (.obj :: stack) .key (Or.inl rfl)
  simp only [run, step_done hm (Or.inl rfl), afterValue, ↓reduceIte]
  rw [run_append_of h1]
  simp only [run, step, isWs, Bool.false_and, Bool.false_eq_true, ↓reduceIte]
  exact h2

/-- `,v` -/
theorem IsElems.one {v : Bytes} (hv : IsVal v) : IsElems (44 :: v) := by
  intro stack m hm
  obtain ⟨m', h2, d2⟩ := hv (.arr :: stack) .val (Or.inl rfl)
  refine ⟨m', ?_, d2⟩
  simp only [run, step_done hm (Or.inl rfl), afterValue, ↓reduceIte]
  exact h2

theorem IsItems.nil : IsItems [] := Or.inl rfl
theorem IsItems.one {v : Bytes} (hv : IsVal v) : IsItems v := Or.inr ⟨v, [], by simp, hv, IsElems.nil⟩

/-- pushing `,v` onto a non-empty item list -/
theorem IsItems.push {f v : Bytes} (hf : IsItems f) (hne : f ≠ []) (hv : IsVal v) : IsItems (f ++ 44 :: v) := by
  rcases hf with rfl | ⟨v0, rest, rfl, h0, hr⟩
  · exact absurd rfl hne
  · exact Or.inr ⟨v0, rest ++ 44 :: v, by simp, h0, hr.append (IsElems.one hv)⟩

/-- the comma logic `if !buf.is_empty() { push(',') }; push(v)` -/
theorem IsItems.pushIf {f v : Bytes} (hf : IsItems f) (hv : IsVal v) :
    IsItems (if f = [] then v else f ++ 44 :: v) := by
  split
  · exact IsItems.one hv
  · rename_i hne; exact hf.push hne hv

theorem step_open_arr {stack : List Ctx} {m : Mode} (h : Ready m) :
    step false ⟨stack, m⟩ 91 = some ⟨.arr :: stack, .valOrClose⟩ := by
  rcases h with rfl | rfl <;> simp [step, startValue]

theorem step_open_obj {stack : List Ctx} {m : Mode} (h : Ready m) :
    step false ⟨stack, m⟩ 123 = some ⟨.obj :: stack, .keyOrClose⟩ := by
  rcases h with rfl | rfl <;> simp [step, startValue]

/-- `[` items `]` -/
theorem IsVal.arr {f : Bytes} (hf : IsItems f) : IsVal (91 :: (f ++ [93])) := by
  intro stack m hm
  refine ⟨.after, ?_, done_after⟩
  simp only [run, step_open_arr hm]
  rcases hf with rfl | ⟨v, rest, rfl, hv, hr⟩
  · simp [run, step]
  · obtain ⟨m1, h1, d1⟩ := hv (.arr :: stack) .valOrClose (Or.inr rfl)
    obtain ⟨m2, h2, d2⟩ := hr stack m1 d1
    rw [List.append_assoc, run_append_of h1, run_append_of h2]
    simp only [run, step_done d2 (Or.inr (Or.inl rfl)), afterValue]
    simp

/-- `{` key `:` value members `}` -/
theorem IsVal.obj {k v rest : Bytes} (hk : IsKey k) (hv : IsVal v) (hr : IsMembers rest) :
    IsVal (123 :: (k ++ 58 :: (v ++ (rest ++ [125])))) := by
  intro stack m hm
  refine ⟨.after, ?_, done_after⟩
  simp only [run, step_open_obj hm]
  have h1 := hk (.obj :: stack) .keyOrClose (Or.inr rfl)
  obtain ⟨m2, h2, d2⟩ := hv (.obj :: stack) .val (Or.inl rfl)
  obtain ⟨m3, h3, d3⟩ := hr stack m2 d2
  rw [run_append_of h1]
  simp only [run, step, isWs, Bool.false_and, Bool.false_eq_true, ↓reduceIte]
  rw [run_append_of h2, run_append_of h3]
  simp only [run, step_done d3 (Or.inr (Or.inr rfl)), afterValue]
  simp

/-! ### Strings -/

theorem isHex_hexDigit : ∀ n, n < 16 → isHex (hexDigit n) = true := by decide

theorem run_escByte (stack : List Ctx) (k : Bool) (c : Nat) :
    run false ⟨stack, .str k⟩ (escByte c) = some ⟨stack, .str k⟩ := by
  unfold escByte
  split
  · simp [run, step]
  split
  · simp [run, step]
  split
  · simp [run, step]
  split
  · simp [run, step]
  split
  · simp [run, step]
  split
  · simp [run, step]
  split
  · simp [run, step]
  split
  · rename_i hlt
    have h1 : isHex (hexDigit (c / 16)) = true := isHex_hexDigit _ (by omega)
    have h2 : isHex (hexDigit (c % 16)) = true := isHex_hexDigit _ (by omega)
    have h0 : isHex 48 = true := by decide
    simp [run, step, h0, h1, h2]
  · rename_i h1 h2 _ _ _ _ _ h3
    simp only [run, step]
    simp [h1, h2, h3]

theorem run_escape (stack : List Ctx) (k : Bool) (s : Bytes) :
    run false ⟨stack, .str k⟩ (escape s) = some ⟨stack, .str k⟩ := by
  induction s with
  | nil => rfl
  | cons c cs ih =>
    simp only [escape, List.flatMap_cons] at ih ⊢
    rw [run_append_of (run_escByte stack k c)]
    exact ih

/-- **escape lemma**: an escaped string contains no raw quote, no raw control byte (in particular no
raw newline), and every backslash starts a valid escape — i.e. the recogniser, inside a string,
stays inside the string over the whole of `escape s`. -/
theorem escape_stays_in_string (stack : List Ctx) (k : Bool) (s : Bytes) :
    run false ⟨stack, .str k⟩ (escape s) = some ⟨stack, .str k⟩ := run_escape stack k s

theorem IsVal.jstr (s : Bytes) : IsVal (jstr s) := by
  intro stack m hm
  refine ⟨.after, ?_, done_after⟩
  have h0 : step false ⟨stack, m⟩ 34 = some ⟨stack, .str false⟩ := by
    rcases hm with rfl | rfl <;> simp [step, startValue]
  simp only [Json.jstr, run, h0]
  rw [run_append_of (run_escape stack false s)]
  simp [run, step, afterStr]

theorem IsKey.jstr (s : Bytes) : IsKey (jstr s) := by
  intro stack m hm
  have h0 : step false ⟨stack, m⟩ 34 = some ⟨stack, .str true⟩ := by
    rcases hm with rfl | rfl <;> simp [step]
  simp only [Json.jstr, run, h0]
  rw [run_append_of (run_escape stack true s)]
  simp [run, step, afterStr]

/-! ### Numbers -/

theorem run_num (stack : List Ctx) (s s' : NumSt) (cs : Bytes) (h : numRun s cs = some s') :
    run false ⟨stack, .num s⟩ cs = some ⟨stack, .num s'⟩ := by
  induction cs generalizing s with
  | nil => simp only [numRun, Option.some.injEq] at h; subst h; rfl
  | cons c cs ih =>
    simp only [numRun] at h
    cases hs : numStep s c with
    | none => simp [hs] at h
    | some s1 =>
      simp only [hs] at h
      simp only [run, step, hs]
      exact ih s1 h

theorem numStart_some {c : Nat} {s : NumSt} (h : numStart c = some s) : c = 45 ∨ (48 ≤ c ∧ c ≤ 57) := by
  unfold numStart at h
  split at h
  · left; assumption
  · split at h
    · right; omega
    · split at h
      · rename_i hd; simp [isDigit] at hd; right; omega
      · cases h

theorem IsVal.number {t : Bytes} (h : isNumber t = true) : IsVal t := by
  cases t with
  | nil => simp [isNumber] at h
  | cons c cs =>
    simp only [isNumber] at h
    cases hs : numStart c with
    | none => simp [hs] at h
    | some s0 =>
      simp only [hs] at h
      cases hr : numRun s0 cs with
      | none => simp [hr] at h
      | some s' =>
        simp only [hr] at h
        intro stack m hm
        refine ⟨.num s', ?_, Or.inr ⟨s', rfl, h⟩⟩
        have hc := numStart_some hs
        have h0 : step false ⟨stack, m⟩ c = some ⟨stack, .num s0⟩ := by
          have e1 : c ≠ 34 := by omega
          have e2 : c ≠ 91 := by omega
          have e3 : c ≠ 123 := by omega
          have e4 : c ≠ 116 := by omega
          have e5 : c ≠ 102 := by omega
          have e6 : c ≠ 110 := by omega
          have e7 : c ≠ 93 := by omega
          rcases hm with rfl | rfl <;> simp [step, startValue, e1, e2, e3, e4, e5, e6, e7, hs]
        simp only [run, h0]
        exact run_num stack s0 s' cs hr

theorem numRun_int_digits (ds : Bytes) (h : ∀ d ∈ ds, isDigit d = true) : numRun .int ds = some .int := by
  induction ds with
  | nil => rfl
  | cons d ds ih =>
    have hd := h d (by simp)
    simp only [numRun, numStep, hd, ↓reduceIte]
    exact ih fun x hx => h x (by simp [hx])

theorem digitsAux_spec (fuel n : Nat) (acc : Bytes) (hle : n ≤ fuel) :
    ∃ d ds, digitsAux fuel n acc = d :: (ds ++ acc) ∧ isDigit d = true ∧ (∀ x ∈ ds, isDigit x = true) ∧
      (0 < n → d ≠ 48) ∧ (n = 0 → ds = []) := by
  induction fuel generalizing n acc with
  | zero =>
    have : n = 0 := by omega
    subst this
    exact ⟨48, [], by simp [digitsAux], by decide, by simp, by omega, fun _ => rfl⟩
  | succ fuel ih =>
    unfold digitsAux
    split
    · rename_i hlt
      refine ⟨48 + n, [], by simp, ?_, by simp, by omega, fun _ => rfl⟩
      simp [isDigit]; omega
    · rename_i hge
      obtain ⟨d, ds, he, hd, hds, hpos, _⟩ := ih (n / 10) ((48 + n % 10) :: acc) (by omega)
      refine ⟨d, ds ++ [48 + n % 10], by rw [he]; simp, hd, ?_, fun _ => hpos (by omega), by omega⟩
      intro x hx
      rcases List.mem_append.mp hx with h | h
      · exact hds x h
      · simp only [List.mem_singleton] at h; subst h; simp [isDigit]; omega

theorem numStart_pos_digit {d : Nat} (h1 : 49 ≤ d) (h2 : d ≤ 57) : numStart d = some .int := by
  have a : d ≠ 45 := by omega
  have b : d ≠ 48 := by omega
  have c : isDigit d = true := by simp [isDigit]; omega
  simp [numStart, a, b, c]

/-- `itoa` output is a JSON number (an integer: digits only, no leading zero) -/
theorem isNumber_natDigits (n : Nat) : isNumber (natDigits n) = true := by
  obtain ⟨d, ds, he, hd, hds, hpos, hzero⟩ := digitsAux_spec n n [] (Nat.le_refl n)
  simp only [natDigits, he, List.append_nil, isNumber]
  by_cases h0 : n = 0
  · have := hzero h0; subst this
    have : d = 48 ∨ d ≠ 48 := by omega
    rcases this with rfl | hne
    · rfl
    · have h1 : numStart d = some .int := by
        simp [isDigit] at hd; exact numStart_pos_digit (by omega) (by omega)
      simp [h1, numRun, NumSt.final]
  · have hne := hpos (by omega)
    have h1 : numStart d = some .int := by
      simp [isDigit] at hd; exact numStart_pos_digit (by omega) (by omega)
    simp [h1, numRun_int_digits ds hds, NumSt.final]

theorem natDigits_all_digits (n : Nat) : ∀ x ∈ natDigits n, isDigit x = true := by
  obtain ⟨d, ds, he, hd, hds, _, _⟩ := digitsAux_spec n n [] (Nat.le_refl n)
  simp only [natDigits, he, List.append_nil]
  intro x hx
  rcases List.mem_cons.mp hx with rfl | h
  · exact hd
  · exact hds x h

theorem IsVal.natDigits (n : Nat) : IsVal (natDigits n) := IsVal.number (isNumber_natDigits n)

/-! ### Lists of values -/

theorem sepBy_ne_nil {sep x : Bytes} (r : List Bytes) (h : x ≠ []) : Json.sepBy sep (x :: r) ≠ [] := by
  cases r <;> simp [Json.sepBy, h]

theorem IsItems.sepBy {vs : List Bytes} (h : ∀ v ∈ vs, IsVal v) : IsItems (sepBy [44] vs) := by
  induction vs with
  | nil => exact IsItems.nil
  | cons v rest ih =>
    cases rest with
    | nil => exact IsItems.one (h v (by simp))
    | cons w rest' =>
      have hv := h v (by simp)
      have ih' := ih fun x hx => h x (by simp [hx])
      have hne : Json.sepBy [44] (w :: rest') ≠ [] := sepBy_ne_nil rest' (h w (by simp)).ne_nil
      show IsItems (v ++ [44] ++ Json.sepBy [44] (w :: rest'))
      rcases ih' with hnil | ⟨v0, r0, he, h0, hr0⟩
      · exact absurd hnil hne
      · rw [he]
        refine Or.inr ⟨v, 44 :: (v0 ++ r0), by simp, hv, ?_⟩
        have := (IsElems.one h0).append hr0
        simpa using this

theorem IsVal.jarrStrings (xs : List Bytes) : IsVal (jarrStrings xs) := by
  unfold Json.jarrStrings
  exact IsVal.arr (IsItems.sepBy (by
    intro v hv
    obtain ⟨s, _, rfl⟩ := List.mem_map.mp hv
    exact IsVal.jstr s))

/-! ### Compact texts: no whitespace, hence no raw newline; and they are JSON texts -/

theorem step_compact_nl (st : St) : step false st 10 = none := by
  obtain ⟨stack, mode⟩ := st
  cases mode with
  | num s => cases s <;> cases stack <;> simp [step, numStep, isDigit, afterValue, NumSt.final] <;>
      (rename_i c _; cases c <;> simp)
  | lit s => cases s <;> simp [step, litStep]
  | hex k n => simp [step, isHex, isDigit]
  | after => cases stack <;> simp [step, afterValue] <;> (rename_i c _; cases c <;> simp)
  | valOrClose => simp [step, startValue, numStart, isDigit]
  | _ => simp [step, startValue, numStart, isDigit]

/-- a compact JSON text contains no raw newline -/
theorem run_compact_no_nl {st st' : St} {bs : Bytes} (h : run false st bs = some st') : 10 ∉ bs := by
  induction bs generalizing st with
  | nil => simp
  | cons c cs ih =>
    simp only [run] at h
    cases hs : step false st c with
    | none => simp [hs] at h
    | some st1 =>
      simp only [hs] at h
      intro hm
      rcases List.mem_cons.mp hm with rfl | hm'
      · rw [step_compact_nl] at hs; cases hs
      · exact ih h hm'


theorem isWs_cases {c : Nat} (h : isWs c = true) : c = 32 ∨ c = 9 ∨ c = 10 ∨ c = 13 := by
  simp only [isWs, Bool.or_eq_true, decide_eq_true_eq] at h
  omega

/-- between tokens, compact mode rejects whitespace -/
theorem step_false_ws_none (stack : List Ctx) (mode : Mode) {c : Nat} (h : isWs c = true)
    (hmode : match mode with | .str _ | .esc _ | .hex _ _ | .lit _ => False | _ => True) :
    step false ⟨stack, mode⟩ c = none := by
  rcases isWs_cases h with rfl | rfl | rfl | rfl <;>
  (cases mode with
  | num s => cases s <;> cases stack <;> simp [step, numStep, isDigit, afterValue, NumSt.final] <;>
      (rename_i c _; cases c <;> simp)
  | after => cases stack <;> simp [step, afterValue] <;> (rename_i c _; cases c <;> simp)
  | valOrClose => simp [step, startValue, numStart, isDigit]
  | str k => exact absurd hmode id
  | esc k => exact absurd hmode id
  | hex k n => exact absurd hmode id
  | lit s => exact absurd hmode id
  | _ => simp [step, startValue, numStart, isDigit])

/-- whitespace is only ever *additionally* accepted -/
theorem step_mono {st st' : St} {c : Nat} (h : step false st c = some st') : step true st c = some st' := by
  obtain ⟨stack, mode⟩ := st
  cases mode with
  | str k => exact h
  | esc k => exact h
  | hex k n => exact h
  | lit s => exact h
  | _ =>
    by_cases hw : isWs c = true
    · rw [step_false_ws_none stack _ hw trivial] at h; cases h
    · rw [← h]; simp [step, hw]

theorem run_mono {st st' : St} {bs : Bytes} (h : run false st bs = some st') : run true st bs = some st' := by
  induction bs generalizing st with
  | nil => exact h
  | cons c cs ih =>
    simp only [run] at h ⊢
    cases hs : step false st c with
    | none => simp [hs] at h
    | some st1 =>
      simp only [hs] at h
      rw [step_mono hs]
      exact ih h

theorem IsVal.acceptsCompact {f : Bytes} (h : IsVal f) : acceptsCompact f = true := by
  obtain ⟨m', hr, hd⟩ := h [] .val (Or.inl rfl)
  simp only [Json.acceptsCompact, start, hr, St.done, List.isEmpty_nil, Bool.true_and]
  rcases hd with rfl | ⟨s, rfl, hs⟩
  · rfl
  · exact hs

/-- a compact JSON text followed by one newline is a JSON text (RFC 8259), and the only raw
newline in it is the final one -/
theorem acceptsCompact_line {body : Bytes} (h : acceptsCompact body = true) :
    accepts (body ++ [10]) = true ∧ 10 ∉ body := by
  simp only [Json.acceptsCompact] at h
  cases hr : run false start body with
  | none => simp [hr] at h
  | some st =>
    simp only [hr] at h
    refine ⟨?_, run_compact_no_nl hr⟩
    simp only [Json.accepts, run_append_of (run_mono hr)]
    obtain ⟨stack, mode⟩ := st
    simp only [St.done, List.isEmpty_iff, Bool.and_eq_true] at h
    obtain ⟨rfl, hm⟩ := h
    cases mode with
    | after => simp [run, step, isWs, St.done]
    | num s => 
      simp only at hm
      cases s <;> simp_all [run, step, numStep, isWs, isDigit, St.done, NumSt.final]
    | _ => simp at hm

end Json
