import Props.C06Refine
/-!
# C13 — the slot clauses of the specification predicate hold of every history of the model

Corollary of `c06_model_histories_accepted` (`Props/C06Refine.lean`): the simulation proved there discharges the
`slotsOk` clause of `Spec.feed (.app …)` from the C13 invariants `SlotOk` / `SInv` (`slotOk_of_sim` in
`Props/C06RefineB.lean`).
-/
namespace KeepAlive
open Spec

/-- what acceptance says about an observed append -/
theorem accept_app_inv {t : SSt} {pre rest : List Obs} {p h : Nat} {vs : List (Option Nat)}
    (hacc : acceptFrom t (pre ++ .app p h vs :: rest) = true) :
    ∃ t1, feedAll t pre = some t1 ∧ t1.apps = 0 ∧ Spec.cond t1 = true ∧ p = t1.plain ∧ h = t1.hits ∧
      slotsOk (t1.dgBegun > 0) t1.slots vs = true := by
  rw [acceptFrom_append] at hacc
  cases hf : feedAll t pre with
  | none => simp [hf] at hacc
  | some t1 =>
    simp only [hf, acceptFrom, feedChecked] at hacc
    refine ⟨t1, rfl, ?_⟩
    cases hfe : feed t1 (.app p h vs) with
    | none => simp [hfe] at hacc
    | some t2 =>
      simp only [feed] at hfe
      split at hfe
      · rename_i hc
        simp only [Bool.and_eq_true, decide_eq_true_eq] at hc
        obtain ⟨⟨⟨⟨a, b⟩, c⟩, d⟩, e⟩ := hc
        exact ⟨a, b, c, d, e⟩
      · cases hfe

/-- **C13 refinement: the slot clauses of the specification hold of every model history.**  Whenever the history
of a schedule contains an append `app p h vs`, the slot values `vs` satisfy `Spec.slotsOk` in the automaton state
reached by the observations before it: a field is absent if its guard's drop had not begun; in wait mode with no
force-flush guard begun, or if the guard's drop returned while the append was still impossible, it carries the
guard's last value; otherwise it is absent or the last value. -/
theorem c13_model_histories_accepted (cfg : List (Bool × Nat)) (evs : List Ev) {pre rest : List Obs}
    {p h : Nat} {vs : List (Option Nat)} (hh : historyOf (cfg.map fresh) evs = pre ++ .app p h vs :: rest) :
    ∃ t1, feedAll (start cfg.length) pre = some t1 ∧ slotsOk (t1.dgBegun > 0) t1.slots vs = true := by
  have hacc := c06_model_histories_accepted cfg evs
  rw [hh] at hacc
  obtain ⟨t1, h1, -, -, -, -, h6⟩ := accept_app_inv hacc
  exact ⟨t1, h1, h6⟩

/-! ## Non-vacuity (kernel-evaluated) -/

/-- three threads and a wait-mode slot: the owner, the slot guard (whose thread drops the last guard-cell
reference and runs the destructor: its `eG` comes after the `app`) -/
example : historyOf [fresh (false, 3)] [.newFG, .open 0 .wait 0, .gmut 0 9, .refDrop, .gSend 0, .pDecV, .pDecG,
            .gRelease 0, .innerDrop, .closeSlot, .emit]
    = [.nF, .opn 0 .wait 3, .gm 0 9, .bR, .bG 0, .eR, .app 0 0 [some 9], .eG 0] := by decide

example : Spec.accept 1 [.nF, .opn 0 .wait 3, .gm 0 9, .bR, .bG 0, .eR, .app 0 0 [some 9], .eG 0] = true := by decide

/-- a corrupted history — the wait-mode slot value lost — is rejected -/
example : Spec.accept 1 [.nF, .opn 0 .wait 3, .gm 0 9, .bR, .bG 0, .eR, .app 0 0 [none], .eG 0] = false := by decide

/-- … and so is a value that is neither absent nor the guard's last one (discard mode) -/
example : Spec.accept 1 [.opn 0 .discard 3, .gm 0 9, .bR, .bG 0, .eG 0, .app 0 0 [some 3], .eR] = false := by decide
example : Spec.accept 1 [.opn 0 .discard 3, .gm 0 9, .bR, .bG 0, .eG 0, .app 0 0 [none], .eR] = true := by decide

end KeepAlive

#print axioms KeepAlive.c13_model_histories_accepted
