import Props.C05
/-!
# C04 — a completed flush means everything appended before it is written and flushed

Theorems about `Queue.step` / `Queue.hww` for all interleavings of pushes, flush requests (any
number, from any thread), writer micro-steps and overflow events, for every capacity `> 0`.

Flush request `i` is identified by the order of its `send`; the ghost `marks[i]` records how many
pushes had been linearised before that `send`, so "the entries appended before request `i`" are
`pushOrder.take marks[i]`.
-/
namespace Queue

def markOf (s : QState) (i : Nat) : Nat := s.marks.getD i 0

/-- entries the writer has not yet handed to the stream: the one it holds, then the ring -/
def inflight (s : QState) : List Ent := holding s.wpc ++ s.ring

/-- the in-flight entries pushed before mark `m` -/
def pend (l : List Ent) (m : Nat) : List Ent := l.filter fun e => decide (e.2 < m)

/-- the `count` the current drain loop has accumulated -/
def cnt : WPc → Nat
  | .drain n => n
  | .holding _ n => n
  | .afterDrain _ n => n
  | _ => 0

structure FlushInv (s : QState) : Prop where
  marksLe : ∀ m ∈ s.marks, m ≤ s.pushOrder.length
  ids : ∀ i, i ∈ s.waiting ∨ i ∈ s.sigs → i < s.marks.length
  /-- the counter protocol: as long as an entry pushed before request `i` is still in flight, the
  remaining budget `ebw` covers all of them plus what the current drain has already counted -/
  budget : shutPhase s.wpc = false → ∀ i ∈ s.waiting, pend (inflight s) (markOf s i) ≠ [] →
    (pend (inflight s) (markOf s i)).length + cnt s.wpc ≤ s.ebw
  /-- after a drain that ended on an empty ring nothing pushed before a waiting request is in flight -/
  drainedZero : ∀ n, s.wpc = .afterDrain .drained n → ∀ i ∈ s.waiting, pend (inflight s) (markOf s i) = []

theorem getD_of_lt (l : List Nat) (i : Nat) (h : i < l.length) : l.getD i 0 = l[i] := by
  simp [List.getD_eq_getElem?_getD, List.getElem?_eq_getElem h]

theorem getD_of_ge (l : List Nat) (i : Nat) (h : l.length ≤ i) : l.getD i 0 = 0 := by
  simp [List.getD_eq_getElem?_getD, List.getElem?_eq_none h]

theorem getD_append_left (l : List Nat) (x i : Nat) (h : i < l.length) : (l ++ [x]).getD i 0 = l.getD i 0 := by
  simp [List.getD_eq_getElem?_getD, List.getElem?_append_left h]

theorem markOf_le {s : QState} (h : ∀ m ∈ s.marks, m ≤ s.pushOrder.length) (i : Nat) :
    markOf s i ≤ s.pushOrder.length := by
  unfold markOf
  by_cases hi : i < s.marks.length
  · rw [getD_of_lt _ _ hi]; exact h _ (List.getElem_mem hi)
  · rw [getD_of_ge _ _ (by omega)]; omega

theorem inflight_sorted {s : QState} (hc : Conserve (core s)) : (inflight s).Pairwise (fun a b => a.2 < b.2) := by
  have hpo : s.pushOrder.Pairwise (fun a b => a.2 < b.2) := by
    have h1 : (s.pushOrder.map Prod.snd).Pairwise (· < ·) := by
      have := hc.idx; simp only [core] at this
      rw [this]; exact List.pairwise_lt_range
    exact List.pairwise_map.mp h1
  have hcons := hc.cons
  simp only [core] at hcons
  have hsub : (delivered s.log ++ holding s.wpc ++ s.ring).Sublist s.pushOrder := by
    rw [hcons]; exact List.filter_sublist
  have h2 := hpo.sublist hsub
  rw [List.append_assoc] at h2
  exact (List.pairwise_append.mp h2).2.1

theorem pend_sublist_length {a b : List Ent} (h : a.Sublist b) (m : Nat) :
    (pend a m).length ≤ (pend b m).length :=
  (h.filter _).length_le

theorem pend_snoc_unmarked (l : List Ent) (e : Ent) (m : Nat) (h : m ≤ e.2) : pend (l ++ [e]) m = pend l m := by
  simp [pend, List.filter_append, List.filter_cons, Nat.not_lt.mpr h]

/-- if something behind the head of a sorted list is marked, the head is marked -/
theorem pend_cons_of_sorted {e : Ent} {l : List Ent} {m : Nat} (hs : (e :: l).Pairwise (fun a b => a.2 < b.2))
    (hne : pend l m ≠ []) : pend (e :: l) m = e :: pend l m := by
  obtain ⟨x, hx⟩ := List.exists_mem_of_ne_nil _ hne
  have hx' := List.mem_filter.mp hx
  have hlt : e.2 < x.2 := (List.pairwise_cons.mp hs).1 x hx'.1
  have : e.2 < m := by have := of_decide_eq_true hx'.2; omega
  simp [pend, List.filter_cons, this]

theorem flushInv_init (cap res ns) : FlushInv (init cap res ns) := by
  refine ⟨by simp [init], by simp [init], by simp [init], by simp [init]⟩

/-- frame: nothing the flush protocol looks at changed (or it only shrank) -/
theorem flushInv_frame' {s s' : QState} (hi : FlushInv s)
    (hmle : ∀ m ∈ s'.marks, m ≤ s'.pushOrder.length)
    (hids : ∀ i, i ∈ s'.waiting ∨ i ∈ s'.sigs → i < s'.marks.length)
    (hmk : ∀ i ∈ s.waiting, markOf s' i = markOf s i) (hw : s'.waiting = s.waiting)
    (he : s'.ebw = s.ebw) (hin : inflight s' = inflight s)
    (hcnt : cnt s'.wpc ≤ cnt s.wpc) (hsp : shutPhase s'.wpc = false → shutPhase s.wpc = false)
    (hdr : ∀ n, s'.wpc = .afterDrain .drained n → ∃ n', s.wpc = .afterDrain .drained n') : FlushInv s' := by
  refine ⟨hmle, hids, ?_, ?_⟩
  · intro h1 i hiw hne
    rw [hw] at hiw
    rw [hin, hmk i hiw] at hne ⊢
    have := hi.budget (hsp h1) i hiw hne
    rw [he]; omega
  · intro n h1 i hiw
    obtain ⟨n', h2⟩ := hdr n h1
    rw [hw] at hiw
    rw [hin, hmk i hiw]
    exact hi.drainedZero n' h2 i hiw

theorem flushInv_frame {s s' : QState} (hi : FlushInv s)
    (hm : s'.marks = s.marks) (hpo : s'.pushOrder = s.pushOrder) (hw : s'.waiting = s.waiting)
    (hs : s'.sigs = s.sigs) (he : s'.ebw = s.ebw) (hin : inflight s' = inflight s)
    (hcnt : cnt s'.wpc ≤ cnt s.wpc) (hsp : shutPhase s'.wpc = false → shutPhase s.wpc = false)
    (hdr : ∀ n, s'.wpc = .afterDrain .drained n → ∃ n', s.wpc = .afterDrain .drained n') : FlushInv s' :=
  flushInv_frame' hi (by rw [hm, hpo]; exact hi.marksLe) (by rw [hw, hs, hm]; exact hi.ids)
    (by intro i _; simp [markOf, hm]) hw he hin hcnt hsp hdr

theorem flushInv_step {s s' : QState} {ev : Ev} (hr : Reachable s) (hcap : 0 < s.cap) (hi : FlushInv s)
    (h : step s ev = some s') : FlushInv s' := by
  have hc := conserve_reachable hr
  have hsorted := inflight_sorted hc
  cases ev with
  | unpark p =>
    simp only [step] at h; split at h <;> cases h
    exact flushInv_frame hi rfl rfl rfl rfl rfl rfl (Nat.le_refl _) id (fun n h => ⟨n, h⟩)
  | flushUnpark i =>
    simp only [step] at h; split at h <;> cases h
    exact flushInv_frame hi rfl rfl rfl rfl rfl rfl (Nat.le_refl _) id (fun n h => ⟨n, h⟩)
  | clone =>
    simp only [step] at h; split at h <;> cases h
    exact flushInv_frame hi rfl rfl rfl rfl rfl rfl (Nat.le_refl _) id (fun n h => ⟨n, h⟩)
  | dropHandle =>
    simp only [step] at h; split at h <;> cases h
    exact flushInv_frame hi rfl rfl rfl rfl rfl rfl (Nat.le_refl _) id (fun n h => ⟨n, h⟩)
  | forget =>
    simp only [step] at h; split at h <;> cases h
    exact flushInv_frame hi rfl rfl rfl rfl rfl rfl (Nat.le_refl _) id (fun n h => ⟨n, h⟩)
  | setSubscriber b =>
    simp only [step] at h; cases h
    exact flushInv_frame hi rfl rfl rfl rfl rfl rfl (Nat.le_refl _) id (fun n h => ⟨n, h⟩)
  | dropJoinBegin =>
    simp only [step] at h; split at h <;> cases h
    exact flushInv_frame hi rfl rfl rfl rfl rfl rfl (Nat.le_refl _) id (fun n h => ⟨n, h⟩)
  | dropJoinUnpark =>
    simp only [step] at h; split at h <;> cases h
    exact flushInv_frame hi rfl rfl rfl rfl rfl rfl (Nat.le_refl _) id (fun n h => ⟨n, h⟩)
  | dropJoinEnd =>
    simp only [step] at h; split at h <;> cases h
    exact flushInv_frame hi rfl rfl rfl rfl rfl rfl (Nat.le_refl _) id (fun n h => ⟨n, h⟩)
  | flushSend =>
    -- marks grows at the end: marks of known requests are unchanged
    have hmle : ∀ m ∈ s.marks ++ [s.pushOrder.length], m ≤ s.pushOrder.length := by
      intro m hm
      rcases List.mem_append.mp hm with h1 | h1
      · exact hi.marksLe m h1
      · simp at h1; omega
    simp only [step] at h
    split at h <;> cases h
    · refine flushInv_frame' hi hmle ?_ ?_ rfl rfl rfl (Nat.le_refl _) id (fun n h => ⟨n, h⟩)
      · intro i hi'; have := hi.ids i hi'; simp; omega
      · intro i hiw
        exact getD_append_left _ _ _ (hi.ids i (.inl hiw))
    · refine flushInv_frame' hi hmle ?_ ?_ rfl rfl rfl (Nat.le_refl _) id (fun n h => ⟨n, h⟩)
      · intro i hi'
        simp only [List.mem_append, List.mem_singleton] at hi'
        simp only [List.length_append, List.length_singleton]
        rcases hi' with h1 | h1 | h1
        · have := hi.ids i (.inl h1); omega
        · have := hi.ids i (.inr h1); omega
        · omega
      · intro i hiw
        exact getD_append_left _ _ _ (hi.ids i (.inl hiw))
  | push p =>
    obtain ⟨hpc, hpo, hwpc, _, _⟩ := push_core h
    have hsame : s'.marks = s.marks ∧ s'.waiting = s.waiting ∧ s'.sigs = s.sigs ∧ s'.ebw = s.ebw := by
      simp only [step] at h
      split at h
      · cases h
      · split at h <;> cases h <;> simp
    obtain ⟨hm, hw, hs, he⟩ := hsame
    have hmk : ∀ i, markOf s' i = markOf s i := by intro i; simp [markOf, hm]
    -- the in-flight list loses at most its displaced member and gains an unmarked entry
    have hin : ∃ l, l.Sublist (inflight s) ∧ inflight s' = l ++ [(p, s.pushOrder.length)] := by
      cases hpc with
      | room _ hring _ _ => exact ⟨inflight s, List.Sublist.refl _, by simp [inflight, hwpc, hring]⟩
      | zero hnil hring _ _ => exact ⟨inflight s, List.Sublist.refl _, by simp [inflight, hwpc, hring, hnil]⟩
      | displace d t _ hr hring _ _ =>
        refine ⟨holding s.wpc ++ t, ?_, by simp [inflight, hwpc, hring]⟩
        simp only [inflight, hr]
        exact List.Sublist.append_left (List.sublist_cons_self d t) _
    obtain ⟨l, hsub, hl⟩ := hin
    have hpend : ∀ i, (pend (inflight s') (markOf s' i)).length ≤ (pend (inflight s) (markOf s i)).length := by
      intro i
      rw [hl, hmk, pend_snoc_unmarked _ _ _ (markOf_le hi.marksLe i)]
      exact pend_sublist_length hsub _
    refine ⟨?_, by rw [hw, hs, hm]; exact hi.ids, ?_, ?_⟩
    · rw [hm, hpo]; intro m hmm; have := hi.marksLe m hmm; simp; omega
    · rw [hwpc, hw, he]
      intro h1 i hiw hne
      have hle := hpend i
      have hne0 : pend (inflight s) (markOf s i) ≠ [] := by
        intro h0; rw [h0] at hle
        exact hne (List.eq_nil_of_length_eq_zero (Nat.le_zero.mp hle))
      have hb := hi.budget h1 i hiw hne0
      exact Nat.le_trans (Nat.add_le_add_right hle _) hb
    · rw [hwpc, hw]
      intro n h1 i hiw
      have hle := hpend i
      rw [hi.drainedZero n h1 i hiw] at hle
      exact List.eq_nil_of_length_eq_zero (by simpa using hle)
  | w c =>
    simp only [step] at h
    unfold wstep at h
    split at h
    · -- drain: pop (the in-flight list is unchanged) or observe the ring empty
      rename_i n hpc
      split at h
      · rename_i hring
        cases h
        refine ⟨hi.marksLe, hi.ids, ?_, ?_⟩
        · intro _ i hiw hne
          have := hi.budget (by rw [hpc]; rfl) i hiw (by simpa [inflight, hpc, holding, hring, markOf] using hne)
          simpa [inflight, hpc, holding, hring, markOf, cnt] using this
        · intro n' _ i _
          simp [inflight, holding, hring, pend]
      · rename_i e t hring
        cases h
        refine ⟨hi.marksLe, hi.ids, ?_, by simp⟩
        intro _ i hiw hne
        have := hi.budget (by rw [hpc]; rfl) i hiw (by simpa [inflight, hpc, holding, hring, markOf] using hne)
        simpa [inflight, hpc, holding, hring, markOf, cnt] using this
    · -- holding: the held entry goes to the stream and is counted
      rename_i e n hpc
      cases h
      have hsrt : (e :: s.ring).Pairwise (fun a b => a.2 < b.2) := by
        simpa [inflight, hpc, holding] using hsorted
      have hinf' : ∀ w', holding w' = [] → inflight { s with log := s.log ++ consumeObs s c e, wpc := w' } = s.ring := by
        intro w' hw'; simp [inflight, hw']
      have hbud : ∀ i ∈ s.waiting, pend s.ring (markOf s i) ≠ [] → (pend s.ring (markOf s i)).length + (n + 1) ≤ s.ebw := by
        intro i hiw hne
        have h1 := pend_cons_of_sorted (m := markOf s i) hsrt hne
        have := hi.budget (by rw [hpc]; rfl) i hiw (by simp [inflight, hpc, holding, h1])
        simp only [inflight, hpc, holding, List.singleton_append, h1, List.length_cons, cnt] at this
        omega
      refine ⟨hi.marksLe, hi.ids, ?_, ?_⟩
      · dsimp only
        split
        · intro _ i hiw hne
          simp only [inflight, holding, List.nil_append, markOf, cnt] at hne ⊢
          exact hbud i hiw hne
        · intro _ i hiw hne
          simp only [inflight, holding, List.nil_append, markOf, cnt] at hne ⊢
          exact hbud i hiw hne
      · dsimp only
        split <;> simp
    · -- afterDrain: handle_waiting_wakers
      rename_i st n hpc
      cases h
      have hhold : holding s.wpc = [] := by rw [hpc]; rfl
      have hringle : s.ring.length ≤ s.cap := by
        have := hc.bound; simp only [core] at this; omega
      have hpendle : ∀ m, (pend (inflight s) m).length ≤ s.cap := by
        intro m
        have : (pend (inflight s) m).length ≤ (inflight s).length := List.length_filter_le _ _
        simp only [inflight, hhold, List.nil_append] at this ⊢
        omega
      refine ⟨hi.marksLe, ?_, ?_, by simp⟩
      · -- ids
        intro i hi'
        dsimp only at hi'
        unfold hww collect at hi'
        split at hi'
        · split at hi'
          · simp at hi'
          · simp only [List.not_mem_nil, or_false] at hi'; exact hi.ids i (.inr hi')
        · split at hi'
          · split at hi'
            · simp at hi'
            · simp only [List.not_mem_nil, or_false] at hi'; exact hi.ids i (.inr hi')
          · exact hi.ids i hi'
      · intro _ i hiw hne
        simp only [inflight, holding, List.nil_append, markOf, cnt, Nat.add_zero] at hne ⊢
        have hpl : ∀ m, (pend s.ring m).length ≤ s.cap := by
          intro m; have := hpendle m; simpa [inflight, hhold] using this
        unfold hww collect at hiw ⊢
        split at hiw
        · split at hiw
          · simp at hiw
          · rename_i hw0 hs0
            simp only [hw0, hs0, if_true, if_false]
            exact hpl _
        · rename_i hw0
          simp only [hw0, if_false]
          split at hiw
          · rename_i hcomp
            simp only [hcomp, if_true]
            split at hiw
            · simp at hiw
            · rename_i hs0
              simp only [hs0, if_false]
              exact hpl _
          · rename_i hcomp
            simp only [hcomp, if_false]
            have := hi.budget (by rw [hpc]; rfl) i hiw (by simpa [inflight, hhold, markOf] using hne)
            simp only [inflight, holding, List.nil_append, hpc, cnt, markOf] at this
            omega
    · -- postHww
      rename_i st hpc
      split at h
      · cases h
        exact flushInv_frame hi rfl rfl rfl rfl rfl (by simp [inflight, holding, hpc]) (by simp [cnt])
          (fun _ => by rw [hpc]; rfl) (by simp)
      · split at h
        · cases h
          exact flushInv_frame hi rfl rfl rfl rfl rfl (by simp [inflight, holding, hpc]) (by simp [cnt])
            (fun _ => by rw [hpc]; rfl) (by simp)
        · split at h <;> cases h <;>
            exact flushInv_frame hi rfl rfl rfl rfl rfl (by simp [inflight, holding, hpc]) (by simp [cnt])
              (fun _ => by rw [hpc]; rfl) (by simp)
    · -- parking
      rename_i hpc
      split at h
      · cases h
        exact flushInv_frame hi rfl rfl rfl rfl rfl (by simp [inflight, holding, hpc]) (by simp [cnt])
          (fun _ => by rw [hpc]; rfl) (by simp)
      · split at h
        · cases h
          exact flushInv_frame hi rfl rfl rfl rfl rfl (by simp [inflight, holding, hpc]) (by simp [cnt])
            (fun _ => by rw [hpc]; rfl) (by simp)
        · cases h
    · -- checkTime
      rename_i hpc
      split at h <;> cases h <;>
        exact flushInv_frame hi rfl rfl rfl rfl rfl (by simp [inflight, holding, hpc]) (by simp [cnt])
          (fun _ => by rw [hpc]; rfl) (by simp)
    · -- outerFlush
      rename_i hpc
      cases h
      exact flushInv_frame hi rfl rfl rfl rfl rfl (by simp [inflight, holding, hpc]) (by simp [cnt])
        (fun _ => by rw [hpc]; rfl) (by simp)
    · -- checkShutdown
      rename_i hpc
      split at h <;> cases h <;>
        exact flushInv_frame hi rfl rfl rfl rfl rfl (by simp [inflight, holding, hpc]) (by simp [cnt])
          (fun _ => by rw [hpc]; rfl) (by simp)
    · -- checkHandles
      rename_i hpc
      split at h <;> cases h <;>
        exact flushInv_frame hi rfl rfl rfl rfl rfl (by simp [inflight, holding, hpc]) (by simp [cnt])
          (fun _ => by rw [hpc]; rfl) (by simp)
    · -- shutDrain
      rename_i n hpc
      split at h
      · cases h
        exact ⟨hi.marksLe, hi.ids, by simp [shutPhase], by simp⟩
      · cases h
        exact ⟨hi.marksLe, hi.ids, by simp [shutPhase], by simp⟩
    · -- shutHolding
      rename_i e n hpc
      cases h
      refine ⟨hi.marksLe, hi.ids, ?_, ?_⟩
      · dsimp only; split <;> simp [shutPhase]
      · dsimp only; split <;> simp
    · -- shutFlush
      cases h
      exact ⟨hi.marksLe, by simp, by simp [shutPhase], by simp⟩
    · cases h

theorem cap_const {s s' : QState} {ev : Ev} (h : step s ev = some s') : s'.cap = s.cap := (step_log h).2.2.2

theorem flushInv_reachable_aux {s : QState} (hr : Reachable s) : 0 < s.cap → FlushInv s := by
  induction hr with
  | init cap res ns => exact fun _ => flushInv_init _ _ _
  | step hr' hst ih =>
    intro hc
    rw [cap_const hst] at hc
    exact flushInv_step hr' hc (ih hc) hst

theorem flushInv_reachable {s : QState} (hr : Reachable s) (hcap : 0 < s.cap) : FlushInv s :=
  flushInv_reachable_aux hr hcap

/-! ## The barrier (S1) -/

/-- Where a live completion can come from: only `handle_waiting_wakers`, in a call that flushes
the stream first and then wakes all waiting wakers. -/
theorem completed_origin {s s' : QState} {ev : Ev} {i : Nat} (h : step s ev = some s')
    (hnew : Obs.completed i true ∈ s'.log.drop s.log.length) :
    ∃ c st n, ev = .w c ∧ s.wpc = .afterDrain st n ∧ s.waiting ≠ [] ∧ (s.ebw - n = 0 ∨ st = .drained) ∧
      i ∈ s.waiting ∧ s'.log = s.log ++ Obs.flush :: s.waiting.map (Obs.completed · true) := by
  have hdrop : ∀ added : List Obs, s'.log = s.log ++ added → Obs.completed i true ∈ added := by
    intro added ha; rw [ha] at hnew; simpa using hnew
  cases ev with
  | push p =>
    exfalso
    obtain ⟨hpc, _⟩ := push_core h
    cases hpc with
    | room _ _ hlog _ => have := hdrop [] (by simp [hlog]); simp at this
    | zero _ _ hlog _ => have := hdrop [] (by simp [hlog]); simp at this
    | displace d t _ _ _ hlog _ => have := hdrop _ hlog; simp at this
  | unpark p => exfalso; simp only [step] at h; split at h <;> cases h; simpa using hdrop [] (by simp)
  | flushSend =>
    exfalso; simp only [step] at h
    split at h <;> cases h
    · have := hdrop _ rfl; simp at this
    · simpa using hdrop [] (by simp)
  | flushUnpark j => exfalso; simp only [step] at h; split at h <;> cases h; simpa using hdrop [] (by simp)
  | clone => exfalso; simp only [step] at h; split at h <;> cases h; simpa using hdrop [] (by simp)
  | dropHandle => exfalso; simp only [step] at h; split at h <;> cases h; simpa using hdrop [] (by simp)
  | forget => exfalso; simp only [step] at h; split at h <;> cases h; simpa using hdrop [] (by simp)
  | setSubscriber b => exfalso; simp only [step] at h; cases h; simpa using hdrop [] (by simp)
  | dropJoinBegin => exfalso; simp only [step] at h; split at h <;> cases h; simpa using hdrop [] (by simp)
  | dropJoinUnpark => exfalso; simp only [step] at h; split at h <;> cases h; simpa using hdrop [] (by simp)
  | dropJoinEnd =>
    exfalso; simp only [step] at h; split at h <;> cases h
    have := hdrop _ rfl; simp at this
  | w c =>
    simp only [step] at h
    unfold wstep at h
    split at h
    · exfalso; split at h <;> cases h <;> simpa using hdrop [] (by simp)
    · exfalso; cases h
      have := hdrop _ rfl
      unfold consumeObs at this; split at this <;> simp at this
    · rename_i st n hpc
      cases h
      have hadd := hdrop _ (by rw [List.append_assoc])
      unfold hww collect at hadd ⊢
      by_cases hw0 : s.waiting = []
      · exfalso
        simp only [hw0, if_true] at hadd
        split at hadd <;> simp at hadd
      · simp only [hw0, if_false] at hadd ⊢
        by_cases hcomp : s.ebw - n = 0 ∨ st = Status.drained
        · simp only [hcomp, if_true] at hadd ⊢
          refine ⟨c, st, n, rfl, hpc, hw0, hcomp, ?_, ?_⟩
          · split at hadd <;> simpa using hadd
          · split <;> simp
        · exfalso
          simp only [hcomp, if_false] at hadd
          simp at hadd
    · exfalso
      split at h
      · cases h; simpa using hdrop [] (by simp)
      · split at h
        · cases h; simpa using hdrop [] (by simp)
        · split at h <;> cases h <;> simpa using hdrop [] (by simp)
    · exfalso
      split at h
      · cases h; simpa using hdrop [] (by simp)
      · split at h
        · cases h; simpa using hdrop [] (by simp)
        · cases h
    · exfalso; split at h <;> cases h <;> simpa using hdrop [] (by simp)
    · exfalso; cases h; have := hdrop _ rfl; simp at this
    · exfalso; split at h <;> cases h <;> simpa using hdrop [] (by simp)
    · exfalso; split at h <;> cases h <;> simpa using hdrop [] (by simp)
    · exfalso; split at h <;> cases h <;> simpa using hdrop [] (by simp)
    · exfalso; cases h
      have := hdrop _ rfl
      unfold consumeObs at this; split at this <;> simp at this
    · exfalso; cases h
      have := hdrop _ (by rw [List.append_assoc])
      simp at this
    · cases h

theorem mem_take_index {po : List Ent} (hidx : po.map Prod.snd = List.range po.length) {m : Nat} {e : Ent}
    (he : e ∈ po.take m) : e.2 < m := by
  have : e.2 ∈ (po.take m).map Prod.snd := List.mem_map_of_mem he
  rw [List.map_take, hidx, List.take_range] at this
  have := List.mem_range.mp this
  omega

/-- **The flush barrier (S1).** Whenever a step completes flush future `i` while the queue is
live, every entry pushed before request `i` was sent has *already* been handed to the stream or was
displaced by overflow — in the history before this step — and this very step first flushes the
stream and only then completes the future (together with the other waiting ones). -/
theorem c04_barrier {s s' : QState} {ev : Ev} {i : Nat} (hr : Reachable s) (hcap : 0 < s.cap)
    (h : step s ev = some s') (hnew : Obs.completed i true ∈ s'.log.drop s.log.length) :
    (∀ e ∈ s.pushOrder.take (markOf s i), e ∈ delivered s.log ∨ e ∈ displaced s.log) ∧
    ∃ woken : List Nat, i ∈ woken ∧ s'.log = s.log ++ Obs.flush :: woken.map (Obs.completed · true) := by
  obtain ⟨c, st, n, _, hpc, hw0, hcomp, hiw, hlog⟩ := completed_origin h hnew
  have hi := flushInv_reachable hr hcap
  have hc := conserve_reachable hr
  refine ⟨?_, s.waiting, hiw, hlog⟩
  -- nothing pushed before the request is still in flight
  have hzero : pend (inflight s) (markOf s i) = [] := by
    rcases hcomp with h0 | hd
    · cases hp : pend (inflight s) (markOf s i) with
      | nil => rfl
      | cons x xs =>
        have := hi.budget (by rw [hpc]; rfl) i hiw (by rw [hp]; simp)
        rw [hp, hpc] at this
        simp only [List.length_cons, cnt] at this
        omega
    · subst hd; exact hi.drainedZero n hpc i hiw
  intro e he
  by_cases hd : e ∈ displaced s.log
  · exact .inr hd
  · left
    have hidx := hc.idx; simp only [core] at hidx
    have hlt := mem_take_index hidx he
    have hmem : e ∈ survivors s.pushOrder (displaced s.log) := by
      simp [survivors, List.mem_of_mem_take he, hd]
    have hcons := hc.cons; simp only [core] at hcons
    rw [← hcons, List.append_assoc] at hmem
    rcases List.mem_append.mp hmem with h1 | h1
    · exact h1
    · exfalso
      have : e ∈ pend (inflight s) (markOf s i) := by
        simp only [pend, inflight, List.mem_filter]; exact ⟨h1, by simpa using hlt⟩
      rw [hzero] at this; simp at this

/-- **Trace specification (T-trace).** The executable barrier predicate the driver evaluates at every
completion observed in a real multi-threaded run holds in the model at every live completion: with
`before` = the entries pushed before the request, `lost` = the displaced entries, and `calls` = the
history up to and including the flush of the completing step. -/
theorem c04_spec_accepts {s s' : QState} {ev : Ev} {i : Nat} (hr : Reachable s) (hcap : 0 < s.cap)
    (h : step s ev = some s') (hnew : Obs.completed i true ∈ s'.log.drop s.log.length) :
    Spec.barrierAt (s.pushOrder.take (markOf s i)) (displaced s.log) (s.log ++ [Obs.flush]) = true := by
  obtain ⟨hb, _⟩ := c04_barrier hr hcap h hnew
  simp only [Spec.barrierAt, Bool.and_eq_true, List.all_eq_true, List.reverse_append, List.reverse_cons,
    List.reverse_nil, List.nil_append, List.singleton_append, Spec.flushedAfter, and_true]
  intro e he
  have hd : delivered (s.log ++ [Obs.flush]) = delivered s.log := by simp [delivered]
  rw [hd]
  rcases hb e he with h1 | h1 <;> simp [h1]

/-! ### The barrier as a property of the whole history -/

theorem marks_pushOrder_grow {s s' : QState} {ev : Ev} (h : step s ev = some s') :
    (∃ l, s'.marks = s.marks ++ l) ∧ (∃ l, s'.pushOrder = s.pushOrder ++ l) := by
  cases ev with
  | push p =>
    have hpo := (push_core h).2.1
    simp only [step] at h
    split at h
    · cases h
    · split at h <;> cases h <;> exact ⟨⟨[], by simp⟩, ⟨_, rfl⟩⟩
  | w c =>
    have hpo : s'.pushOrder = s.pushOrder := by
      cases wstep_core h with
      | same heq => exact congrArg Core.pushOrder heq
      | pop _ _ _ _ _ _ _ _ hpo _ => exact hpo
      | consume _ _ _ _ _ _ _ hpo _ => exact hpo
    have hm : s'.marks = s.marks := by
      simp only [step] at h
      unfold wstep at h
      split at h
      · split at h <;> cases h <;> rfl
      · cases h; rfl
      · cases h; rfl
      · split at h
        · cases h; rfl
        · split at h
          · cases h; rfl
          · split at h <;> cases h <;> rfl
      · split at h
        · cases h; rfl
        · split at h
          · cases h; rfl
          · cases h
      · split at h <;> cases h <;> rfl
      · cases h; rfl
      · split at h <;> cases h <;> rfl
      · split at h <;> cases h <;> rfl
      · split at h <;> cases h <;> rfl
      · cases h; rfl
      · cases h; rfl
      · cases h
    exact ⟨⟨[], by simp [hm]⟩, ⟨[], by simp [hpo]⟩⟩
  | flushSend =>
    simp only [step] at h
    split at h <;> cases h <;> exact ⟨⟨_, rfl⟩, ⟨[], by simp⟩⟩
  | unpark p => simp only [step] at h; split at h <;> cases h; exact ⟨⟨[], by simp⟩, ⟨[], by simp⟩⟩
  | flushUnpark i => simp only [step] at h; split at h <;> cases h; exact ⟨⟨[], by simp⟩, ⟨[], by simp⟩⟩
  | clone => simp only [step] at h; split at h <;> cases h; exact ⟨⟨[], by simp⟩, ⟨[], by simp⟩⟩
  | dropHandle => simp only [step] at h; split at h <;> cases h; exact ⟨⟨[], by simp⟩, ⟨[], by simp⟩⟩
  | forget => simp only [step] at h; split at h <;> cases h; exact ⟨⟨[], by simp⟩, ⟨[], by simp⟩⟩
  | setSubscriber b => simp only [step] at h; cases h; exact ⟨⟨[], by simp⟩, ⟨[], by simp⟩⟩
  | dropJoinBegin => simp only [step] at h; split at h <;> cases h; exact ⟨⟨[], by simp⟩, ⟨[], by simp⟩⟩
  | dropJoinUnpark => simp only [step] at h; split at h <;> cases h; exact ⟨⟨[], by simp⟩, ⟨[], by simp⟩⟩
  | dropJoinEnd => simp only [step] at h; split at h <;> cases h; exact ⟨⟨[], by simp⟩, ⟨[], by simp⟩⟩

/-- the barrier at one position of the history: the completion of `i` is preceded by a flush, with
only other completions in between, and before that flush every entry pushed before request `i` was
handed to the stream or displaced -/
def BarrierAt (s : QState) (pre : List Obs) (i : Nat) : Prop :=
  i < s.marks.length ∧ ∃ p1 p2, pre = p1 ++ Obs.flush :: p2 ∧ (∀ o ∈ p2, ∃ j, o = Obs.completed j true) ∧
    ∀ e ∈ s.pushOrder.take (markOf s i), e ∈ delivered p1 ∨ e ∈ displaced p1

def BarrierLog (s : QState) : Prop :=
  ∀ pre post i, s.log = pre ++ Obs.completed i true :: post → BarrierAt s pre i

theorem barrierAt_mono {s s' : QState} {ev : Ev} (h : step s ev = some s') (hmle : ∀ m ∈ s.marks, m ≤ s.pushOrder.length)
    {pre : List Obs} {i : Nat} (hb : BarrierAt s pre i) : BarrierAt s' pre i := by
  obtain ⟨⟨lm, hm⟩, ⟨lp, hp⟩⟩ := marks_pushOrder_grow h
  obtain ⟨hlt, p1, p2, hpre, hp2, hall⟩ := hb
  have hmk : markOf s' i = markOf s i := by
    simp only [markOf, hm, List.getD_eq_getElem?_getD, List.getElem?_append_left hlt]
  refine ⟨by rw [hm]; simp; omega, p1, p2, hpre, hp2, ?_⟩
  rw [hmk, hp, List.take_append_of_le_length (markOf_le hmle i)]
  exact hall

theorem barrierLog_step {s s' : QState} {ev : Ev} (hr : Reachable s) (hcap : 0 < s.cap) (hb : BarrierLog s)
    (h : step s ev = some s') : BarrierLog s' := by
  have hi := flushInv_reachable hr hcap
  obtain ⟨added, hl⟩ := log_grows h
  intro pre post i hsplit
  rw [hl] at hsplit
  rcases List.append_eq_append_iff.mp hsplit with ⟨a', hpre, hadd⟩ | ⟨c', hlog, hadd⟩
  · -- the completion is among the observations of this very step
    have hnew : Obs.completed i true ∈ s'.log.drop s.log.length := by
      rw [hl]; simp [hadd]
    obtain ⟨c, st, n, hev, hpc, hw0, hcomp, hiw, hlog'⟩ := completed_origin h hnew
    obtain ⟨hbar, _⟩ := c04_barrier hr hcap h hnew
    have hadded : added = Obs.flush :: s.waiting.map (Obs.completed · true) := by
      have := hl.symm.trans hlog'; exact List.append_cancel_left this
    rw [hadded] at hadd
    -- a' = flush :: (a prefix of the completions)
    cases a' with
    | nil => simp at hadd
    | cons x a'' =>
      simp only [List.cons_append, List.cons.injEq] at hadd
      obtain ⟨hx, hrest⟩ := hadd
      subst hx
      have hp2 : ∀ o ∈ a'', ∃ j, o = Obs.completed j true := by
        intro o ho
        have : o ∈ s.waiting.map (Obs.completed · true) := by rw [hrest]; simp [ho]
        obtain ⟨j, _, rfl⟩ := List.mem_map.mp this
        exact ⟨j, rfl⟩
      have hb0 : BarrierAt s pre i :=
        ⟨hi.ids i (.inl hiw), s.log, a'', by rw [hpre], hp2, hbar⟩
      exact barrierAt_mono h hi.marksLe hb0
  · cases c' with
    | nil =>
      -- boundary: the completion is the first new observation
      simp only [List.append_nil] at hlog
      simp only [List.nil_append] at hadd
      have hnew : Obs.completed i true ∈ s'.log.drop s.log.length := by
        rw [hl]; simp [← hadd]
      obtain ⟨c, st, n, hev, hpc, hw0, hcomp, hiw, hlog'⟩ := completed_origin h hnew
      have hadded : added = Obs.flush :: s.waiting.map (Obs.completed · true) := by
        have := hl.symm.trans hlog'; exact List.append_cancel_left this
      rw [hadded] at hadd
      cases hadd
    | cons x c'' =>
      simp only [List.cons_append, List.cons.injEq] at hadd
      obtain ⟨hx, _⟩ := hadd
      subst hx
      exact barrierAt_mono h hi.marksLe (hb pre c'' i hlog)

theorem barrierLog_reachable {s : QState} (hr : Reachable s) : 0 < s.cap → BarrierLog s := by
  induction hr with
  | init cap res ns => intro _ pre post i hs; simp [init] at hs
  | step hr' hst ih =>
    intro hc
    rw [cap_const hst] at hc
    exact barrierLog_step hr' hc (ih hc) hst

/-- **The flush barrier over the whole history.** In every reachable state (capacity > 0), for every
position of the history at which flush future `i` completed on a live queue: the history before it
ends with a `flush` followed only by other completions, and before that `flush` every entry pushed
before request `i` was sent had been handed to the stream or displaced by overflow. -/
theorem c04_barrier_log {s : QState} (hr : Reachable s) (hcap : 0 < s.cap) {pre post : List Obs} {i : Nat}
    (hsplit : s.log = pre ++ Obs.completed i true :: post) :
    ∃ p1 p2, pre = p1 ++ Obs.flush :: p2 ∧ (∀ o ∈ p2, ∃ j, o = Obs.completed j true) ∧
      ∀ e ∈ s.pushOrder.take (markOf s i), e ∈ delivered p1 ∨ e ∈ displaced p1 := by
  have := barrierLog_reachable hr
  exact (this hcap pre post i hsplit).2

def completedCount (log : List Obs) : Nat := (log.filter fun | .completed _ _ => true | _ => false).length

/-! ### The flush-request channel is unbounded in the specification -/

/-- a variant of `step` in which the flush-request channel holds at most `k` requests and a request that
does not fit is dropped — which drops its oneshot sender, i.e. completes its future (the seeded change
`sync_channel(1024)` + `try_send(..).ok()`) -/
def stepBounded (k : Nat) (s : QState) : Ev → Option QState
  | .flushSend =>
    if s.wpc ≠ .exited ∧ k ≤ s.sigs.length then
      some { s with marks := s.marks ++ [s.pushOrder.length], sent := s.marks.length :: s.sent,
                    log := s.log ++ [.completed s.marks.length true] }
    else step s .flushSend
  | ev => step s ev

def runBounded (k : Nat) (s : QState) : List Ev → Option QState
  | [] => some s
  | ev :: evs => match stepBounded k s ev with
    | none => none
    | some s' => runBounded k s' evs

/-- **The barrier does not depend on how many flush requests are outstanding** — `c04_barrier` /
`c04_barrier_log` quantify over all event sequences, so over any number of `flushSend`s while the writer is
stalled. A bounded channel that drops the requests it cannot hold is *not* a refinement: with room for one
request, one entry pushed and the writer not moving at all, the second request completes at once although
the entry pushed before it has not been handed to the stream (decided witness). -/
theorem c04_bounded_channel_violates :
    (runBounded 1 (init 4 (fun _ => .ok) true) [.push 0, .flushSend, .flushSend]).map
      (fun s => (s.log.contains (.completed 1 true), delivered s.log, s.pushOrder.take (markOf s 1))) =
      some (true, [], [(0, 0)]) ∧
    -- the unbounded channel of the model: nothing completes
    (run (init 4 (fun _ => .ok) true) [.push 0, .flushSend, .flushSend]).map
      (fun s => (completedCount s.log, s.sigs)) = some (0, [0, 1]) := by decide

/-! ## Boundedness (L1 / S2): the potential function -/

/-- potential of request `i`: an upper bound on the number of progressing `handle_waiting_wakers`
calls before it is woken -/
def phi (cap i : Nat) (waiting : List Nat) (ebw : Nat) (sigs : List Nat) : Nat :=
  if i ∈ waiting then ebw
  else if i ∈ sigs then (if waiting = [] then 0 else ebw) + 1 + cap
  else 0

/-- **Boundedness, the counter protocol.** For every call of `handle_waiting_wakers` and every
request `i` that is waiting or still in the channel: either the call wakes `i`, or `i` is still
known and its potential has not increased; if the call makes progress (`count > 0` or `Drained`) the
potential strictly decreases. Hence `i` is woken after at most `phi ≤ 2·cap + 1` progressing calls,
whatever the producers do — the queue never needs to be empty. -/
theorem c04_bounded (cap : Nat) (st : Status) (count : Nat) (waiting : List Nat) (ebw : Nat) (sigs : List Nat)
    (i : Nat) (hi : i ∈ waiting ∨ i ∈ sigs) :
    let o := hww cap st count waiting ebw sigs
    i ∈ o.completed ∨
      ((i ∈ o.waiting ∨ i ∈ o.sigs) ∧ phi cap i o.waiting o.ebw o.sigs ≤ phi cap i waiting ebw sigs ∧
        ((0 < count ∨ st = .drained) → phi cap i o.waiting o.ebw o.sigs < phi cap i waiting ebw sigs)) := by
  intro o
  by_cases hiw : i ∈ waiting
  · have hw0 : waiting ≠ [] := by intro h0; rw [h0] at hiw; simp at hiw
    by_cases hcomp : ebw - count = 0 ∨ st = Status.drained
    · left
      show i ∈ (hww cap st count waiting ebw sigs).completed
      unfold hww collect
      simp only [hw0, hcomp, if_true, if_false]
      split <;> exact hiw
    · right
      have ho : o = ⟨waiting, ebw - count, sigs, false, []⟩ := by
        show hww cap st count waiting ebw sigs = _
        unfold hww; simp only [hw0, hcomp, if_false]
      rw [ho]
      refine ⟨.inl hiw, by simp only [phi, hiw, if_true]; omega, ?_⟩
      intro hp
      simp only [phi, hiw, if_true]
      have : ¬ (ebw - count = 0) ∧ ¬ st = .drained := by
        constructor <;> intro hx <;> exact hcomp (by simp [hx])
      rcases hp with hp | hp
      · omega
      · exact absurd hp this.2
  · have his : i ∈ sigs := by rcases hi with h | h; exact absurd h hiw; exact h
    have hs0 : sigs ≠ [] := by intro h0; rw [h0] at his; simp at his
    right
    by_cases hw0 : waiting = []
    · have ho : o = ⟨sigs, cap, [], false, []⟩ := by
        show hww cap st count waiting ebw sigs = _
        unfold hww collect; simp only [hw0, hs0, if_true, if_false]
      rw [ho]
      refine ⟨.inl his, ?_, fun _ => ?_⟩ <;> simp [phi, his, hw0]
    · by_cases hcomp : ebw - count = 0 ∨ st = Status.drained
      · have ho : o = ⟨sigs, cap, [], true, waiting⟩ := by
          show hww cap st count waiting ebw sigs = _
          unfold hww collect; simp only [hw0, hs0, hcomp, if_true, if_false]
        rw [ho]
        refine ⟨.inl his, ?_, fun _ => ?_⟩ <;> simp [phi, his, hiw, hw0] <;> omega
      · have ho : o = ⟨waiting, ebw - count, sigs, false, []⟩ := by
          show hww cap st count waiting ebw sigs = _
          unfold hww; simp only [hw0, hcomp, if_false]
        rw [ho]
        refine ⟨.inr his, by simp only [phi, hiw, his, hw0, if_true, if_false]; omega, ?_⟩
        intro hp
        simp only [phi, hiw, his, hw0, if_true, if_false]
        have : ¬ (ebw - count = 0) ∧ ¬ st = .drained := by
          constructor <;> intro hx <;> exact hcomp (by simp [hx])
        rcases hp with hp | hp
        · omega
        · exact absurd hp this.2

/-- facts about the writer loop that make `c04_bounded` bite -/
structure WakerInv (s : QState) : Prop where
  ebwLe : s.ebw ≤ s.cap
  /-- `handle_waiting_wakers` is never called with `HitDeadline` and `count = 0` -/
  progress : ∀ n, s.wpc = .afterDrain .hitDeadline n → 0 < n
  /-- the writer never parks while wakers wait -/
  noParkWaiting : s.wpc = .parking → s.waiting = []
  /-- a flush signal in the channel is not forgotten: if the writer has passed its last look at the
  channel and is heading into `park`, the token is set or the requester is about to `unpark` -/
  signalSeen : (s.wpc = .postHww .drained ∨ s.wpc = .parking) → ∀ i ∈ s.sigs, s.token = true ∨ i ∈ s.sent
  /-- after the thread exited no future is left pending -/
  exitedClean : s.wpc = .exited → s.waiting = [] ∧ s.sigs = []

theorem hww_ebw_le (cap : Nat) (st : Status) (count : Nat) (waiting : List Nat) (ebw : Nat) (sigs : List Nat)
    (h : ebw ≤ cap) : (hww cap st count waiting ebw sigs).ebw ≤ cap := by
  unfold hww collect
  split
  · split <;> simp <;> omega
  · split
    · split <;> simp
    · simp; omega

theorem hww_drained_sigs (cap : Nat) (count : Nat) (waiting : List Nat) (ebw : Nat) (sigs : List Nat) :
    (hww cap .drained count waiting ebw sigs).sigs = [] := by
  unfold hww collect
  split
  · split <;> simp
  · simp only [or_true, if_true]; split <;> simp

theorem wakerInv_step {s s' : QState} {ev : Ev} (hi : WakerInv s) (h : step s ev = some s') : WakerInv s' := by
  cases ev with
  | push p =>
    have hsame : s'.cap = s.cap ∧ s'.ebw = s.ebw ∧ s'.wpc = s.wpc ∧ s'.waiting = s.waiting ∧ s'.sigs = s.sigs ∧
        s'.token = s.token ∧ s'.sent = s.sent := by
      simp only [step] at h
      split at h
      · cases h
      · split at h <;> cases h <;> simp
    obtain ⟨h1, h2, h3, h4, h5, h6, h7⟩ := hsame
    exact ⟨by rw [h1, h2]; exact hi.ebwLe, by rw [h3]; exact hi.progress, by rw [h3, h4]; exact hi.noParkWaiting,
      by rw [h3, h5, h6, h7]; exact hi.signalSeen, by rw [h3, h4, h5]; exact hi.exitedClean⟩
  | unpark p =>
    simp only [step] at h; split at h <;> cases h
    exact ⟨hi.ebwLe, hi.progress, hi.noParkWaiting, fun _ _ _ => .inl rfl, hi.exitedClean⟩
  | flushSend =>
    simp only [step] at h
    split at h <;> cases h
    · rename_i hex
      refine ⟨hi.ebwLe, hi.progress, hi.noParkWaiting, ?_, hi.exitedClean⟩
      intro hw; rw [hex] at hw; rcases hw with hw | hw <;> cases hw
    · rename_i hex
      refine ⟨hi.ebwLe, hi.progress, hi.noParkWaiting, ?_, fun h' => absurd h' hex⟩
      intro hw i his
      simp only [List.mem_append, List.mem_singleton] at his
      rcases his with his | his
      · rcases hi.signalSeen hw i his with h1 | h1
        · exact .inl h1
        · exact .inr (List.mem_cons_of_mem _ h1)
      · exact .inr (by rw [his]; simp)
  | flushUnpark i =>
    simp only [step] at h; split at h <;> cases h
    exact ⟨hi.ebwLe, hi.progress, hi.noParkWaiting, fun _ _ _ => .inl rfl, hi.exitedClean⟩
  | clone => simp only [step] at h; split at h <;> cases h; exact ⟨hi.ebwLe, hi.progress, hi.noParkWaiting, hi.signalSeen, hi.exitedClean⟩
  | dropHandle => simp only [step] at h; split at h <;> cases h; exact ⟨hi.ebwLe, hi.progress, hi.noParkWaiting, hi.signalSeen, hi.exitedClean⟩
  | forget => simp only [step] at h; split at h <;> cases h; exact ⟨hi.ebwLe, hi.progress, hi.noParkWaiting, hi.signalSeen, hi.exitedClean⟩
  | setSubscriber b => simp only [step] at h; cases h; exact ⟨hi.ebwLe, hi.progress, hi.noParkWaiting, hi.signalSeen, hi.exitedClean⟩
  | dropJoinBegin => simp only [step] at h; split at h <;> cases h; exact ⟨hi.ebwLe, hi.progress, hi.noParkWaiting, hi.signalSeen, hi.exitedClean⟩
  | dropJoinUnpark =>
    simp only [step] at h; split at h <;> cases h
    exact ⟨hi.ebwLe, hi.progress, hi.noParkWaiting, fun _ _ _ => .inl rfl, hi.exitedClean⟩
  | dropJoinEnd => simp only [step] at h; split at h <;> cases h; exact ⟨hi.ebwLe, hi.progress, hi.noParkWaiting, hi.signalSeen, hi.exitedClean⟩
  | w c =>
    simp only [step] at h
    unfold wstep at h
    split at h
    · split at h <;> cases h <;> exact ⟨hi.ebwLe, by simp, by simp, by simp, by simp⟩
    · cases h
      refine ⟨hi.ebwLe, ?_, ?_, ?_, ?_⟩
      · dsimp only; intro n hn; split at hn <;> cases hn; omega
      · dsimp only; split <;> simp
      · dsimp only; split <;> simp
      · dsimp only; split <;> simp
    · rename_i st n hpc
      cases h
      refine ⟨hww_ebw_le _ _ _ _ _ _ hi.ebwLe, by simp, by simp, ?_, by simp⟩
      dsimp only
      intro hw i his
      rcases hw with hw | hw
      · cases hw
        rw [hww_drained_sigs] at his; simp at his
      · cases hw
    · rename_i st hpc
      split at h
      · cases h; exact ⟨hi.ebwLe, by simp, by simp, by simp, by simp⟩
      · split at h
        · cases h; exact ⟨hi.ebwLe, by simp, by simp, by simp, by simp⟩
        · rename_i hnd hns
          split at h <;> cases h
          · exact ⟨hi.ebwLe, by simp, by simp, by simp, by simp⟩
          · rename_i hwp
            refine ⟨hi.ebwLe, by simp, ?_, ?_, by simp⟩
            · intro _; simpa [willProgress] using hwp
            · intro _
              have : st = .drained := by cases st <;> simp_all
              exact hi.signalSeen (.inl (by rw [hpc, this]))
    · split at h
      · cases h; exact ⟨hi.ebwLe, by simp, by simp, by simp, by simp⟩
      · split at h
        · cases h; exact ⟨hi.ebwLe, by simp, by simp, by simp, by simp⟩
        · cases h
    · split at h <;> cases h <;> exact ⟨hi.ebwLe, by simp, by simp, by simp, by simp⟩
    · cases h; exact ⟨hi.ebwLe, by simp, by simp, by simp, by simp⟩
    · split at h <;> cases h <;> exact ⟨hi.ebwLe, by simp, by simp, by simp, by simp⟩
    · split at h <;> cases h <;> exact ⟨hi.ebwLe, by simp, by simp, by simp, by simp⟩
    · split at h <;> cases h <;> exact ⟨hi.ebwLe, by simp, by simp, by simp, by simp⟩
    · cases h
      refine ⟨hi.ebwLe, ?_, ?_, ?_, ?_⟩
      · dsimp only; split <;> simp
      · dsimp only; split <;> simp
      · dsimp only; split <;> simp
      · dsimp only; split <;> simp
    · cases h; exact ⟨hi.ebwLe, by simp, by simp, by simp, by simp⟩
    · cases h

theorem wakerInv_reachable {s : QState} (hr : Reachable s) : WakerInv s :=
  Reachable.inv (P := WakerInv)
    (by intro cap res ns; exact ⟨by simp [init], by simp [init], by simp [init], by simp [init], by simp [init]⟩)
    (fun _ _ _ _ hi h => wakerInv_step hi h) hr

/-- **Boundedness, the writer loop.** In every reachable state the potential of a pending request is
at most `2·cap + 1`; `handle_waiting_wakers` is only ever called with progress (`Drained`, or
`HitDeadline` with `count > 0`), so by `c04_bounded` every call decreases it; the writer never parks
while wakers wait; and a request still in the channel when the writer heads into `park` comes with a
token or a pending `unpark` — so the future completes after a bounded number of
`handle_waiting_wakers` calls although the ring may never be empty. -/
theorem c04_bounded_loop {s : QState} (hr : Reachable s) (i : Nat) :
    phi s.cap i s.waiting s.ebw s.sigs ≤ 2 * s.cap + 1 ∧
    (∀ st n, s.wpc = .afterDrain st n → 0 < n ∨ st = .drained) ∧
    (s.wpc = .parking → s.waiting = []) ∧
    ((s.wpc = .postHww .drained ∨ s.wpc = .parking) → i ∈ s.sigs → s.token = true ∨ i ∈ s.sent) := by
  have hi := wakerInv_reachable hr
  refine ⟨?_, ?_, hi.noParkWaiting, fun hw his => hi.signalSeen hw i his⟩
  · have := hi.ebwLe
    unfold phi
    split
    · omega
    · split
      · split <;> omega
      · omega
  · intro st n hpc
    cases st with
    | drained => exact .inr rfl
    | hitDeadline => exact .inl (hi.progress n hpc)

/-- **After shutdown a flush completes immediately**: once the thread has exited, a flush request
completes in the very step that sends it, and the exit itself completed every request that was
waiting or queued (none is left pending). -/
theorem c04_after_exit_immediate {s : QState} (hr : Reachable s) (hex : s.wpc = .exited) :
    (∃ s', step s .flushSend = some s' ∧ s'.log = s.log ++ [Obs.completed s.marks.length false]) ∧
    s.waiting = [] ∧ s.sigs = [] := by
  refine ⟨⟨{ s with marks := s.marks ++ [s.pushOrder.length], sent := s.marks.length :: s.sent, log := s.log ++ [Obs.completed s.marks.length false] }, by simp [step, hex], rfl⟩,
    (wakerInv_reachable hr).exitedClean hex⟩

/-- the exit step wakes everybody -/
theorem c04_exit_completes_all {s : QState} (c : Clock) (hpc : s.wpc = .shutFlush) :
    ∃ s', wstep s c = some s' ∧ s'.wpc = .exited ∧
      s'.log = s.log ++ [.flush, .closed] ++ (s.waiting ++ s.sigs).map (Obs.completed · false) := by
  unfold wstep; rw [hpc]; exact ⟨_, rfl, rfl, rfl⟩

/-- **Completions at exit come after the final drain and flush.** The wakers that are still pending
when the writer shuts down (waiting, counting down, or still in the channel) are released only by
the very last step of `run`: that step first flushes the stream and drops it, then completes them —
and if the shutdown timeout did not fire, every entry pushed before the shutdown began (before the
flag was stored; every entry, on the no-appenders path) had already been handed to the stream or
displaced before that flush. In particular a flush requested on a live queue never completes while
entries appended before it (and before the shutdown) are still unwritten. -/
theorem c04_exit_barrier {s s' : QState} {c : Clock} (hr : Reachable s) (hpc : s.wpc = .shutFlush)
    (h : wstep s c = some s') :
    s'.log = s.log ++ [.flush, .closed] ++ (s.waiting ++ s.sigs).map (Obs.completed · false) ∧
    s'.waiting = [] ∧ s'.sigs = [] ∧
    (s.shutHit = false → ∀ e ∈ s.pushOrder.take (promised s), e ∈ delivered s.log ∨ e ∈ displaced s.log) := by
  have hi := shutInv_reachable hr
  unfold wstep at h
  rw [hpc] at h
  simp only [Option.some.injEq] at h
  subst h
  exact ⟨rfl, rfl, rfl, hi.drained (by rw [hpc]; rfl)⟩

/-- Before that last step nothing completes a flush future "dead": a `completed _ false` observation
is produced only by the exit step or by a `flushSend` after the exit. -/
theorem c04_dead_completion_origin {s s' : QState} {ev : Ev} {i : Nat} (h : step s ev = some s')
    (hnew : Obs.completed i false ∈ s'.log.drop s.log.length) :
    (∃ c, ev = .w c ∧ s.wpc = .shutFlush) ∨ (ev = .flushSend ∧ s.wpc = .exited) := by
  have hdrop : ∀ added : List Obs, s'.log = s.log ++ added → Obs.completed i false ∈ added := by
    intro added ha; rw [ha] at hnew; simpa using hnew
  cases ev with
  | push p =>
    exfalso
    obtain ⟨hpc, _⟩ := push_core h
    cases hpc with
    | room _ _ hlog _ => have := hdrop [] (by simp [hlog]); simp at this
    | zero _ _ hlog _ => have := hdrop [] (by simp [hlog]); simp at this
    | displace d t _ _ _ hlog _ => have := hdrop _ hlog; simp at this
  | unpark p => exfalso; simp only [step] at h; split at h <;> cases h; simpa using hdrop [] (by simp)
  | flushSend =>
    simp only [step] at h
    split at h <;> cases h
    · rename_i hex; exact .inr ⟨rfl, hex⟩
    · exfalso; simpa using hdrop [] (by simp)
  | flushUnpark j => exfalso; simp only [step] at h; split at h <;> cases h; simpa using hdrop [] (by simp)
  | clone => exfalso; simp only [step] at h; split at h <;> cases h; simpa using hdrop [] (by simp)
  | dropHandle => exfalso; simp only [step] at h; split at h <;> cases h; simpa using hdrop [] (by simp)
  | forget => exfalso; simp only [step] at h; split at h <;> cases h; simpa using hdrop [] (by simp)
  | setSubscriber b => exfalso; simp only [step] at h; cases h; simpa using hdrop [] (by simp)
  | dropJoinBegin => exfalso; simp only [step] at h; split at h <;> cases h; simpa using hdrop [] (by simp)
  | dropJoinUnpark => exfalso; simp only [step] at h; split at h <;> cases h; simpa using hdrop [] (by simp)
  | dropJoinEnd =>
    exfalso; simp only [step] at h; split at h <;> cases h
    have := hdrop _ rfl; simp at this
  | w c =>
    simp only [step] at h
    unfold wstep at h
    split at h
    · exfalso; split at h <;> cases h <;> simpa using hdrop [] (by simp)
    · exfalso; cases h
      have := hdrop _ rfl
      unfold consumeObs at this; split at this <;> simp at this
    · exfalso; cases h
      have := hdrop _ (by rw [List.append_assoc])
      simp only [List.mem_append, List.mem_map] at this
      rcases this with h1 | ⟨j, _, hj⟩
      · split at h1 <;> simp at h1
      · cases hj
    · exfalso
      split at h
      · cases h; simpa using hdrop [] (by simp)
      · split at h
        · cases h; simpa using hdrop [] (by simp)
        · split at h <;> cases h <;> simpa using hdrop [] (by simp)
    · exfalso
      split at h
      · cases h; simpa using hdrop [] (by simp)
      · split at h
        · cases h; simpa using hdrop [] (by simp)
        · cases h
    · exfalso; split at h <;> cases h <;> simpa using hdrop [] (by simp)
    · exfalso; cases h; have := hdrop _ rfl; simp at this
    · exfalso; split at h <;> cases h <;> simpa using hdrop [] (by simp)
    · exfalso; split at h <;> cases h <;> simpa using hdrop [] (by simp)
    · exfalso; split at h <;> cases h <;> simpa using hdrop [] (by simp)
    · exfalso; cases h
      have := hdrop _ rfl
      unfold consumeObs at this; split at this <;> simp at this
    · rename_i hpc; exact .inl ⟨c, rfl, hpc⟩
    · cases h

/-! ## Non-vacuity: capacity 2, a producer refills after every pop, the ring is never empty -/

def nvC : Clock := ⟨true, false, false, false⟩

/-- pop, write, and a producer pushes a new entry at once -/
def refill : List Ev := [.w nvC, .w nvC, .push 1]

/-- two entries queued, a flush requested; the writer pops and writes 32 entries (the ring is
refilled after every pop), hits its deadline, collects the request (`ebw = 2`), goes round the outer
loop, writes 32 more entries, hits the deadline again — and wakes the future although the ring has
never been empty -/
def nvNeverEmpty : List Ev :=
  [.push 0, .push 0, .flushSend, .flushUnpark 0] ++ (List.replicate 32 refill).flatten ++
  [.w nvC, .w nvC, .w nvC, .w nvC, .w nvC] ++ (List.replicate 32 refill).flatten ++ [.w nvC]

/-- minimum over the run of (ring + entry being written) -/
def minInflight (s : QState) : List Ev → Nat → Option Nat
  | [], m => some m
  | ev :: evs, m => match step s ev with
    | none => none
    | some s' => minInflight s' evs (min m (s'.ring.length + (holding s'.wpc).length))

example : ((run (init 2 (fun _ => .ok) true) nvNeverEmpty).map fun s =>
    (s.ring.length, s.log.contains (.completed 0 true), (delivered s.log).length)) = some (2, true, 64) := by
  decide +kernel

example : minInflight (init 2 (fun _ => .ok) true) nvNeverEmpty 99 = some 1 := by decide +kernel

end Queue

#print axioms Queue.c04_barrier
#print axioms Queue.c04_spec_accepts
#print axioms Queue.c04_barrier_log
#print axioms Queue.c04_bounded_channel_violates
#print axioms Queue.c04_bounded
#print axioms Queue.c04_bounded_loop
#print axioms Queue.c04_after_exit_immediate
#print axioms Queue.c04_exit_completes_all
#print axioms Queue.c04_exit_barrier
#print axioms Queue.c04_dead_completion_origin
