import Props.C06RefineLemmas
namespace KeepAlive
open Spec

variable {cfg : List (Bool × Nat)} {s s' : St} {w w' : Option Nat} {t t' : SSt}

/-- the goal of one simulation step -/
def StepSim (s : St) (w : Option Nat) (t : SSt) (e : Ev) (s' : St) : Prop :=
  ∃ t', feedAll t (obsOf s w e).1 = some t' ∧ Sim s' (obsOf s w e).2 t'

theorem stepSim_zero {e : Ev} (ho : obsOf s w e = ([], w')) (hs : Sim s' w' t) : StepSim s w t e s' := by
  unfold StepSim; rw [ho]; exact ⟨t, rfl, hs⟩

theorem stepSim_one {e : Ev} {o : Obs} (hr : Reachable cfg s') (ho : obsOf s w e = ([o], w'))
    (hf : feed t o = some t') (hs : Sim s' w' t') : StepSim s w t e s' := by
  unfold StepSim; rw [ho]; exact ⟨t', feedAll_one hr hf hs, hs⟩

theorem stepSim_two {e : Ev} {o1 o2 : Obs} {t1 : SSt} (hr : Reachable cfg s') (ho : obsOf s w e = ([o1, o2], w'))
    (hf1 : feed t o1 = some t1) (h1 : t1.inflight > 0 ∨ t1.apps ≠ 0)
    (hf2 : feed t1 o2 = some t') (hs : Sim s' w' t') : StepSim s w t e s' := by
  unfold StepSim; rw [ho]; exact ⟨t', feedAll_two hr hf1 h1 hf2 hs, hs⟩

/-! equations of `feed` -/
theorem feed_nR (h : t.refsOut > 0) : feed t .nR = some { t with refsOut := t.refsOut + 1 } := by simp [feed, h]
theorem feed_bR (h : t.refsOut > 0) : feed t .bR = some { t with refsOut := t.refsOut - 1, inflight := t.inflight + 1 } := by simp [feed, h]
theorem feed_eR (h : t.inflight > 0) : feed t .eR = some { t with inflight := t.inflight - 1 } := by simp [feed, h]
theorem feed_nF (h : t.refsOut > 0) : feed t .nF = some { t with fgOut := t.fgOut + 1 } := by simp [feed, h]
theorem feed_bF (h : t.fgOut > 0) : feed t .bF = some { t with fgOut := t.fgOut - 1, inflight := t.inflight + 1 } := by simp [feed, h]
theorem feed_eF (h : t.inflight > 0) : feed t .eF = some { t with inflight := t.inflight - 1 } := by simp [feed, h]
theorem feed_nD (h : t.refsOut > 0) : feed t .nD = some { t with dgOut := t.dgOut + 1 } := by simp [feed, h]
theorem feed_bD (h : t.dgOut > 0) : feed t .bD =
    some { t with dgOut := t.dgOut - 1, dgBegun := t.dgBegun + 1, inflight := t.inflight + 1 } := by simp [feed, h]
theorem feed_eD (h : t.inflight > 0) : feed t .eD = some { t with inflight := t.inflight - 1, dgEnded := t.dgEnded + 1 } := by
  simp [feed, h]
theorem feed_mut (v : Nat) (h : t.refsOut > 0) : feed t (.mut v) = some { t with plain := v } := by simp [feed, h]
theorem feed_hit (v : Nat) (h : t.refsOut > 0) : feed t (.hit v) = some { t with hits := v } := by simp [feed, h]

/-- slot part of `Sim` when the model's slots and the automaton's slots do not change -/
theorem sim_slots_mono (hsim : Sim s w t) (hs : s'.slots = s.slots) (ht : t'.slots = t.slots)
    (hp : ∀ i, PendAt s' w' i → PendAt s w i) :
    (∀ i sl tl, s'.slots[i]? = some sl → t'.slots[i]? = some tl → SlotSim (PendAt s' w' i) sl tl) ∧
    (∀ i, PendAt s' w' i → i < s'.slots.length) := by
  rw [hs, ht]
  exact ⟨fun i sl tl h1 h2 => (hsim.slots i sl tl h1 h2).mono (hp i), fun i h => hsim.wlen i (hp i h)⟩

/-- `Sim` for a step that leaves the slot lists of model and automaton alone -/
theorem sim_same_slots (hsim : Sim s w t) (hs : s'.slots = s.slots) (ht : t'.slots = t.slots)
    (hp : ∀ i, PendAt s' w' i → PendAt s w i)
    (hscal : t'.refsOut = s'.hS ∧ t'.fgOut + sumBy sentWBy s.slots = s'.fgLive ∧ t'.dgOut = s'.dgLive ∧
      t'.dgBegun = s'.dgBegun ∧ t'.dgEnded = s'.dgDone ∧
      t'.inflight = pF s'.pPc + iF s'.iPc + s'.nUp + lF s'.lPc + s'.nDec + sumBy sentBy s.slots ∧
      t'.plain = s'.plain ∧ t'.hits = s'.hits ∧ t'.apps = s'.appended.length) : Sim s' w' t' := by
  obtain ⟨a1, a2, a3, a4, a5, a6, a7, a8, a9⟩ := hscal
  obtain ⟨b1, b2⟩ := sim_slots_mono (s' := s') (w' := w') (t' := t') hsim hs ht hp
  refine ⟨a1, ?_, a3, a4, a5, ?_, a7, a8, a9, ?_, b1, b2⟩
  · rw [hs]; exact a2
  · rw [hs]; exact a6
  · rw [hs, ht]; exact hsim.len

/-- scalar facts available in every case: the simulation relation and the C06 invariant, flattened -/
macro "sim_scalars" : tactic =>
  `(tactic| (refine ⟨?_, ?_, ?_, ?_, ?_, ?_, ?_, ?_, ?_⟩ <;> (try dsimp only) <;>
      grind [pF, iF, lF, pV, pG, pA, iA, lA, lV, b2n, ownerUsable]))

macro "sim_pend" : tactic =>
  `(tactic| (intro i hpend; simp only [PendAt] at hpend ⊢; grind))

theorem sim_newFG (hr : Reachable cfg s) (hsim : Sim s w t) (h : step s .newFG = some s') : StepSim s w t .newFG s' := by
  have hr' := Reachable.step _ hr h
  obtain ⟨h1,h2,h3,h4,h5,h6,h7,h8,h9,h10,h11,h11b,h12,h13,h14⟩ := inv_reachable hr
  obtain ⟨r1, r2, r3, r4, r5, r6, r7, r8, r9, r10, -, -⟩ := id hsim
  simp only [step, Option.ite_none_right_eq_some, Option.some.injEq] at h
  obtain ⟨hc, rfl⟩ := h
  refine stepSim_one hr' rfl (feed_nF (by grind [ownerUsable])) (sim_same_slots hsim rfl rfl (by sim_pend) (by sim_scalars))

theorem sim_newDG (hr : Reachable cfg s) (hsim : Sim s w t) (h : step s .newDG = some s') : StepSim s w t .newDG s' := by
  have hr' := Reachable.step _ hr h
  obtain ⟨h1,h2,h3,h4,h5,h6,h7,h8,h9,h10,h11,h11b,h12,h13,h14⟩ := inv_reachable hr
  obtain ⟨r1, r2, r3, r4, r5, r6, r7, r8, r9, r10, -, -⟩ := id hsim
  simp only [step, Option.ite_none_right_eq_some, Option.some.injEq] at h
  obtain ⟨hc, rfl⟩ := h
  refine stepSim_one hr' rfl (feed_nD (by grind [ownerUsable])) (sim_same_slots hsim rfl rfl (by sim_pend) (by sim_scalars))

theorem sim_mutate (v : Nat) (hr : Reachable cfg s) (hsim : Sim s w t) (h : step s (.mutate v) = some s') :
    StepSim s w t (.mutate v) s' := by
  have hr' := Reachable.step _ hr h
  obtain ⟨h1,h2,h3,h4,h5,h6,h7,h8,h9,h10,h11,h11b,h12,h13,h14⟩ := inv_reachable hr
  obtain ⟨r1, r2, r3, r4, r5, r6, r7, r8, r9, r10, -, -⟩ := id hsim
  simp only [step, Option.ite_none_right_eq_some, Option.some.injEq] at h
  obtain ⟨hc, rfl⟩ := h
  refine stepSim_one hr' rfl (feed_mut v (by grind [ownerUsable])) (sim_same_slots hsim rfl rfl (by sim_pend) (by sim_scalars))

theorem sim_hit (v : Nat) (hr : Reachable cfg s) (hsim : Sim s w t) (h : step s (.hit v) = some s') :
    StepSim s w t (.hit v) s' := by
  have hr' := Reachable.step _ hr h
  obtain ⟨h1,h2,h3,h4,h5,h6,h7,h8,h9,h10,h11,h11b,h12,h13,h14⟩ := inv_reachable hr
  obtain ⟨r1, r2, r3, r4, r5, r6, r7, r8, r9, r10, -, -⟩ := id hsim
  simp only [step, Option.ite_none_right_eq_some, Option.some.injEq] at h
  obtain ⟨hc, rfl⟩ := h
  refine stepSim_one hr' rfl (feed_hit v (by grind)) (sim_same_slots hsim rfl rfl (by sim_pend) (by sim_scalars))

theorem sim_toHandle (hr : Reachable cfg s) (hsim : Sim s w t) (h : step s .toHandle = some s') : StepSim s w t .toHandle s' := by
  obtain ⟨h1,h2,h3,h4,h5,h6,h7,h8,h9,h10,h11,h11b,h12,h13,h14⟩ := inv_reachable hr
  obtain ⟨r1, r2, r3, r4, r5, r6, r7, r8, r9, r10, -, -⟩ := id hsim
  simp only [step, Option.ite_none_right_eq_some, Option.some.injEq] at h
  obtain ⟨hc, rfl⟩ := h
  refine stepSim_zero rfl (sim_same_slots hsim rfl rfl (by sim_pend) (by sim_scalars))

theorem sim_cloneHandle (hr : Reachable cfg s) (hsim : Sim s w t) (h : step s .cloneHandle = some s') :
    StepSim s w t .cloneHandle s' := by
  have hr' := Reachable.step _ hr h
  obtain ⟨h1,h2,h3,h4,h5,h6,h7,h8,h9,h10,h11,h11b,h12,h13,h14⟩ := inv_reachable hr
  obtain ⟨r1, r2, r3, r4, r5, r6, r7, r8, r9, r10, -, -⟩ := id hsim
  simp only [step, Option.ite_none_right_eq_some, Option.some.injEq] at h
  obtain ⟨hc, rfl⟩ := h
  refine stepSim_one hr' rfl (feed_nR (by grind)) (sim_same_slots hsim rfl rfl (by sim_pend) (by sim_scalars))

theorem sim_waitCancel (hr : Reachable cfg s) (hsim : Sim s w t) (h : step s .waitCancel = some s') :
    StepSim s w t .waitCancel s' := by
  obtain ⟨h1,h2,h3,h4,h5,h6,h7,h8,h9,h10,h11,h11b,h12,h13,h14⟩ := inv_reachable hr
  obtain ⟨r1, r2, r3, r4, r5, r6, r7, r8, r9, r10, -, -⟩ := id hsim
  simp only [step, Option.ite_none_right_eq_some, Option.some.injEq] at h
  obtain ⟨hc, rfl⟩ := h
  refine stepSim_zero rfl (sim_same_slots hsim rfl rfl (by sim_pend) (by sim_scalars))

theorem sim_refDrop (hr : Reachable cfg s) (hsim : Sim s w t) (h : step s .refDrop = some s') : StepSim s w t .refDrop s' := by
  have hr' := Reachable.step _ hr h
  obtain ⟨h1,h2,h3,h4,h5,h6,h7,h8,h9,h10,h11,h11b,h12,h13,h14⟩ := inv_reachable hr
  obtain ⟨r1, r2, r3, r4, r5, r6, r7, r8, r9, r10, -, -⟩ := id hsim
  simp only [step, Option.ite_none_right_eq_some] at h
  obtain ⟨hc, h⟩ := h
  have h0 : t.refsOut > 0 := by omega
  by_cases hone : s.hS = 1
  · simp only [hone, if_true, Option.some.injEq] at h
    subst h
    refine stepSim_one (w' := w) hr' (by simp [obsOf, hone]) (feed_bR h0) (sim_same_slots hsim rfl rfl (by sim_pend) (by sim_scalars))
  · simp only [hone, if_false, Option.some.injEq] at h
    subst h
    refine stepSim_two (w' := w) hr' (by simp [obsOf, hone]) (feed_bR h0) (Or.inl (by simp)) (feed_eR (by simp))
      (sim_same_slots hsim rfl rfl (by sim_pend) (by sim_scalars))

/-! ## events that release a reference on the guard cell -/

theorem sim_fgDrop (hr : Reachable cfg s) (hsim : Sim s w t) (h : step s .fgDrop = some s') : StepSim s w t .fgDrop s' := by
  have hr' := Reachable.step _ hr h
  obtain ⟨h1,h2,h3,h4,h5,h6,h7,h8,h9,h10,h11,h11b,h12,h13,h14⟩ := inv_reachable hr
  obtain ⟨r1, r2, r3, r4, r5, r6, r7, r8, r9, r10, -, -⟩ := id hsim
  have hsp := held_split s.slots
  simp only [step, dropFG, relG, Option.ite_none_right_eq_some, Option.some.injEq] at h
  obtain ⟨hc, h⟩ := h
  have h0 : t.fgOut > 0 := by omega
  by_cases hz : s.gS - 1 = 0
  · simp only [hz, if_true] at h
    subst h
    refine stepSim_one (w' := none) hr' (by simp [obsOf, relObs, relWho, hz]) (feed_bF h0)
      (sim_same_slots hsim rfl rfl (by sim_pend) (by sim_scalars))
  · simp only [hz, if_false] at h
    subst h
    refine stepSim_two (w' := w) hr' (by simp [obsOf, relObs, relWho, hz]) (feed_bF h0) (Or.inl (by simp)) (feed_eF (by simp))
      (sim_same_slots hsim rfl rfl (by sim_pend) (by sim_scalars))

theorem sim_dgBegin (hr : Reachable cfg s) (hsim : Sim s w t) (h : step s .dgBegin = some s') : StepSim s w t .dgBegin s' := by
  have hr' := Reachable.step _ hr h
  obtain ⟨h1,h2,h3,h4,h5,h6,h7,h8,h9,h10,h11,h11b,h12,h13,h14⟩ := inv_reachable hr
  obtain ⟨r1, r2, r3, r4, r5, r6, r7, r8, r9, r10, -, -⟩ := id hsim
  simp only [step, Option.ite_none_right_eq_some] at h
  obtain ⟨hc, h⟩ := h
  have h0 : t.dgOut > 0 := by omega
  by_cases hz : s.gS = 0
  · simp only [hz, if_true, Option.some.injEq] at h
    subst h
    refine stepSim_two (w' := w) hr' (by simp [obsOf, hz]) (feed_bD h0) (Or.inl (by simp)) (feed_eD (by simp))
      (sim_same_slots hsim rfl rfl (by sim_pend) (by sim_scalars))
  · simp only [hz, if_false, Option.some.injEq] at h
    subst h
    refine stepSim_one (w' := w) hr' (by simp [obsOf, hz]) (feed_bD h0)
      (sim_same_slots hsim rfl rfl (by sim_pend) (by sim_scalars))

theorem sim_dgLock (hr : Reachable cfg s) (hsim : Sim s w t) (h : step s .dgLock = some s') : StepSim s w t .dgLock s' := by
  obtain ⟨h1,h2,h3,h4,h5,h6,h7,h8,h9,h10,h11,h11b,h12,h13,h14⟩ := inv_reachable hr
  obtain ⟨r1, r2, r3, r4, r5, r6, r7, r8, r9, r10, -, -⟩ := id hsim
  simp only [step, Option.ite_none_right_eq_some] at h
  obtain ⟨hc, h⟩ := h
  cases hcl : s.closure <;> simp only [hcl, if_true, Bool.false_eq_true, if_false, Option.some.injEq] at h <;> subst h <;>
    exact stepSim_zero rfl (sim_same_slots hsim rfl rfl (by sim_pend) (by sim_scalars))

theorem sim_lRun (hr : Reachable cfg s) (hsim : Sim s w t) (h : step s .lRun = some s') : StepSim s w t .lRun s' := by
  obtain ⟨h1,h2,h3,h4,h5,h6,h7,h8,h9,h10,h11,h11b,h12,h13,h14⟩ := inv_reachable hr
  obtain ⟨r1, r2, r3, r4, r5, r6, r7, r8, r9, r10, -, -⟩ := id hsim
  simp only [step, Option.ite_none_right_eq_some, Option.some.injEq] at h
  obtain ⟨hc, rfl⟩ := h
  exact stepSim_zero rfl (sim_same_slots hsim rfl rfl (by sim_pend) (by sim_scalars))

theorem sim_lUnlock (hr : Reachable cfg s) (hsim : Sim s w t) (h : step s .lUnlock = some s') : StepSim s w t .lUnlock s' := by
  obtain ⟨h1,h2,h3,h4,h5,h6,h7,h8,h9,h10,h11,h11b,h12,h13,h14⟩ := inv_reachable hr
  obtain ⟨r1, r2, r3, r4, r5, r6, r7, r8, r9, r10, -, -⟩ := id hsim
  simp only [step, Option.ite_none_right_eq_some, Option.some.injEq] at h
  obtain ⟨hc, rfl⟩ := h
  exact stepSim_zero rfl (sim_same_slots hsim rfl rfl (by sim_pend) (by sim_scalars))

theorem sim_pDecV (hr : Reachable cfg s) (hsim : Sim s w t) (h : step s .pDecV = some s') : StepSim s w t .pDecV s' := by
  obtain ⟨h1,h2,h3,h4,h5,h6,h7,h8,h9,h10,h11,h11b,h12,h13,h14⟩ := inv_reachable hr
  obtain ⟨r1, r2, r3, r4, r5, r6, r7, r8, r9, r10, -, -⟩ := id hsim
  simp only [step, Option.ite_none_right_eq_some, Option.some.injEq] at h
  obtain ⟨hc, rfl⟩ := h
  exact stepSim_zero rfl (sim_same_slots hsim rfl rfl (by sim_pend) (by sim_scalars))

theorem sim_dgDec (hr : Reachable cfg s) (hsim : Sim s w t) (h : step s .dgDec = some s') : StepSim s w t .dgDec s' := by
  have hr' := Reachable.step _ hr h
  obtain ⟨h1,h2,h3,h4,h5,h6,h7,h8,h9,h10,h11,h11b,h12,h13,h14⟩ := inv_reachable hr
  obtain ⟨r1, r2, r3, r4, r5, r6, r7, r8, r9, r10, -, -⟩ := id hsim
  simp only [step, relG, Option.ite_none_right_eq_some, Option.some.injEq] at h
  obtain ⟨hc, h⟩ := h
  by_cases hz : s.gS - 1 = 0
  · simp only [hz, if_true] at h
    subst h
    exact stepSim_zero (w' := w) (by simp [obsOf, relObs, hz]) (sim_same_slots hsim rfl rfl (by sim_pend) (by sim_scalars))
  · simp only [hz, if_false] at h
    subst h
    exact stepSim_one (w' := w) hr' (by simp [obsOf, relObs, hz]) (feed_eD (by omega))
      (sim_same_slots hsim rfl rfl (by sim_pend) (by sim_scalars))

theorem sim_pDecG (hr : Reachable cfg s) (hsim : Sim s w t) (h : step s .pDecG = some s') : StepSim s w t .pDecG s' := by
  have hr' := Reachable.step _ hr h
  obtain ⟨h1,h2,h3,h4,h5,h6,h7,h8,h9,h10,h11,h11b,h12,h13,h14⟩ := inv_reachable hr
  obtain ⟨r1, r2, r3, r4, r5, r6, r7, r8, r9, r10, -, -⟩ := id hsim
  simp only [step, relG, Option.ite_none_right_eq_some, Option.some.injEq] at h
  obtain ⟨hc, h⟩ := h
  have hpf : pF s.pPc = 1 := by simp [hc, pF]
  by_cases hz : s.gS - 1 = 0
  · simp only [hz, if_true] at h
    subst h
    exact stepSim_zero (w' := w) (by simp [obsOf, relObs, hz]) (sim_same_slots hsim rfl rfl (by sim_pend) (by sim_scalars))
  · simp only [hz, if_false] at h
    subst h
    exact stepSim_one (w' := w) hr' (by simp [obsOf, relObs, hz]) (feed_eR (by omega))
      (sim_same_slots hsim rfl rfl (by sim_pend) (by sim_scalars))

end KeepAlive
