import Model.Timers
/-!
# C18 — timers and stopwatches report exactly the spans they were asked to measure

Theorems about `Model/Timers.lean` (model of `metrique/src/timers.rs` over a manually advanced time
source). All statements are for every operation sequence, of any length, with any clock advances.

* `c18_stopwatch_refines` — the refinement: closing the implementation model (exclusive → shared
  representation switch, heap of mutex cells, live borrowed/owned guards with `start`/`self_time`)
  reports exactly `total` of the history of the specification ("sum of kept spans").
* `c18_spec_total_sum` — what `total` is, declaratively: the sum of the kept spans since the last
  clear/overwrite (the overwriting span included), `none` if there is none.
* `c18_stop_returns_span`, `c18_single_cell`, `c18_expressible` — stop returns the guard's span and
  never panics; the representation switches at most once, `Stopwatch::start` stays `None`; which
  operations the implementation model accepts.
* `c18_timer`, `c18_timer_stop_idempotent` — first stop wins, repeated stops change nothing.
* `c18_timestamp`, `c18_timestamp_on_close`, `c18_epoch_units`, `c18_resolve_order`.
* `c18_override_restore`, `c18_guard_drop_restores_install_point`, `c18_bind_precedence`,
  `c18_runtime_override` — the time-source environment over time: installing and dropping
  thread-local overrides (`set_time_source` guards, `with_time_source` scopes, LIFO and out of order),
  the runtime-wide override, and what a default constructor is bound to.
-/
namespace Timers

/-! ## heap lemmas -/

theorem read_set {h : Heap} {c : Nat} {v : Option Nat} (hc : c < h.length) :
    Heap.read (h.set c v) c = v := by
  simp [Heap.read, List.getD_eq_getElem?_getD, hc]

theorem read_append_length (h : Heap) (d : Option Nat) :
    Heap.read (h ++ [d]) h.length = d := by
  simp [Heap.read, List.getD_eq_getElem?_getD]

/-! ## the value stored in a `MaybeGuardedDuration`, and where its cell is -/

/-- the logical content of the accumulated duration -/
def val : Rep → Heap → Option Nat
  | .exclusive d, _ => d
  | .shared c, h => Heap.read h c

/-- allocation discipline: an exclusive stopwatch has allocated nothing; a shared one owns cell 0 of a
one-cell heap -/
def Alloc : Rep → Heap → Prop
  | .exclusive _, h => h = []
  | .shared c, h => c = 0 ∧ h.length = 1

theorem val_add {r : Rep} {h : Heap} (t : Nat) (ha : Alloc r h) :
    val (r.add h t).1 (r.add h t).2 = some ((val r h).getD 0 + t) ∧ Alloc (r.add h t).1 (r.add h t).2 ∧
      (∀ c, r = .shared c → (r.add h t).1 = .shared c) := by
  cases r with
  | exclusive d => simp_all [Rep.add, val, Alloc]
  | shared c =>
    obtain ⟨rfl, hl⟩ := ha
    simp [Rep.add, val, Alloc, hl, read_set]

theorem val_take {r : Rep} {h : Heap} (ha : Alloc r h) :
    val (r.take h).2.1 (r.take h).2.2 = none ∧ Alloc (r.take h).2.1 (r.take h).2.2 ∧
      (∀ c, r = .shared c → (r.take h).2.1 = .shared c) := by
  cases r with
  | exclusive d => simp_all [Rep.take, val, Alloc]
  | shared c =>
    obtain ⟨rfl, hl⟩ := ha
    simp [Rep.take, val, Alloc, hl, read_set]

theorem val_sharedCloned {r : Rep} {h : Heap} (ha : Alloc r h) :
    let x := r.sharedCloned h
    x.2.1 = .shared x.1 ∧ val x.2.1 x.2.2 = val r h ∧ Alloc x.2.1 x.2.2 := by
  cases r with
  | exclusive d =>
    subst ha
    simp [Rep.sharedCloned, val, Alloc, Heap.read]
  | shared c => simp_all [Rep.sharedCloned, val, Alloc]

/-! ## guards between operations are always `{ start := some t, self_time := none }` -/

def fresh (t : Nat) : Guard := { start := some t, selfTime := none }

theorem drop_fresh (t now : Nat) (r : Rep) (h : Heap) :
    (fresh t).drop now r h = r.add h (now - t) := by
  simp [fresh, Guard.drop, Guard.stopRef]

theorem stop_fresh (t now : Nat) (r : Rep) (h : Heap) :
    (fresh t).stop now r h = (some (now - t), r.add h (now - t)) := by
  simp [fresh, Guard.stop, Guard.drop, Guard.stopRef]

theorem overwrite_fresh (t now : Nat) (r : Rep) (h : Heap) :
    (fresh t).overwrite now r h = (r.take h).2.1.add (r.take h).2.2 (now - t) := by
  simp [fresh, Guard.overwrite, Guard.drop, Guard.stopRef]

theorem discard_any (g : Guard) (now : Nat) (r : Rep) (h : Heap) :
    g.discard now r h = (r, h) := by
  simp [Guard.discard, Guard.drop, Guard.stopRef]

/-! ## the simulation relation -/

structure Inv (i : Impl) (sp : Spec) : Prop where
  now : i.now = sp.now
  start : i.start = none
  alloc : Alloc i.rep i.heap
  value : val i.rep i.heap = total sp.events
  borrowed : i.borrowed = sp.bStart.map fresh
  /-- every live owned guard points at the stopwatch's own cell, and the stopwatch is shared -/
  owned : ∀ k, (∀ t, sp.oStart k = some t → i.rep = .shared 0 ∧ i.owned k = some ⟨fresh t, 0⟩) ∧
    (sp.oStart k = none → i.owned k = none)

theorem inv_init : Inv Impl.init Spec.init := by
  constructor <;> simp [Impl.init, Spec.init, Alloc, val, total]

theorem Inv.close_eq {i : Impl} {sp : Spec} (h : Inv i sp) : i.close = sp.close := by
  have hv := h.value
  unfold Impl.close Spec.close
  rw [← hv, h.start]
  cases i.rep with
  | exclusive d => cases d <;> rfl
  | shared c => rfl

theorem endB_some {sp : Spec} {t : Nat} (ev : Nat → Ev) (h : sp.bStart = some t) :
    sp.endB ev = { sp with bStart := none, events := ev (sp.now - t) :: sp.events } := by
  simp [Spec.endB, h]

theorem endO_some {sp : Spec} {k t : Nat} (ev : Nat → Ev) (h : sp.oStart k = some t) :
    sp.endO k ev = { sp with oStart := (fun j => if j = k then none else sp.oStart j),
                             events := ev (sp.now - t) :: sp.events } := by
  simp [Spec.endO, h]

theorem Inv.update {i : Impl} {sp : Spec} (h : Inv i sp) {r' : Rep} {h' : Heap} {evs' : List Ev}
    {b' : Option Guard} {bs' : Option Nat}
    (ha : Alloc r' h') (hv : val r' h' = total evs') (hsh : i.rep = .shared 0 → r' = .shared 0)
    (hb : b' = bs'.map fresh) :
    Inv { i with rep := r', heap := h', borrowed := b' } { sp with bStart := bs', events := evs' } :=
  ⟨h.now, h.start, ha, hv, hb, fun k =>
    ⟨fun t ht => ⟨hsh ((h.owned k).1 t ht).1, ((h.owned k).1 t ht).2⟩, (h.owned k).2⟩⟩

theorem Inv.updateHeap {i : Impl} {sp : Spec} (h : Inv i sp) {h' : Heap} {evs' : List Ev}
    (ha : Alloc i.rep h') (hv : val i.rep h' = total evs') :
    Inv { i with heap := h' } { sp with events := evs' } :=
  ⟨h.now, h.start, ha, hv, h.borrowed, h.owned⟩

theorem Inv.setOwned_none {i : Impl} {sp : Spec} (h : Inv i sp) (k : Nat) :
    Inv (i.setOwned k none) { sp with oStart := fun j => if j = k then none else sp.oStart j } := by
  refine ⟨h.now, h.start, h.alloc, h.value, h.borrowed, fun j => ?_⟩
  by_cases hj : j = k
  · subst hj; simp [Impl.setOwned]
  · simpa [Impl.setOwned, hj] using h.owned j

theorem Inv.setOwned_some {i : Impl} {sp : Spec} (h : Inv i sp) (k t : Nat) (hr : i.rep = .shared 0) :
    Inv (i.setOwned k (some ⟨fresh t, 0⟩))
      { sp with oStart := fun j => if j = k then some t else sp.oStart j } := by
  refine ⟨h.now, h.start, h.alloc, h.value, h.borrowed, fun j => ?_⟩
  by_cases hj : j = k
  · subst hj; simpa [Impl.setOwned] using hr
  · simpa [Impl.setOwned, hj] using h.owned j

/-- adding a span to the accumulated duration = recording a kept span -/
theorem Inv.add_kept {i : Impl} {sp : Spec} (h : Inv i sp) (t : Nat) :
    let x := i.rep.add i.heap (i.now - t)
    Alloc x.1 x.2 ∧ val x.1 x.2 = total (.kept (sp.now - t) :: sp.events) ∧
      (i.rep = .shared 0 → x.1 = .shared 0) := by
  obtain ⟨h1, h2, h3⟩ := val_add (i.now - t) h.alloc
  refine ⟨h2, ?_, h3 0⟩
  rw [h1, h.value, h.now, total, Nat.add_comm]

/-- take, then add = recording an overwriting span -/
theorem Inv.take_add_overwrote {i : Impl} {sp : Spec} (h : Inv i sp) (t : Nat) :
    let y := i.rep.take i.heap
    let x := y.2.1.add y.2.2 (i.now - t)
    Alloc x.1 x.2 ∧ val x.1 x.2 = total (.overwrote (sp.now - t) :: sp.events) ∧
      (i.rep = .shared 0 → x.1 = .shared 0) := by
  obtain ⟨t1, t2, t3⟩ := val_take h.alloc
  obtain ⟨h1, h2, h3⟩ := val_add (i.now - t) t2
  refine ⟨h2, ?_, fun hr => h3 0 (t3 0 hr)⟩
  rw [h1, t1, h.now, total]; simp

/-- the heart of the refinement: one accepted operation preserves the relation -/
theorem inv_step {i i' : Impl} {sp : Spec} {op : Op} (h : Inv i sp) (hs : i.step op = some i') :
    Inv i' (sp.step op) := by
  have hb := h.borrowed
  cases op with
  | advance d =>
    simp only [Impl.step, Option.some.injEq] at hs
    subst hs
    exact ⟨by simp [Spec.step, h.now], h.start, h.alloc, h.value, hb, h.owned⟩
  | startB =>
    cases hbs : sp.bStart with
    | some t => simp [Impl.step, hb, hbs] at hs
    | none =>
      simp only [Impl.step, hb, hbs, Option.map_none, Option.some.injEq] at hs
      subst hs
      exact ⟨h.now, h.start, h.alloc, h.value, by simp [Spec.step, fresh, h.now], h.owned⟩
  | stopB =>
    cases hbs : sp.bStart with
    | none => simp [Impl.step, hb, hbs] at hs
    | some t =>
      simp only [Impl.step, hb, hbs, Option.map_some, stop_fresh, Option.some.injEq] at hs
      subst hs
      obtain ⟨a1, a2, a3⟩ := h.add_kept t
      simpa only [Spec.step, endB_some _ hbs] using h.update (bs' := none) (b' := none) a1 a2 a3 rfl
  | dropB u =>
    cases hbs : sp.bStart with
    | none => simp [Impl.step, hb, hbs] at hs
    | some t =>
      simp only [Impl.step, hb, hbs, Option.map_some, drop_fresh, Option.some.injEq] at hs
      subst hs
      obtain ⟨a1, a2, a3⟩ := h.add_kept t
      simpa only [Spec.step, endB_some _ hbs] using h.update (bs' := none) (b' := none) a1 a2 a3 rfl
  | discardB =>
    cases hbs : sp.bStart with
    | none => simp [Impl.step, hb, hbs] at hs
    | some t =>
      simp only [Impl.step, hb, hbs, Option.map_some, discard_any, Option.some.injEq] at hs
      subst hs
      simpa only [Spec.step, endB_some _ hbs] using
        h.update (bs' := none) (b' := none) (evs' := .discarded (sp.now - t) :: sp.events) h.alloc
          (by simpa [total] using h.value) id rfl
  | overwriteB =>
    cases hbs : sp.bStart with
    | none => simp [Impl.step, hb, hbs] at hs
    | some t =>
      simp only [Impl.step, hb, hbs, Option.map_some, overwrite_fresh, Option.some.injEq] at hs
      subst hs
      obtain ⟨a1, a2, a3⟩ := h.take_add_overwrote t
      simpa only [Spec.step, endB_some _ hbs] using h.update (bs' := none) (b' := none) a1 a2 a3 rfl
  | startO k =>
    cases hbs : sp.bStart with
    | some t => simp [Impl.step, hb, hbs] at hs
    | none =>
      cases hok : sp.oStart k with
      | some t => simp [Impl.step, hb, hbs, ((h.owned k).1 t hok).2] at hs
      | none =>
        simp only [Impl.step, hb, hbs, Option.map_none, (h.owned k).2 hok, Option.some.injEq] at hs
        subst hs
        obtain ⟨c1, c2, c3⟩ := val_sharedCloned h.alloc
        have hc0 : (i.rep.sharedCloned i.heap).1 = 0 := by
          have := c3; rw [c1] at this; exact this.1
        rw [hc0] at c1
        have h1 := h.update (bs' := none) (b' := none) (evs' := sp.events) c3 (c2.trans h.value)
          (fun _ => c1) rfl
        have h2 := h1.setOwned_some k sp.now c1
        simpa only [Spec.step, hc0, fresh, h.now, hbs] using h2
  | stopO k =>
    cases hok : sp.oStart k with
    | none => simp [Impl.step, (h.owned k).2 hok] at hs
    | some t =>
      obtain ⟨hrep, hog⟩ := (h.owned k).1 t hok
      simp only [Impl.step, hog, Option.map_some, stop_fresh, Option.some.injEq] at hs
      subst hs
      obtain ⟨a1, a2, _⟩ := h.add_kept t
      rw [hrep] at a1 a2
      have h1 := (h.updateHeap (h' := ((Rep.shared 0).add i.heap (i.now - t)).2)
        (evs' := .kept (sp.now - t) :: sp.events) (by rw [hrep]; exact a1) (by rw [hrep]; exact a2)).setOwned_none k
      simpa only [Spec.step, endO_some _ hok] using h1
  | dropO k u =>
    cases hok : sp.oStart k with
    | none => simp [Impl.step, (h.owned k).2 hok] at hs
    | some t =>
      obtain ⟨hrep, hog⟩ := (h.owned k).1 t hok
      simp only [Impl.step, hog, Option.map_some, drop_fresh, Option.some.injEq] at hs
      subst hs
      obtain ⟨a1, a2, _⟩ := h.add_kept t
      rw [hrep] at a1 a2
      have h1 := (h.updateHeap (h' := ((Rep.shared 0).add i.heap (i.now - t)).2)
        (evs' := .kept (sp.now - t) :: sp.events) (by rw [hrep]; exact a1) (by rw [hrep]; exact a2)).setOwned_none k
      simpa only [Spec.step, endO_some _ hok] using h1
  | discardO k =>
    cases hok : sp.oStart k with
    | none => simp [Impl.step, (h.owned k).2 hok] at hs
    | some t =>
      obtain ⟨hrep, hog⟩ := (h.owned k).1 t hok
      simp only [Impl.step, hog, Option.map_some, discard_any, Option.some.injEq] at hs
      subst hs
      have h1 := (h.updateHeap (h' := i.heap) (evs' := .discarded (sp.now - t) :: sp.events) h.alloc
        (by simpa [total] using h.value)).setOwned_none k
      simpa only [Spec.step, endO_some _ hok] using h1
  | overwriteO k =>
    cases hok : sp.oStart k with
    | none => simp [Impl.step, (h.owned k).2 hok] at hs
    | some t =>
      obtain ⟨hrep, hog⟩ := (h.owned k).1 t hok
      simp only [Impl.step, hog, Option.map_some, overwrite_fresh, Option.some.injEq] at hs
      subst hs
      obtain ⟨a1, a2, _⟩ := h.take_add_overwrote t
      rw [hrep] at a1 a2
      have h1 := (h.updateHeap
        (h' := (((Rep.shared 0).take i.heap).2.1.add ((Rep.shared 0).take i.heap).2.2 (i.now - t)).2)
        (evs' := .overwrote (sp.now - t) :: sp.events) (by rw [hrep]; exact a1) (by rw [hrep]; exact a2)).setOwned_none k
      simpa only [Spec.step, endO_some _ hok] using h1
  | clear =>
    cases hbs : sp.bStart with
    | some t => simp [Impl.step, hb, hbs] at hs
    | none =>
      simp only [Impl.step, hb, hbs, Option.map_none, Option.some.injEq] at hs
      subst hs
      obtain ⟨t1, t2, t3⟩ := val_take h.alloc
      exact ⟨h.now, rfl, t2, by simpa [Spec.step, total] using t1, by simp [Spec.step, hbs],
        fun k => ⟨fun t' ht' => ⟨t3 0 ((h.owned k).1 t' ht').1, ((h.owned k).1 t' ht').2⟩, (h.owned k).2⟩⟩

theorem inv_run {ops : List Op} {i i' : Impl} {sp : Spec} (h : Inv i sp) (hr : i.run ops = some i') :
    Inv i' (sp.run ops) := by
  induction ops generalizing i sp with
  | nil => simp only [Impl.run, Option.some.injEq] at hr; subst hr; simpa [Spec.run] using h
  | cons op ops ih =>
    simp only [Impl.run] at hr
    cases hs : i.step op with
    | none => simp [hs] at hr
    | some i1 =>
      simp only [hs, Option.bind_some] at hr
      simpa [Spec.run] using ih (inv_step h hs) hr

/-! ## the property theorems: stopwatch -/

/-- **Refinement.** For every operation sequence the implementation model accepts (every sequence
expressible in Rust; a guard drop may be a normal one or one by a contained unwinding panic — the
`unwinding` flag of `dropB`/`dropO`, ignored by the model, see `c18_unwinding_drop_is_a_drop`), of any length, with any clock advances, any mix of borrowed and owned guards and
any number of concurrently live owned guards: closing the stopwatch reports exactly the total of the
completed, non-discarded guard spans since the last clear/overwrite, and `none` if there is none. -/
theorem c18_stopwatch_refines (ops : List Op) (s : Impl) (h : Impl.init.run ops = some s) :
    s.close = (Spec.init.run ops).close :=
  (inv_run inv_init h).close_eq

/-! ### a guard dropped by an unwinding panic is a dropped guard -/

/-- forget how a guard came to be dropped -/
def Op.normalDrop : Op → Op
  | .dropB _ => .dropB false
  | .dropO k _ => .dropO k false
  | op => op

theorem step_normalDrop (s : Impl) (op : Op) : s.step op.normalDrop = s.step op := by
  cases op <;> rfl

theorem spec_step_normalDrop (sp : Spec) (op : Op) : sp.step op.normalDrop = sp.step op := by
  cases op <;> rfl

theorem impl_run_normalDrop (ops : List Op) :
    ∀ (s : Impl), s.run ops = s.run (ops.map Op.normalDrop) := by
  induction ops with
  | nil => intro s; rfl
  | cons op ops ih =>
    intro s
    simp only [List.map_cons, Impl.run, step_normalDrop]
    cases s.step op with
    | none => rfl
    | some s' => simpa using ih s'

theorem spec_run_normalDrop (ops : List Op) :
    ∀ (sp : Spec), sp.run ops = sp.run (ops.map Op.normalDrop) := by
  induction ops with
  | nil => intro sp; rfl
  | cons op ops ih =>
    intro sp
    simp only [List.map_cons, Spec.run, List.foldl_cons, spec_step_normalDrop]
    exact ih (sp.step op)

/-- **Unwinding is irrelevant (part of the refinement).** `c18_stopwatch_refines` quantifies over
sequences in which any guard drop may be one caused by a contained unwinding panic (`catch_unwind` on
the same thread, a thread that panics while owning the guard): both the implementation model — a
transcription of `Drop`, which does not consult `std::thread::panicking()` — and the specification treat
it as a drop. Hence for every sequence: the implementation model accepts it and reaches the very same
state as on the sequence with every drop made a normal one, and its report is the specification's
total in which the spans of guards dropped by unwinding count as completed, kept spans. -/
theorem c18_unwinding_drop_is_a_drop (ops : List Op) :
    Impl.init.run ops = Impl.init.run (ops.map Op.normalDrop) ∧
    Spec.init.run ops = Spec.init.run (ops.map Op.normalDrop) ∧
    ∀ s, Impl.init.run ops = some s → s.close = (Spec.init.run (ops.map Op.normalDrop)).close := by
  have h1 := impl_run_normalDrop ops
  have h2 := spec_run_normalDrop ops
  refine ⟨h1 _, h2 _, fun s hs => ?_⟩
  rw [← h2]
  exact c18_stopwatch_refines ops s hs

/-- A variant of the implementation model in which `Drop` returns early while the thread is
panicking (`if std::thread::panicking() { return; }`): the guard goes away, its span is never added. -/
def Impl.stepSkipUnwinding (s : Impl) : Op → Option Impl
  | .dropB true => s.borrowed.map fun _ => { s with borrowed := none }
  | .dropO k true => (s.owned k).map fun _ => s.setOwned k none
  | op => s.step op

def Impl.runSkipUnwinding (s : Impl) : List Op → Option Impl
  | [] => some s
  | op :: ops => (s.stepSkipUnwinding op).bind fun s' => s'.runSkipUnwinding ops

/-- **Decided witness**: that variant violates the refinement — an owned guard that measured 5 and is
dropped by unwinding leaves the report at `none` (specification: `some 5`); after an earlier kept
span of 2 the total is too small (2 instead of 7); same for a borrowed guard. -/
example :
    (Impl.init.runSkipUnwinding [.startO 0, .advance 5, .dropO 0 true]).map Impl.close = some none ∧
    (Spec.init.run [.startO 0, .advance 5, .dropO 0 true]).close = some 5 ∧
    (Impl.init.run [.startO 0, .advance 5, .dropO 0 true]).map Impl.close = some (some 5) ∧
    (Impl.init.runSkipUnwinding [.startB, .advance 2, .stopB, .startO 1, .advance 5, .dropO 1 true]).map Impl.close
      = some (some 2) ∧
    (Spec.init.run [.startB, .advance 2, .stopB, .startO 1, .advance 5, .dropO 1 true]).close = some 7 ∧
    (Impl.init.runSkipUnwinding [.startB, .advance 4, .dropB true]).map Impl.close = some none ∧
    (Spec.init.run [.startB, .advance 4, .dropB true]).close = some 4 := by
  decide

/-- the spans that count: stopped/dropped guards and overwriting guards -/
def keptSpans : List Ev → List Nat
  | [] => []
  | .kept d :: es => d :: keptSpans es
  | .overwrote d :: es => d :: keptSpans es
  | _ :: es => keptSpans es

def Ev.isReset : Ev → Bool
  | .cleared | .overwrote _ => true
  | _ => false

def sumOrNone (l : List Nat) : Option Nat := if l = [] then none else some l.sum

theorem total_no_reset (recent : List Ev) (h : ∀ e ∈ recent, e.isReset = false) :
    total recent = sumOrNone (keptSpans recent) := by
  induction recent with
  | nil => rfl
  | cons e es ih =>
    have ih := ih fun e he => h e (List.mem_cons_of_mem _ he)
    cases e with
    | kept d =>
      simp only [total, keptSpans, ih, sumOrNone]
      split <;> simp_all
    | discarded d => simpa [total, keptSpans] using ih
    | cleared => simpa [Ev.isReset] using h .cleared
    | overwrote d => simpa [Ev.isReset] using h (.overwrote d)

/-- **What the specification says, declaratively** (history newest first, `recent` = the events after
the last clear/overwrite): with no earlier reset, or after a clear, the report is the sum of the kept
spans of `recent`, absent if there is none; after an overwrite by a guard that measured `d`, it is `d`
plus the kept spans since. Discarded spans never count; nothing before the reset counts. -/
theorem c18_spec_total_sum (recent older : List Ev) (h : ∀ e ∈ recent, e.isReset = false) :
    total recent = sumOrNone (keptSpans recent) ∧
    total (recent ++ .cleared :: older) = sumOrNone (keptSpans recent) ∧
    ∀ d, total (recent ++ .overwrote d :: older) = some ((keptSpans recent).sum + d) := by
  refine ⟨total_no_reset recent h, ?_, ?_⟩
  · induction recent with
    | nil => rfl
    | cons e es ih =>
      have ih := ih fun e he => h e (List.mem_cons_of_mem _ he)
      cases e with
      | kept d =>
        simp only [List.cons_append, total, keptSpans, ih, sumOrNone]
        split <;> simp_all
      | discarded d => simpa [total, keptSpans] using ih
      | cleared => simpa [Ev.isReset] using h .cleared
      | overwrote d => simpa [Ev.isReset] using h (.overwrote d)
  · intro d
    induction recent with
    | nil => simp [total, keptSpans]
    | cons e es ih =>
      have ih := ih fun e he => h e (List.mem_cons_of_mem _ he)
      cases e with
      | kept d' => simp [total, keptSpans, ih]; omega
      | discarded d' => simpa [total, keptSpans] using ih
      | cleared => simpa [Ev.isReset] using h .cleared
      | overwrote d' => simpa [Ev.isReset] using h (.overwrote d')

/-- the start time of the guard an operation stops, per the specification's bookkeeping -/
def Spec.stoppedStart (sp : Spec) : Op → Option Nat
  | .stopB => sp.bStart
  | .stopO k => sp.oStart k
  | _ => none

/-- **`stop()` returns the guard's own span and never panics**: after any accepted prefix, a stop
operation on a live guard returns `now - (the time that guard was started)`; the `unwrap` in `stop`
never sees `None`. -/
theorem c18_stop_returns_span (pre : List Op) (s : Impl) (op : Op) (h : Impl.init.run pre = some s)
    (r : Option Nat) (hr : s.ret op = some r) :
    ∃ t, (Spec.init.run pre).stoppedStart op = some t ∧ r = some (s.now - t) := by
  have inv := inv_run inv_init h
  cases op <;> simp only [Impl.ret, reduceCtorEq] at hr
  case stopB =>
    cases hbs : (Spec.init.run pre).bStart with
    | none => simp [inv.borrowed, hbs] at hr
    | some t =>
      simp only [inv.borrowed, hbs, Option.map_some, stop_fresh, Option.some.injEq] at hr
      exact ⟨t, by simp [Spec.stoppedStart, hbs], hr.symm⟩
  case stopO k =>
    cases hok : (Spec.init.run pre).oStart k with
    | none => simp [(inv.owned k).2 hok] at hr
    | some t =>
      simp only [((inv.owned k).1 t hok).2, Option.map_some, stop_fresh, Option.some.injEq] at hr
      exact ⟨t, by simp [Spec.stoppedStart, hok], hr.symm⟩

/-- **One cell, one switch.** In every reachable state `Stopwatch::start` is `None` (the third arm of
`close` never reports an elapsed time), an exclusive stopwatch has allocated no cell, a shared one
owns the single cell every live owned guard points at: the representation switches at most once and
no guard can write anywhere else. -/
theorem c18_single_cell (ops : List Op) (s : Impl) (h : Impl.init.run ops = some s) :
    s.start = none ∧ s.heap.length ≤ 1 ∧
    (∀ k og, s.owned k = some og → s.rep = .shared og.cell ∧ og.cell < s.heap.length) := by
  have inv := inv_run inv_init h
  refine ⟨inv.start, ?_, ?_⟩
  · have := inv.alloc
    cases hr : s.rep <;> simp_all [Alloc]
  · intro k og hk
    cases hok : (Spec.init.run ops).oStart k with
    | none => simp [(inv.owned k).2 hok] at hk
    | some t =>
      obtain ⟨h1, h2⟩ := (inv.owned k).1 t hok
      rw [h2] at hk
      cases hk
      have := inv.alloc
      simp_all [Alloc]

/-- which operations the specification's bookkeeping says are expressible -/
def Spec.expressible (sp : Spec) : Op → Bool
  | .advance _ => true
  | .startB | .clear => sp.bStart.isNone
  | .stopB | .dropB _ | .discardB | .overwriteB => sp.bStart.isSome
  | .startO k => sp.bStart.isNone && (sp.oStart k).isNone
  | .stopO k | .dropO k _ | .discardO k | .overwriteO k => (sp.oStart k).isSome

/-- **Exactly the expressible operations are accepted**: after any accepted prefix the implementation
model accepts an operation iff no `TimerGuard` borrows the stopwatch when it needs `&mut` access, the
guard it names is live, and an owned slot is free — so the hypothesis of `c18_stopwatch_refines` is
the Rust borrow discipline and nothing more. -/
theorem c18_expressible (pre : List Op) (s : Impl) (op : Op) (h : Impl.init.run pre = some s) :
    (s.step op).isSome = (Spec.init.run pre).expressible op := by
  have inv := inv_run inv_init h
  have hb := inv.borrowed
  cases op <;> simp only [Impl.step, Spec.expressible]
  case advance => rfl
  case startB | clear =>
    cases hbs : (Spec.init.run pre).bStart <;> simp [hb, hbs]
  case stopB | dropB | discardB | overwriteB =>
    cases hbs : (Spec.init.run pre).bStart <;> simp [hb, hbs]
  case startO k =>
    cases hbs : (Spec.init.run pre).bStart <;> cases hok : (Spec.init.run pre).oStart k <;>
      simp [hb, hbs, (inv.owned k).2, hok]
    all_goals simp [((inv.owned k).1 _ hok).2]
  case stopO k | discardO k | overwriteO k =>
    cases hok : (Spec.init.run pre).oStart k
    · simp [(inv.owned k).2 hok]
    · simp [((inv.owned k).1 _ hok).2]
  case dropO k u =>
    cases hok : (Spec.init.run pre).oStart k
    · simp [(inv.owned k).2 hok]
    · simp [((inv.owned k).1 _ hok).2]

/-! ### finishing owned guards "at the same time": the order does not matter -/

/-- two specification states that no later observation can tell apart -/
def SpecEq (a b : Spec) : Prop :=
  a.now = b.now ∧ a.bStart = b.bStart ∧ a.oStart = b.oStart ∧
    ∀ ys, total (ys ++ a.events) = total (ys ++ b.events)

theorem total_cons_congr {ea eb : List Ev} (h : ∀ ys, total (ys ++ ea) = total (ys ++ eb)) (e : Ev)
    (ys : List Ev) : total (ys ++ e :: ea) = total (ys ++ e :: eb) := by
  have := h (ys ++ [e])
  simpa using this

theorem SpecEq.step {a b : Spec} (h : SpecEq a b) (op : Op) : SpecEq (a.step op) (b.step op) := by
  obtain ⟨an, ab, ao, ae⟩ := a
  obtain ⟨bn, bb, bo, be⟩ := b
  simp only [SpecEq] at h
  obtain ⟨rfl, rfl, rfl, h4⟩ := h
  cases op <;> simp only [Spec.step, Spec.endB, Spec.endO]
  case advance d => exact ⟨rfl, rfl, rfl, h4⟩
  case startB => exact ⟨rfl, rfl, rfl, h4⟩
  case startO k => exact ⟨rfl, rfl, rfl, h4⟩
  case clear => exact ⟨rfl, rfl, rfl, total_cons_congr h4 _⟩
  case stopB | dropB | discardB | overwriteB =>
    cases ab
    · exact ⟨rfl, rfl, rfl, h4⟩
    · exact ⟨rfl, rfl, rfl, total_cons_congr h4 _⟩
  case stopO k | discardO k | overwriteO k =>
    cases ao k
    · exact ⟨rfl, rfl, rfl, h4⟩
    · exact ⟨rfl, rfl, rfl, total_cons_congr h4 _⟩
  case dropO k u =>
    cases ao k
    · exact ⟨rfl, rfl, rfl, h4⟩
    · exact ⟨rfl, rfl, rfl, total_cons_congr h4 _⟩

theorem SpecEq.run {a b : Spec} (h : SpecEq a b) (ops : List Op) : SpecEq (a.run ops) (b.run ops) := by
  induction ops generalizing a b with
  | nil => exact h
  | cons op ops ih => exact ih (h.step op)

/-- ends of a guard that only add (or drop) its own span: stop, drop, discard — not overwrite -/
def Ev.additive : (Nat → Ev) → Prop := fun ev => ev = Ev.kept ∨ ev = Ev.discarded

theorem total_swap (e1 e2 : Nat → Ev) (h1 : Ev.additive e1) (h2 : Ev.additive e2) (d1 d2 : Nat)
    (es ys : List Ev) : total (ys ++ e1 d1 :: e2 d2 :: es) = total (ys ++ e2 d2 :: e1 d1 :: es) := by
  induction ys with
  | nil =>
    rcases h1 with rfl | rfl <;> rcases h2 with rfl | rfl <;> simp [total] <;> omega
  | cons y ys ih => cases y <;> simp [total, ih]

theorem endO_swap (sp : Spec) (k j : Nat) (hkj : k ≠ j) (e1 e2 : Nat → Ev) (h1 : Ev.additive e1)
    (h2 : Ev.additive e2) : SpecEq ((sp.endO k e1).endO j e2) ((sp.endO j e2).endO k e1) := by
  have hjk : j ≠ k := fun h => hkj h.symm
  cases hk : sp.oStart k <;> cases hj : sp.oStart j <;>
    simp [Spec.endO, hk, hj, hkj, hjk, SpecEq]
  refine ⟨?_, fun ys => total_swap e2 e1 h2 h1 _ _ _ ys⟩
  funext x
  by_cases hxk : x = k <;> by_cases hxj : x = j <;> simp [hxk, hxj]

/-- the operations that finish the owned guard in slot `k` by adding (or dropping) its own span -/
def Op.finishes (k : Nat) (op : Op) : Prop :=
  op = .stopO k ∨ (∃ u, op = .dropO k u) ∨ op = .discardO k

/-- **Finishing several owned guards without the clock moving in between — e.g. on different threads
at once, each under the mutex — gives the same reports in either order**, now and after any further
operations: stop/drop/discard of guards in different slots commute (overwrite does not: it resets). -/
theorem c18_finish_order_irrelevant (pre post : List Op) (k j : Nat) (hkj : k ≠ j) (a b : Op)
    (ha : a.finishes k) (hb : b.finishes j) (s1 s2 : Impl)
    (h1 : Impl.init.run (pre ++ a :: b :: post) = some s1)
    (h2 : Impl.init.run (pre ++ b :: a :: post) = some s2) : s1.close = s2.close := by
  rw [c18_stopwatch_refines _ _ h1, c18_stopwatch_refines _ _ h2]
  have key : SpecEq ((Spec.init.run pre).step a |>.step b) ((Spec.init.run pre).step b |>.step a) := by
    rcases ha with rfl | ⟨_, rfl⟩ | rfl <;> rcases hb with rfl | ⟨_, rfl⟩ | rfl <;>
      exact endO_swap _ k j hkj _ _ (by simp [Ev.additive]) (by simp [Ev.additive])
  have := (key.run post).2.2.2 []
  simpa [Spec.run, Spec.close] using this

/-! ## the property theorems: timer -/

theorem timer_run_stopped (ops : List TOp) (s : TState) (d : Nat) (h : s.timer.duration = some d) :
    (s.run ops).timer.duration = some d := by
  induction ops generalizing s with
  | nil => simpa [TState.run] using h
  | cons op ops ih =>
    simp only [TState.run, List.foldl_cons]
    apply ih
    cases op <;> simp [TState.step, Timer.stop, h]

theorem timer_run_running (ops : List TOp) (s : TState) (h : s.timer.duration = none)
    (hs : s.timer.start ≤ s.now) :
    (s.run ops).close = (s.now - s.timer.start) + timerSpec ops := by
  induction ops generalizing s with
  | nil => simp [TState.run, TState.close, Timer.close, h, timerSpec]
  | cons op ops ih =>
    cases op with
    | advance d =>
      have := ih { s with now := s.now + d } h (by simp; omega)
      simp only [TState.run] at this
      simp only [TState.run, List.foldl_cons, TState.step, this, timerSpec]
      omega
    | stop =>
      have hd : (s.step .stop).timer.duration = some (s.now - s.timer.start) := by
        simp [TState.step, Timer.stop, h]
      have := timer_run_stopped ops (s.step .stop) _ hd
      simp only [TState.run] at this
      simp [TState.run, TState.close, Timer.close, this, timerSpec]

/-- **Timer**: for every sequence of clock advances and stops after creation, closing the timer
reports the time from its creation to its first stop, or to the close if it was never stopped. -/
theorem c18_timer (n : Nat) (ops : List TOp) : ((TState.init n).run ops).close = timerSpec ops := by
  have := timer_run_running ops (TState.init n) rfl (Nat.le_refl _)
  simpa [TState.init] using this

/-- **Repeated stops change nothing, and every stop returns the reported value**: the value returned by
any `stop()` — first or repeated — equals what the timer reports when closed at any later time
(whatever advances and further stops come in between). -/
theorem c18_timer_stop_idempotent (n : Nat) (pre post : List TOp) :
    (((TState.init n).run pre).timer.stop ((TState.init n).run pre).now).1
      = ((TState.init n).run (pre ++ .stop :: post)).close := by
  simp only [TState.run, List.foldl_append, List.foldl_cons]
  generalize List.foldl TState.step (TState.init n) pre = s
  cases hd : s.timer.duration with
  | some d =>
    have := timer_run_stopped post (s.step .stop) d (by simp [TState.step, Timer.stop, hd])
    simp only [TState.run] at this
    simp [TState.close, Timer.close, this, Timer.stop, hd]
  | none =>
    have := timer_run_stopped post (s.step .stop) (s.now - s.timer.start)
      (by simp [TState.step, Timer.stop, hd])
    simp only [TState.run] at this
    simp [TState.close, Timer.close, this, Timer.stop, hd]

/-! ## the property theorems: timestamps, units, time-source resolution -/

/-- **`Timestamp`**: after any sequence of wall-clock changes and creations, every `Timestamp`
reports the wall clock of the injected source at *its* creation (clamped at the epoch), whatever
happened to the clock afterwards; earlier timestamps are unchanged. -/
theorem c18_timestamp (s : SState) (ops : List SOp) :
    (s.run ops).values = s.values ++ stampSpec s.wall ops := by
  induction ops generalizing s with
  | nil => simp [SState.run, stampSpec]
  | cons op ops ih =>
    simp only [SState.run, List.foldl_cons] at ih ⊢
    rw [ih]
    cases op with
    | setWall w => simp [SState.step, stampSpec, SState.values]
    | newStamp => simp [SState.step, stampSpec, SState.values]
    | newOnClose => simp [SState.step, stampSpec, SState.values]
    | closeOnClose =>
      cases hp : s.pending <;> simp [SState.step, stampSpec, SState.values, hp]

/-- **`TimestampOnClose`** reports the wall clock at the moment it is closed (clamped at the epoch),
not at its creation. -/
theorem c18_timestamp_on_close (s : SState) (ops : List SOp) :
    (s.run ops).closed = s.closed ++ onCloseSpec s.wall s.pending ops := by
  induction ops generalizing s with
  | nil => simp [SState.run, onCloseSpec]
  | cons op ops ih =>
    simp only [SState.run, List.foldl_cons] at ih ⊢
    rw [ih]
    cases op with
    | setWall w => simp [SState.step, onCloseSpec]
    | newStamp => simp [SState.step, onCloseSpec]
    | newOnClose => simp [SState.step, onCloseSpec]
    | closeOnClose =>
      cases hp : s.pending <;> simp [SState.step, onCloseSpec, hp]

/-- **Epoch units**: `EpochMicros` prints the whole microseconds of the duration since the epoch;
`EpochSeconds` / `EpochMillis` are computed from the exact decomposition `ns = secs·10⁹ + nanos`
(the `f64` arithmetic on these two integers is an executable twin compared bit-for-bit with the
code); a wall clock before the epoch reports 0 and one after it reports itself. -/
theorem c18_epoch_units (ns : Nat) (w : Int) :
    (epochMicros ns * 1000 ≤ ns ∧ ns < epochMicros ns * 1000 + 1000) ∧
    (ns = secsPart ns * 1000000000 + nanosPart ns ∧ nanosPart ns < 1000000000) ∧
    (w ≤ 0 → sinceEpoch w = 0) ∧ (0 ≤ w → (sinceEpoch w : Int) = w) := by
  refine ⟨?_, ?_, ?_, ?_⟩
  · unfold epochMicros; omega
  · unfold secsPart nanosPart; omega
  · intro h; unfold sinceEpoch; omega
  · intro h; unfold sinceEpoch; omega

/-- **Time source resolution order** of `get_time_source`: explicit argument, then thread-local
override, then tokio runtime override, then the system clock. -/
theorem c18_resolve_order (e t r : Bool) :
    (e = true → resolve e t r = .explicit) ∧
    (e = false → t = true → resolve e t r = .threadLocal) ∧
    (e = false → t = false → r = true → resolve e t r = .runtime) ∧
    (e = false → t = false → r = false → resolve e t r = .system) := by
  cases e <;> cases t <;> cases r <;> simp [resolve]

/-! ## the time-source environment: installing and dropping overrides -/

theorem Env.run_append (e : Env) (a b : List EOp) :
    e.run (a ++ b) = (e.run a).bind fun e' => e'.run b := by
  induction a generalizing e with
  | nil => simp [Env.run]
  | cons op a ih =>
    simp only [List.cons_append, Env.run]
    cases e.step op with
    | none => simp
    | some e1 => simpa using ih e1

/-- Well-bracketed sequences: matched `set_time_source` / guard-drop pairs (LIFO), `with_time_source`
scopes, constructions in between — arbitrarily nested. -/
inductive Balanced : List EOp → Prop
  | nil : Balanced []
  | construct (x : Option Nat) {l : List EOp} : Balanced l → Balanced (.construct x :: l)
  | guard (g s : Nat) {mid rest : List EOp} : Balanced mid → Balanced rest →
      Balanced (.install g s :: (mid ++ .dropGuard g :: rest))
  | scope (s : Nat) {mid rest : List EOp} : Balanced mid → Balanced rest →
      Balanced (.scopeBegin s :: (mid ++ .scopeEnd :: rest))

/-- a well-bracketed sequence leaves the whole environment as it found it -/
theorem balanced_restores {ops : List EOp} (hb : Balanced ops) :
    ∀ e e' : Env, e.run ops = some e' → e' = e := by
  induction hb with
  | nil => intro e e' h; simpa [Env.run] using h.symm
  | construct x _ ih => intro e e' h; exact ih e e' (by simpa [Env.run, Env.step] using h)
  | @guard g s mid rest _ _ ihm ihr =>
    intro e e' h
    cases hg : e.guards g with
    | some p => simp [Env.run, Env.step, hg] at h
    | none =>
      cases hst : e.step (.install g s) with
      | none => simp [Env.step, hg] at hst
      | some e1 =>
        rw [Env.run, hst, Option.bind_some, Env.run_append] at h
        cases hm : e1.run mid with
        | none => rw [hm] at h; cases h
        | some e2 =>
          have := ihm _ _ hm
          subst this
          rw [hm, Option.bind_some, Env.run] at h
          simp only [Env.step, hg, Option.some.injEq] at hst
          subst hst
          simp only [Env.step, if_true, Option.bind_some] at h
          refine (ihr _ _ h).trans ?_
          obtain ⟨t, r, gs, sc, rg⟩ := e
          simp only [Env.mk.injEq, true_and, and_true]
          funext j
          by_cases hj : j = g
          · subst hj; simpa using hg.symm
          · simp [hj]
  | @scope s mid rest _ _ ihm ihr =>
    intro e e' h
    rw [Env.run] at h
    simp only [Env.step, Option.bind_some, Env.run_append] at h
    cases hm : Env.run { e with thread := some s, scopes := e.thread :: e.scopes } mid with
    | none => rw [hm] at h; cases h
    | some e2 =>
      have := ihm _ _ hm
      subst this
      rw [hm, Option.bind_some, Env.run] at h
      simp only [Env.step, Option.bind_some] at h
      exact ihr _ _ h

/-- **Dropping an override restores the previous one (LIFO nesting).** For every sequence of
installs, guard drops, `with_time_source` scopes and constructions, erasing a well-bracketed part
(matched install/drop pairs and scopes, nested to any depth) changes nothing afterwards: the
environment after `pre ++ mid ++ post` is the environment after `pre ++ post`, so every later default
constructor resolves to the same source — in particular the outer injected source is in effect again
after an inner override ends. -/
theorem c18_override_restore (pre mid post : List EOp) (hb : Balanced mid) (e e1 : Env)
    (h : e.run (pre ++ mid ++ post) = some e1) :
    e.run (pre ++ post) = some e1 ∧
    ∀ e0, e.run pre = some e0 → e.run (pre ++ mid) = some e0 := by
  rw [List.append_assoc, Env.run_append] at h
  cases hp : e.run pre with
  | none => simp [hp] at h
  | some e0 =>
    simp only [hp, Option.bind_some, Env.run_append] at h
    cases hm : e0.run mid with
    | none => simp [hm] at h
    | some e0' =>
      have := balanced_restores hb _ _ hm
      subst this
      simp only [hm, Option.bind_some] at h
      refine ⟨by simp [Env.run_append, hp, h], fun e0'' h0 => ?_⟩
      cases h0
      simp [Env.run_append, hp, hm]

theorem guard_kept {mid : List EOp} {g : Nat} (hm : ∀ op ∈ mid, op ≠ .dropGuard g) :
    ∀ (e e' : Env) (p : Option Nat), e.guards g = some p → e.run mid = some e' → e'.guards g = some p := by
  induction mid with
  | nil => intro e e' p hg h; simp only [Env.run, Option.some.injEq] at h; subst h; exact hg
  | cons op mid ih =>
    intro e e' p hg h
    simp only [Env.run] at h
    cases hs : e.step op with
    | none => simp [hs] at h
    | some e1 =>
      simp only [hs, Option.bind_some] at h
      refine ih (fun o ho => hm o (List.mem_cons_of_mem _ ho)) e1 e' p ?_ h
      have hne := hm op (List.mem_cons_self ..)
      cases op with
      | install g' s =>
        cases hg' : e.guards g' with
        | some q => simp [Env.step, hg'] at hs
        | none =>
          simp only [Env.step, hg', Option.some.injEq] at hs
          subst hs
          have : g ≠ g' := fun h => by subst h; simp [hg] at hg'
          simp [this, hg]
      | dropGuard g' =>
        cases hg' : e.guards g' with
        | none => simp [Env.step, hg'] at hs
        | some q =>
          simp only [Env.step, hg', Option.some.injEq] at hs
          subst hs
          have : g ≠ g' := fun h => hne (by rw [h])
          simp [this, hg]
      | scopeBegin s => simp only [Env.step, Option.some.injEq] at hs; subst hs; exact hg
      | scopeEnd =>
        cases hsc : e.scopes with
        | nil => simp [Env.step, hsc] at hs
        | cons q r => simp only [Env.step, hsc, Option.some.injEq] at hs; subst hs; exact hg
      | installRt s =>
        cases hr : e.runtime with
        | some q => simp only [Env.step, hr, Option.some.injEq] at hs; subst hs; exact hg
        | none =>
          cases hrg : e.rtGuard <;> simp [Env.step, hr, hrg] at hs
          subst hs; exact hg
      | dropRt =>
        cases hrg : e.rtGuard <;> simp [Env.step, hrg] at hs
        subst hs; exact hg
      | construct x => simp only [Env.step, Option.some.injEq] at hs; subst hs; exact hg

/-- **What the code guarantees in any order**: whenever a guard is dropped — in LIFO order or not,
whatever was installed, dropped or scoped in between — the thread-local override becomes what it was
just before that guard's `set_time_source`. -/
theorem c18_guard_drop_restores_install_point (e e1 e2 e3 : Env) (g s : Nat) (mid : List EOp)
    (h1 : e.step (.install g s) = some e1) (h2 : e1.run mid = some e2)
    (hm : ∀ op ∈ mid, op ≠ .dropGuard g) (h3 : e2.step (.dropGuard g) = some e3) :
    e3.thread = e.thread := by
  have hg1 : e1.guards g = some e.thread := by
    cases hg : e.guards g with
    | some q => simp [Env.step, hg] at h1
    | none => simp only [Env.step, hg, Option.some.injEq] at h1; subst h1; simp
  have hg2 := guard_kept hm e1 e2 _ hg1 h2
  simp only [Env.step, hg2, Option.some.injEq] at h3
  subst h3; rfl

/-- **Precedence in an environment**: a constructor given an explicit source is bound to it; a
default constructor is bound to the current thread-local override, else to the runtime override,
else to the system clock. (`c18_resolve_order` is the same statement on presence flags.) -/
theorem c18_bind_precedence (e : Env) :
    (∀ s, e.bind (some s) = .fake s) ∧
    (∀ s, e.thread = some s → e.bind none = .fake s) ∧
    (∀ s, e.thread = none → e.runtime = some s → e.bind none = .fake s) ∧
    (e.thread = none → e.runtime = none → e.bind none = .system) := by
  refine ⟨fun s => rfl, fun s h => ?_, fun s h1 h2 => ?_, fun h1 h2 => ?_⟩ <;> simp [Env.bind, *]

/-- **Runtime-wide override**: it does not nest — installing over an existing one panics and changes
nothing; install then guard drop from an empty slot restores the empty slot; it never touches the
thread-local override. -/
theorem c18_runtime_override (e : Env) (s : Nat) :
    (e.runtime.isSome → e.step (.installRt s) = some e ∧ e.out (.installRt s) = .panic) ∧
    (e.runtime = none → e.rtGuard = false →
      (e.step (.installRt s)).bind (fun e' => e'.step .dropRt) = some e) ∧
    (∀ e', e.step (.installRt s) = some e' → e'.thread = e.thread) ∧
    (∀ e', e.step .dropRt = some e' → e'.thread = e.thread) := by
  refine ⟨fun h => ?_, fun h1 h2 => ?_, fun e' h => ?_, fun e' h => ?_⟩
  · cases hr : e.runtime <;> simp_all [Env.step, Env.out]
  · obtain ⟨t, r, gs, sc, rg⟩ := e
    simp_all [Env.step]
  · cases hr : e.runtime <;> cases hg : e.rtGuard <;> simp_all [Env.step] <;> (subst h; rfl)
  · cases hg : e.rtGuard <;> simp_all [Env.step]
    subst h; rfl

/-! ## non-vacuity: concrete sequences the hypotheses hold for -/

/-- a sequence through the representation switch with two concurrently live owned guards, a borrowed
guard on the shared stopwatch, overwrite, discard and clear: accepted, and reports 7 -/
example :
    (Impl.init.run [.startB, .advance 5, .stopB, .startO 0, .advance 3, .startO 1, .advance 4,
      .overwriteO 0, .startB, .advance 2, .discardO 1, .discardB]).map Impl.close = some (some 7) := by
  decide

example :
    (Spec.init.run [.startB, .advance 5, .stopB, .startO 0, .advance 3, .startO 1, .advance 4,
      .overwriteO 0, .startB, .advance 2, .discardO 1, .discardB]).close = some 7 := by
  decide

/-- a zero-length kept span is reported as `some 0`, not `none`; after `clear`, `none` -/
example : (Impl.init.run [.startO 0, .dropO 0 false]).map Impl.close = some (some 0) ∧
    (Impl.init.run [.startO 0, .advance 9, .dropO 0 false, .clear]).map Impl.close = some none := by decide

/-- two live owned guards finished in either order: both accepted, same report (8 = 5 + 3);
with `overwrite` the order matters (8 vs 5) — it is excluded from `c18_finish_order_irrelevant` -/
example :
    (Impl.init.run [.startO 0, .advance 2, .startO 1, .advance 3, .dropO 0 false, .stopO 1]).map Impl.close = some (some 8) ∧
    (Impl.init.run [.startO 0, .advance 2, .startO 1, .advance 3, .stopO 1, .dropO 0 false]).map Impl.close = some (some 8) ∧
    (Impl.init.run [.startO 0, .advance 2, .startO 1, .advance 3, .dropO 1 false, .overwriteO 0]).map Impl.close = some (some 5) ∧
    (Impl.init.run [.startO 0, .advance 2, .startO 1, .advance 3, .overwriteO 0, .dropO 1 false]).map Impl.close = some (some 8) := by
  decide

/-- inexpressible: a second `start` while a `TimerGuard` is live -/
example : (Impl.init.run [.startB, .startB]).isNone = true := by decide

example : ((TState.init 10).run [.advance 5, .stop, .advance 3, .stop]).close = 5 := by decide

example : (SState.run { wall := 1500, stamps := [], pending := 0, closed := [] }
    [.newStamp, .newOnClose, .setWall (-5), .newStamp, .setWall 1700, .closeOnClose]).values = [1500, 0] ∧
    (SState.run { wall := 1500, stamps := [], pending := 0, closed := [] }
    [.newStamp, .newOnClose, .setWall (-5), .newStamp, .setWall 1700, .closeOnClose]).closed = [1700] := by
  decide

/-- nested overrides: inside the inner scope a default constructor is bound to the inner source, after
it ends to the outer one again, after the outer guard is dropped to the system clock -/
example :
    (Env.init.run [.install 0 1, .scopeBegin 2]).map (·.bind none) = some (.fake 2) ∧
    (Env.init.run [.install 0 1, .scopeBegin 2, .construct none, .scopeEnd]).map (·.bind none) = some (.fake 1) ∧
    (Env.init.run [.install 0 1, .scopeBegin 2, .scopeEnd, .dropGuard 0]).map (·.bind none) = some .system := by
  decide

example : Balanced [.scopeBegin 2, .construct none, .install 3 4, .construct (some 7), .dropGuard 3, .scopeEnd] :=
  Balanced.scope 2 (mid := [.construct none, .install 3 4, .construct (some 7), .dropGuard 3]) (rest := [])
    (.construct none (Balanced.guard 3 4 (mid := [.construct (some 7)]) (rest := []) (.construct _ .nil) .nil)) .nil

/-- guards dropped out of order (what the code does, `c18_guard_drop_restores_install_point`): the
guard installed first restores "no override", the one installed second then restores source 1 —
although no guard is live any more -/
example :
    (Env.init.run [.install 0 1, .install 1 2, .dropGuard 0]).map (·.bind none) = some .system ∧
    (Env.init.run [.install 0 1, .install 1 2, .dropGuard 0, .dropGuard 1]).map (·.bind none) = some (.fake 1) := by
  decide

end Timers

#print axioms Timers.c18_stopwatch_refines
#print axioms Timers.c18_unwinding_drop_is_a_drop
#print axioms Timers.c18_spec_total_sum
#print axioms Timers.c18_stop_returns_span
#print axioms Timers.c18_single_cell
#print axioms Timers.c18_expressible
#print axioms Timers.c18_finish_order_irrelevant
#print axioms Timers.c18_timer
#print axioms Timers.c18_timer_stop_idempotent
#print axioms Timers.c18_timestamp
#print axioms Timers.c18_timestamp_on_close
#print axioms Timers.c18_epoch_units
#print axioms Timers.c18_resolve_order
#print axioms Timers.c18_override_restore
#print axioms Timers.c18_guard_drop_restores_install_point
#print axioms Timers.c18_bind_precedence
#print axioms Timers.c18_runtime_override
