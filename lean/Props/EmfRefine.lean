import Props.EmfRefineValidate
import Props.EmfRefineGlobal
import Props.C02
/-!
# The operational EMF model refines the declarative one

`Model/Emf.lean` (byte-exact, properties C02 / C14) and `Model/EmfSpec.lean` (records and validation,
properties C03 / C08) were written independently from `emf.rs`. This file connects them in Lean; the
input correspondence (`toEmfCfg`, `toEmfEntry`, `toCall`) and the JSON denotation of a record
(`recordJson`) are in `Model/EmfRefine.lean`, the executable cross-check is driver engine `emfagree`.
-/
namespace EmfRefine
open EmfSpec

variable {F : Type}

/-! ## Stage 1: the accept / reject decision and the error kinds -/

/-- the error list the operational model's `finish` computes, for ANY formatter state `s` (the
validation state does not survive a call) -/
theorem finishErrors_refines (cfg : Config) (sw : Switches) (ops : FloatOps F) (txt : F → List Nat)
    (s : Emf.State) (mult : Option Nat) (e : Entry F) :
    Emf.finishErrors (Emf.Consts.ofConfig (toEmfCfg cfg sw))
      ((toEmfEntry ops txt e).foldl (Emf.applyItem (Emf.Consts.ofConfig (toEmfCfg cfg sw)) mult)
        (Emf.Writer.start (Emf.Consts.ofConfig (toEmfCfg cfg sw)) s))
      = (validate cfg sw e).map errKind := by
  have hc := CRel.ofConfig cfg sw
  exact finishErrors_eq hc (sim_foldl hc ops txt mult e (sim_start hc s))

/-- **Stage 1 (`emf_refines_spec_validate`).** For every configuration, switch setting, number type
with its float operations and text function, every formatter state `s` (reachable or not), multiplicity
(or none), clock value, writer budget and entry: the operational `Emf.format` on the corresponding input
returns a validation error iff the declarative `EmfSpec.validate` reports at least one error, and then
the error kinds are THE SAME LIST (kind by kind, in the same order; the missing-dimension errors, which
the code reports in hash order, all have one kind). -/
theorem emf_refines_spec_validate (cfg : Config) (sw : Switches) (ops : FloatOps F) (txt : F → List Nat)
    (s : Emf.State) (mult : Option Nat) (nowMs : Nat) (io : Option Nat) (e : Entry F) :
    let r := (Emf.format (Emf.Consts.ofConfig (toEmfCfg cfg sw)) s
                ⟨toEmfEntry ops txt e, mult, false, nowMs, io⟩).2.1
    ((∃ ks, r = .validation ks) ↔ validate cfg sw e ≠ []) ∧
    (∀ ks, r = .validation ks → ks = (validate cfg sw e).map errKind) := by
  have hfe := finishErrors_refines cfg sw ops txt s mult e
  simp only [Emf.format, Bool.false_eq_true, if_false, Emf.formatWithMultiplicity, Emf.finish]
  rw [hfe]
  cases hv : validate cfg sw e with
  | nil =>
    simp only [List.map_nil, List.isEmpty_nil, Bool.not_true, Bool.false_eq_true, if_false, ne_eq,
      not_true_eq_false, iff_false, not_exists]
    refine ⟨fun ks => Emf.finishWrite_not_validation _ _ _ _ _ ks, fun ks h => ?_⟩
    exact absurd h (Emf.finishWrite_not_validation _ _ _ _ _ ks)
  | cons a l =>
    simp only [List.map_cons, List.isEmpty_cons, Bool.not_false, if_true, ne_eq, reduceCtorEq,
      not_false_eq_true, iff_true, Emf.Result.validation.injEq]
    exact ⟨⟨_, rfl⟩, fun ks h => h.symm⟩

/-- the same in the words of `records`: `records` is an error iff `format` is a validation error -/
theorem emf_refines_spec_class (cfg : Config) (sw : Switches) (ops : FloatOps F) (txt : F → List Nat)
    (s : Emf.State) (mult : Option Nat) (nowMs : Nat) (io : Option Nat) (e : Entry F) :
    let r := (Emf.format (Emf.Consts.ofConfig (toEmfCfg cfg sw)) s
                ⟨toEmfEntry ops txt e, mult, false, nowMs, io⟩).2.1
    (∀ errs, records cfg sw ops mult e = .error errs → r = .validation (errs.map errKind)) ∧
    (∀ rs, records cfg sw ops mult e = .ok rs → ∀ ks, r ≠ .validation ks) := by
  have h := emf_refines_spec_validate cfg sw ops txt s mult nowMs io e
  simp only at h ⊢
  obtain ⟨h1, h2⟩ := h
  unfold records
  cases hv : validate cfg sw e with
  | nil =>
    rw [hv] at h1
    refine ⟨fun errs he => by simp at he, fun rs _ ks hk => ?_⟩
    exact (h1.mp ⟨ks, hk⟩) rfl
  | cons a l =>
    rw [hv] at h1 h2
    refine ⟨fun errs he => ?_, fun rs he => by simp at he⟩
    simp only [Except.error.injEq] at he
    subst he
    obtain ⟨ks, hk⟩ := h1.mpr (by simp)
    rw [hk, h2 ks hk]

/-! ## Stage 2: the single record of an entry without per-metric dimensions -/

open JsonTree in
/-- without split metrics the declarative model emits exactly one record: the no-dimension record with
every metric of the entry and the extra directives -/
theorem emit_noSplit (cfg : Config) (ops : FloatOps F) (mult : Option Nat) (e : Entry F)
    (h : noSplit cfg e = true) :
    emit cfg ops mult e = [mkRecord cfg ops mult e none (metricItems e) cfg.extra] := by
  have hro : ∀ p ∈ metricItems e, routeOf cfg p.2 = none := by
    intro p hp
    have := List.all_eq_true.mp h p hp
    simp [routeOf, this]
  have hk : splitKeys cfg e = [] := by
    unfold splitKeys
    have : (metricItems e).filterMap (fun p => routeOf cfg p.2) = [] := by
      rw [List.filterMap_eq_nil_iff]
      intro p hp; exact hro p hp
    rw [this]; rfl
  have hr : routedTo cfg none (metricItems e) = metricItems e := by
    unfold routedTo
    rw [List.filter_eq_self]
    intro p hp; simp [hro p hp]
  unfold emit
  simp [hk, hr]

open JsonTree in
/-- **Stage 2 (`emf_refines_spec_global_partial`).** For every configuration with at least one namespace
every switch setting, number type / float operations /
text function, multiplicity that fits a `u64` (or none), clock value and every ACCEPTED entry
(`validate … = []`) in which NO metric is routed to a split record (`noSplit`: the configuration ignores
per-metric dimensions, or every metric's dimension list is empty): the operational model on a fresh
formatter returns `ok` and writes exactly one line, and that line is, byte for byte, the compact JSON
print of the tree `recordJson` of the declarative model's single record, followed by `\n`. So the line
has the record's string members in order, the metric members in order (scalar or `Values`/`Counts`, counts =
occurrences saturating-times multiplicity), the same declarations in every namespace's directive, the extra
directives, the log group and the timestamp.

EXCLUDED (hence `_partial`): entries with a metric routed to a split record (Stage 3, not done);
extra directives with `StorageResolution` 60 (not expressible in `EmfSpec.Decl`);
a multiplicity above `u64::MAX` (the models differ there: `satMul 1 m`, not a value a `u64` can hold);
a writer that fails (`ioBudget = none` here; C02 `format_ok_unlimited` relates a successful budgeted
write to the unlimited one). -/
theorem emf_refines_spec_global_partial (cfg : Config) (sw : Switches) (ops : FloatOps F) (txt : F → List Nat)
    (mult : Option Nat) (nowMs : Nat) (e : Entry F)
    (hns : cfg.namespaces ≠ []) (hm : multOk mult)
    (hsplit : noSplit cfg e = true) (hv : validate cfg sw e = []) :
    records cfg sw ops mult e = .ok [mkRecord cfg ops mult e none (metricItems e) cfg.extra] ∧
    runEmf cfg sw ops txt mult nowMs e =
      (.ok, print (recordJson txt cfg.namespaces.length nowMs
                    (mkRecord cfg ops mult e none (metricItems e) cfg.extra)) ++ [10]) := by
  refine ⟨by simp [records, hv, emit_noSplit cfg ops mult e hsplit], ?_⟩
  obtain ⟨ns0, more, hnseq⟩ : ∃ a b, cfg.namespaces = a :: b := by
    cases h : cfg.namespaces with
    | nil => exact absurd h hns
    | cons a b => exact ⟨a, b, rfl⟩
  have hc := CRel.ofConfig cfg sw
  -- the writer at the start of the call
  have hS0 : Shape (Emf.Writer.start (Emf.Consts.ofConfig (toEmfCfg cfg sw)) (Emf.State.fresh (toEmfCfg cfg sw))) [] [] [] := by
    refine ⟨rfl, ?_, ?_, ?_, rfl⟩
    · simp [Emf.Writer.start, Emf.State.startCall, Emf.State.fresh, Emf.PBuf.clear, Emf.PBuf.new]
    · simp [Emf.Writer.start, Emf.State.startCall, Emf.State.fresh, Emf.PBuf.clear, Emf.PBuf.new, Emf.fieldsPrefix]
    · simp [Emf.Writer.start, Emf.State.startCall, Emf.State.fresh, Emf.PBuf.clear, Emf.PBuf.new, printElems]
  have hsim0 := sim_start hc (Emf.State.fresh (toEmfCfg cfg sw))
  have herr : (run cfg sw (initState cfg sw) e).errs = [] := by
    have : validate cfg sw e = (run cfg sw (initState cfg sw) e).errs ++ sweep sw (run cfg sw (initState cfg sw) e) := rfl
    rw [this] at hv
    exact (List.append_eq_nil_iff.mp hv).1
  obtain ⟨hS, hR⟩ := shape_foldl hc ops txt hm e hsplit hsim0 hS0 herr
  have hfe := finishErrors_refines cfg sw ops txt (Emf.State.fresh (toEmfCfg cfg sw)) mult e
  rw [hv] at hfe
  have hfin := finish_global (toEmfCfg cfg sw) _ nowMs hS
    (by rw [hR.decl]; simp [Emf.Writer.start, Emf.State.startCall, Emf.State.fresh, new_clear])
    (by rw [hR.dbuf]; rfl) hfe
  unfold runEmf
  simp only [Emf.format, toCall, Bool.false_eq_true, if_false, Emf.formatWithMultiplicity]
  rw [hfin]
  -- the entry dimensions and the timestamp
  have hdims : ((toEmfEntry ops txt e).foldl (Emf.applyItem (Emf.Consts.ofConfig (toEmfCfg cfg sw)) mult)
      (Emf.Writer.start (Emf.Consts.ofConfig (toEmfCfg cfg sw)) (Emf.State.fresh (toEmfCfg cfg sw)))).entryDims.getD
        (Emf.Consts.ofConfig (toEmfCfg cfg sw)).eachDims = (baseDims cfg e).map Json.jarrStrings := by
    rw [hR.ed]
    simp only [edAfter, Emf.Writer.start, baseDims]
    cases entryDimsItems e with
    | nil => simp [Emf.Consts.ofConfig, toEmfCfg]
    | cons sets rest =>
      simp only [Option.getD_some, dimsOf, Emf.Consts.ofConfig, toEmfCfg, List.flatMap_map, List.map_flatMap, List.map_map]
      congr 1
      funext d
      apply List.map_congr_left
      intro s _
      simp [extendWithStrings_jarr]
  have hts : Emf.timestampMillis ((toEmfEntry ops txt e).foldl (Emf.applyItem (Emf.Consts.ofConfig (toEmfCfg cfg sw)) mult)
      (Emf.Writer.start (Emf.Consts.ofConfig (toEmfCfg cfg sw)) (Emf.State.fresh (toEmfCfg cfg sw)))).timestamp nowMs
        = (timestampOf e).getD nowMs := by
    rw [hR.ts]
    simp only [tsAfter, Emf.Writer.start, timestampOf]
    cases (timestamps e).getLast? with
    | none => rfl
    | some us =>
      simp only [Emf.timestampMillis, Option.map_some, Option.getD_some, msOf]
      split <;> omega
  rw [hdims, hts]
  simp only [List.nil_append]
  rw [globalLine_eq_print cfg sw txt ns0 more hnseq]
  simp only [recordJson, mkRecord, Option.getD_none, List.map_nil, List.append_nil, List.nil_append, List.map_id']
  rw [List.take_left' (by simp), List.drop_left' (by simp)]
  have hstr : ∀ x : Str × Str, mvalJson txt (MVal.str x.2) = JsonTree.JVal.str x.2 := fun _ => rfl
  cases cfg.logGroup <;> simp [List.map_map, Function.comp_def, hstr]

/-- the same for a formatter with any history (C14) -/
theorem emf_refines_spec_global_reachable_partial (cfg : Config) (sw : Switches) (ops : FloatOps F) (txt : F → List Nat)
    (mult : Option Nat) (nowMs : Nat) (e : Entry F) {s : Emf.State} (hs : Emf.Reachable (toEmfCfg cfg sw) s)
    (hns : cfg.namespaces ≠ []) (hm : multOk mult)
    (hsplit : noSplit cfg e = true) (hv : validate cfg sw e = []) :
    let r := Emf.format (Emf.Consts.ofConfig (toEmfCfg cfg sw)) s (toCall ops txt mult nowMs e)
    r.2.1 = .ok ∧
    r.2.2.bytes = JsonTree.print (recordJson txt cfg.namespaces.length nowMs
                    (mkRecord cfg ops mult e none (metricItems e) cfg.extra)) ++ [10] := by
  have h := (emf_refines_spec_global_partial cfg sw ops txt mult nowMs e hns hm hsplit hv).2
  have hc := Emf.c14_history_independent (toEmfCfg cfg sw) hs (toCall ops txt mult nowMs e)
  simp only [runEmf] at h
  simp only
  rw [hc]
  exact ⟨congrArg Prod.fst h, congrArg Prod.snd h⟩

/-! ### non-vacuity -/

section Examples
open Json

/-- default dimension `D`, one namespace, all validations -/
def exCfg : Config := { namespaces := [bytes! "Ns"], defaultDims := [[bytes! "D"]], logGroup := none,
                        allowIgnored := false, extra := [] }

/-- a rejected entry: the dimension `D` is written as a metric, `M` twice, no string for `D` -/
def exBad : Entry FText :=
  [.value (bytes! "D") (.metric ⟨[.unsigned 1], none, [], .plain⟩),
   .value (bytes! "M") (.metric ⟨[.unsigned 1], none, [], .plain⟩),
   .value (bytes! "M") (.metric ⟨[.floating (some (bytes! "2.5"))], none, [], .plain⟩)]

example : validate exCfg allOn exBad =
    [.metricInDimension (bytes! "D"), .duplicate (bytes! "M"), .missingDimension (bytes! "D")] := by decide

example : (runEmf exCfg allOn textOps textTxt none 0 exBad).1 =
    .validation [.metricInDimField, .duplicateField, .missingDimension] := by decide

example : (runEmf exCfg allOff textOps textTxt none 0 exBad).1 = .ok := by decide +kernel

/-- an accepted entry without split records: a timestamp, the dimension's string, a high-resolution
distribution (integer, float, zero-occurrence `Repeated`, NaN) and a plain counter; sampled ×2 -/
def exGood : Entry FText :=
  [.timestamp 1500000,
   .value (bytes! "D") (.str (bytes! "x\"y")),
   .value (bytes! "M") (.metric ⟨[.unsigned 1, .floating (some (bytes! "2.5")), .floating none,
                                  .repeated (some (bytes! "0.0")) 0], some (bytes! "Count"), [], .hires⟩),
   .value (bytes! "S") (.metric ⟨[.unsigned 7], none, [], .plain⟩)]

def exCfg2 : Config := { namespaces := [bytes! "Ns", bytes! "Ns2"], defaultDims := [[bytes! "D"]],
                         logGroup := some (bytes! "lg"), allowIgnored := false,
                         extra := [⟨bytes! "X", [[bytes! "E"]], [⟨bytes! "EM", some (bytes! "Count"), false⟩]⟩] }

example : validate exCfg2 allOn exGood = [] := by decide
example : noSplit exCfg2 exGood = true := by decide
example : exCfg2.namespaces ≠ [] := by decide
example : multOk (some 2) := by intro m h; cases h; decide
/-- the hypotheses are not vacuous, and the reader reads the operational line back as the record's tree -/
example : ((JsonTree.readLine (runEmf exCfg2 allOn textOps textTxt (some 2) 0 exGood).2).map fun t =>
    t == recordJson textTxt 2 0 (mkRecord exCfg2 textOps (some 2) exGood none (metricItems exGood) exCfg2.extra))
      = some true := by decide +kernel

end Examples

end EmfRefine

#print axioms EmfRefine.finishErrors_refines
#print axioms EmfRefine.emf_refines_spec_validate
#print axioms EmfRefine.emf_refines_spec_class
#print axioms EmfRefine.emit_noSplit
#print axioms EmfRefine.emf_refines_spec_global_partial
#print axioms EmfRefine.emf_refines_spec_global_reachable_partial
