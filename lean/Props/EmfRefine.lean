import Props.EmfRefineValidate
import Props.C02
/-!
# The operational EMF model refines the declarative one

`Model/Emf.lean` (byte-exact, properties C02 / C14) and `Model/EmfSpec.lean` (records and validation,
properties C03 / C08) were written independently from `emf.rs`. This file connects them in Lean; the
input correspondence (`toEmfCfg`, `toEmfEntry`, `toCall`) and the JSON denotation of a record
(`recordJson`) are in `Model/EmfRefine.lean`, the executable cross-check is driver engine `emfagree`.
-/
namespace EmfRefine
open EmfSpec

variable {F : Type}

/-! ## Stage 1: the accept / reject decision and the error kinds -/

/-- the error list the operational model's `finish` computes, for ANY formatter state `s` (the
validation state does not survive a call) -/
theorem finishErrors_refines (cfg : Config) (sw : Switches) (ops : FloatOps F) (txt : F → List Nat)
    (s : Emf.State) (mult : Option Nat) (e : Entry F) :
    Emf.finishErrors (Emf.Consts.ofConfig (toEmfCfg cfg sw))
      ((toEmfEntry ops txt e).foldl (Emf.applyItem (Emf.Consts.ofConfig (toEmfCfg cfg sw)) mult)
        (Emf.Writer.start (Emf.Consts.ofConfig (toEmfCfg cfg sw)) s))
      = (validate cfg sw e).map errKind := by
  have hc := CRel.ofConfig cfg sw
  exact finishErrors_eq hc (sim_foldl hc ops txt mult e (sim_start hc s))

/-- **Stage 1 (`emf_refines_spec_validate`).** For every configuration, switch setting, number type
with its float operations and text function, every formatter state `s` (reachable or not), multiplicity
(or none), clock value, writer budget and entry: the operational `Emf.format` on the corresponding input
returns a validation error iff the declarative `EmfSpec.validate` reports at least one error, and then
the error kinds are THE SAME LIST (kind by kind, in the same order; the missing-dimension errors, which
the code reports in hash order, all have one kind). -/
theorem emf_refines_spec_validate (cfg : Config) (sw : Switches) (ops : FloatOps F) (txt : F → List Nat)
    (s : Emf.State) (mult : Option Nat) (nowMs : Nat) (io : Option Nat) (e : Entry F) :
    let r := (Emf.format (Emf.Consts.ofConfig (toEmfCfg cfg sw)) s
                ⟨toEmfEntry ops txt e, mult, false, nowMs, io⟩).2.1
    ((∃ ks, r = .validation ks) ↔ validate cfg sw e ≠ []) ∧
    (∀ ks, r = .validation ks → ks = (validate cfg sw e).map errKind) := by
  have hfe := finishErrors_refines cfg sw ops txt s mult e
  simp only [Emf.format, Bool.false_eq_true, if_false, Emf.formatWithMultiplicity, Emf.finish]
  rw [hfe]
  cases hv : validate cfg sw e with
  | nil =>
    simp only [List.map_nil, List.isEmpty_nil, Bool.not_true, Bool.false_eq_true, if_false, ne_eq,
      not_true_eq_false, iff_false, not_exists]
    refine ⟨fun ks => Emf.finishWrite_not_validation _ _ _ _ _ ks, fun ks h => ?_⟩
    exact absurd h (Emf.finishWrite_not_validation _ _ _ _ _ ks)
  | cons a l =>
    simp only [List.map_cons, List.isEmpty_cons, Bool.not_false, if_true, ne_eq, reduceCtorEq,
      not_false_eq_true, iff_true, Emf.Result.validation.injEq]
    exact ⟨⟨_, rfl⟩, fun ks h => h.symm⟩

/-- the same in the words of `records`: `records` is an error iff `format` is a validation error -/
theorem emf_refines_spec_class (cfg : Config) (sw : Switches) (ops : FloatOps F) (txt : F → List Nat)
    (s : Emf.State) (mult : Option Nat) (nowMs : Nat) (io : Option Nat) (e : Entry F) :
    let r := (Emf.format (Emf.Consts.ofConfig (toEmfCfg cfg sw)) s
                ⟨toEmfEntry ops txt e, mult, false, nowMs, io⟩).2.1
    (∀ errs, records cfg sw ops mult e = .error errs → r = .validation (errs.map errKind)) ∧
    (∀ rs, records cfg sw ops mult e = .ok rs → ∀ ks, r ≠ .validation ks) := by
  have h := emf_refines_spec_validate cfg sw ops txt s mult nowMs io e
  simp only at h ⊢
  obtain ⟨h1, h2⟩ := h
  unfold records
  cases hv : validate cfg sw e with
  | nil =>
    rw [hv] at h1
    refine ⟨fun errs he => by simp at he, fun rs _ ks hk => ?_⟩
    exact (h1.mp ⟨ks, hk⟩) rfl
  | cons a l =>
    rw [hv] at h1 h2
    refine ⟨fun errs he => ?_, fun rs he => by simp at he⟩
    simp only [Except.error.injEq] at he
    subst he
    obtain ⟨ks, hk⟩ := h1.mpr (by simp)
    rw [hk, h2 ks hk]

/-! ### non-vacuity -/

section Examples
open Json

/-- default dimension `D`, one namespace, all validations -/
def exCfg : Config := { namespaces := [bytes! "Ns"], defaultDims := [[bytes! "D"]], logGroup := none,
                        allowIgnored := false, extra := [] }

/-- a rejected entry: the dimension `D` is written as a metric, `M` twice, no string for `D` -/
def exBad : Entry FText :=
  [.value (bytes! "D") (.metric ⟨[.unsigned 1], none, [], .plain⟩),
   .value (bytes! "M") (.metric ⟨[.unsigned 1], none, [], .plain⟩),
   .value (bytes! "M") (.metric ⟨[.floating (some (bytes! "2.5"))], none, [], .plain⟩)]

example : validate exCfg allOn exBad =
    [.metricInDimension (bytes! "D"), .duplicate (bytes! "M"), .missingDimension (bytes! "D")] := by decide

example : (runEmf exCfg allOn textOps textTxt none 0 exBad).1 =
    .validation [.metricInDimField, .duplicateField, .missingDimension] := by decide

example : (runEmf exCfg allOff textOps textTxt none 0 exBad).1 = .ok := by decide +kernel

end Examples

end EmfRefine

#print axioms EmfRefine.dimKeyOf_eq_sortKey
#print axioms EmfRefine.emf_refines_spec_validate
#print axioms EmfRefine.emf_refines_spec_class
