import Props.EmfRefinePrint
/-!
Stage 2 lemmas: what `write_observation`, the observation loop, `write_metric_value` and `write_metric`
of the operational model append, in terms of the declarative `obsOut` / `usableObs` / `fieldOf` / `declOf`.
-/
namespace EmfRefine
open JsonTree Json EmfSpec

variable {F : Type}

/-- a multiplicity is a `u64` -/
def multOk (mult : Option Nat) : Prop := ∀ m, mult = some m → m ≤ EmfSpec.u64Max

theorem multOk_getD {mult : Option Nat} (h : multOk mult) : mult.getD 1 ≤ EmfSpec.u64Max := by
  cases mult with
  | none => decide
  | some m => exact h m rfl

theorem satMul_eq (a b : Nat) : Emf.satMul a b = EmfSpec.satMul a b := by
  unfold Emf.satMul EmfSpec.satMul Emf.u64Max
  split
  · rename_i h; exact (Nat.min_eq_left h).symm
  · rename_i h; exact (Nat.min_eq_right (by omega)).symm

def valJ (txt : F → List Nat) (p : Num F × Nat) : JVal := .num (numTok txt p.1)
def cntJ (p : Num F × Nat) : JVal := .num (natDigits p.2)

theorem writeObservation_eq (ops : FloatOps F) (txt : F → List Nat) {mult : Option Nat} (hm : multOk mult)
    (buf counts : Emf.PBuf) (o : Obs F) :
    Emf.writeObservation buf counts (toEmfObs ops txt o) mult =
      match obsOut ops mult o with
      | some p => (buf.pushRaw (numTok txt p.1), counts.pushRaw (natDigits p.2), true)
      | none => (buf, counts, false) := by
  have h1 : EmfSpec.satMul 1 (mult.getD 1) = mult.getD 1 := by
    unfold EmfSpec.satMul; rw [Nat.one_mul]; exact Nat.min_eq_left (multOk_getD hm)
  cases o with
  | unsigned v =>
    simp [toEmfObs, Emf.writeObservation, obsOut, Obs.value, Obs.occ, h1, numTok, Emf.PBuf.pushInt]
  | floating x =>
    cases hx : ops.usable x with
    | none => simp [toEmfObs, Emf.writeObservation, obsOut, Obs.value, hx]
    | some y =>
      simp [toEmfObs, Emf.writeObservation, obsOut, Obs.value, Obs.occ, hx, h1, numTok, Emf.PBuf.pushInt]
  | repeated t n =>
    cases hx : ops.usable (if n = 0 then ops.zero else ops.mean t n) with
    | none => simp [toEmfObs, Emf.writeObservation, obsOut, Obs.value, hx]
    | some y =>
      simp [toEmfObs, Emf.writeObservation, obsOut, Obs.value, Obs.occ, hx, satMul_eq, numTok, Emf.PBuf.pushInt]

theorem usableObs_cons (ops : FloatOps F) (mult : Option Nat) (o : Obs F) (rest : List (Obs F)) :
    usableObs ops mult (o :: rest) =
      match obsOut ops mult o with
      | some p => p :: usableObs ops mult rest
      | none => usableObs ops mult rest := by
  unfold usableObs
  rw [List.filterMap_cons]
  cases obsOut ops mult o <;> rfl

/-- the observation loop: commas between the usable observations only -/
theorem obsLoop_eq (ops : FloatOps F) (txt : F → List Nat) {mult : Option Nat} (hm : multOk mult)
    (obs : List (Obs F)) (B Cp : List Nat) (prev : List (Num F × Nat)) (buf counts : Emf.PBuf) (wrote : Bool)
    (hb : buf.buf = B ++ printElems (prev.map (valJ txt))) (hc : counts.buf = Cp ++ printElems (prev.map cntJ))
    (hw : wrote = !prev.isEmpty) :
    Emf.obsLoop mult (obs.map (toEmfObs ops txt)) buf counts wrote =
      (⟨buf.prefixLen, B ++ printElems ((prev ++ usableObs ops mult obs).map (valJ txt))⟩,
       ⟨counts.prefixLen, Cp ++ printElems ((prev ++ usableObs ops mult obs).map cntJ)⟩,
       !(prev ++ usableObs ops mult obs).isEmpty) := by
  induction obs generalizing prev buf counts wrote with
  | nil =>
    obtain ⟨bp, bb⟩ := buf
    obtain ⟨cp, cb⟩ := counts
    simp only at hb hc
    simp [Emf.obsLoop, usableObs, hb, hc, hw]
  | cons o rest ih =>
    simp only [List.map_cons, Emf.obsLoop, writeObservation_eq ops txt hm, usableObs_cons]
    cases ho : obsOut ops mult o with
    | none =>
      simp only
      have e1 : ((if wrote = true then buf.push 44 else buf).truncate buf.buf.length) = buf := by
        obtain ⟨bp, bb⟩ := buf
        cases wrote <;> simp [Emf.PBuf.truncate, Emf.PBuf.push]
      have e2 : ((if wrote = true then counts.push 44 else counts).truncate counts.buf.length) = counts := by
        obtain ⟨cp, cb⟩ := counts
        cases wrote <;> simp [Emf.PBuf.truncate, Emf.PBuf.push]
      rw [e1, e2]
      exact ih prev buf counts wrote hb hc hw
    | some p =>
      simp only
      have := ih (prev ++ [p]) ((if wrote = true then buf.push 44 else buf).pushRaw (numTok txt p.1))
        ((if wrote = true then counts.push 44 else counts).pushRaw (natDigits p.2)) true
        (by
          rw [List.map_append, List.map_cons, List.map_nil, printElems_snoc, hw]
          cases hp : prev.isEmpty with
          | true =>
            have : prev = [] := List.isEmpty_iff.mp hp
            subst this
            simp [Emf.PBuf.pushRaw, hb, valJ, print, printElems]
          | false => simp [Emf.PBuf.pushRaw, Emf.PBuf.push, hb, valJ, print, hp])
        (by
          rw [List.map_append, List.map_cons, List.map_nil, printElems_snoc, hw]
          cases hp : prev.isEmpty with
          | true =>
            have : prev = [] := List.isEmpty_iff.mp hp
            subst this
            simp [Emf.PBuf.pushRaw, hc, cntJ, print, printElems]
          | false => simp [Emf.PBuf.pushRaw, Emf.PBuf.push, hc, cntJ, print, hp])
        (by simp)
      rw [this]
      have hp1 : ((if wrote = true then buf.push 44 else buf).pushRaw (numTok txt p.1)).prefixLen = buf.prefixLen := by
        cases wrote <;> rfl
      have hp2 : ((if wrote = true then counts.push 44 else counts).pushRaw (natDigits p.2)).prefixLen
          = counts.prefixLen := by cases wrote <;> rfl
      simp [hp1, hp2]

/-- the `{"Values":[…],"Counts":[…]}` tree of the usable observations -/
def histJ (txt : F → List Nat) (l : List (Num F × Nat)) : JVal :=
  .obj [(bytes! "Values", .arr (l.map (valJ txt))), (bytes! "Counts", .arr (l.map cntJ))]

theorem histJ_eq (txt : F → List Nat) (l : List (Num F × Nat)) :
    mvalJson txt (.hist (l.map (·.1)) (l.map (·.2))) = histJ txt l := by
  simp [mvalJson, histJ, List.map_map, valJ, cntJ, Function.comp_def]

theorem countsNew_clear : (Emf.PBuf.new Emf.countsPrefix).clear = Emf.PBuf.new Emf.countsPrefix := by decide

theorem writeValues_eq (ops : FloatOps F) (txt : F → List Nat) {mult : Option Nat} (hm : multOk mult)
    (buf : Emf.PBuf) (first : Obs F) (rest : List (Obs F)) :
    Emf.writeValues buf (Emf.PBuf.new Emf.countsPrefix) (toEmfObs ops txt first) (rest.map (toEmfObs ops txt)) mult =
      (buf.pushRaw (print (histJ txt (usableObs ops mult (first :: rest)))), Emf.PBuf.new Emf.countsPrefix,
       !(usableObs ops mult (first :: rest)).isEmpty) := by
  unfold Emf.writeValues
  simp only [countsNew_clear, writeObservation_eq ops txt hm, usableObs_cons]
  obtain ⟨bp, bb⟩ := buf
  cases ho : obsOut ops mult first with
  | none =>
    simp only
    have := obsLoop_eq ops txt hm rest (bb ++ bytes! "{\"Values\":[") Emf.countsPrefix []
      ((Emf.PBuf.mk bp bb).pushRaw (bytes! "{\"Values\":[")) (Emf.PBuf.new Emf.countsPrefix) false
      (by simp [Emf.PBuf.pushRaw, printElems]) (by simp [Emf.PBuf.new, printElems]) (by simp)
    rw [this]
    simp only [List.nil_append]
    refine Prod.ext ?_ (Prod.ext ?_ rfl)
    · simp [Emf.PBuf.pushRaw, histJ, print, printMembers, jstr_Values, jstr_Counts, Emf.countsPrefix]
    · simp [Emf.PBuf.clear, Emf.PBuf.new, Emf.PBuf.pushRaw]
  | some p =>
    simp only
    have := obsLoop_eq ops txt hm rest (bb ++ bytes! "{\"Values\":[") Emf.countsPrefix [p]
      (((Emf.PBuf.mk bp bb).pushRaw (bytes! "{\"Values\":[")).pushRaw (numTok txt p.1))
      ((Emf.PBuf.new Emf.countsPrefix).pushRaw (natDigits p.2)) true
      (by simp [Emf.PBuf.pushRaw, printElems, valJ, print]) (by simp [Emf.PBuf.new, Emf.PBuf.pushRaw, printElems, cntJ, print])
      (by simp)
    rw [this]
    refine Prod.ext ?_ (Prod.ext ?_ (by simp))
    · simp [Emf.PBuf.pushRaw, histJ, print, printMembers, jstr_Values, jstr_Counts, Emf.countsPrefix]
    · simp [Emf.PBuf.clear, Emf.PBuf.new, Emf.PBuf.pushRaw]

/-- `write_metric_value`: the member it appends is `"name":<fieldOf>`; it reports "skipped" exactly when
`fieldOf` is `none` (whatever it wrote is then truncated by the caller) -/
theorem writeMetricValue_eq (ops : FloatOps F) (txt : F → List Nat) {mult : Option Nat} (hm : multOk mult)
    (name : Str) (fields : Emf.PBuf) (m : Metric F) (first : Obs F) (rest : List (Obs F)) (hobs : m.obs = first :: rest) :
    ∃ x, Emf.writeMetricValue name fields (Emf.PBuf.new Emf.countsPrefix) (toEmfObs ops txt first)
          (rest.map (toEmfObs ops txt)) mult
        = (fields.pushRaw x, Emf.PBuf.new Emf.countsPrefix, (fieldOf ops mult m).isSome) ∧
      ∀ v, fieldOf ops mult m = some v → x = 44 :: pm (name, mvalJson txt v) := by
  have hist : ∃ x, Emf.writeValues (((fields.push 44).jsonString name).push 58) (Emf.PBuf.new Emf.countsPrefix)
        (toEmfObs ops txt first) (rest.map (toEmfObs ops txt)) mult
        = (fields.pushRaw x, Emf.PBuf.new Emf.countsPrefix, !(usableObs ops mult (first :: rest)).isEmpty) ∧
      x = 44 :: pm (name, histJ txt (usableObs ops mult (first :: rest))) := by
    refine ⟨_, ?_, rfl⟩
    rw [writeValues_eq ops txt hm]
    refine Prod.ext ?_ rfl
    simp [Emf.PBuf.pushRaw, Emf.PBuf.push, Emf.PBuf.jsonString, pm]
  -- the declarative side when the histogram arm applies
  have hfield : (fieldOf ops mult m = if (usableObs ops mult (first :: rest)).isEmpty then none
        else some (.hist ((usableObs ops mult (first :: rest)).map (·.1)) ((usableObs ops mult (first :: rest)).map (·.2)))) →
      ∃ x, Emf.writeValues (((fields.push 44).jsonString name).push 58) (Emf.PBuf.new Emf.countsPrefix)
          (toEmfObs ops txt first) (rest.map (toEmfObs ops txt)) mult
        = (fields.pushRaw x, Emf.PBuf.new Emf.countsPrefix, (fieldOf ops mult m).isSome) ∧
      ∀ v, fieldOf ops mult m = some v → x = 44 :: pm (name, mvalJson txt v) := by
    intro hf
    obtain ⟨x, h1, h2⟩ := hist
    refine ⟨x, ?_, ?_⟩
    · rw [h1, hf]; split <;> simp_all
    · intro v hv
      rw [hf] at hv
      split at hv
      · simp at hv
      · simp only [Option.some.injEq] at hv
        rw [h2, ← hv, histJ_eq]
  cases mult with
  | some k =>
    have hf : fieldOf ops (some k) m = if (usableObs ops (some k) (first :: rest)).isEmpty then none
        else some (.hist ((usableObs ops (some k) (first :: rest)).map (·.1)) ((usableObs ops (some k) (first :: rest)).map (·.2))) := by
      simp only [fieldOf, hobs]
    have := hfield hf
    cases first <;> cases rest <;> simpa [Emf.writeMetricValue, toEmfObs] using this
  | none =>
    cases rest with
    | cons r rs =>
      have hf : fieldOf ops none m = if (usableObs ops none (first :: r :: rs)).isEmpty then none
          else some (.hist ((usableObs ops none (first :: r :: rs)).map (·.1)) ((usableObs ops none (first :: r :: rs)).map (·.2))) := by
        cases first <;> simp only [fieldOf, hobs]
      have := hfield hf
      cases first <;> simpa [Emf.writeMetricValue, toEmfObs] using this
    | nil =>
      cases first with
      | unsigned v =>
        refine ⟨44 :: pm (name, .num (natDigits v)), ?_, ?_⟩
        · simp [Emf.writeMetricValue, toEmfObs, fieldOf, hobs, Emf.PBuf.pushRaw, Emf.PBuf.push, Emf.PBuf.jsonString,
            Emf.PBuf.pushInt, pm, print]
        · intro v' hv
          simp only [fieldOf, hobs, Option.some.injEq] at hv
          rw [← hv]; simp [mvalJson, numTok]
      | floating x =>
        cases hx : ops.usable x with
        | none =>
          refine ⟨44 :: (jstr name ++ [58]), ?_, ?_⟩
          · simp [Emf.writeMetricValue, toEmfObs, fieldOf, hobs, hx, Emf.PBuf.pushRaw, Emf.PBuf.push, Emf.PBuf.jsonString]
          · intro v' hv
            simp [fieldOf, hobs, hx] at hv
        | some y =>
          refine ⟨44 :: pm (name, .num (Emf.stripDotZero (txt y))), ?_, ?_⟩
          · simp [Emf.writeMetricValue, toEmfObs, fieldOf, hobs, hx, Emf.PBuf.pushRaw, Emf.PBuf.push, Emf.PBuf.jsonString,
              pm, print]
          · intro v' hv
            simp only [fieldOf, hobs, hx, Option.map_some, Option.some.injEq] at hv
            rw [← hv]; simp [mvalJson, numTok]
      | repeated t n =>
        have hf : fieldOf ops none m = if (usableObs ops none [Obs.repeated t n]).isEmpty then none
            else some (.hist ((usableObs ops none [Obs.repeated t n]).map (·.1)) ((usableObs ops none [Obs.repeated t n]).map (·.2))) := by
          simp only [fieldOf, hobs]
        have := hfield hf
        simpa [Emf.writeMetricValue, toEmfObs] using this

/-- `,"name":value` for every member -/
def fieldBytes (txt : F → List Nat) (l : List (Str × MVal F)) : List Nat :=
  (l.map fun p => 44 :: pm (p.1, mvalJson txt p.2)).flatten

theorem fieldsOf_single (ops : FloatOps F) (mult : Option Nat) (name : Str) (m : Metric F) :
    fieldsOf ops mult [(name, m)] = match fieldOf ops mult m with
      | some v => [(name, v)]
      | none => [] := by
  unfold fieldsOf
  simp only [List.filterMap_cons, List.filterMap_nil]
  cases fieldOf ops mult m <;> rfl

theorem declsOf_single (ops : FloatOps F) (mult : Option Nat) (name : Str) (m : Metric F) :
    declsOf ops mult [(name, m)] = if (fieldOf ops mult m).isSome then (declOf name m).toList else [] := by
  unfold declsOf
  cases h : (fieldOf ops mult m).isSome
  · simp [h]
  · cases hd : declOf name m <;> simp [h, hd]

theorem printDecls_nil_iff (Ds : List Decl) : printElems (Ds.map declJson) = [] ↔ Ds = [] := by
  cases Ds with
  | nil => simp [printElems]
  | cons d rest => simp [printElems_cons, declJson, print]

/-- `write_metric` on buffers in the shape the formatter keeps them -/
theorem writeMetric_eq (ops : FloatOps F) (txt : F → List Nat) {mult : Option Nat} (hm : multOk mult)
    (name : Str) (fields : Emf.PBuf) (mp : List Nat) (Ds : List Decl) (m : Metric F) :
    Emf.writeMetric name fields ⟨mp.length, mp ++ printElems (Ds.map declJson)⟩ (Emf.PBuf.new Emf.countsPrefix)
        (m.obs.map (toEmfObs ops txt)) m.unit (toEmfFlags m.flag) mult
      = (⟨fields.prefixLen, fields.buf ++ fieldBytes txt (fieldsOf ops mult [(name, m)])⟩,
         ⟨mp.length, mp ++ printElems ((Ds ++ declsOf ops mult [(name, m)]).map declJson)⟩,
         Emf.PBuf.new Emf.countsPrefix) := by
  rw [fieldsOf_single, declsOf_single]
  cases hobs : m.obs with
  | nil =>
    have : fieldOf ops mult m = none := by cases mult <;> simp [fieldOf, hobs]
    obtain ⟨fp, fb⟩ := fields
    simp [Emf.writeMetric, this, fieldBytes]
  | cons first rest =>
    obtain ⟨x, h1, h2⟩ := writeMetricValue_eq ops txt hm name fields m first rest hobs
    simp only [List.map_cons, Emf.writeMetric, h1]
    cases hf : fieldOf ops mult m with
    | none =>
      obtain ⟨fp, fb⟩ := fields
      simp [Emf.PBuf.pushRaw, Emf.PBuf.truncate, fieldBytes]
    | some v =>
      have hx := h2 v hf
      subst hx
      simp only [Option.isSome_some, if_true]
      cases hfl : m.flag with
      | noMetric =>
        obtain ⟨fp, fb⟩ := fields
        simp [toEmfFlags, declOf, hfl, Emf.PBuf.pushRaw, fieldBytes]
      | plain =>
        have hd := metricDecl_eq_print name m.unit .plain (by simp)
        simp only [toEmfFlags] at hd ⊢
        refine Prod.ext ?_ (Prod.ext ?_ rfl)
        · obtain ⟨fp, fb⟩ := fields
          simp [Emf.PBuf.pushRaw, fieldBytes]
        · simp only [declOf, hfl, Option.toList_some, List.map_append, List.map_cons, List.map_nil, printElems_snoc,
            Emf.PBuf.isEmpty, hd]
          cases Ds with
          | nil => simp [Emf.PBuf.pushRaw, printElems]
          | cons d ds =>
            have : printElems ((d :: ds).map declJson) ≠ [] := fun h => by
              have := (printDecls_nil_iff (d :: ds)).mp h; simp at this
            have hl : 0 < (printElems ((d :: ds).map declJson)).length := List.length_pos_iff.mpr this
            have this' : printElems (declJson d :: ds.map declJson) ≠ [] := by simpa using this
            simp [this', Emf.PBuf.pushRaw, Emf.PBuf.push]
      | hires =>
        have hd := metricDecl_eq_print name m.unit .hires (by simp)
        simp only [toEmfFlags] at hd ⊢
        refine Prod.ext ?_ (Prod.ext ?_ rfl)
        · obtain ⟨fp, fb⟩ := fields
          simp [Emf.PBuf.pushRaw, fieldBytes]
        · simp only [declOf, hfl, Option.toList_some, List.map_append, List.map_cons, List.map_nil, printElems_snoc,
            Emf.PBuf.isEmpty, hd]
          cases Ds with
          | nil => simp [Emf.PBuf.pushRaw, printElems]
          | cons d ds =>
            have : printElems ((d :: ds).map declJson) ≠ [] := fun h => by
              have := (printDecls_nil_iff (d :: ds)).mp h; simp at this
            have hl : 0 < (printElems ((d :: ds).map declJson)).length := List.length_pos_iff.mpr this
            have this' : printElems (declJson d :: ds.map declJson) ≠ [] := by simpa using this
            simp [this', Emf.PBuf.pushRaw, Emf.PBuf.push]

end EmfRefine
