import Props.C06RefineC
import Props.C06Slack
/-!
# C06 (and C13, see `Props/C13Refine.lean`) — every behaviour of the micro-step model is accepted by the specification predicate

`Spec.accept` (`Model/KeepAliveSpec.lean`) judges histories recorded from real multi-threaded runs (T-trace).
Here: for every schedule of the micro-step model `KeepAlive.step` — any interleaving of the atomic steps of any
number of threads, any numbers of handles, flush guards, force-flush guards and slot fields — the history the
schedule induces (`historyOf`, `Model/KeepAliveHistory.lean`: the begin / end / append observations of the
harness, placed at the first / last micro-step of each drop) is accepted.  Hence a real trace that
`Spec.accept` rejects is not a behaviour of the model.

The proof is a forward simulation: `Sim s w t` (`Props/C06RefineLemmas.lean`) relates a model state `s` (and the
ghost `w`) to a state `t` of the specification automaton; every enabled event maps to a sequence of observations
that the automaton accepts from `t`, ending in a related state (`sim_step`).  The clauses of `Spec.feed` are
discharged by the C06 invariant `Inv` ("not early": `anyApp_cond`; "at most once": `apps0/apps1`; "not late":
`c06_not_late`) and the C13 invariants `SlotOk` / `SInv` (slot values).
-/
namespace KeepAlive
open Spec

variable {cfg : List (Bool × Nat)} {s s' : St} {w : Option Nat} {t : SSt}

/-- one step of the model is matched by the specification automaton -/
theorem sim_step {e : Ev} (hr : Reachable cfg s) (hsim : Sim s w t) (h : step s e = some s') :
    StepSim s w t e s' := by
  cases e with
  | newFG => exact sim_newFG hr hsim h
  | newDG => exact sim_newDG hr hsim h
  | mutate v => exact sim_mutate v hr hsim h
  | hit v => exact sim_hit v hr hsim h
  | toHandle => exact sim_toHandle hr hsim h
  | cloneHandle => exact sim_cloneHandle hr hsim h
  | refDrop => exact sim_refDrop hr hsim h
  | «open» i m v0 => exact sim_open i m v0 hr hsim h
  | waitBegin i => exact sim_waitBegin i hsim h
  | waitPoll => exact sim_waitPoll hsim h
  | waitCancel => exact sim_waitCancel hr hsim h
  | fgDrop => exact sim_fgDrop hr hsim h
  | delay i => exact sim_delay i hr hsim h
  | gmut i v => exact sim_gmut i v hr hsim h
  | gSend i => exact sim_gSend i hr hsim h
  | gRelease i => exact sim_gRelease i hr hsim h
  | dgBegin => exact sim_dgBegin hr hsim h
  | pDecV => exact sim_pDecV hr hsim h
  | pDecG => exact sim_pDecG hr hsim h
  | innerDrop => exact sim_innerDrop hr hsim h
  | dgLock => exact sim_dgLock hr hsim h
  | lRun => exact sim_lRun hr hsim h
  | lUnlock => exact sim_lUnlock hr hsim h
  | dgDec => exact sim_dgDec hr hsim h
  | closeSlot => exact sim_closeSlot hr hsim h
  | emit => exact sim_emit hr hsim h

theorem accept_historyFrom (hr : Reachable cfg s) (hsim : Sim s w t) (evs : List Ev) :
    acceptFrom t (historyFrom s w evs) = true := by
  induction evs generalizing s w t with
  | nil => rfl
  | cons e es ih =>
    simp only [historyFrom]
    cases h : step s e with
    | none => rfl
    | some s1 =>
      obtain ⟨t1, hf, hs1⟩ := sim_step hr hsim h
      simp only [acceptFrom_append, hf]
      exact ih (Reachable.step e hr h) hs1

/-- the automaton follows a complete run: it ends in a state related to the model's final state -/
theorem feedAll_historyFrom (hr : Reachable cfg s) (hsim : Sim s w t) {evs : List Ev} (h : run s evs = some s') :
    ∃ t' w', feedAll t (historyFrom s w evs) = some t' ∧ Sim s' w' t' := by
  induction evs generalizing s w t with
  | nil => simp only [run, Option.some.injEq] at h; subst h; exact ⟨t, w, rfl, hsim⟩
  | cons e es ih =>
    simp only [run] at h
    simp only [historyFrom]
    cases hs : step s e with
    | none => simp [hs] at h
    | some s1 =>
      simp only [hs] at h
      obtain ⟨t1, hf, hs1⟩ := sim_step hr hsim hs
      obtain ⟨t', w', hf', hs'⟩ := ih (Reachable.step e hr hs) hs1 h
      refine ⟨t', w', ?_, hs'⟩
      clear ih hs' hs1
      -- feedAll over an append
      have happ : ∀ (t : SSt) (os rest : List Obs) (t1 : SSt), feedAll t os = some t1 →
          feedAll t (os ++ rest) = feedAll t1 rest := by
        intro t os
        induction os generalizing t with
        | nil => intro rest t1 h; simp only [feedAll, Option.some.injEq] at h; subst h; rfl
        | cons o os ih2 =>
          intro rest t1 h
          simp only [List.cons_append, feedAll] at h ⊢
          cases hfc : feedChecked t o with
          | none => simp [hfc] at h
          | some t2 => simp only [hfc] at h ⊢; exact ih2 t2 rest t1 h
      rw [happ t _ _ t1 hf]; exact hf'

/-- **C06 refinement: every history of the model is accepted.**  For every list of slot fields `cfg` and every
event sequence `evs` — every schedule of every number of threads, handles, guards and force-flush guards — the
history induced by (the longest enabled prefix of) `evs` from the initial state is accepted by `Spec.accept`:
the append is observed at most once, never before the owner, every handle and (every flush guard or one
force-flush guard) have begun to drop, with the contents last written, and never later than the first instant at
which nothing is in flight and those drops have returned. -/
theorem c06_model_histories_accepted (cfg : List (Bool × Nat)) (evs : List Ev) :
    Spec.accept cfg.length (historyOf (cfg.map fresh) evs) = true :=
  accept_historyFrom Reachable.init (sim_init cfg) evs

/-- … in particular for every complete run (`run … = some s'`, i.e. every reachable state `s'`), and then the
automaton's final state agrees with the model's: the history contains an `app` observation iff the model's sink
has the entry (`apps = appended.length`), the automaton's counters are the model's. -/
theorem c06_model_run_tracked (cfg : List (Bool × Nat)) {evs : List Ev} {s' : St}
    (h : run (init (cfg.map fresh)) evs = some s') :
    Spec.accept cfg.length (historyOf (cfg.map fresh) evs) = true ∧
    ∃ t' w', feedAll (start cfg.length) (historyOf (cfg.map fresh) evs) = some t' ∧ Sim s' w' t' :=
  ⟨c06_model_histories_accepted cfg evs, feedAll_historyFrom Reachable.init (sim_init cfg) h⟩

/-- **Logging slack (partial).** The harness logs `eX` some time *after* the last atomic operation of a drop,
possibly after observations of other threads.  For the ends of owner / flush-guard / force-flush-guard drops this
keeps a history accepted: moving an `eR`, `eF` or `eD` one place to the right (hence any number of places)
preserves `Spec.accept`.  Together with `c06_model_histories_accepted`: the history of a model schedule with these
end observations logged arbitrarily late is accepted.

Missing for the full statement (argued in notes/C06.md): the same for `eG i` (needs a "more permissive" preorder on
automaton states because `sure := !cond` is evaluated later) and for `bR`/`bF`/`bD`/`bG i` moved to the left across
observations of other threads. -/
theorem c06_logging_slack_partial (n : Nat) (pre rest : List Obs) {e o : Obs} (he : e = .eR ∨ e = .eF ∨ e = .eD)
    (h : Spec.accept n (pre ++ e :: o :: rest) = true) : Spec.accept n (pre ++ o :: e :: rest) = true := by
  simp only [Spec.accept, acceptFrom_append] at h ⊢
  cases hf : feedAll (start n) pre with
  | none => simp [hf] at h
  | some t1 =>
    simp only [hf] at h ⊢
    exact acceptFrom_end_later he h

/-! ## Non-vacuity (kernel-evaluated) -/

/-- two threads: the owner's drop (`bR … eR`) interleaved with a force-flush guard's drop (`bD … eD`); the
force-flush thread appends while the owner's thread is between its two field drops -/
example : historyOf [] [.newFG, .newDG, .mutate 7, .hit 5, .refDrop, .dgBegin, .pDecV, .dgLock, .pDecG,
            .lRun, .emit, .lUnlock, .dgDec]
    = [.nF, .nD, .mut 7, .hit 5, .bR, .bD, .eR, .app 7 5 [], .eD] := by decide

example : Spec.accept 0 [.nF, .nD, .mut 7, .hit 5, .bR, .bD, .eR, .app 7 5 [], .eD] = true := by decide

/-- corrupted histories are rejected: appended while a flush guard is alive (early) … -/
example : Spec.accept 0 [.nF, .bR, .app 0 0 [], .eR] = false := by decide
/-- … force flush ineffective (late) … -/
example : Spec.accept 0 [.nF, .nD, .bR, .eR, .bD, .eD] = false := by decide
/-- … never appended … -/
example : Spec.accept 0 [.nD, .bD, .eD, .bR, .eR] = false := by decide
/-- … appended twice … -/
example : Spec.accept 0 [.bR, .app 0 0 [], .app 0 0 [], .eR] = false := by decide
/-- … stale contents. -/
example : Spec.accept 0 [.mut 7, .bR, .app 0 0 [], .eR] = false := by decide
/-- slack: the owner's `eR` of the first example logged two places later (after the append) is still accepted -/
example : Spec.accept 0 [.nF, .nD, .mut 7, .hit 5, .bR, .bD, .app 7 5 [], .eD, .eR] = true := by decide

end KeepAlive

#print axioms KeepAlive.c06_model_histories_accepted
#print axioms KeepAlive.c06_model_run_tracked
#print axioms KeepAlive.c06_logging_slack_partial
