import Model.Sampling
import Mathlib.Tactic.Linarith
import Mathlib.Tactic.Positivity
import Mathlib.Tactic.FieldSimp
import Mathlib.Algebra.Order.Field.Rat
/-!
# C12, congressional sampler over exact rationals

`ratArith` instantiates the generic expression tree of `Model/Sampling.lean` (the same one the
binary32 twin `f32Arith` runs) with `ℚ`.
-/
namespace Sampling

def ratArith : Arith ℚ where
  ofNat n := (n : ℚ)
  add a b := a + b
  sub a b := a - b
  mul a b := a * b
  div a b := a / b
  lt a b := decide (a < b)
  le a b := decide (a ≤ b)

abbrev Q := ratArith

/-- What holds of every group at every moment of every history. -/
structure GroupInv (g : Group ℚ) : Prop where
  seen : g.cur = 0 → 1 ≤ g.samples
  avg_nonneg : 0 ≤ g.avg
  avg_pos : 1 ≤ g.samples → 0 < g.avg
  rate_pos : 0 < g.rate
  rate_le : g.rate ≤ 1

def Inv (s : State ℚ) : Prop := ∀ g ∈ s.groups, GroupInv g

theorem inv_init (t : Nat) : Inv (State.init t : State ℚ) := by
  intro g hg; simp [State.init] at hg

theorem observeGroups_inv (gid : Key) (gs : List (Group ℚ)) (h : ∀ g ∈ gs, GroupInv g) :
    (∀ g ∈ (observeGroups Q gid gs).1, GroupInv g) ∧
    0 < (observeGroups Q gid gs).2 ∧ (observeGroups Q gid gs).2 ≤ 1 := by
  induction gs with
  | nil =>
    simp only [observeGroups, ratArith]
    refine ⟨?_, by norm_num, by norm_num⟩
    intro g hg
    simp only [List.mem_singleton] at hg
    subst hg
    exact ⟨by simp, by simp, by simp, by norm_num, by norm_num⟩
  | cons g gs ih =>
    have hg := h g (by simp)
    have ih' := ih (fun x hx => h x (by simp [hx]))
    unfold observeGroups
    split
    · refine ⟨?_, hg.rate_pos, hg.rate_le⟩
      intro x hx
      simp only [List.mem_cons] at hx
      rcases hx with rfl | hx
      · exact ⟨by simp, hg.avg_nonneg, hg.avg_pos, hg.rate_pos, hg.rate_le⟩
      · exact h x (by simp [hx])
    · refine ⟨?_, ih'.2⟩
      intro x hx
      simp only [List.mem_cons] at hx
      rcases hx with rfl | hx
      · exact hg
      · exact ih'.1 x hx

theorem observe_inv (s : State ℚ) (gid : Key) (h : Inv s) :
    Inv (observe Q s gid).1 ∧ 0 < (observe Q s gid).2 ∧ (observe Q s gid).2 ≤ 1 := by
  have := observeGroups_inv gid s.groups h
  exact ⟨this.1, this.2⟩

theorem observeN_inv (s : State ℚ) (gid : Key) (n : Nat) (h : Inv s) : Inv (observeN Q s gid n) := by
  induction n generalizing s with
  | zero => exact h
  | succ n ih => exact ih _ (observe_inv s gid h).1

/-- after `update_and_retain` a group has been seen at least once and its average is positive -/
theorem updateAndRetain_spec (C : Consts) (hw : 1 ≤ C.window) (g g' : Group ℚ) (hg : GroupInv g)
    (h : updateAndRetain Q C g = some g') :
    g'.cur = 0 ∧ 1 ≤ g'.samples ∧ 0 < g'.avg ∧ g'.rate = g.rate ∧ g'.gid = g.gid := by
  unfold updateAndRetain at h
  split at h
  · rename_i hcur
    cases h
    have hs : 1 ≤ min C.window (g.samples + 1) := by omega
    refine ⟨rfl, hs, ?_, rfl, rfl⟩
    simp only [addSample, ratArith]
    have hsq : (1 : ℚ) ≤ ((min C.window (g.samples + 1) : Nat) : ℚ) := by exact_mod_cast hs
    have hd0 : (0 : ℚ) < 1 / ((min C.window (g.samples + 1) : Nat) : ℚ) := by positivity
    have hd1 : 1 / ((min C.window (g.samples + 1) : Nat) : ℚ) ≤ 1 := by
      rw [div_le_one (by linarith)]; exact hsq
    have hc : (0 : ℚ) < (g.cur : ℚ) := by exact_mod_cast hcur
    have h1 : 0 < 1 / ((min C.window (g.samples + 1) : Nat) : ℚ) * (g.cur : ℚ) := mul_pos hd0 hc
    have h2 : 0 ≤ (1 - 1 / ((min C.window (g.samples + 1) : Nat) : ℚ)) * g.avg :=
      mul_nonneg (by linarith) hg.avg_nonneg
    push_cast at *
    linarith
  · rename_i hcur
    have hc0 : g.cur = 0 := by omega
    split at h
    · cases h
    · cases h
      exact ⟨hc0, hg.seen hc0, hg.avg_pos (hg.seen hc0), rfl, rfl⟩

theorem mem_reorder {α : Type} (order : List Key) (gs : List (Group α)) (g : Group α)
    (h : g ∈ reorder order gs) : g ∈ gs := by
  unfold reorder at h
  rcases List.mem_append.mp h with h | h
  · obtain ⟨id, _, hf⟩ := List.mem_filterMap.mp h
    exact List.mem_of_find?_eq_some hf
  · exact (List.mem_filter.mp h).1

theorem foldl_add_eq_sum (l : List (Group ℚ)) (a : ℚ) :
    l.foldl (fun acc g => Q.add acc g.size) a = a + (l.map (·.size)).sum := by
  induction l generalizing a with
  | nil => simp
  | cons g l ih => simp only [List.foldl_cons, List.map_cons, List.sum_cons, ih]; simp only [ratArith, add_assoc]

theorem foldl_add_zero (l : List (Group ℚ)) :
    l.foldl (fun acc g => Q.add acc g.size) (Q.ofNat 0) = (l.map (·.size)).sum := by
  rw [foldl_add_eq_sum]; simp [ratArith]

theorem sum_pos_of_mem (l : List ℚ) (h : ∀ x ∈ l, 0 < x) (hne : l ≠ []) : 0 < l.sum := by
  induction l with
  | nil => exact absurd rfl hne
  | cons x l ih =>
    simp only [List.sum_cons]
    have hx := h x (by simp)
    by_cases hl : l = []
    · subst hl; simpa using hx
    · have := ih (fun y hy => h y (by simp [hy])) hl; linarith

theorem ratMin (a b : ℚ) : Q.min a b = min a b := by
  simp only [Arith.min, ratArith]
  split
  · rename_i h; simp only [decide_eq_true_eq] at h; exact (min_eq_right h.le).symm
  · rename_i h; simp only [decide_eq_true_eq, not_lt] at h; exact (min_eq_left h).symm

/-- `size_in_congress / average`, the quantity the final rate is proportional to, does not increase
with the average when `flat ≤ 1` (i.e. when the interval was above target). -/
theorem congressSize_antitone (flat senate a b : ℚ) (hf0 : 0 < flat) (hf1 : flat ≤ 1)
    (hs : 0 < senate) (ha : 0 < a) (hab : a ≤ b) :
    congressSize Q flat senate b * a ≤ congressSize Q flat senate a * b := by
  have hb : 0 < b := lt_of_lt_of_le ha hab
  simp only [congressSize, ratMin]
  simp only [ratArith, decide_eq_true_eq]
  by_cases hga : flat * a < senate
  · rw [if_pos hga]
    by_cases hgb : flat * b < senate
    · rw [if_pos hgb]
      rcases le_total a senate with h1 | h1
      · rw [min_eq_left h1]
        have : min b senate ≤ b := min_le_left _ _
        nlinarith
      · have h2 : senate ≤ b := le_trans h1 hab
        rw [min_eq_right h1, min_eq_right h2]
        nlinarith
    · rw [if_neg hgb]
      have h1 : flat * a ≤ min a senate := by
        apply le_min
        · nlinarith
        · exact hga.le
      nlinarith
  · rw [if_neg hga]
    have hgb : ¬ flat * b < senate := by
      rw [not_lt] at hga ⊢
      have : flat * a ≤ flat * b := mul_le_mul_of_nonneg_left hab hf0.le
      linarith
    rw [if_neg hgb]
    nlinarith

theorem congressSize_pos (flat senate a : ℚ) (hf0 : 0 < flat) (hs : 0 < senate) (ha : 0 < a) :
    0 < congressSize Q flat senate a := by
  simp only [congressSize, ratMin]
  simp only [ratArith, decide_eq_true_eq]
  split
  · exact lt_min ha hs
  · exact mul_pos hf0 ha

/-! ## One `update_rates` -/

/-- a retained group with its recomputed `size_in_congress` and final rate (above target) -/
def finalGroup (flat senate scale : ℚ) (g1 : Group ℚ) : Group ℚ :=
  { gid := g1.gid, cur := g1.cur, noObs := g1.noObs, samples := g1.samples, avg := g1.avg,
    rate := min (congressSize Q flat senate g1.avg * scale / g1.avg) 1,
    size := congressSize Q flat senate g1.avg }


/-- The groups after `update_rates`, described without the fold: the retained groups `gs` in some
order, with `size`/`rate` recomputed. -/
theorem updateRates_groups (C : Consts) (order : List Key) (s : State ℚ) :
    let gs := reorder order (s.groups.filterMap (updateAndRetain Q C))
    let flat : ℚ := (s.target : ℚ) / (s.cur : ℚ)
    let senate : ℚ := (s.target : ℚ) / (gs.length : ℚ)
    let sized := gs.map fun g => { g with size := congressSize Q flat senate g.avg }
    let congress := (sized.map (·.size)).sum
    (updateRates Q C order s).groups =
      if (s.cur : ℚ) ≤ (s.target : ℚ) then sized.map fun g => { g with rate := 1 }
      else sized.map fun g => { g with rate := scaledRate Q ((s.target : ℚ) / congress) g } := by
  intro gs flat senate sized congress
  simp only [updateRates, foldl_add_zero]
  by_cases h : (s.cur : ℚ) ≤ (s.target : ℚ)
  · have hq : Q.le (Q.ofNat s.cur) (Q.ofNat s.target) = true := by simpa [ratArith] using h
    rw [if_pos hq, if_pos h]; rfl
  · have hq : ¬ (Q.le (Q.ofNat s.cur) (Q.ofNat s.target) = true) := by simpa [ratArith] using h
    rw [if_neg hq, if_neg h]; rfl

/-- Everything C12 states about one end of interval, for a state satisfying the history invariant. -/
theorem updateRates_spec (C : Consts) (hw : 1 ≤ C.window) (order : List Key) (s : State ℚ)
    (hinv : Inv s) (ht : 0 < s.target) :
    let s' := updateRates Q C order s
    -- every group: seen, positive average, rate in (0,1]
    (∀ g ∈ s'.groups, g.cur = 0 ∧ 1 ≤ g.samples ∧ 0 < g.avg ∧ 0 < g.rate ∧ g.rate ≤ 1) ∧
    -- the interval saw no more than the target: every rate is 1
    (s.cur ≤ s.target → ∀ g ∈ s'.groups, g.rate = 1) ∧
    -- above target: the budget and the ordering of rates
    (s.target < s.cur →
      (s'.groups.map fun g => g.avg * g.rate).sum ≤ (s.target : ℚ) ∧
      ∀ g ∈ s'.groups, ∀ h ∈ s'.groups, g.avg ≤ h.avg → h.rate ≤ g.rate) := by
  intro s'
  have hgroups := updateRates_groups C order s
  simp only at hgroups
  -- facts about the retained groups
  have hret : ∀ g ∈ reorder order (s.groups.filterMap (updateAndRetain Q C)),
      g.cur = 0 ∧ 1 ≤ g.samples ∧ 0 < g.avg ∧ 0 < g.rate ∧ g.rate ≤ 1 := by
    intro g hg
    obtain ⟨g0, hg0, hu⟩ := List.mem_filterMap.mp (mem_reorder _ _ _ hg)
    have hs := updateAndRetain_spec C hw g0 g (hinv g0 hg0) hu
    exact ⟨hs.1, hs.2.1, hs.2.2.1, hs.2.2.2.1 ▸ (hinv g0 hg0).rate_pos, hs.2.2.2.1 ▸ (hinv g0 hg0).rate_le⟩
  have htq : (0 : ℚ) < (s.target : ℚ) := by exact_mod_cast ht
  by_cases hle : s.cur ≤ s.target
  · -- below target
    have hleq : (s.cur : ℚ) ≤ (s.target : ℚ) := by exact_mod_cast hle
    rw [if_pos hleq] at hgroups
    have hall : ∀ g ∈ s'.groups, (g.cur = 0 ∧ 1 ≤ g.samples ∧ 0 < g.avg ∧ 0 < g.rate ∧ g.rate ≤ 1) ∧ g.rate = 1 := by
      intro g hg
      rw [hgroups] at hg
      simp only [List.map_map, List.mem_map, Function.comp] at hg
      obtain ⟨g1, hg1, rfl⟩ := hg
      have := hret g1 hg1
      exact ⟨⟨this.1, this.2.1, this.2.2.1, by norm_num, by norm_num⟩, rfl⟩
    exact ⟨fun g hg => (hall g hg).1, fun _ g hg => (hall g hg).2, fun h => absurd hle (by omega)⟩
  · -- above target
    have hgt : s.target < s.cur := by omega
    have hgtq : (s.target : ℚ) < (s.cur : ℚ) := by exact_mod_cast hgt
    rw [if_neg (by linarith)] at hgroups
    generalize hgs : reorder order (s.groups.filterMap (updateAndRetain Q C)) = gs at hgroups hret
    have hcurq : (0 : ℚ) < (s.cur : ℚ) := by linarith
    have hflat0 : (0 : ℚ) < (s.target : ℚ) / (s.cur : ℚ) := div_pos htq hcurq
    have hflat1 : (s.target : ℚ) / (s.cur : ℚ) ≤ 1 := by rw [div_le_one hcurq]; exact hgtq.le
    generalize hflat : (s.target : ℚ) / (s.cur : ℚ) = flat at hgroups hflat0 hflat1
    by_cases hne : gs = []
    · subst hne
      simp only [List.map_nil] at hgroups
      refine ⟨?_, ?_, ?_⟩ <;> simp [s', hgroups] <;> exact htq.le
    have hlen : (0 : ℚ) < (gs.length : ℚ) := by
      have : 0 < gs.length := List.length_pos_iff.mpr hne
      exact_mod_cast this
    have hsen : (0 : ℚ) < (s.target : ℚ) / (gs.length : ℚ) := div_pos htq hlen
    generalize hsenate : (s.target : ℚ) / (gs.length : ℚ) = senate at hgroups hsen
    -- the congress size is positive
    have hsizes : ∀ x ∈ (gs.map fun g => { g with size := congressSize Q flat senate g.avg }).map (·.size), 0 < x := by
      intro x hx
      simp only [List.map_map, List.mem_map, Function.comp] at hx
      obtain ⟨g1, hg1, rfl⟩ := hx
      exact congressSize_pos _ _ _ hflat0 hsen (hret g1 hg1).2.2.1
    have hcong : 0 < ((gs.map fun g => { g with size := congressSize Q flat senate g.avg }).map (·.size)).sum :=
      sum_pos_of_mem _ hsizes (by simpa using hne)
    generalize hcongress : ((gs.map fun g => { g with size := congressSize Q flat senate g.avg }).map (·.size)).sum = congress at hgroups hcong
    have hscale : 0 < (s.target : ℚ) / congress := div_pos htq hcong
    generalize hsc : (s.target : ℚ) / congress = scale at hgroups hscale
    -- the rate of one group
    have hrate : ∀ g1 ∈ gs,
        scaledRate Q scale { g1 with size := congressSize Q flat senate g1.avg } =
          min (congressSize Q flat senate g1.avg * scale / g1.avg) 1 := by
      intro g1 hg1
      have ha := (hret g1 hg1).2.2.1
      unfold scaledRate
      rw [ratMin]
      simp only [ratArith, decide_eq_true_eq, Nat.cast_zero, Nat.cast_one]
      rw [if_neg (by linarith)]
    have hmem : ∀ g ∈ s'.groups, ∃ g1 ∈ gs, g = finalGroup flat senate scale g1 := by
      intro g hg
      rw [hgroups] at hg
      simp only [List.map_map, List.mem_map, Function.comp] at hg
      obtain ⟨g1, hg1, rfl⟩ := hg
      exact ⟨g1, hg1, by rw [hrate g1 hg1]; rfl⟩
    refine ⟨?_, fun h => absurd h hle, fun _ => ⟨?_, ?_⟩⟩
    · intro g hg
      obtain ⟨g1, hg1, rfl⟩ := hmem g hg
      have h1 := hret g1 hg1
      refine ⟨h1.1, h1.2.1, h1.2.2.1, ?_, min_le_right _ _⟩
      show 0 < min _ _
      exact lt_min (div_pos (mul_pos (congressSize_pos _ _ _ hflat0 hsen h1.2.2.1) hscale) h1.2.2.1) one_pos
    · -- budget
      have hterm : ∀ g1 ∈ gs, g1.avg * min (congressSize Q flat senate g1.avg * scale / g1.avg) 1
          ≤ congressSize Q flat senate g1.avg * scale := by
        intro g1 hg1
        have ha := (hret g1 hg1).2.2.1
        calc g1.avg * min (congressSize Q flat senate g1.avg * scale / g1.avg) 1
            ≤ g1.avg * (congressSize Q flat senate g1.avg * scale / g1.avg) :=
              mul_le_mul_of_nonneg_left (min_le_left _ _) ha.le
          _ = congressSize Q flat senate g1.avg * scale := by field_simp
      have hsum : ∀ (l : List (Group ℚ)), (∀ g1 ∈ l, g1 ∈ gs) →
          (l.map fun g1 => g1.avg * min (congressSize Q flat senate g1.avg * scale / g1.avg) 1).sum
            ≤ (l.map fun g1 => congressSize Q flat senate g1.avg).sum * scale := by
        intro l
        induction l with
        | nil => intro _; simp
        | cons x l ih =>
          intro hl
          simp only [List.map_cons, List.sum_cons]
          have := hterm x (hl x (by simp))
          have := ih (fun y hy => hl y (by simp [hy]))
          rw [add_mul]; linarith
      have hb := hsum gs (fun _ h => h)
      have hrw : (s'.groups.map fun g => g.avg * g.rate).sum =
          (gs.map fun g1 => g1.avg * min (congressSize Q flat senate g1.avg * scale / g1.avg) 1).sum := by
        show ((updateRates Q C order s).groups.map fun g => g.avg * g.rate).sum = _
        rw [hgroups]
        simp only [List.map_map, Function.comp]
        congr 1
        apply List.map_congr_left
        intro g1 hg1
        show g1.avg * scaledRate Q scale _ = _
        rw [hrate g1 hg1]
      rw [hrw]
      have hc2 : (gs.map fun g1 => congressSize Q flat senate g1.avg).sum = congress := by
        rw [← hcongress]; simp only [List.map_map]; rfl
      rw [hc2] at hb
      have : congress * scale = (s.target : ℚ) := by rw [← hsc]; field_simp
      linarith
    · -- a rarer group is never sampled at a lower rate
      intro g hg h hh hav
      obtain ⟨g1, hg1, rfl⟩ := hmem g hg
      obtain ⟨h1, hh1, rfl⟩ := hmem h hh
      simp only [finalGroup] at hav ⊢
      have ha := (hret g1 hg1).2.2.1
      have hb := (hret h1 hh1).2.2.1
      apply min_le_min_right
      have hanti := congressSize_antitone flat senate g1.avg h1.avg hflat0 hflat1 hsen ha hav
      rw [div_le_div_iff₀ hb ha]
      nlinarith

/-! ## Histories -/

theorem updateRates_inv (C : Consts) (hw : 1 ≤ C.window) (order : List Key) (s : State ℚ)
    (hinv : Inv s) (ht : 0 < s.target) : Inv (updateRates Q C order s) := by
  intro g hg
  have h := (updateRates_spec C hw order s hinv ht).1 g hg
  exact ⟨fun _ => h.2.1, h.2.2.1.le, fun _ => h.2.2.1, h.2.2.2.1, h.2.2.2.2⟩

theorem observeN_target (s : State ℚ) (gid : Key) (n : Nat) : (observeN Q s gid n).target = s.target := by
  induction n generalizing s with
  | zero => rfl
  | succ n ih => rw [observeN, ih]; rfl

theorem observeN_cur (s : State ℚ) (gid : Key) (n : Nat) : (observeN Q s gid n).cur = s.cur + n := by
  induction n generalizing s with
  | zero => rfl
  | succ n ih => rw [observeN, ih]; simp only [observe]; omega

theorem updateRates_target (C : Consts) (order : List Key) (s : State ℚ) :
    (updateRates Q C order s).target = s.target ∧ (updateRates Q C order s).cur = 0 := by
  simp only [updateRates]; split <;> exact ⟨rfl, rfl⟩

theorem step_inv (C : Consts) (hw : 1 ≤ C.window) (s : State ℚ) (op : Op)
    (hinv : Inv s) (ht : 0 < s.target) :
    Inv (step Q C s op) ∧ (step Q C s op).target = s.target := by
  cases op with
  | obs gid => exact ⟨(observe_inv s gid hinv).1, rfl⟩
  | obsN gid n => exact ⟨observeN_inv s gid n hinv, observeN_target s gid n⟩
  | endInterval order => exact ⟨updateRates_inv C hw order s hinv ht, (updateRates_target C order s).1⟩

theorem run_inv (C : Consts) (hw : 1 ≤ C.window) (s : State ℚ) (ops : List Op)
    (hinv : Inv s) (ht : 0 < s.target) :
    Inv (run Q C s ops) ∧ (run Q C s ops).target = s.target := by
  induction ops generalizing s with
  | nil => exact ⟨hinv, rfl⟩
  | cons op ops ih =>
    have h := step_inv C hw s op hinv ht
    have := ih (step Q C s op) h.1 (h.2 ▸ ht)
    exact ⟨this.1, this.2.trans h.2⟩

end Sampling
