import Model.Emf
/-!
# C14 — formatting one entry never depends on entries formatted before it

The model (`Model/Emf.lean`) keeps between calls exactly what the Rust `State` keeps: six prefixed
string buffers and the dimension-set map. The theorems below say that the observable result of a
call (accept / reject with its error list / I/O failure, and every byte handed to the writer) is
the same from ANY state reachable by ANY sequence of earlier calls (accepted, rejected, split,
sampled with any multiplicity, with an invalid rate, I/O-failed after any number of bytes) as from
the freshly built formatter.

Proof: (1) every buffer always starts with its fixed prefix and `prefix_len` never changes
(`State.WF`, an invariant of `format`: buffers are only appended to, cleared, or truncated back to a
length they had earlier in the same call); (2) four buffers and the map are cleared at the start of
a call, so the call starts from the fresh state except for `counts_buf` and `dimensions_buf`;
(3) those two are cleared before their first read (`writeMetricValue_counts`, `finishGlobal_dims`),
so two writers that differ only there (`Sim`) stay so through every writer call and produce the
same output in `finish`.
-/
namespace Emf
open Json

/-! ### Prefixed buffers -/

/-- the buffer starts with `pre` and `prefix_len = pre.len()` -/
def PBuf.WF (pre : Bytes) (b : PBuf) : Prop := b.prefixLen = pre.length ∧ ∃ rest, b.buf = pre ++ rest

/-- `b'` is `b` with bytes appended -/
def PBuf.Ext (b b' : PBuf) : Prop := b'.prefixLen = b.prefixLen ∧ ∃ x, b'.buf = b.buf ++ x

theorem PBuf.WF.new (pre : Bytes) : (PBuf.new pre).WF pre := ⟨rfl, [], by simp [PBuf.new]⟩

theorem PBuf.WF.clear_eq {pre : Bytes} {b : PBuf} (h : b.WF pre) : b.clear = PBuf.new pre := by
  obtain ⟨h1, rest, h2⟩ := h
  simp [PBuf.clear, PBuf.new, h1, h2]

theorem PBuf.WF.clear {pre : Bytes} {b : PBuf} (h : b.WF pre) : b.clear.WF pre := by
  rw [h.clear_eq]; exact PBuf.WF.new pre

theorem PBuf.Ext.refl (b : PBuf) : b.Ext b := ⟨rfl, [], by simp⟩

theorem PBuf.Ext.trans {a b c : PBuf} (h1 : a.Ext b) (h2 : b.Ext c) : a.Ext c := by
  obtain ⟨p1, x, e1⟩ := h1
  obtain ⟨p2, y, e2⟩ := h2
  exact ⟨by rw [p2, p1], x ++ y, by rw [e2, e1, List.append_assoc]⟩

theorem PBuf.Ext.wf {pre : Bytes} {b b' : PBuf} (h : b.Ext b') (hw : b.WF pre) : b'.WF pre := by
  obtain ⟨p, x, e⟩ := h
  obtain ⟨h1, rest, h2⟩ := hw
  exact ⟨by rw [p, h1], rest ++ x, by rw [e, h2, List.append_assoc]⟩

theorem PBuf.ext_push (b : PBuf) (c : Nat) : b.Ext (b.push c) := ⟨rfl, [c], rfl⟩
theorem PBuf.ext_pushRaw (b : PBuf) (s : Bytes) : b.Ext (b.pushRaw s) := ⟨rfl, s, rfl⟩
theorem PBuf.ext_pushInt (b : PBuf) (n : Nat) : b.Ext (b.pushInt n) := ⟨rfl, _, rfl⟩
theorem PBuf.ext_jsonString (b : PBuf) (s : Bytes) : b.Ext (b.jsonString s) := ⟨rfl, _, rfl⟩
theorem PBuf.ext_extendFromWithin (b : PBuf) (i j : Nat) : b.Ext (b.extendFromWithin i j) := ⟨rfl, _, rfl⟩

/-- truncating an extended buffer to the old length restores the old buffer -/
theorem PBuf.Ext.truncate {b b' : PBuf} (h : b.Ext b') : b'.truncate b.buf.length = b := by
  obtain ⟨p, x, e⟩ := h
  cases b; cases b'
  simp_all [PBuf.truncate]

/-! ### `write_observation`, the observation loop, `write_metric_value`, `write_metric` -/

theorem writeObservation_ext (buf counts : PBuf) (o : Obs) (mult : Option Nat) :
    buf.Ext (writeObservation buf counts o mult).1 ∧ counts.Ext (writeObservation buf counts o mult).2.1 := by
  unfold writeObservation
  split <;> simp only <;>
    first
      | exact ⟨PBuf.ext_pushInt _ _, PBuf.ext_pushInt _ _⟩
      | exact ⟨PBuf.ext_pushRaw _ _, PBuf.ext_pushInt _ _⟩
      | exact ⟨PBuf.Ext.refl _, PBuf.Ext.refl _⟩

/-- a skipped observation writes nothing -/
theorem writeObservation_skip {buf counts : PBuf} {o : Obs} {mult : Option Nat}
    (h : (writeObservation buf counts o mult).2.2 = false) :
    (writeObservation buf counts o mult).1 = buf ∧ (writeObservation buf counts o mult).2.1 = counts := by
  unfold writeObservation at h ⊢
  split <;> simp_all

theorem obsLoop_ext (mult : Option Nat) (obs : List Obs) (buf counts : PBuf) (wrote : Bool) :
    buf.Ext (obsLoop mult obs buf counts wrote).1 ∧ counts.Ext (obsLoop mult obs buf counts wrote).2.1 := by
  induction obs generalizing buf counts wrote with
  | nil => exact ⟨PBuf.Ext.refl _, PBuf.Ext.refl _⟩
  | cons o rest ih =>
    have hb1 : buf.Ext (if wrote then buf.push 44 else buf) := by
      split
      · exact PBuf.ext_push _ _
      · exact PBuf.Ext.refl _
    have hc1 : counts.Ext (if wrote then counts.push 44 else counts) := by
      split
      · exact PBuf.ext_push _ _
      · exact PBuf.Ext.refl _
    have hw := writeObservation_ext (if wrote then buf.push 44 else buf)
      (if wrote then counts.push 44 else counts) o mult
    unfold obsLoop
    simp only
    split
    · rename_i buf2 counts2 heq
      rw [heq] at hw
      have := ih buf2 counts2 true
      exact ⟨(hb1.trans hw.1).trans this.1, (hc1.trans hw.2).trans this.2⟩
    · rename_i buf2 counts2 heq
      rw [heq] at hw
      rw [(hb1.trans hw.1).truncate, (hc1.trans hw.2).truncate]
      exact ih buf counts wrote

theorem writeValues_ext (buf counts : PBuf) (first : Obs) (rest : List Obs) (mult : Option Nat) :
    buf.Ext (writeValues buf counts first rest mult).1 := by
  unfold writeValues
  simp only
  have h1 := writeObservation_ext (buf.pushRaw (bytes! "{\"Values\":[")) counts.clear first mult
  have h2 := obsLoop_ext mult rest (writeObservation (buf.pushRaw (bytes! "{\"Values\":[")) counts.clear first mult).1
    (writeObservation (buf.pushRaw (bytes! "{\"Values\":[")) counts.clear first mult).2.1
    (writeObservation (buf.pushRaw (bytes! "{\"Values\":[")) counts.clear first mult).2.2
  exact ((((PBuf.ext_pushRaw _ _).trans h1.1).trans h2.1).trans (PBuf.ext_pushRaw _ _)).trans (PBuf.ext_pushRaw _ _)

theorem writeValues_counts_wf (buf : PBuf) {counts : PBuf} (h : counts.WF countsPrefix) (first : Obs)
    (rest : List Obs) (mult : Option Nat) :
    (writeValues buf counts first rest mult).2.1.WF countsPrefix := by
  unfold writeValues
  simp only
  have h1 := writeObservation_ext (buf.pushRaw (bytes! "{\"Values\":[")) counts.clear first mult
  have h2 := obsLoop_ext mult rest (writeObservation (buf.pushRaw (bytes! "{\"Values\":[")) counts.clear first mult).1
    (writeObservation (buf.pushRaw (bytes! "{\"Values\":[")) counts.clear first mult).2.1
    (writeObservation (buf.pushRaw (bytes! "{\"Values\":[")) counts.clear first mult).2.2
  exact ((h1.2.trans h2.2).wf h.clear).clear

/-- `counts_buf` is cleared before its first read: the result depends on it only through its prefix -/
theorem writeValues_counts (buf : PBuf) {c c' : PBuf} (h : c.WF countsPrefix) (h' : c'.WF countsPrefix)
    (first : Obs) (rest : List Obs) (mult : Option Nat) :
    writeValues buf c first rest mult = writeValues buf c' first rest mult := by
  unfold writeValues
  simp only [h.clear_eq, h'.clear_eq]

theorem writeMetricValue_ext (name : Bytes) (fields counts : PBuf) (first : Obs) (rest : List Obs)
    (mult : Option Nat) : fields.Ext (writeMetricValue name fields counts first rest mult).1 := by
  have h0 : fields.Ext (((fields.push 44).jsonString name).push 58) :=
    ((PBuf.ext_push _ _).trans (PBuf.ext_jsonString _ _)).trans (PBuf.ext_push _ _)
  unfold writeMetricValue
  simp only
  split
  · exact h0.trans (PBuf.ext_pushInt _ _)
  · exact h0.trans (PBuf.ext_pushRaw _ _)
  · exact h0
  · exact h0.trans (writeValues_ext _ _ _ _ _)

theorem writeMetricValue_counts (name : Bytes) (fields : PBuf) {c c' : PBuf} (h : c.WF countsPrefix)
    (h' : c'.WF countsPrefix) (first : Obs) (rest : List Obs) (mult : Option Nat) :
    (writeMetricValue name fields c first rest mult).1 = (writeMetricValue name fields c' first rest mult).1 ∧
    (writeMetricValue name fields c first rest mult).2.2 = (writeMetricValue name fields c' first rest mult).2.2 ∧
    (writeMetricValue name fields c first rest mult).2.1.WF countsPrefix := by
  unfold writeMetricValue
  simp only
  split
  · exact ⟨rfl, rfl, h⟩
  · exact ⟨rfl, rfl, h⟩
  · exact ⟨rfl, rfl, h⟩
  · rw [writeValues_counts _ h h']
    exact ⟨rfl, rfl, writeValues_counts_wf _ h' _ _ _⟩

theorem writeMetric_ext (name : Bytes) (fields metrics counts : PBuf) (obs : List Obs) (unit : Option Bytes)
    (flags : Flags) (mult : Option Nat) :
    fields.Ext (writeMetric name fields metrics counts obs unit flags mult).1 ∧
    metrics.Ext (writeMetric name fields metrics counts obs unit flags mult).2.1 := by
  unfold writeMetric
  split
  · exact ⟨PBuf.Ext.refl _, PBuf.Ext.refl _⟩
  · rename_i first rest
    have h := writeMetricValue_ext name fields counts first rest mult
    split
    · rename_i f' c' heq
      rw [heq] at h
      simp only
      rw [h.truncate]
      exact ⟨PBuf.Ext.refl _, PBuf.Ext.refl _⟩
    · rename_i f' c' heq
      rw [heq] at h
      split
      · exact ⟨h, PBuf.Ext.refl _⟩
      · refine ⟨h, ?_⟩
        simp only
        split
        · exact (PBuf.ext_push _ _).trans (PBuf.ext_pushRaw _ _)
        · exact PBuf.ext_pushRaw _ _

theorem writeMetric_counts (name : Bytes) (fields metrics : PBuf) {c c' : PBuf} (h : c.WF countsPrefix)
    (h' : c'.WF countsPrefix) (obs : List Obs) (unit : Option Bytes) (flags : Flags) (mult : Option Nat) :
    (writeMetric name fields metrics c obs unit flags mult).1 = (writeMetric name fields metrics c' obs unit flags mult).1 ∧
    (writeMetric name fields metrics c obs unit flags mult).2.1 = (writeMetric name fields metrics c' obs unit flags mult).2.1 ∧
    (writeMetric name fields metrics c obs unit flags mult).2.2.WF countsPrefix := by
  unfold writeMetric
  split
  · exact ⟨rfl, rfl, h⟩
  · rename_i first rest
    obtain ⟨e1, e2, w⟩ := writeMetricValue_counts name fields h h' first rest mult
    generalize writeMetricValue name fields c first rest mult = r at *
    generalize writeMetricValue name fields c' first rest mult = r' at *
    obtain ⟨f, cn, ok⟩ := r
    obtain ⟨f', cn', ok'⟩ := r'
    simp only at e1 e2 w
    subst e1 e2
    cases ok
    · exact ⟨rfl, rfl, w⟩
    · simp only
      split
      · exact ⟨rfl, rfl, w⟩
      · exact ⟨rfl, rfl, w⟩

/-! ### Writers that differ only in `counts_buf` / `dimensions_buf` -/

/-- `w` with `counts_buf` and `dimensions_buf` replaced -/
def Writer.withCD (w : Writer) (cb db : PBuf) : Writer :=
  { w with st := { w.st with countsBuf := cb, dimensionsBuf := db } }

@[simp] theorem withCD_vmap (w : Writer) (cb db : PBuf) : (w.withCD cb db).vmap = w.vmap := rfl
@[simp] theorem withCD_entryDims (w : Writer) (cb db : PBuf) : (w.withCD cb db).entryDims = w.entryDims := rfl
@[simp] theorem withCD_timestamp (w : Writer) (cb db : PBuf) : (w.withCD cb db).timestamp = w.timestamp := rfl
@[simp] theorem withCD_errors (w : Writer) (cb db : PBuf) : (w.withCD cb db).errors = w.errors := rfl
@[simp] theorem withCD_allowSplit (w : Writer) (cb db : PBuf) : (w.withCD cb db).allowSplit = w.allowSplit := rfl
@[simp] theorem withCD_unroutable (w : Writer) (cb db : PBuf) : (w.withCD cb db).unroutable = w.unroutable := rfl
@[simp] theorem withCD_dimMap (w : Writer) (cb db : PBuf) : (w.withCD cb db).st.dimMap = w.st.dimMap := rfl
@[simp] theorem withCD_counts (w : Writer) (cb db : PBuf) : (w.withCD cb db).st.countsBuf = cb := rfl
@[simp] theorem withCD_dims (w : Writer) (cb db : PBuf) : (w.withCD cb db).st.dimensionsBuf = db := rfl
@[simp] theorem withCD_fields (w : Writer) (cb db : PBuf) : (w.withCD cb db).st.fieldsBuf = w.st.fieldsBuf := rfl
@[simp] theorem withCD_metrics (w : Writer) (cb db : PBuf) : (w.withCD cb db).st.metricsBuf = w.st.metricsBuf := rfl
@[simp] theorem withCD_withCD (w : Writer) (a b cb db : PBuf) : (w.withCD a b).withCD cb db = w.withCD cb db := rfl

theorem validateName_withCD (c : Consts) (w : Writer) (cb db : PBuf) (name : Bytes) :
    validateName c (w.withCD cb db) name =
      ((validateName c w name).1.withCD cb db, (validateName c w name).2) := by
  unfold validateName
  split
  · split
    · rfl
    · split <;> rfl
  · rfl

theorem validateString_withCD (w : Writer) (cb db : PBuf) (name : Bytes) :
    validateString (w.withCD cb db) name = (validateString w name).withCD cb db := by
  unfold validateString
  simp only [withCD_vmap]
  cases h : w.vmap.find? name with
  | none => rfl
  | some k => cases k <;> rfl

theorem valueString_withCD (c : Consts) (w : Writer) (cb db : PBuf) (name s : Bytes) :
    valueString c (w.withCD cb db) name s = (valueString c w name s).withCD cb db := by
  unfold valueString
  have : pushStringField (w.withCD cb db) name s = (pushStringField w name s).withCD cb db := rfl
  rw [this]
  split
  · exact validateString_withCD _ cb db name
  · rfl

theorem validateMetric_withCD (w : Writer) (cb db : PBuf) (name : Bytes) (i : Nat) :
    validateMetric (w.withCD cb db) name i = (validateMetric w name i).withCD cb db := by
  unfold validateMetric
  simp only [withCD_vmap]
  cases h : w.vmap.find? name with
  | none => rfl
  | some k =>
    cases k with
    | metric idxs => simp only; split <;> rfl
    | _ => rfl

theorem metricCheck_withCD (c : Consts) (w : Writer) (cb db : PBuf) (name : Bytes) (i : Nat) :
    metricCheck c (w.withCD cb db) name i = (metricCheck c w name i).withCD cb db := by
  unfold metricCheck
  simp only [withCD_unroutable]
  by_cases h : (!c.validation.skipUnique && !w.unroutable) = true
  · simp only [h, ↓reduceIte]; exact validateMetric_withCD _ _ _ _ _
  · simp only [h, Bool.false_eq_true, ↓reduceIte]

theorem metricPreCheck_withCD (c : Consts) (w : Writer) (cb db : PBuf) (dims : List (Bytes × Bytes)) :
    metricPreCheck c (w.withCD cb db) dims = (metricPreCheck c w dims).withCD cb db := by
  unfold metricPreCheck
  simp only [withCD_allowSplit]
  by_cases h : (!(c.allowIgnored || dims.isEmpty) && !w.allowSplit) = true
  · simp only [h, ↓reduceIte]; rfl
  · simp only [h, Bool.false_eq_true, ↓reduceIte]

/-- `counts_buf` is cleared before its first read (global buffers) -/
theorem metricGlobalWrite_withCD (mult : Option Nat) (w : Writer) {cb : PBuf} (db : PBuf)
    (hcb : cb.WF countsPrefix) (hw : w.st.countsBuf.WF countsPrefix)
    (name : Bytes) (obs : List Obs) (unit : Option Bytes) (flags : Flags) :
    ∃ cb', cb'.WF countsPrefix ∧
      (metricGlobalWrite mult w name obs unit flags).st.countsBuf.WF countsPrefix ∧
      (metricGlobalWrite mult w name obs unit flags).st.dimensionsBuf = w.st.dimensionsBuf ∧
      metricGlobalWrite mult (w.withCD cb db) name obs unit flags =
        (metricGlobalWrite mult w name obs unit flags).withCD cb' db := by
  obtain ⟨e1, e2, w1⟩ := writeMetric_counts name w.st.fieldsBuf w.st.metricsBuf hcb hw obs unit flags mult
  obtain ⟨-, -, w2⟩ := writeMetric_counts name w.st.fieldsBuf w.st.metricsBuf hw hcb obs unit flags mult
  refine ⟨_, w1, w2, rfl, ?_⟩
  unfold metricGlobalWrite
  simp only [withCD_fields, withCD_metrics, withCD_counts, e1, e2]
  rfl

theorem metricSplitWrite_withCD (mult : Option Nat) (w : Writer) {cb : PBuf} (db : PBuf)
    (hcb : cb.WF countsPrefix) (hw : w.st.countsBuf.WF countsPrefix) (entry : DimEntry)
    (name : Bytes) (obs : List Obs) (unit : Option Bytes) (flags : Flags) :
    ∃ cb', cb'.WF countsPrefix ∧
      (metricSplitWrite mult w entry name obs unit flags).st.countsBuf.WF countsPrefix ∧
      (metricSplitWrite mult w entry name obs unit flags).st.dimensionsBuf = w.st.dimensionsBuf ∧
      metricSplitWrite mult (w.withCD cb db) entry name obs unit flags =
        (metricSplitWrite mult w entry name obs unit flags).withCD cb' db := by
  obtain ⟨e1, e2, w1⟩ := writeMetric_counts name entry.fieldsBuf entry.metricsBuf hcb hw obs unit flags mult
  obtain ⟨-, -, w2⟩ := writeMetric_counts name entry.fieldsBuf entry.metricsBuf hw hcb obs unit flags mult
  refine ⟨_, w1, w2, rfl, ?_⟩
  unfold metricSplitWrite
  simp only [withCD_dimMap, withCD_counts, e1, e2]
  rfl

theorem metricCheck_counts (c : Consts) (w : Writer) (name : Bytes) (i : Nat) :
    (metricCheck c w name i).st = w.st := by
  unfold metricCheck validateMetric
  split
  · cases h : w.vmap.find? name with
    | none => rfl
    | some k =>
      cases k with
      | metric idxs => simp only; split <;> rfl
      | _ => rfl
  · rfl

theorem metricPreCheck_st (c : Consts) (w : Writer) (dims : List (Bytes × Bytes)) :
    (metricPreCheck c w dims).st = w.st := by
  unfold metricPreCheck
  split <;> rfl

/-- `ValueWriter::metric` reads `counts_buf` only after clearing it -/
theorem valueMetric_withCD (c : Consts) (mult : Option Nat) (w : Writer) {cb : PBuf} (db : PBuf)
    (hcb : cb.WF countsPrefix) (hw : w.st.countsBuf.WF countsPrefix)
    (name : Bytes) (obs : List Obs) (unit : Option Bytes) (dims : List (Bytes × Bytes)) (flags : Flags) :
    ∃ cb', cb'.WF countsPrefix ∧
      (valueMetric c mult w name obs unit dims flags).st.countsBuf.WF countsPrefix ∧
      (valueMetric c mult w name obs unit dims flags).st.dimensionsBuf = w.st.dimensionsBuf ∧
      valueMetric c mult (w.withCD cb db) name obs unit dims flags =
        (valueMetric c mult w name obs unit dims flags).withCD cb' db := by
  unfold valueMetric
  rw [metricPreCheck_withCD]
  have hw1 : (metricPreCheck c w dims).st.countsBuf.WF countsPrefix := by rw [metricPreCheck_st]; exact hw
  have hd1 : (metricPreCheck c w dims).st.dimensionsBuf = w.st.dimensionsBuf := by rw [metricPreCheck_st]
  rw [← hd1]
  generalize metricPreCheck c w dims = w1 at *
  unfold valueMetricCore
  split
  · rw [metricCheck_withCD]
    have hw2 : (metricCheck c w1 name 0).st.countsBuf.WF countsPrefix := by rw [metricCheck_counts]; exact hw1
    have hd2 : (metricCheck c w1 name 0).st.dimensionsBuf = w1.st.dimensionsBuf := by rw [metricCheck_counts]
    rw [← hd2]
    exact metricGlobalWrite_withCD mult _ db hcb hw2 name obs unit flags
  · simp only
    have he : dimEntryFor c (w1.withCD cb db) (dimKeyOf dims) = dimEntryFor c w1 (dimKeyOf dims) := rfl
    rw [he, metricCheck_withCD]
    generalize dimEntryFor c w1 (dimKeyOf dims) = entry
    have hw2 : (metricCheck c w1 name entry.index).st.countsBuf.WF countsPrefix := by
      rw [metricCheck_counts]; exact hw1
    have hd2 : (metricCheck c w1 name entry.index).st.dimensionsBuf = w1.st.dimensionsBuf := by
      rw [metricCheck_counts]
    rw [← hd2]
    exact metricSplitWrite_withCD mult _ db hcb hw2 entry name obs unit flags

/-- the common shape of the per-call lemmas: running `f` on a writer whose `counts_buf` /
`dimensions_buf` were replaced gives the same writer up to `counts_buf` / `dimensions_buf` -/
def CommutesCD (_cfg : Config) (f : Writer → Writer) : Prop :=
  ∀ (w : Writer) (cb db : PBuf), cb.WF countsPrefix → w.st.countsBuf.WF countsPrefix →
    ∃ cb', cb'.WF countsPrefix ∧ (f w).st.countsBuf.WF countsPrefix ∧
      (f w).st.dimensionsBuf = w.st.dimensionsBuf ∧ f (w.withCD cb db) = (f w).withCD cb' db

theorem CommutesCD.of_plain {cfg : Config} {f : Writer → Writer}
    (h1 : ∀ w cb db, f (w.withCD cb db) = (f w).withCD cb db)
    (h2 : ∀ w, (f w).st.countsBuf = w.st.countsBuf ∧ (f w).st.dimensionsBuf = w.st.dimensionsBuf) :
    CommutesCD cfg f := by
  intro w cb db hcb hw
  exact ⟨cb, hcb, by rw [(h2 w).1]; exact hw, (h2 w).2, h1 w cb db⟩

theorem entryDimsValidate_withCD (c : Consts) (w : Writer) (cb db : PBuf) (dim : Bytes) :
    entryDimsValidate c (w.withCD cb db) dim = (entryDimsValidate c w dim).withCD cb db := by
  unfold entryDimsValidate
  simp only [withCD_vmap]
  cases h : w.vmap.find? dim with
  | none => rfl
  | some k =>
    cases k with
    | metric idxs => simp only; split <;> rfl
    | _ => rfl

theorem entryDimsValidate_st (c : Consts) (w : Writer) (dim : Bytes) :
    (entryDimsValidate c w dim).st = w.st := by
  unfold entryDimsValidate
  cases h : w.vmap.find? dim with
  | none => rfl
  | some k =>
    cases k with
    | metric idxs => simp only; split <;> rfl
    | _ => rfl

theorem foldl_entryDimsValidate_withCD (c : Consts) (dims : List Bytes) (w : Writer) (cb db : PBuf) :
    dims.foldl (entryDimsValidate c) (w.withCD cb db) = (dims.foldl (entryDimsValidate c) w).withCD cb db := by
  induction dims generalizing w with
  | nil => rfl
  | cons d rest ih => simp only [List.foldl_cons, entryDimsValidate_withCD, ih]

theorem foldl_entryDimsValidate_st (c : Consts) (dims : List Bytes) (w : Writer) :
    (dims.foldl (entryDimsValidate c) w).st = w.st := by
  induction dims generalizing w with
  | nil => rfl
  | cons d rest ih => simp only [List.foldl_cons, ih, entryDimsValidate_st]

theorem configEntryDims_withCD (c : Consts) (w : Writer) (cb db : PBuf) (sets : List (List Bytes)) :
    configEntryDims c (w.withCD cb db) sets = (configEntryDims c w sets).withCD cb db := by
  unfold configEntryDims
  simp only [withCD_dimMap, withCD_entryDims]
  by_cases h1 : (!w.st.dimMap.isEmpty) = true
  · simp only [h1, ↓reduceIte]; rfl
  · simp only [h1, Bool.false_eq_true, ↓reduceIte]
    by_cases h2 : w.entryDims.isSome = true
    · simp only [h2, ↓reduceIte]; rfl
    · simp only [h2, Bool.false_eq_true, ↓reduceIte]
      by_cases h3 : sets.isEmpty = true
      · simp only [h3, ↓reduceIte]; rfl
      · simp only [h3, Bool.false_eq_true, ↓reduceIte]
        by_cases h4 : (!c.validation.skipUnique || !c.validation.skipDimsExist) = true
        · simp only [h4, ↓reduceIte, foldl_entryDimsValidate_withCD]; rfl
        · simp only [h4, Bool.false_eq_true, ↓reduceIte]; rfl

theorem configEntryDims_st (c : Consts) (w : Writer) (sets : List (List Bytes)) :
    (configEntryDims c w sets).st = w.st := by
  unfold configEntryDims
  split
  · rfl
  · split
    · rfl
    · split
      · rfl
      · simp only
        split
        · exact foldl_entryDimsValidate_st _ _ _
        · rfl

theorem validateName_st (c : Consts) (w : Writer) (name : Bytes) : (validateName c w name).1.st = w.st := by
  unfold validateName
  split
  · split
    · rfl
    · split <;> rfl
  · rfl

theorem validateString_st (w : Writer) (name : Bytes) : (validateString w name).st = w.st := by
  unfold validateString
  cases h : w.vmap.find? name with
  | none => rfl
  | some k => cases k <;> rfl

theorem valueString_cd (c : Consts) (w : Writer) (name s : Bytes) :
    (valueString c w name s).st.countsBuf = w.st.countsBuf ∧
    (valueString c w name s).st.dimensionsBuf = w.st.dimensionsBuf := by
  unfold valueString
  split
  · rw [validateString_st]; exact ⟨rfl, rfl⟩
  · exact ⟨rfl, rfl⟩

/-- every writer call commutes with replacing `counts_buf` / `dimensions_buf` -/
theorem applyItem_commutes (cfg : Config) (c : Consts) (mult : Option Nat) (it : Item) :
    CommutesCD cfg (fun w => applyItem c mult w it) := by
  cases it with
  | timestamp t =>
    refine CommutesCD.of_plain (fun w cb db => ?_) (fun w => ?_)
    · simp only [applyItem, withCD_timestamp]
      by_cases h : w.timestamp.isSome = true <;> simp only [h, Bool.false_eq_true, ↓reduceIte] <;> rfl
    · simp only [applyItem]
      by_cases h : w.timestamp.isSome = true <;> simp only [h, Bool.false_eq_true, ↓reduceIte] <;> simp only [Writer.err, and_self]
  | allowSplit => exact CommutesCD.of_plain (fun _ _ _ => rfl) (fun _ => ⟨rfl, rfl⟩)
  | otherCfg => exact CommutesCD.of_plain (fun _ _ _ => rfl) (fun _ => ⟨rfl, rfl⟩)
  | allowUnroutable => exact CommutesCD.of_plain (fun _ _ _ => rfl) (fun _ => ⟨rfl, rfl⟩)
  | entryDims sets =>
    refine CommutesCD.of_plain (fun w cb db => configEntryDims_withCD c w cb db sets) (fun w => ?_)
    simp only [applyItem, configEntryDims_st, and_self]
  | value name v =>
    intro w cb db hcb hw
    simp only [applyItem, value]
    rw [validateName_withCD]
    have hst := validateName_st c w name
    generalize validateName c w name = r at *
    obtain ⟨w1, ok⟩ := r
    simp only at hst
    cases ok with
    | false =>
      simp only
      exact ⟨cb, hcb, by rw [hst]; exact hw, by rw [hst], rfl⟩
    | true =>
      simp only
      have hw1 : w1.st.countsBuf.WF countsPrefix := by rw [hst]; exact hw
      rw [← hst]
      cases v with
      | str s =>
        simp only
        exact ⟨cb, hcb, by rw [(valueString_cd c w1 name s).1]; exact hw1, (valueString_cd c w1 name s).2,
          valueString_withCD c w1 cb db name s⟩
      | metric obs unit dims flags =>
        exact valueMetric_withCD c mult w1 db hcb hw1 name obs unit dims flags
      | error => exact ⟨cb, hcb, hw1, rfl, rfl⟩
      | nothing => exact ⟨cb, hcb, hw1, rfl, rfl⟩

theorem foldl_applyItem_commutes (cfg : Config) (c : Consts) (mult : Option Nat) (items : List Item) :
    CommutesCD cfg (fun w => items.foldl (applyItem c mult) w) := by
  induction items with
  | nil => exact CommutesCD.of_plain (fun _ _ _ => rfl) (fun _ => ⟨rfl, rfl⟩)
  | cons it rest ih =>
    intro w cb db hcb hw
    obtain ⟨cb1, h1, h2, h3, h4⟩ := applyItem_commutes cfg c mult it w cb db hcb hw
    obtain ⟨cb2, g1, g2, g3, g4⟩ := ih (applyItem c mult w it) cb1 db h1 h2
    have h3' : (applyItem c mult w it).st.dimensionsBuf = w.st.dimensionsBuf := h3
    have h4' : applyItem c mult (w.withCD cb db) it = (applyItem c mult w it).withCD cb1 db := h4
    have g3' : (rest.foldl (applyItem c mult) (applyItem c mult w it)).st.dimensionsBuf =
        (applyItem c mult w it).st.dimensionsBuf := g3
    have g4' : rest.foldl (applyItem c mult) ((applyItem c mult w it).withCD cb1 db) =
        (rest.foldl (applyItem c mult) (applyItem c mult w it)).withCD cb2 db := g4
    refine ⟨cb2, g1, g2, ?_, ?_⟩
    · show (rest.foldl (applyItem c mult) (applyItem c mult w it)).st.dimensionsBuf = _
      rw [g3', h3']
    · show rest.foldl (applyItem c mult) (applyItem c mult (w.withCD cb db) it) = _
      rw [h4', g4']; rfl

/-! ### `finish` -/

theorem finishGlobal_dims (cfg : Config) (c : Consts) (s : State) (cb db : PBuf)
    (hs : s.dimensionsBuf.WF (dimensionsPrefix cfg)) (hdb : db.WF (dimensionsPrefix cfg))
    (dims : List Bytes) (out : Out) :
    (finishGlobal c { s with countsBuf := cb, dimensionsBuf := db } dims out).2 = (finishGlobal c s dims out).2 := by
  unfold finishGlobal
  simp only [hs.clear_eq, hdb.clear_eq]

theorem finishWrite_dims (cfg : Config) (c : Consts) (s : State) (cb db : PBuf)
    (hs : s.dimensionsBuf.WF (dimensionsPrefix cfg)) (hdb : db.WF (dimensionsPrefix cfg))
    (dims : List Bytes) (ts : Bytes) (out : Out) :
    (finishWrite c { s with countsBuf := cb, dimensionsBuf := db } dims ts out).2 = (finishWrite c s dims ts out).2 := by
  unfold finishWrite
  simp only
  generalize finishDims c ts (s.stringFieldsBuf.pushRaw (bytes! "}\n")).buf s.dimMap out false = r
  obtain ⟨dm, o, any⟩ := r
  simp only
  split
  · rfl
  · split
    · exact finishGlobal_dims cfg c ⟨dm, _, _, _, s.dimensionsBuf, s.countsBuf, _⟩ cb db hs hdb dims o
    · rfl

/-- `dimensions_buf` is cleared before its first read; `counts_buf` is not read by `finish` -/
theorem finish_withCD (cfg : Config) (c : Consts) (w : Writer) (cb db : PBuf)
    (hs : w.st.dimensionsBuf.WF (dimensionsPrefix cfg)) (hdb : db.WF (dimensionsPrefix cfg))
    (nowMs : Nat) (out : Out) :
    (finish c (w.withCD cb db) nowMs out).2 = (finish c w nowMs out).2 := by
  unfold finish
  have he : finishErrors c (w.withCD cb db) = finishErrors c w := rfl
  simp only [he, withCD_timestamp, withCD_entryDims]
  split
  · rfl
  · exact finishWrite_dims cfg c w.st cb db hs hdb _ _ out

/-! ### The invariant: every buffer keeps its prefix -/

structure State.WF (cfg : Config) (s : State) : Prop where
  sf : s.stringFieldsBuf.WF []
  f : s.fieldsBuf.WF fieldsPrefix
  m : s.metricsBuf.WF metricsPrefix
  d : s.dimensionsBuf.WF (dimensionsPrefix cfg)
  c : s.countsBuf.WF countsPrefix
  decl : s.declBuf.WF (extraDirectivesStr cfg.extraDirectives)

theorem State.WF.fresh (cfg : Config) : (State.fresh cfg).WF cfg :=
  ⟨PBuf.WF.new _, PBuf.WF.new _, PBuf.WF.new _, PBuf.WF.new _, PBuf.WF.new _, PBuf.WF.new _⟩

theorem State.WF.startCall {cfg : Config} {s : State} (h : s.WF cfg) : s.startCall.WF cfg :=
  ⟨h.sf.clear, h.f.clear, h.m.clear, h.d, h.c, h.decl.clear⟩

/-- the clears at the start of a call restore the fresh state, except for `counts_buf` and
`dimensions_buf` -/
theorem State.WF.startCall_eq {cfg : Config} {s : State} (h : s.WF cfg) :
    s.startCall = { State.fresh cfg with countsBuf := s.countsBuf, dimensionsBuf := s.dimensionsBuf } := by
  unfold State.startCall State.fresh
  simp only [h.sf.clear_eq, h.f.clear_eq, h.m.clear_eq, h.decl.clear_eq]

theorem metricGlobalWrite_wf {cfg : Config} (mult : Option Nat) {w : Writer} (h : w.st.WF cfg)
    (name : Bytes) (obs : List Obs) (unit : Option Bytes) (flags : Flags) :
    (metricGlobalWrite mult w name obs unit flags).st.WF cfg := by
  have he := writeMetric_ext name w.st.fieldsBuf w.st.metricsBuf w.st.countsBuf obs unit flags mult
  have hc := (writeMetric_counts name w.st.fieldsBuf w.st.metricsBuf h.c h.c obs unit flags mult).2.2
  exact ⟨h.sf, he.1.wf h.f, he.2.wf h.m, h.d, hc, h.decl⟩

theorem metricSplitWrite_wf {cfg : Config} (mult : Option Nat) {w : Writer} (h : w.st.WF cfg)
    (entry : DimEntry) (name : Bytes) (obs : List Obs) (unit : Option Bytes) (flags : Flags) :
    (metricSplitWrite mult w entry name obs unit flags).st.WF cfg := by
  have hc := (writeMetric_counts name entry.fieldsBuf entry.metricsBuf h.c h.c obs unit flags mult).2.2
  exact ⟨h.sf, h.f, h.m, h.d, hc, h.decl⟩

theorem applyItem_wf {cfg : Config} (c : Consts) (mult : Option Nat) {w : Writer} (h : w.st.WF cfg)
    (it : Item) : (applyItem c mult w it).st.WF cfg := by
  cases it with
  | timestamp t =>
    simp only [applyItem]
    by_cases ht : w.timestamp.isSome = true <;> simp only [ht, Bool.false_eq_true, ↓reduceIte] <;> exact h
  | allowSplit => exact h
  | otherCfg => exact h
  | allowUnroutable => exact h
  | entryDims sets => simp only [applyItem, configEntryDims_st]; exact h
  | value name v =>
    simp only [applyItem, value]
    have hst := validateName_st c w name
    generalize validateName c w name = r at *
    obtain ⟨w1, ok⟩ := r
    simp only at hst
    have h1 : w1.st.WF cfg := by rw [hst]; exact h
    cases ok with
    | false => exact h1
    | true =>
      cases v with
      | str s =>
        simp only
        unfold valueString
        have hp : (pushStringField w1 name s).st.WF cfg :=
          ⟨((((PBuf.ext_push _ _).trans (PBuf.ext_jsonString _ _)).trans (PBuf.ext_push _ _)).trans
              (PBuf.ext_jsonString _ _)).wf h1.sf, h1.f, h1.m, h1.d, h1.c, h1.decl⟩
        split
        · rw [validateString_st]; exact hp
        · exact hp
      | metric obs unit dims flags =>
        simp only
        unfold valueMetric
        have h2 : (metricPreCheck c w1 dims).st.WF cfg := by rw [metricPreCheck_st]; exact h1
        generalize metricPreCheck c w1 dims = w2 at *
        unfold valueMetricCore
        split
        · exact metricGlobalWrite_wf mult (by rw [metricCheck_counts]; exact h2) _ _ _ _
        · exact metricSplitWrite_wf mult (by rw [metricCheck_counts]; exact h2) _ _ _ _ _
      | error => exact h1
      | nothing => exact h1

theorem foldl_applyItem_wf {cfg : Config} (c : Consts) (mult : Option Nat) (items : List Item)
    {w : Writer} (h : w.st.WF cfg) : (items.foldl (applyItem c mult) w).st.WF cfg := by
  induction items generalizing w with
  | nil => exact h
  | cons it rest ih => exact ih (applyItem_wf c mult h it)

theorem pushDimensions_ext (dims : List Bytes) (first : Bool) (b : PBuf) :
    b.Ext (pushDimensions dims first b) := by
  induction dims generalizing first b with
  | nil => exact PBuf.Ext.refl _
  | cons d rest ih =>
    unfold pushDimensions
    refine PBuf.Ext.trans ?_ (ih false _)
    split
    · exact PBuf.ext_pushRaw _ _
    · exact (PBuf.ext_push _ _).trans (PBuf.ext_pushRaw _ _)

theorem replicateNsGlobal_ext (moreNs : List Bytes) (tail : Bytes) (n : Nat) (mb : PBuf) :
    mb.Ext (replicateNsGlobal moreNs tail n mb) := by
  unfold replicateNsGlobal
  induction moreNs generalizing mb with
  | nil => exact PBuf.Ext.refl _
  | cons ns rest ih =>
    simp only [List.foldl_cons]
    exact ((((PBuf.ext_pushRaw _ _).trans (PBuf.ext_pushRaw _ _)).trans (PBuf.ext_pushRaw _ _)).trans
      (PBuf.ext_extendFromWithin _ _ _)).trans (ih _)

theorem finishGlobal_wf {cfg : Config} (c : Consts) {s : State} (h : s.WF cfg) (dims : List Bytes) (out : Out) :
    (finishGlobal c s dims out).1.WF cfg := by
  unfold finishGlobal
  exact ⟨h.sf, h.f, ((PBuf.ext_pushRaw _ _).trans (replicateNsGlobal_ext _ _ _ _)).wf h.m,
    (pushDimensions_ext _ _ _).wf h.d.clear, h.c, h.decl⟩

theorem finishWrite_wf {cfg : Config} (c : Consts) {s : State} (h : s.WF cfg) (dims : List Bytes)
    (ts : Bytes) (out : Out) : (finishWrite c s dims ts out).1.WF cfg := by
  unfold finishWrite
  simp only
  generalize finishDims c ts (s.stringFieldsBuf.pushRaw (bytes! "}\n")).buf s.dimMap out false = r
  obtain ⟨dm, o, any⟩ := r
  simp only
  have h' : State.WF cfg ⟨dm, s.stringFieldsBuf.pushRaw (bytes! "}\n"), s.fieldsBuf, s.metricsBuf,
      s.dimensionsBuf, s.countsBuf, (s.declBuf.pushRaw c.logGroupTs).pushRaw ts⟩ :=
    ⟨(PBuf.ext_pushRaw _ _).wf h.sf, h.f, h.m, h.d, h.c,
      ((PBuf.ext_pushRaw _ _).trans (PBuf.ext_pushRaw _ _)).wf h.decl⟩
  split
  · exact h'
  · split
    · exact finishGlobal_wf c h' dims o
    · exact h'

theorem finish_wf {cfg : Config} (c : Consts) {w : Writer} (h : w.st.WF cfg) (nowMs : Nat) (out : Out) :
    (finish c w nowMs out).1.WF cfg := by
  unfold finish
  simp only
  split
  · exact h
  · exact finishWrite_wf c h _ _ out

/-- the invariant is preserved by every call -/
theorem format_wf {cfg : Config} (c : Consts) {s : State} (h : s.WF cfg) (call : Call) :
    (format c s call).1.WF cfg := by
  unfold format
  split
  · exact h
  · unfold formatWithMultiplicity
    exact finish_wf c (foldl_applyItem_wf c call.mult call.items (w := Writer.start c s) h.startCall) _ _

/-! ### The theorems -/

/-! ### Aborted calls keep the invariant -/

theorem partialWriteMetric_spec (name : Bytes) (fields : PBuf) {counts : PBuf} (hc : counts.WF countsPrefix)
    (yielded : List Obs) (mult : Option Nat) :
    fields.Ext (partialWriteMetric name fields counts yielded mult).1 ∧
    (partialWriteMetric name fields counts yielded mult).2.WF countsPrefix := by
  have h0 : fields.Ext (((fields.push 44).jsonString name).push 58) :=
    ((PBuf.ext_push _ _).trans (PBuf.ext_jsonString _ _)).trans (PBuf.ext_push _ _)
  unfold partialWriteMetric
  split
  · exact ⟨PBuf.Ext.refl _, hc⟩
  · exact ⟨h0, hc⟩
  · rename_i first rest _
    simp only
    have h1 := writeObservation_ext ((((fields.push 44).jsonString name).push 58).pushRaw (bytes! "{\"Values\":["))
      counts.clear first mult
    have h2 := obsLoop_ext mult rest
      (writeObservation ((((fields.push 44).jsonString name).push 58).pushRaw (bytes! "{\"Values\":[")) counts.clear first mult).1
      (writeObservation ((((fields.push 44).jsonString name).push 58).pushRaw (bytes! "{\"Values\":[")) counts.clear first mult).2.1
      (writeObservation ((((fields.push 44).jsonString name).push 58).pushRaw (bytes! "{\"Values\":[")) counts.clear first mult).2.2
    exact ⟨((h0.trans (PBuf.ext_pushRaw _ _)).trans h1.1).trans h2.1, (h1.2.trans h2.2).wf hc.clear⟩

/-- whatever a panicking entry leaves behind, every buffer still starts with its prefix (in
particular `counts_buf`, which an interrupted `Values` loop leaves non-empty) -/
theorem abortedCall_wf {cfg : Config} (c : Consts) {s : State} (h : s.WF cfg) (a : Aborted) :
    (abortedCall c s a).WF cfg := by
  unfold abortedCall
  have hw := foldl_applyItem_wf c a.mult a.items (w := Writer.start c s) h.startCall
  generalize a.items.foldl (applyItem c a.mult) (Writer.start c s) = w at *
  cases a.partialMetric with
  | none => exact hw
  | some p =>
    obtain ⟨name, yielded, dims⟩ := p
    simp only
    have h1 : (metricPreCheck c (validateName c w name).1 dims).st.WF cfg := by
      rw [metricPreCheck_st, validateName_st]; exact hw
    generalize metricPreCheck c (validateName c w name).1 dims = w1 at *
    split
    · have h2 : (metricCheck c w1 name 0).st.WF cfg := by rw [metricCheck_counts]; exact h1
      generalize metricCheck c w1 name 0 = w2 at *
      obtain ⟨e1, e2⟩ := partialWriteMetric_spec name w2.st.fieldsBuf h2.c yielded a.mult
      exact ⟨h2.sf, e1.wf h2.f, h2.m, h2.d, e2, h2.decl⟩
    · have h2 : (metricCheck c w1 name (dimEntryFor c w1 (dimKeyOf dims)).index).st.WF cfg := by
        rw [metricCheck_counts]; exact h1
      generalize metricCheck c w1 name (dimEntryFor c w1 (dimKeyOf dims)).index = w2 at *
      obtain ⟨-, e2⟩ := partialWriteMetric_spec name (dimEntryFor c w1 (dimKeyOf dims)).fieldsBuf h2.c yielded a.mult
      exact ⟨h2.sf, h2.f, h2.m, h2.d, e2, h2.decl⟩

theorem PBuf.clone_eq (b : PBuf) : b.clone = b := rfl

theorem DimEntry.clone_eq (e : DimEntry) : e.clone = e := rfl

/-- the derived `Clone` copies the state unchanged -/
theorem State.clone_eq (s : State) : s.clone = s := by
  cases s
  simp only [State.clone, PBuf.clone_eq, State.mk.injEq, and_true]
  have : DimEntry.clone = id := funext DimEntry.clone_eq
  rw [this, List.map_id]

/-- the states a formatter built from `cfg` can be in: the freshly built one; after any call on a
formatter in a reachable state; the state of a formatter obtained by `Clone` (or moved into
`with_sampling` / a `FormatExt` wrapper, which keep the very same state) from one in a reachable state;
and the state a panicking entry (contained by the caller) leaves a formatter in -/
inductive Reachable (cfg : Config) : State → Prop where
  | fresh : Reachable cfg (State.fresh cfg)
  | step {s : State} (call : Call) : Reachable cfg s → Reachable cfg (format (Consts.ofConfig cfg) s call).1
  | clone {s : State} : Reachable cfg s → Reachable cfg s.clone
  | abort {s : State} (a : Aborted) : Reachable cfg s → Reachable cfg (abortedCall (Consts.ofConfig cfg) s a)

theorem Reachable.wf {cfg : Config} {s : State} (h : Reachable cfg s) : s.WF cfg := by
  induction h with
  | fresh => exact State.WF.fresh cfg
  | step call _ ih => exact format_wf _ ih call
  | clone _ ih => rw [State.clone_eq]; exact ih
  | abort a _ ih => exact abortedCall_wf _ ih a

/-- the result of a call depends on the state only through the fixed buffer prefixes -/
theorem format_of_wf {cfg : Config} (c : Consts) {s : State} (h : s.WF cfg) (call : Call) :
    (format c s call).2 = (format c (State.fresh cfg) call).2 := by
  unfold format
  split
  · rfl
  · unfold formatWithMultiplicity
    have hstart : Writer.start c s = (Writer.start c (State.fresh cfg)).withCD s.countsBuf s.dimensionsBuf := by
      unfold Writer.start Writer.withCD
      simp only [h.startCall_eq, (State.WF.fresh cfg).startCall_eq]
    rw [hstart]
    have hf : (Writer.start c (State.fresh cfg)).st.WF cfg := (State.WF.fresh cfg).startCall
    obtain ⟨cb', -, -, hd, heq⟩ := foldl_applyItem_commutes cfg c call.mult call.items
      (Writer.start c (State.fresh cfg)) s.countsBuf s.dimensionsBuf h.c hf.c
    have heq' : call.items.foldl (applyItem c call.mult)
        ((Writer.start c (State.fresh cfg)).withCD s.countsBuf s.dimensionsBuf) =
        (call.items.foldl (applyItem c call.mult) (Writer.start c (State.fresh cfg))).withCD cb' s.dimensionsBuf := heq
    rw [heq']
    exact finish_withCD cfg c _ cb' s.dimensionsBuf (foldl_applyItem_wf c call.mult call.items hf).d h.d _ _

/-- **C14.** For every configuration, every state reachable by any sequence of `format` /
`format_with_sample_rate` calls (accepted, rejected for any validation defect, split, sampled with
any multiplicity, invalid rate, I/O failure after any number of bytes) and every call: the result
(accept / validation errors / I/O error) and the bytes handed to the writer are exactly those of a
freshly built formatter with the same configuration. -/
theorem c14_history_independent (cfg : Config) {s : State} (h : Reachable cfg s) (call : Call) :
    (format (Consts.ofConfig cfg) s call).2 = (format (Consts.ofConfig cfg) (State.fresh cfg) call).2 :=
  format_of_wf _ h.wf call


/-- the observables of a sequence of calls on one formatter -/
def runCalls (c : Consts) : State → List Call → List (Result × Out)
  | _, [] => []
  | s, call :: rest => (format c s call).2 :: runCalls c (format c s call).1 rest

theorem runCalls_of_reachable (cfg : Config) {s : State} (h : Reachable cfg s) (calls : List Call) :
    runCalls (Consts.ofConfig cfg) s calls =
      calls.map fun call => (format (Consts.ofConfig cfg) (State.fresh cfg) call).2 := by
  induction calls generalizing s with
  | nil => rfl
  | cons call rest ih =>
    simp only [runCalls, List.map_cons]
    rw [c14_history_independent cfg h call, ih (Reachable.step call h)]

/-- **C14, sequence form** (what the harness observes): formatting any sequence of entries on one
formatter yields, at every position, exactly what a fresh formatter yields for that entry alone. -/
theorem c14_sequence (cfg : Config) (calls : List Call) :
    runCalls (Consts.ofConfig cfg) (State.fresh cfg) calls =
      calls.map fun call => (format (Consts.ofConfig cfg) (State.fresh cfg) call).2 :=
  runCalls_of_reachable cfg Reachable.fresh calls

/-- what `runPool` must produce: every call on an existing formatter yields the fresh formatter's
observable; `n` is the current size of the pool -/
def specPool (cfg : Config) : Nat → List PoolOp → List (Result × Out)
  | _, [] => []
  | n, .call k call :: rest =>
    if k < n then (format (Consts.ofConfig cfg) (State.fresh cfg) call).2 :: specPool cfg n rest
    else specPool cfg n rest
  | n, .clone k :: rest => if k < n then specPool cfg (n + 1) rest else specPool cfg n rest
  | n, .abort _ _ :: rest => specPool cfg n rest

theorem runPool_of_reachable (cfg : Config) (pool : List State) (hp : ∀ s ∈ pool, Reachable cfg s)
    (ops : List PoolOp) : runPool (Consts.ofConfig cfg) pool ops = specPool cfg pool.length ops := by
  induction ops generalizing pool with
  | nil => rfl
  | cons op rest ih =>
    cases op with
    | call k call =>
      simp only [runPool, specPool]
      cases hk : pool[k]? with
      | none =>
        have : ¬ k < pool.length := by
          intro h; rw [List.getElem?_eq_getElem h] at hk; cases hk
        simp only [this, ↓reduceIte]
        exact ih pool hp
      | some s =>
        have hlt : k < pool.length := by
          by_cases h : k < pool.length
          · exact h
          · rw [List.getElem?_eq_none (by omega)] at hk; cases hk
        have hs : Reachable cfg s := hp s (List.mem_of_getElem? hk)
        simp only [hlt, ↓reduceIte]
        rw [c14_history_independent cfg hs call]
        congr 1
        have := ih (pool.set k (format (Consts.ofConfig cfg) s call).1) (by
          intro x hx
          rcases List.mem_or_eq_of_mem_set hx with h | h
          · exact hp x h
          · subst h; exact Reachable.step call hs)
        rw [this, List.length_set]
    | clone k =>
      simp only [runPool, specPool]
      cases hk : pool[k]? with
      | none =>
        have : ¬ k < pool.length := by
          intro h; rw [List.getElem?_eq_getElem h] at hk; cases hk
        simp only [this, ↓reduceIte]
        exact ih pool hp
      | some s =>
        have hlt : k < pool.length := by
          by_cases h : k < pool.length
          · exact h
          · rw [List.getElem?_eq_none (by omega)] at hk; cases hk
        have hs : Reachable cfg s := hp s (List.mem_of_getElem? hk)
        simp only [hlt, ↓reduceIte]
        have := ih (pool ++ [s.clone]) (by
          intro x hx
          rcases List.mem_append.mp hx with h | h
          · exact hp x h
          · simp only [List.mem_singleton] at h; subst h; exact Reachable.clone hs)
        rw [this, List.length_append]; rfl
    | abort k a =>
      simp only [runPool, specPool]
      cases hk : pool[k]? with
      | none => exact ih pool hp
      | some s =>
        have hs : Reachable cfg s := hp s (List.mem_of_getElem? hk)
        simp only
        have := ih (pool.set k (abortedCall (Consts.ofConfig cfg) s a)) (by
          intro x hx
          rcases List.mem_or_eq_of_mem_set hx with h | h
          · exact hp x h
          · subst h; exact Reachable.abort a hs)
        rw [this, List.length_set]

/-- **C14 with clones and panicking entries** (what the harness observes): start with one freshly
built formatter; in any order format entries on any formatter of the pool, clone any formatter of the
pool (a clone of a used formatter, of a clone, of a never-used one …) and let entries panic mid-way on
any formatter (after any number of completed fields, after any number of observations of a
distribution). Every completed call, on the original or on any clone, yields exactly what a freshly
built formatter yields for that entry alone. -/
theorem c14_clones (cfg : Config) (ops : List PoolOp) :
    runPool (Consts.ofConfig cfg) [State.fresh cfg] ops = specPool cfg 1 ops :=
  runPool_of_reachable cfg [State.fresh cfg] (by
    intro s hs; simp only [List.mem_singleton] at hs; subst hs; exact Reachable.fresh) ops

/-- **C14, state form**: the invariant behind the theorem — after any history every buffer still
starts with its fixed prefix, so the `assert!(combined_len >= prefix_len)` of `truncate` and the
slicing at `after_namespace_index` are never out of range. -/
theorem c14_prefixes_kept (cfg : Config) {s : State} (h : Reachable cfg s) : s.WF cfg := h.wf

/-! ### The iteration order of the dimension-set map only permutes the split records

The real `dimension_set_map` is a hash map: `values_mut()` visits the entries in an order that may
depend on capacity and therefore on history. The model visits them in insertion order. The lemmas
below show that, for a writer that does not fail, visiting the entries in any other order yields the
same records up to their order (and the same decision about the "no-dimensions" record). -/

/-- the record written for one entry (`none`: "skip metric line with no metrics") -/
def entryLine (c : Consts) (ts sf : Bytes) (e : DimEntry) : Option Bytes :=
  if e.fieldsBuf.isEmpty then none
  else some [(finishEntryMetrics c ts e).buf, e.fieldsBuf.buf, sf].flatten

theorem finishDims_lines (c : Consts) (ts sf : Bytes) (dm : List DimEntry) (bytes0 : Bytes) (any : Bool) :
    (finishDims c ts sf dm ⟨none, bytes0, false⟩ any).2.1 =
      ⟨none, bytes0 ++ (dm.filterMap (entryLine c ts sf)).flatten, false⟩ ∧
    (finishDims c ts sf dm ⟨none, bytes0, false⟩ any).2.2 =
      (any || !(dm.filterMap (entryLine c ts sf)).isEmpty) := by
  induction dm generalizing bytes0 any with
  | nil => simp [finishDims]
  | cons e rest ih =>
    unfold finishDims
    simp only
    cases hemp : e.fieldsBuf.isEmpty with
    | true =>
      have hl : entryLine c ts sf e = none := by simp [entryLine, hemp]
      simp only [↓reduceIte, List.filterMap_cons, hl]
      exact ih bytes0 any
    | false =>
      have hl : entryLine c ts sf e = some [(finishEntryMetrics c ts e).buf, e.fieldsBuf.buf, sf].flatten := by
        simp [entryLine, hemp]
      have hw : Out.writeAll ⟨none, bytes0, false⟩ [(finishEntryMetrics c ts e).buf, e.fieldsBuf.buf, sf] =
          ⟨none, bytes0 ++ [(finishEntryMetrics c ts e).buf, e.fieldsBuf.buf, sf].flatten, false⟩ := rfl
      simp only [Bool.false_eq_true, ↓reduceIte, List.filterMap_cons, hl, hw]
      obtain ⟨h1, h2⟩ := ih (bytes0 ++ [(finishEntryMetrics c ts e).buf, e.fieldsBuf.buf, sf].flatten) true
      rw [h1, h2]
      simp [List.append_assoc]

/-- the records written by `finish` (after validation passed) to a writer that never fails, as a list -/
def recordLines (c : Consts) (st : State) (dims : List Bytes) (ts : Bytes) : List Bytes :=
  let sf := st.stringFieldsBuf.buf ++ bytes! "}\n"
  let split := st.dimMap.filterMap (entryLine c ts sf)
  if split.isEmpty || !st.fieldsBuf.isEmpty then
    split ++ [(finishGlobal c
      { st with declBuf := (st.declBuf.pushRaw c.logGroupTs).pushRaw ts,
                stringFieldsBuf := st.stringFieldsBuf.pushRaw (bytes! "}\n") } dims ⟨none, [], false⟩).2.2.bytes]
  else split

theorem finishGlobal_bytes (c : Consts) (st : State) (dims : List Bytes) (b : Bytes) :
    (finishGlobal c st dims ⟨none, b, false⟩).2 =
      (.ok, ⟨none, b ++ (finishGlobal c st dims ⟨none, [], false⟩).2.2.bytes, false⟩) := by
  unfold finishGlobal
  simp [Out.writeAll]

theorem finishGlobal_dimMap (c : Consts) (st : State) (dm : List DimEntry) (dims : List Bytes) (o : Out) :
    (finishGlobal c { st with dimMap := dm } dims o).2 = (finishGlobal c st dims o).2 := rfl

/-- what `finish` writes is the concatenation of `recordLines` -/
theorem finishWrite_recordLines (c : Consts) (st : State) (dims : List Bytes) (ts : Bytes) :
    (finishWrite c st dims ts ⟨none, [], false⟩).2 =
      (.ok, ⟨none, (recordLines c st dims ts).flatten, false⟩) := by
  unfold finishWrite recordLines
  simp only
  obtain ⟨h1, h2⟩ := finishDims_lines c ts (st.stringFieldsBuf.pushRaw (bytes! "}\n")).buf st.dimMap [] false
  generalize finishDims c ts (st.stringFieldsBuf.pushRaw (bytes! "}\n")).buf st.dimMap ⟨none, [], false⟩ false = r at *
  obtain ⟨dm', o1, any⟩ := r
  simp only at h1 h2
  subst h1 h2
  have hsf : (st.stringFieldsBuf.pushRaw (bytes! "}\n")).buf = st.stringFieldsBuf.buf ++ bytes! "}\n" := rfl
  simp only [hsf, Bool.false_eq_true, ↓reduceIte, Bool.false_or, List.nil_append, Bool.not_not]
  split
  · rw [finishGlobal_bytes]
    simp only [List.flatten_append, List.flatten_cons, List.flatten_nil, List.append_nil]
    rfl
  · rfl

/-- **C14, iteration order.** If the dimension-set map is visited in another order (any permutation
of its entries), the records written are the same up to their order, and the result is the same. -/
theorem c14_map_order_irrelevant (c : Consts) (st : State) (dm' : List DimEntry) (hp : dm'.Perm st.dimMap)
    (dims : List Bytes) (ts : Bytes) :
    (recordLines c { st with dimMap := dm' } dims ts).Perm (recordLines c st dims ts) ∧
    (finishWrite c { st with dimMap := dm' } dims ts ⟨none, [], false⟩).2.1 =
      (finishWrite c st dims ts ⟨none, [], false⟩).2.1 := by
  refine ⟨?_, by rw [finishWrite_recordLines, finishWrite_recordLines]⟩
  unfold recordLines
  simp only
  have hperm := hp.filterMap (entryLine c ts (st.stringFieldsBuf.buf ++ bytes! "}\n"))
  have hemp : (dm'.filterMap (entryLine c ts (st.stringFieldsBuf.buf ++ bytes! "}\n"))).isEmpty =
      (st.dimMap.filterMap (entryLine c ts (st.stringFieldsBuf.buf ++ bytes! "}\n"))).isEmpty := by
    have hl := hperm.length_eq
    generalize dm'.filterMap (entryLine c ts (st.stringFieldsBuf.buf ++ bytes! "}\n")) = l1 at *
    generalize st.dimMap.filterMap (entryLine c ts (st.stringFieldsBuf.buf ++ bytes! "}\n")) = l2 at *
    cases l1 <;> cases l2 <;> simp_all
  rw [hemp]
  split
  · exact hperm.append_right _
  · exact hperm

/-! ### Non-vacuity -/

def exCfg : Config :=
  { ns0 := bytes! "Ns", moreNs := [bytes! "N2"], defaultDims := [[bytes! "Op"]], logGroup := none,
    allowIgnored := false, extraDirectives := [], validation := ⟨false, false, false⟩ }

/-- a split entry: two strings, a distribution with NaN first and last, a metric with dimensions -/
def exSplit : Call :=
  { items := [.timestamp 1500, .allowSplit, .value (bytes! "Op") (.str (bytes! "a\"b")),
      .value (bytes! "M") (.metric [.floating none, .unsigned 3, .repeated (some (bytes! "2.0")) 4, .floating none]
        none [] .none),
      .value (bytes! "D") (.metric [.unsigned 7] (some (bytes! "Count")) [(bytes! "k", bytes! "v")] .highRes)],
    mult := some 2, badRate := false, nowMs := 0, ioBudget := none }

/-- an entry rejected for a duplicate field and a missing dimension -/
def exBad : Call :=
  { items := [.value (bytes! "M") (.metric [.unsigned 1] none [] .none),
      .value (bytes! "M") (.metric [.unsigned 2] none [] .none)],
    mult := none, badRate := false, nowMs := 0, ioBudget := none }

/-- the hypotheses are met non-trivially: after a split entry the reachable state differs from the
fresh one in five of the seven components (stale buffers and a non-empty map), the entry wrote two
records, and the rejected entry reports both defects. -/
example :
    (format (Consts.ofConfig exCfg) (State.fresh exCfg) exSplit).1 ≠ State.fresh exCfg ∧
    (format (Consts.ofConfig exCfg) (State.fresh exCfg) exSplit).1.dimMap.length = 1 ∧
    (format (Consts.ofConfig exCfg) (State.fresh exCfg) exSplit).2.1 = .ok ∧
    ((format (Consts.ofConfig exCfg) (State.fresh exCfg) exSplit).2.2.bytes.filter (· = 10)).length = 2 ∧
    (format (Consts.ofConfig exCfg) (format (Consts.ofConfig exCfg) (State.fresh exCfg) exSplit).1 exBad).2.1 =
      .validation [.duplicateField, .missingDimension] := by
  decide +kernel

/-- an entry whose distribution iterator panics after three observations leaves `counts_buf` holding
`],"Counts":[1,1,1` — NOT its bare prefix: the only thing between that residue and the next record is
the `counts.clear()` *before* use in `write_metric_value` (`writeValues_counts`); the call after it is
nevertheless exactly the fresh formatter's (instance of `c14_history_independent`, evaluated). -/
example :
    (abortedCall (Consts.ofConfig exCfg) (State.fresh exCfg)
      { items := [.timestamp 1], partialMetric := some (bytes! "M", [.unsigned 5, .unsigned 6, .unsigned 7], []),
        mult := none }).countsBuf.buf = bytes! "],\"Counts\":[1,1,1" ∧
    (format (Consts.ofConfig exCfg) (abortedCall (Consts.ofConfig exCfg) (State.fresh exCfg)
      { items := [.timestamp 1], partialMetric := some (bytes! "M", [.unsigned 5, .unsigned 6, .unsigned 7], []),
        mult := none }) exSplit).2 = (format (Consts.ofConfig exCfg) (State.fresh exCfg) exSplit).2 := by
  decide +kernel

/-- a clone must copy `prefix_len`: the wrong `Clone` that rebuilds every buffer with
`from_prefix(whole buffer)` (`State.cloneAsPrefix`) is NOT history independent — a clone taken after
one accepted entry prepends that entry's leftovers to what it writes; a clone of a never-used
formatter is fine, which is why only sequences "use, clone, use the clone" expose it. -/
example :
    (format (Consts.ofConfig exCfg) (format (Consts.ofConfig exCfg) (State.fresh exCfg) exSplit).1.cloneAsPrefix exSplit).2 ≠
      (format (Consts.ofConfig exCfg) (State.fresh exCfg) exSplit).2 ∧
    (format (Consts.ofConfig exCfg) (State.fresh exCfg).cloneAsPrefix exSplit).2 =
      (format (Consts.ofConfig exCfg) (State.fresh exCfg) exSplit).2 ∧
    ¬ (format (Consts.ofConfig exCfg) (State.fresh exCfg) exSplit).1.cloneAsPrefix.WF exCfg := by
  refine ⟨by decide +kernel, by decide +kernel, ?_⟩
  intro h
  have := h.f.1
  revert this
  decide +kernel

end Emf

#print axioms Emf.c14_history_independent
#print axioms Emf.c14_clones
#print axioms Emf.c14_sequence
#print axioms Emf.c14_prefixes_kept
#print axioms Emf.c14_map_order_irrelevant
