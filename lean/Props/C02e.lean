import Props.C02d
/-!
Lemmas for C02, part e: `finish` — the namespace replication loops, the dimension list, and the shape
of one split record.
-/
namespace Emf
open Json

/-! ### `finish` -/

def nsOpen : Bytes := bytes! ",{\"Namespace\":"

theorem extend_window (X Y : Bytes) (a : Nat) (ha : a ≤ X.length) :
    ((X ++ Y).drop a).take (X.length - a) = X.drop a := by
  rw [List.drop_append_of_le_length ha]
  exact List.take_left' (by simp)

theorem replicateNsEntry_spec (moreNs : List Bytes) (a p : Nat) (X acc : Bytes) (ha : a ≤ X.length) :
    replicateNsEntry moreNs a X.length ⟨p, X ++ acc⟩ =
      ⟨p, X ++ acc ++ (moreNs.map fun ns => nsOpen ++ ns ++ X.drop a).flatten⟩ := by
  unfold replicateNsEntry
  induction moreNs generalizing acc with
  | nil => simp
  | cons ns rest ih =>
    simp only [List.foldl_cons, List.map_cons, List.flatten_cons]
    have : (((PBuf.mk p (X ++ acc)).pushRaw (bytes! ",{\"Namespace\":")).pushRaw ns).extendFromWithin a X.length =
        ⟨p, X ++ (acc ++ nsOpen ++ ns ++ X.drop a)⟩ := by
      simp only [PBuf.pushRaw, PBuf.extendFromWithin]
      have e : X ++ acc ++ bytes! ",{\"Namespace\":" ++ ns = X ++ (acc ++ nsOpen ++ ns) := by simp [nsOpen]
      rw [e, extend_window X _ a ha]
      simp
    rw [this, ih]
    simp

theorem replicateNsGlobal_spec (moreNs : List Bytes) (tail : Bytes) (p : Nat) (X acc : Bytes) :
    replicateNsGlobal moreNs tail X.length ⟨p, X ++ acc⟩ =
      ⟨p, X ++ acc ++ (moreNs.map fun ns => nsOpen ++ ns ++ tail ++ X).flatten⟩ := by
  unfold replicateNsGlobal
  induction moreNs generalizing acc with
  | nil => simp
  | cons ns rest ih =>
    simp only [List.foldl_cons, List.map_cons, List.flatten_cons]
    have : ((((PBuf.mk p (X ++ acc)).pushRaw (bytes! ",{\"Namespace\":")).pushRaw ns).pushRaw tail).extendFromWithin
          0 X.length = ⟨p, X ++ (acc ++ nsOpen ++ ns ++ tail ++ X)⟩ := by
      simp only [PBuf.pushRaw, PBuf.extendFromWithin]
      have e : X ++ acc ++ bytes! ",{\"Namespace\":" ++ ns ++ tail = X ++ (acc ++ nsOpen ++ ns ++ tail) := by
        simp [nsOpen]
      have := extend_window X (acc ++ nsOpen ++ ns ++ tail) 0 (Nat.zero_le _)
      simp only [Nat.sub_zero, List.drop_zero] at this
      rw [e]
      simp only [List.drop_zero, Nat.sub_zero, this]
      simp
    rw [this, ih]
    simp

theorem pushDimensions_spec (dims : List Bytes) (hd : ∀ d ∈ dims, IsVal d) (first : Bool) (p : Nat)
    (pre X : Bytes) (hX : IsItems X) (hf : first = true ↔ X = []) :
    ∃ X', pushDimensions dims first ⟨p, pre ++ X⟩ = ⟨p, pre ++ X'⟩ ∧ IsItems X' := by
  induction dims generalizing first X with
  | nil => exact ⟨X, rfl, hX⟩
  | cons d rest ih =>
    unfold pushDimensions
    have hdv := hd d (by simp)
    cases first with
    | true =>
      have : X = [] := hf.mp rfl
      subst this
      have e : (if true = true then PBuf.mk p (pre ++ []) else (PBuf.mk p (pre ++ [])).push 44).pushRaw d = ⟨p, pre ++ d⟩ := by
        simp [PBuf.pushRaw]
      rw [e]
      exact ih (fun x hx => hd x (by simp [hx])) false d (IsItems.one hdv) (by simp [hdv.ne_nil])
    | false =>
      have hne : X ≠ [] := fun h => by simpa using hf.mpr h
      have e : (if false = true then PBuf.mk p (pre ++ X) else (PBuf.mk p (pre ++ X)).push 44).pushRaw d =
          ⟨p, pre ++ (X ++ 44 :: d)⟩ := by
        simp [PBuf.pushRaw, PBuf.push]
      rw [e]
      exact ih (fun x hx => hd x (by simp [hx])) false (X ++ 44 :: d) (hX.push hne hdv) (by simp)

/-- `],"LogGroupName":"g","Timestamp":` / `],"Timestamp":` -/
theorem logGroupTs_shape (lg : Option Bytes) :
    ∃ l, logGroupTsStr lg = 93 :: (l ++ bytes! ",\"Timestamp\":") ∧
      (l = [] ∨ ∃ g, l = bytes! ",\"LogGroupName\":" ++ jstr g) := by
  cases lg with
  | none => exact ⟨[], by simp [logGroupTsStr], Or.inl rfl⟩
  | some g => exact ⟨bytes! ",\"LogGroupName\":" ++ jstr g, by simp [logGroupTsStr], Or.inr ⟨g, rfl⟩⟩

/-- one split record -/
theorem dimLine_shape (cfg : Config) (ts : Nat) (P F D M S : Bytes) (hP : IsMembers P) (hF : IsMembers F)
    (hD : IsItems D) (hM : IsItems M) (hS : IsMembers S) :
    ∃ body, (recHead cfg ++ D ++ metricsPrefix ++ M ++ bytes! "]}" ++
        (((Consts.ofConfig cfg).moreNs.map fun ns => nsOpen ++ ns ++
          (recHead cfg ++ D ++ metricsPrefix ++ M ++ bytes! "]}").drop (awsOpen ++ jstr cfg.ns0).length).flatten) ++
        (Consts.ofConfig cfg).logGroupTs ++ natDigits ts) ++ ((125 :: P ++ F) ++ (S ++ bytes! "}\n")) = body ++ [10] ∧
      AwsShape body := by
  obtain ⟨l, hl, hlg⟩ := logGroupTs_shape cfg.logGroup
  refine ⟨_, ?_, dirOf (jstr cfg.ns0) D M, cfg.moreNs.map (fun ns => dirOf (jstr ns) D M), l, ts, P ++ F ++ S, rfl,
    Or.inl ⟨_, _, _, rfl, hD, hM⟩, ?_, hlg, (hP.append hF).append hS⟩
  · have hdrop : (recHead cfg ++ D ++ metricsPrefix ++ M ++ bytes! "]}").drop (awsOpen ++ jstr cfg.ns0).length =
        dimensionsAfterNs ++ D ++ metricsPrefix ++ M ++ bytes! "]}" := by
      have : recHead cfg ++ D ++ metricsPrefix ++ M ++ bytes! "]}" =
          (awsOpen ++ jstr cfg.ns0) ++ (dimensionsAfterNs ++ D ++ metricsPrefix ++ M ++ bytes! "]}") := by
        simp [recHead, List.append_assoc]
      rw [this, List.drop_left]
    rw [hdrop]
    have hreps : ((Consts.ofConfig cfg).moreNs.map fun ns => nsOpen ++ ns ++
          (dimensionsAfterNs ++ D ++ metricsPrefix ++ M ++ bytes! "]}")).flatten =
        ((cfg.moreNs.map fun ns => dirOf (jstr ns) D M).map (44 :: ·)).flatten := by
      simp only [Consts.ofConfig, List.map_map]
      congr 1
      apply List.map_congr_left
      intro ns _
      simp [nsOpen, dirOf, Function.comp]
    rw [hreps]
    simp only [Consts.ofConfig, hl]
    simp [recHead, awsOpen, dirOf, List.append_assoc]
  · intro d hd
    obtain ⟨ns, _, rfl⟩ := List.mem_map.mp hd
    exact Or.inl ⟨_, _, _, rfl, hD, hM⟩
theorem writeAll_unlimited (b : Bytes) (bufs : List Bytes) :
    Out.writeAll ⟨none, b, false⟩ bufs = ⟨none, b ++ bufs.flatten, false⟩ := rfl

/-- the bytes of one split record -/
theorem finishEntry_line (cfg : Config) (ts : Nat) (S : Bytes) (hS : IsMembers S) (e : DimEntry)
    (he : DimInv cfg e) :
    ∃ body, [(finishEntryMetrics (Consts.ofConfig cfg) (natDigits ts) e).buf, e.fieldsBuf.buf, S ++ bytes! "}\n"].flatten =
      body ++ [10] ∧ AwsShape body := by
  obtain ⟨P, F, D, M, hF, hP, hFm, hMb, hD, hM, ha⟩ := he
  have hX : (e.metricsBuf.pushRaw (bytes! "]}")) =
      ⟨(recHead cfg ++ D ++ metricsPrefix).length, (recHead cfg ++ D ++ metricsPrefix ++ M ++ bytes! "]}") ++ []⟩ := by
    rw [hMb]; simp [PBuf.pushRaw]
  have hlen : (e.metricsBuf.pushRaw (bytes! "]}")).buf.length =
      (recHead cfg ++ D ++ metricsPrefix ++ M ++ bytes! "]}").length := by rw [hX]; simp
  have hale : (awsOpen ++ jstr cfg.ns0).length ≤ (recHead cfg ++ D ++ metricsPrefix ++ M ++ bytes! "]}").length := by
    simp [recHead]
  obtain ⟨body, hbody, hshape⟩ := dimLine_shape cfg ts P F D M S hP hFm hD hM hS
  refine ⟨body, ?_, hshape⟩
  rw [← hbody]
  unfold finishEntryMetrics
  simp only
  rw [hlen, hX, ha, replicateNsEntry_spec _ _ _ _ _ hale, hF]
  simp [PBuf.pushRaw, List.append_assoc]

theorem finishDims_spec (cfg : Config) (ts : Nat) (S : Bytes) (hS : IsMembers S) (dm : List DimEntry)
    (hdm : ∀ e ∈ dm, DimInv cfg e) (bytes0 : Bytes) (any : Bool) :
    ∃ lines, (finishDims (Consts.ofConfig cfg) (natDigits ts) (S ++ bytes! "}\n") dm ⟨none, bytes0, false⟩ any).2.1 =
        ⟨none, bytes0 ++ lines.flatten, false⟩ ∧
      (∀ l ∈ lines, ∃ body, l = body ++ [10] ∧ AwsShape body) ∧
      ((finishDims (Consts.ofConfig cfg) (natDigits ts) (S ++ bytes! "}\n") dm ⟨none, bytes0, false⟩ any).2.2 = true ↔
        (any = true ∨ lines ≠ [])) := by
  induction dm generalizing bytes0 any with
  | nil => exact ⟨[], by simp [finishDims], by simp, by simp [finishDims]⟩
  | cons e rest ih =>
    have hrest : ∀ x ∈ rest, DimInv cfg x := fun x hx => hdm x (by simp [hx])
    obtain ⟨body, hbody, hshape⟩ := finishEntry_line cfg ts S hS e (hdm e (by simp))
    unfold finishDims
    simp only
    cases hemp : e.fieldsBuf.isEmpty with
    | true =>
      simp only [↓reduceIte]
      obtain ⟨lines, h1, h2, h3⟩ := ih hrest bytes0 any
      exact ⟨lines, h1, h2, h3⟩
    | false =>
      simp only [Bool.false_eq_true, ↓reduceIte, writeAll_unlimited, hbody]
      obtain ⟨lines, h1, h2, h3⟩ := ih hrest (bytes0 ++ (body ++ [10])) true
      refine ⟨(body ++ [10]) :: lines, ?_, ?_, ?_⟩
      · rw [h1]; simp [List.append_assoc]
      · intro l hl
        rcases List.mem_cons.mp hl with rfl | h
        · exact ⟨body, rfl, hshape⟩
        · exact h2 l h
      · simp only [ne_eq, reduceCtorEq, not_false_eq_true, or_true, iff_true]
        exact h3.mpr (Or.inl rfl)

/-- the bytes of the "no-dimensions" record -/
theorem globalLine_shape (cfg : Config) (ts : Nat) (Dg M F S : Bytes) (hDg : IsItems Dg) (hM : IsItems M)
    (hF : IsMembers F) (hS : IsMembers S) :
    ∃ body, [recHead cfg ++ Dg,
        (metricsPrefix ++ M ++ bytes! "]}") ++ ((Consts.ofConfig cfg).moreNs.map fun ns =>
          nsOpen ++ ns ++ (dimensionsAfterNs ++ Dg) ++ (metricsPrefix ++ M ++ bytes! "]}")).flatten,
        extraDirectivesStr cfg.extraDirectives ++ (Consts.ofConfig cfg).logGroupTs ++ natDigits ts,
        125 :: F, S ++ bytes! "}\n"].flatten = body ++ [10] ∧ AwsShape body := by
  obtain ⟨l, hl, hlg⟩ := logGroupTs_shape cfg.logGroup
  refine ⟨_, ?_, dirOf (jstr cfg.ns0) Dg M,
    cfg.moreNs.map (fun ns => dirOf (jstr ns) Dg M) ++ cfg.extraDirectives.map extraDirectiveJson, l, ts, F ++ S, rfl,
    Or.inl ⟨_, _, _, rfl, hDg, hM⟩, ?_, hlg, hF.append hS⟩
  · have hreps : ((Consts.ofConfig cfg).moreNs.map fun ns =>
          nsOpen ++ ns ++ (dimensionsAfterNs ++ Dg) ++ (metricsPrefix ++ M ++ bytes! "]}")).flatten =
        ((cfg.moreNs.map fun ns => dirOf (jstr ns) Dg M).map (44 :: ·)).flatten := by
      simp only [Consts.ofConfig, List.map_map]
      congr 1
      apply List.map_congr_left
      intro ns _
      simp [nsOpen, dirOf, Function.comp]
    have hextra : extraDirectivesStr cfg.extraDirectives =
        ((cfg.extraDirectives.map extraDirectiveJson).map (44 :: ·)).flatten := by
      simp only [extraDirectivesStr, List.map_map]; rfl
    rw [hreps, hextra]
    simp only [Consts.ofConfig, hl]
    simp [recHead, awsOpen, dirOf, List.append_assoc]
  · intro d hd
    rcases List.mem_append.mp hd with h | h
    · obtain ⟨ns, _, rfl⟩ := List.mem_map.mp h
      exact Or.inl ⟨_, _, _, rfl, hDg, hM⟩
    · obtain ⟨e, _, rfl⟩ := List.mem_map.mp h
      exact Or.inr ⟨e, rfl⟩

theorem afterNsIndex_eq (cfg : Config) : (Consts.ofConfig cfg).afterNsIndex = (awsOpen ++ jstr cfg.ns0).length := by
  simp [Consts.ofConfig, dimensionsPrefix]; omega

theorem finishGlobal_spec (cfg : Config) (ts : Nat) (st : State) (dims : List Bytes) (hd : ∀ d ∈ dims, IsArrLit d)
    (F M S : Bytes) (hF : IsMembers F) (hM : IsItems M) (hS : IsMembers S)
    (hf : st.fieldsBuf = ⟨1, 125 :: F⟩) (hm : st.metricsBuf = ⟨metricsPrefix.length, metricsPrefix ++ M⟩)
    (hsf : st.stringFieldsBuf.buf = S ++ bytes! "}\n")
    (hdecl : st.declBuf.buf = extraDirectivesStr cfg.extraDirectives ++ (Consts.ofConfig cfg).logGroupTs ++ natDigits ts)
    (hdb : st.dimensionsBuf.WF (dimensionsPrefix cfg)) (bytes0 : Bytes) :
    ∃ body, (finishGlobal (Consts.ofConfig cfg) st dims ⟨none, bytes0, false⟩).2 =
      (.ok, ⟨none, bytes0 ++ (body ++ [10]), false⟩) ∧ AwsShape body := by
  obtain ⟨Dg, hDgeq, hDg⟩ := pushDimensions_spec dims (fun d h => (hd d h).isVal) true (dimensionsPrefix cfg).length
    (recHead cfg) [] IsItems.nil (by simp)
  obtain ⟨body, hbody, hshape⟩ := globalLine_shape cfg ts Dg M F S hDg hM hF hS
  refine ⟨body, ?_, hshape⟩
  simp only [List.append_nil] at hDgeq
  have hclear : st.dimensionsBuf.clear = ⟨(dimensionsPrefix cfg).length, recHead cfg⟩ := by
    rw [hdb.clear_eq]; simp [PBuf.new, recHead, dimensionsPrefix]
  have hX : st.metricsBuf.pushRaw (bytes! "]}") = ⟨metricsPrefix.length, metricsPrefix ++ M ++ bytes! "]}"⟩ := by
    rw [hm]; simp [PBuf.pushRaw]
  have hdrop : (recHead cfg ++ Dg).drop (awsOpen ++ jstr cfg.ns0).length = dimensionsAfterNs ++ Dg := by
    have : recHead cfg ++ Dg = (awsOpen ++ jstr cfg.ns0) ++ (dimensionsAfterNs ++ Dg) := by
      simp [recHead, List.append_assoc]
    rw [this, List.drop_left]
  have hrep := replicateNsGlobal_spec (Consts.ofConfig cfg).moreNs (dimensionsAfterNs ++ Dg) metricsPrefix.length
    (metricsPrefix ++ M ++ bytes! "]}") []
  simp only [List.append_nil] at hrep
  unfold finishGlobal
  simp only
  rw [hclear, hDgeq, hX, afterNsIndex_eq]
  simp only
  rw [hdrop, hrep, writeAll_unlimited, hf, hsf, hdecl]
  simp only
  rw [hbody]
  rfl

theorem finishWrite_spec (cfg : Config) {w : Writer} (h : WInv cfg w) (ts : Nat) :
    ∃ lines, lines ≠ [] ∧
      (finishWrite (Consts.ofConfig cfg) w.st (w.entryDims.getD (Consts.ofConfig cfg).eachDims) (natDigits ts)
        ⟨none, [], false⟩).2 = (.ok, ⟨none, lines.flatten, false⟩) ∧
      ∀ l ∈ lines, ∃ body, l = body ++ [10] ∧ AwsShape body := by
  obtain ⟨S, hS, hSm⟩ := h.sf
  obtain ⟨F, hF, hFm⟩ := h.f
  obtain ⟨M, hM, hMi⟩ := h.m
  have hdims : ∀ d ∈ w.entryDims.getD (Consts.ofConfig cfg).eachDims, IsArrLit d := by
    cases hd : w.entryDims with
    | none => exact eachDims_arr cfg
    | some ds => exact h.ed ds hd
  unfold finishWrite
  simp only
  have hsf : (w.st.stringFieldsBuf.pushRaw (bytes! "}\n")).buf = S ++ bytes! "}\n" := by rw [hS]; rfl
  rw [hsf]
  obtain ⟨lines1, h1, h2, h3⟩ := finishDims_spec cfg ts S hSm w.st.dimMap h.dm [] false
  generalize finishDims (Consts.ofConfig cfg) (natDigits ts) (S ++ bytes! "}\n") w.st.dimMap ⟨none, [], false⟩ false = r at *
  obtain ⟨dm', out1, any⟩ := r
  simp only at h1 h3
  subst h1
  simp only [Bool.false_eq_true, ↓reduceIte, List.nil_append, false_or] at h3 ⊢
  by_cases hg : (!any || !w.st.fieldsBuf.isEmpty) = true
  · simp only [hg, ↓reduceIte]
    obtain ⟨body, hb, hshape⟩ := finishGlobal_spec cfg ts
      { w.st with declBuf := (w.st.declBuf.pushRaw (Consts.ofConfig cfg).logGroupTs).pushRaw (natDigits ts),
                  stringFieldsBuf := w.st.stringFieldsBuf.pushRaw (bytes! "}\n"), dimMap := dm' }
      (w.entryDims.getD (Consts.ofConfig cfg).eachDims) hdims F M S hFm hMi hSm hF hM hsf
      (by simp only [h.decl]; simp [PBuf.new, PBuf.pushRaw]) h.dbuf lines1.flatten
    refine ⟨lines1 ++ [body ++ [10]], by simp, ?_, ?_⟩
    · rw [hb]; simp
    · intro l hl
      rcases List.mem_append.mp hl with h | h
      · exact h2 l h
      · simp only [List.mem_singleton] at h; subst h; exact ⟨body, rfl, hshape⟩
  · simp only [hg, Bool.false_eq_true, ↓reduceIte]
    have hany : any = true := by
      cases any with
      | true => rfl
      | false => simp at hg
    exact ⟨lines1, h3.mp hany, rfl, h2⟩

/-- `finish` on a writer satisfying the invariant, with no validation error and a writer that never fails -/
theorem finish_spec (cfg : Config) {w : Writer} (h : WInv cfg w) (nowMs : Nat)
    (hne : (finishErrors (Consts.ofConfig cfg) w).isEmpty = true) :
    ∃ lines, lines ≠ [] ∧
      (finish (Consts.ofConfig cfg) w nowMs ⟨none, [], false⟩).2 = (.ok, ⟨none, lines.flatten, false⟩) ∧
      ∀ l ∈ lines, ∃ body, l = body ++ [10] ∧ AwsShape body := by
  unfold finish
  simp only [hne, Bool.not_true, Bool.false_eq_true, ↓reduceIte]
  exact finishWrite_spec cfg h _

theorem finish_ok_errors (c : Consts) (w : Writer) (nowMs : Nat) (out : Out)
    (h : (finish c w nowMs out).2.1 = .ok) : (finishErrors c w).isEmpty = true := by
  unfold finish at h
  simp only at h
  cases he : (finishErrors c w).isEmpty with
  | true => rfl
  | false => simp [he] at h

/-! ### A writer with a byte budget that did not fail behaves like one that never fails -/

/-- `o` (any budget) has not failed and has accepted the same bytes as the unlimited writer `u` -/
def OutSim (o u : Out) : Prop := u.budget = none ∧ u.failed = false ∧ o.failed = false ∧ o.bytes = u.bytes

theorem writeAll_sim {o u : Out} (h : OutSim o u) (bufs : List Bytes)
    (hf : (o.writeAll bufs).failed = false) : OutSim (o.writeAll bufs) (u.writeAll bufs) := by
  obtain ⟨hb, huf, hof, hbytes⟩ := h
  obtain ⟨ub, ubytes, ufailed⟩ := u
  obtain ⟨ob, obytes, ofailed⟩ := o
  simp only at hb huf hof hbytes
  subst hb huf hof hbytes
  cases ob with
  | none => exact ⟨rfl, rfl, rfl, rfl⟩
  | some b =>
    unfold Out.writeAll at hf ⊢
    simp only at hf ⊢
    split
    · exact ⟨rfl, rfl, rfl, rfl⟩
    · rename_i hgt; rw [if_neg hgt] at hf; cases hf

theorem finishDims_sim (c : Consts) (ts sf : Bytes) (dm : List DimEntry) {o u : Out} (h : OutSim o u) (any : Bool)
    (hf : (finishDims c ts sf dm o any).2.1.failed = false) :
    OutSim (finishDims c ts sf dm o any).2.1 (finishDims c ts sf dm u any).2.1 ∧
    (finishDims c ts sf dm o any).2.2 = (finishDims c ts sf dm u any).2.2 ∧
    (finishDims c ts sf dm o any).1 = (finishDims c ts sf dm u any).1 := by
  induction dm generalizing o u any with
  | nil => exact ⟨h, rfl, rfl⟩
  | cons e rest ih =>
    unfold finishDims at hf ⊢
    simp only at hf ⊢
    cases hemp : e.fieldsBuf.isEmpty with
    | true =>
      simp only [hemp, ↓reduceIte] at hf ⊢
      obtain ⟨h1, h2, h3⟩ := ih h any hf
      exact ⟨h1, h2, by rw [h3]⟩
    | false =>
      simp only [hemp, Bool.false_eq_true, ↓reduceIte] at hf ⊢
      cases hw : (o.writeAll [(finishEntryMetrics c ts e).buf, e.fieldsBuf.buf, sf]).failed with
      | true => simp [hw] at hf
      | false =>
        have hs := writeAll_sim h _ hw
        simp only [hw, Bool.false_eq_true, ↓reduceIte] at hf ⊢
        simp only [hs.2.1, Bool.false_eq_true, ↓reduceIte]
        obtain ⟨h1, h2, h3⟩ := ih hs true hf
        exact ⟨h1, h2, by rw [h3]⟩

theorem finishGlobal_sim (c : Consts) (st : State) (dims : List Bytes) {o u : Out} (h : OutSim o u)
    (hok : (finishGlobal c st dims o).2.1 = .ok) :
    (finishGlobal c st dims u).2.1 = .ok ∧
    (finishGlobal c st dims o).2.2.bytes = (finishGlobal c st dims u).2.2.bytes := by
  unfold finishGlobal at hok ⊢
  simp only at hok ⊢
  split at hok
  · cases hok
  · rename_i hnf
    have hs := writeAll_sim h _ (by simpa using hnf)
    simp only [hs.2.1, Bool.false_eq_true, ↓reduceIte, true_and]
    exact hs.2.2.2

theorem finishWrite_sim (c : Consts) (st : State) (dims : List Bytes) (ts : Bytes) {o u : Out} (h : OutSim o u)
    (hok : (finishWrite c st dims ts o).2.1 = .ok) :
    (finishWrite c st dims ts u).2.1 = .ok ∧
    (finishWrite c st dims ts o).2.2.bytes = (finishWrite c st dims ts u).2.2.bytes := by
  unfold finishWrite at hok ⊢
  simp only at hok ⊢
  cases hfail : (finishDims c ts (st.stringFieldsBuf.pushRaw (bytes! "}\n")).buf st.dimMap o false).2.1.failed with
  | true =>
    generalize finishDims c ts (st.stringFieldsBuf.pushRaw (bytes! "}\n")).buf st.dimMap o false = r at *
    obtain ⟨dm, o1, any⟩ := r
    simp only at hfail
    simp [hfail] at hok
  | false =>
    obtain ⟨h1, h2, h3⟩ := finishDims_sim c ts (st.stringFieldsBuf.pushRaw (bytes! "}\n")).buf st.dimMap h false hfail
    generalize finishDims c ts (st.stringFieldsBuf.pushRaw (bytes! "}\n")).buf st.dimMap o false = r at *
    generalize finishDims c ts (st.stringFieldsBuf.pushRaw (bytes! "}\n")).buf st.dimMap u false = r' at *
    obtain ⟨dm, o1, any⟩ := r
    obtain ⟨dm', u1, any'⟩ := r'
    simp only at hfail h1 h2 h3 hok ⊢
    subst h2 h3
    simp only [hfail, h1.2.1, Bool.false_eq_true, ↓reduceIte] at hok ⊢
    split
    · rename_i hg
      simp only [hg, ↓reduceIte] at hok
      exact finishGlobal_sim c _ dims h1 hok
    · exact ⟨rfl, h1.2.2.2⟩

/-- a successful call with a budget-limited writer wrote exactly what it writes to a writer that never fails -/
theorem format_ok_unlimited (c : Consts) (s : State) (call : Call) (hok : (format c s call).2.1 = .ok) :
    (format c s { call with ioBudget := none }).2.1 = .ok ∧
    (format c s call).2.2.bytes = (format c s { call with ioBudget := none }).2.2.bytes := by
  unfold format at hok ⊢
  cases hb : call.badRate with
  | true => simp [hb] at hok
  | false =>
    simp only [hb, Bool.false_eq_true, ↓reduceIte] at hok ⊢
    unfold formatWithMultiplicity finish at hok ⊢
    simp only at hok ⊢
    split
    · rename_i he; simp [he] at hok
    · rename_i he
      simp only [he, Bool.false_eq_true, ↓reduceIte] at hok
      exact finishWrite_sim c _ _ _ (o := ⟨call.ioBudget, [], false⟩) (u := ⟨none, [], false⟩) ⟨rfl, rfl, rfl, rfl⟩ hok

end Emf
