import Props.EmfRefineSplitSpec
import Props.EmfRefineRead
/-!
# Stage 3: every accepted entry, split records included

`emf_refines_spec_split`: the bytes the operational model writes are the lines of the declarative model's
records, in the order `emit` lists them (split records in dimension-set-map insertion order, then the
no-dimension record unless it is redundant).
-/
namespace EmfRefine
open JsonTree Json EmfSpec

variable {F : Type}

/-- the line of a record: its printed JSON tree and a newline -/
def lineOf (txt : F → List Nat) (nNs nowMs : Nat) (r : Record F) : List Nat :=
  print (recordJson txt nNs nowMs r) ++ [10]

theorem splitLine_record (cfg : Config) (sw : Switches) (ops : FloatOps F) (txt : F → List Nat) (mult : Option Nat)
    (nowMs : Nat) (e : Entry F) (ns0 : Str) (more : List Str) (hns : cfg.namespaces = ns0 :: more) (k : Key) (idx : Nat)
    (ms : List (Str × Metric F)) :
    splitLine txt (Emf.Consts.ofConfig (toEmfCfg cfg sw)) ((baseDims cfg e).map jarrStrings)
        (natDigits ((timestampOf e).getD nowMs)) (strBytes (strItems e))
        ⟨k, idx, fieldsOf ops mult ms, declsOf ops mult ms⟩
      = lineOf txt cfg.namespaces.length nowMs (mkRecord cfg ops mult e (some k) ms []) := by
  rw [splitLine_eq_print cfg sw txt ns0 more hns]
  simp only [lineOf, recordJson, mkRecord, Option.getD_some, List.append_nil]
  rw [List.take_of_length_le (by simp), List.drop_of_length_le (by simp)]
  have hstr : ∀ x : Str × Str, mvalJson txt (MVal.str x.2) = JVal.str x.2 := fun _ => rfl
  cases cfg.logGroup <;> simp [List.map_map, Function.comp_def, hstr]

theorem globalLine_record (cfg : Config) (sw : Switches) (ops : FloatOps F) (txt : F → List Nat) (mult : Option Nat)
    (nowMs : Nat) (e : Entry F) (ns0 : Str) (more : List Str) (hns : cfg.namespaces = ns0 :: more)
    (g : List (Str × Metric F)) :
    globalLine (toEmfCfg cfg sw) ((baseDims cfg e).map jarrStrings) (printElems ((declsOf ops mult g).map declJson))
        (natDigits ((timestampOf e).getD nowMs)) (fieldBytes txt (fieldsOf ops mult g)) (strBytes (strItems e))
      = lineOf txt cfg.namespaces.length nowMs (mkRecord cfg ops mult e none g cfg.extra) := by
  rw [globalLine_eq_print cfg sw txt ns0 more hns]
  simp only [lineOf, recordJson, mkRecord, Option.getD_none, List.map_nil, List.append_nil, List.nil_append, List.map_id']
  rw [List.take_left' (by simp), List.drop_left' (by simp)]
  have hstr : ∀ x : Str × Str, mvalJson txt (MVal.str x.2) = JVal.str x.2 := fun _ => rfl
  cases cfg.logGroup <;> simp [List.map_map, Function.comp_def, hstr]

/-- the declarative split records, from the list of keys -/
def splitRecs (cfg : Config) (ops : FloatOps F) (mult : Option Nat) (e : Entry F) (ks : List Key) : List (Record F) :=
  ks.filterMap fun k =>
    if (fieldsOf ops mult (Rk cfg k e)).isEmpty then none else some (mkRecord cfg ops mult e (some k) (Rk cfg k e) [])

theorem emit_eq (cfg : Config) (ops : FloatOps F) (mult : Option Nat) (e : Entry F) :
    emit cfg ops mult e =
      splitRecs cfg ops mult e (splitKeys cfg e) ++
      (if ((splitRecs cfg ops mult e (splitKeys cfg e)).isEmpty || !(fieldsOf ops mult (routedTo cfg none (metricItems e))).isEmpty) = true
        then [mkRecord cfg ops mult e none (routedTo cfg none (metricItems e)) cfg.extra] else []) := by
  unfold emit splitRecs Rk
  simp only
  split <;> simp

/-- the split lines, key by key -/
theorem splitLines_eq (cfg : Config) (sw : Switches) (ops : FloatOps F) (txt : F → List Nat) (mult : Option Nat)
    (nowMs : Nat) (e : Entry F) (ns0 : Str) (more : List Str) (hns : cfg.namespaces = ns0 :: more)
    (ad : List (AEntry F)) (ks : List Key) (h : ad.map tri = ks.map (newT cfg ops mult e)) :
    (ad.filter fun a => !a.fields.isEmpty).map
        (splitLine txt (Emf.Consts.ofConfig (toEmfCfg cfg sw)) ((baseDims cfg e).map jarrStrings)
          (natDigits ((timestampOf e).getD nowMs)) (strBytes (strItems e)))
      = (splitRecs cfg ops mult e ks).map (lineOf txt cfg.namespaces.length nowMs) ∧
    (ad.any fun a => !a.fields.isEmpty) = !(splitRecs cfg ops mult e ks).isEmpty := by
  induction ad generalizing ks with
  | nil =>
    cases ks with
    | nil => simp [splitRecs]
    | cons k r => simp at h
  | cons a rest ih =>
    cases ks with
    | nil => simp at h
    | cons k r =>
      simp only [List.map_cons, List.cons.injEq] at h
      obtain ⟨h1, h2⟩ := h
      obtain ⟨i1, i2⟩ := ih r h2
      simp only [tri, newT, Prod.mk.injEq] at h1
      obtain ⟨hk, hf, hd⟩ := h1
      have ha : a = ⟨k, a.index, fieldsOf ops mult (Rk cfg k e), declsOf ops mult (Rk cfg k e)⟩ := by
        cases a; simp_all
      simp only [List.filter_cons, List.any_cons, splitRecs, List.filterMap_cons, hf]
      cases hemp : (fieldsOf ops mult (Rk cfg k e)).isEmpty with
      | true =>
        simp only [Bool.not_true, Bool.false_eq_true, if_false, if_true, Bool.false_or]
        exact ⟨i1, i2⟩
      | false =>
        simp only [Bool.not_false, if_true, Bool.false_eq_true, if_false, List.map_cons, Bool.true_or, List.isEmpty_cons]
        refine ⟨?_, trivial⟩
        congr 1
        · rw [ha]
          exact splitLine_record cfg sw ops txt mult nowMs e ns0 more hns k a.index (Rk cfg k e)

/-- **Stage 3 (`emf_refines_spec_split`).** For every configuration with at least one namespace, every switch setting, number type / float operations / text function, multiplicity
that fits a `u64` (or none), clock value and EVERY entry accepted by `validate` — metrics with per-metric
dimensions routed to split records included —: the operational model on a fresh formatter returns `ok`, and
the bytes it writes are exactly the lines `print (recordJson r) ++ "\n"` of the declarative model's records
`emit cfg ops mult e`, IN THAT ORDER: the split records in the order their dimension sets were first used
(the operational model's dimension-set map keeps insertion order; the real hash map may visit them in any
order, `c14_map_order_irrelevant`), then the no-dimension record unless a split record was written and the
no-dimension record has no metric member. -/
theorem emf_refines_spec_split (cfg : Config) (sw : Switches) (ops : FloatOps F) (txt : F → List Nat)
    (mult : Option Nat) (nowMs : Nat) (e : Entry F)
    (hns : cfg.namespaces ≠ []) (hm : multOk mult) (hv : validate cfg sw e = []) :
    records cfg sw ops mult e = .ok (emit cfg ops mult e) ∧
    runEmf cfg sw ops txt mult nowMs e =
      (.ok, ((emit cfg ops mult e).map (lineOf txt cfg.namespaces.length nowMs)).flatten) := by
  refine ⟨by simp [records, hv], ?_⟩
  obtain ⟨ns0, more, hnseq⟩ : ∃ a b, cfg.namespaces = a :: b := by
    cases h : cfg.namespaces with
    | nil => exact absurd h hns
    | cons a b => exact ⟨a, b, rfl⟩
  have hc := CRel.ofConfig cfg sw
  have hS0 : Shape3 txt (Emf.Consts.ofConfig (toEmfCfg cfg sw))
      (Emf.Writer.start (Emf.Consts.ofConfig (toEmfCfg cfg sw)) (Emf.State.fresh (toEmfCfg cfg sw))) [] [] []
      ([] : List (AEntry F)) := by
    refine ⟨rfl, List.nodup_nil, ?_, ?_, ?_, rfl⟩
    · simp [Emf.Writer.start, Emf.State.startCall, Emf.State.fresh, Emf.PBuf.clear, Emf.PBuf.new]
    · simp [Emf.Writer.start, Emf.State.startCall, Emf.State.fresh, Emf.PBuf.clear, Emf.PBuf.new, Emf.fieldsPrefix]
    · simp [Emf.Writer.start, Emf.State.startCall, Emf.State.fresh, Emf.PBuf.clear, Emf.PBuf.new, printElems]
  have hsim0 := sim_start hc (Emf.State.fresh (toEmfCfg cfg sw))
  have herr : (run cfg sw (initState cfg sw) e).errs = [] := by
    have : validate cfg sw e = (run cfg sw (initState cfg sw) e).errs ++ sweep sw (run cfg sw (initState cfg sw) e) := rfl
    rw [this] at hv
    exact (List.append_eq_nil_iff.mp hv).1
  obtain ⟨hS, hR⟩ := shape3_foldl hc ops txt hm e hsim0 hS0 herr
  have hfe := finishErrors_refines cfg sw ops txt (Emf.State.fresh (toEmfCfg cfg sw)) mult e
  rw [hv] at hfe
  have hfin := finish_split txt (toEmfCfg cfg sw) _ nowMs hS
    (by rw [hR.decl]; simp [Emf.Writer.start, Emf.State.startCall, Emf.State.fresh, new_clear])
    (by rw [hR.dbuf]; rfl) hfe
  unfold runEmf
  simp only [Emf.format, toCall, Bool.false_eq_true, if_false, Emf.formatWithMultiplicity]
  rw [hfin]
  have hdims : ((toEmfEntry ops txt e).foldl (Emf.applyItem (Emf.Consts.ofConfig (toEmfCfg cfg sw)) mult)
      (Emf.Writer.start (Emf.Consts.ofConfig (toEmfCfg cfg sw)) (Emf.State.fresh (toEmfCfg cfg sw)))).entryDims.getD
        (Emf.Consts.ofConfig (toEmfCfg cfg sw)).eachDims = (baseDims cfg e).map Json.jarrStrings := by
    rw [hR.ed]
    simp only [edAfter, Emf.Writer.start, baseDims]
    cases entryDimsItems e with
    | nil => simp [Emf.Consts.ofConfig, toEmfCfg]
    | cons sets rest =>
      simp only [Option.getD_some, dimsOf, Emf.Consts.ofConfig, toEmfCfg, List.flatMap_map, List.map_flatMap, List.map_map]
      congr 1
      funext d
      apply List.map_congr_left
      intro s _
      simp [extendWithStrings_jarr]
  have hts : Emf.timestampMillis ((toEmfEntry ops txt e).foldl (Emf.applyItem (Emf.Consts.ofConfig (toEmfCfg cfg sw)) mult)
      (Emf.Writer.start (Emf.Consts.ofConfig (toEmfCfg cfg sw)) (Emf.State.fresh (toEmfCfg cfg sw)))).timestamp nowMs
        = (timestampOf e).getD nowMs := by
    rw [hR.ts]
    simp only [tsAfter, Emf.Writer.start, timestampOf]
    cases (timestamps e).getLast? with
    | none => rfl
    | some us =>
      simp only [Emf.timestampMillis, Option.map_some, Option.getD_some, msOf]
      split <;> omega
  rw [hdims, hts]
  simp only [List.nil_append]
  have hspec := adFold_spec cfg ops mult e ([] : List (AEntry F))
  have hft : ∀ l : List Key, l.filter (fun _ => true) = l := fun l => by induction l <;> simp_all
  simp at hspec
  rw [hft] at hspec
  obtain ⟨hl, hany⟩ := splitLines_eq cfg sw ops txt mult nowMs e ns0 more hnseq _ _ hspec
  rw [hl, hany, globalLine_record cfg sw ops txt mult nowMs e ns0 more hnseq, emit_eq]
  have hfb : (fieldBytes txt (fieldsOf ops mult (routedTo cfg none (metricItems e)))).isEmpty
      = (fieldsOf ops mult (routedTo cfg none (metricItems e))).isEmpty := by
    cases h : fieldsOf ops mult (routedTo cfg none (metricItems e)) with
    | nil => simp [fieldBytes]
    | cons p r => simp [fieldBytes]
  simp only [hfb, Bool.not_not, List.map_append, List.flatten_append]
  by_cases hA : splitRecs cfg ops mult e (splitKeys cfg e) = [] <;>
    by_cases hB : fieldsOf ops mult (routedTo cfg none (metricItems e)) = [] <;>
    simp [hA, hB]

end EmfRefine

#print axioms EmfRefine.emf_refines_spec_split
