import Model.JsonTree
/-!
The reader reads back what the printer prints: `read (print v) = some v` for every tree whose number
tokens are JSON numbers (`WF`). Strings and keys are arbitrary byte lists.
-/
namespace JsonTree
open Json

/-! ### strings -/

theorem hexVal_hexDigit : ∀ n : Fin 16, hexVal (hexDigit n.val) = some n.val := by decide

theorem hexVal_hexDigit' (n : Nat) (h : n < 16) : hexVal (hexDigit n) = some n :=
  hexVal_hexDigit ⟨n, h⟩

theorem rs_bs (rest acc : List Nat) : readStr .norm (92 :: rest) acc = readStr .esc rest acc := by
  simp [readStr]

theorem rs_esc_u (rest acc : List Nat) : readStr .esc (117 :: rest) acc = readStr (.hex 3 0) rest acc := by
  simp [readStr, unescChar]

theorem rs_hex (l cp c : Nat) (rest acc : List Nat) (v : Nat) (h : hexVal c = some v) :
    readStr (.hex (l + 1) cp) (c :: rest) acc = readStr (.hex l (cp * 16 + v)) rest acc := by
  simp [readStr, h]

theorem rs_hex0 (cp c : Nat) (rest acc : List Nat) (v : Nat) (bs : List Nat) (h : hexVal c = some v)
    (hu : utf8 (cp * 16 + v) = some bs) :
    readStr (.hex 0 cp) (c :: rest) acc = readStr .norm rest (bs.reverse ++ acc) := by
  simp [readStr, h, hu]

theorem readStr_escByte (c : Nat) (tail acc : List Nat) :
    readStr .norm (escByte c ++ tail) acc = readStr .norm tail (c :: acc) := by
  unfold escByte
  split
  · rename_i h; subst h; simp [readStr, unescChar]
  split
  · rename_i h; subst h; simp [readStr, unescChar]
  split
  · rename_i h; subst h; simp [readStr, unescChar]
  split
  · rename_i h; subst h; simp [readStr, unescChar]
  split
  · rename_i h; subst h; simp [readStr, unescChar]
  split
  · rename_i h; subst h; simp [readStr, unescChar]
  split
  · rename_i h; subst h; simp [readStr, unescChar]
  split
  · rename_i h1 h2 h3 h4 h5 h6 h7 h8
    have d1 : c / 16 < 16 := by omega
    have d2 : c % 16 < 16 := Nat.mod_lt _ (by decide)
    have e : (((0 * 16 + 0) * 16 + 0) * 16 + c / 16) * 16 + c % 16 = c := by omega
    have hu : utf8 c = some [c] := by simp [utf8]; omega
    have h48 : hexVal 48 = some 0 := by decide
    simp only [List.cons_append, List.nil_append]
    rw [rs_bs, rs_esc_u, rs_hex _ _ _ _ _ _ h48, rs_hex _ _ _ _ _ _ h48,
      rs_hex _ _ _ _ _ _ (hexVal_hexDigit' _ d1), rs_hex0 _ _ _ _ _ [c] (hexVal_hexDigit' _ d2) (by rw [e]; exact hu)]
    simp
  · rename_i h1 h2 h3 h4 h5 h6 h7 h8
    simp [readStr, h1, h2, h8]

theorem readStr_escape (s tail acc : List Nat) :
    readStr .norm (escape s ++ 34 :: tail) acc = some (acc.reverse ++ s, tail) := by
  induction s generalizing acc with
  | nil => simp [escape, readStr]
  | cons c s ih =>
    have : escape (c :: s) = escByte c ++ escape s := by simp [escape]
    rw [this, List.append_assoc, readStr_escByte, ih]
    simp

theorem readStr_jstr (s tail : List Nat) :
    readStr .norm (escape s ++ 34 :: tail) [] = some (s, tail) := by
  rw [readStr_escape]; simp

/-! ### numbers -/

theorem numStep_numChar {s s' : NumSt} {c : Nat} (h : numStep s c = some s') : isNumChar c = true := by
  unfold isNumChar
  cases s <;> simp only [numStep] at h <;>
    (repeat' split at h) <;> simp_all <;>
    first
      | decide
      | (rename_i hh; rcases hh with hh | hh <;> simp [hh])

theorem numRun_numChar {s s' : NumSt} {cs : List Nat} (h : numRun s cs = some s') : ∀ c ∈ cs, isNumChar c = true := by
  induction cs generalizing s with
  | nil => simp
  | cons c cs ih =>
    simp only [numRun] at h
    cases hs : numStep s c with
    | none => simp [hs] at h
    | some s1 =>
      simp only [hs] at h
      intro x hx
      rcases List.mem_cons.mp hx with rfl | hx
      · exact numStep_numChar hs
      · exact ih h x hx

/-- the first byte of a number is `-` or a digit -/
def numHead (c : Nat) : Bool := c = 45 || isDigit c

theorem isNumber_spec {tok : List Nat} (h : isNumber tok = true) :
    ∃ c t, tok = c :: t ∧ numHead c = true ∧ ∀ x ∈ tok, isNumChar x = true := by
  cases tok with
  | nil => simp [isNumber] at h
  | cons c t =>
    refine ⟨c, t, rfl, ?_, ?_⟩
    · simp only [isNumber] at h
      unfold numStart at h
      unfold numHead
      by_cases h1 : c = 45
      · simp [h1]
      · by_cases h2 : c = 48
        · subst h2; decide
        · by_cases h3 : isDigit c = true
          · simp [h3]
          · simp [h1, h2, h3] at h
    · simp only [isNumber] at h
      cases hs : numStart c with
      | none => simp [hs] at h
      | some s0 =>
        simp only [hs] at h
        cases hr : numRun s0 t with
        | none => simp [hr] at h
        | some s1 =>
          intro x hx
          rcases List.mem_cons.mp hx with rfl | hx
          · unfold numStart at hs
            unfold isNumChar
            by_cases h1 : x = 45
            · simp [h1]
            · by_cases h2 : x = 48
              · subst h2; decide
              · by_cases h3 : isDigit x = true
                · simp [h3]
                · simp [h1, h2, h3] at hs
          · exact numRun_numChar hr x hx

/-- `rest` does not continue a number -/
def NoNum (rest : List Nat) : Prop := ∀ c r, rest = c :: r → isNumChar c = false

theorem spanNum_append (tok rest : List Nat) (ht : ∀ x ∈ tok, isNumChar x = true) (hr : NoNum rest) :
    spanNum (tok ++ rest) = (tok, rest) := by
  induction tok with
  | nil =>
    cases rest with
    | nil => rfl
    | cons c r => simp [spanNum, hr c r rfl]
  | cons c t ih =>
    have hc := ht c List.mem_cons_self
    have := ih (fun x hx => ht x (List.mem_cons_of_mem _ hx))
    simp [spanNum, hc, this]

/-! ### trees -/

mutual
/-- every number token is a JSON number -/
def WF : JVal → Prop
  | .num tok => isNumber tok = true
  | .arr xs => WFL xs
  | .obj ms => WFM ms
  | _ => True
def WFL : List JVal → Prop
  | [] => True
  | x :: xs => WF x ∧ WFL xs
def WFM : List (List Nat × JVal) → Prop
  | [] => True
  | (_, x) :: ms => WF x ∧ WFM ms
end

mutual
def size : JVal → Nat
  | .arr xs => 1 + sizeL xs
  | .obj ms => 1 + sizeM ms
  | _ => 1
def sizeL : List JVal → Nat
  | [] => 0
  | x :: xs => 1 + size x + sizeL xs
def sizeM : List (List Nat × JVal) → Nat
  | [] => 0
  | (_, x) :: ms => 1 + size x + sizeM ms
end

/-- the first byte of a printed value: never `]`, `}`, `,`, and it selects the reader's branch -/
theorem print_head (v : JVal) (h : WF v) : ∃ c t, print v = c :: t ∧ c ≠ 93 ∧ c ≠ 125 := by
  cases v with
  | null => exact ⟨_, _, rfl, by decide, by decide⟩
  | bool b => cases b <;> exact ⟨_, _, rfl, by decide, by decide⟩
  | num tok =>
    obtain ⟨c, t, e, hh, _⟩ := isNumber_spec (by simpa [WF] using h)
    refine ⟨c, t, by simp [print, e], ?_, ?_⟩ <;>
      (intro hc; subst hc; revert hh; decide)
  | str s => exact ⟨34, _, rfl, by decide, by decide⟩
  | arr xs => exact ⟨91, _, rfl, by decide, by decide⟩
  | obj ms => exact ⟨123, _, rfl, by decide, by decide⟩

theorem noNum_cons {c : Nat} {r : List Nat} (h : isNumChar c = false) : NoNum (c :: r) := by
  intro c' r' e
  cases e; exact h

theorem dropLit_append (lit rest : List Nat) : dropLit lit (lit ++ rest) = some rest := by
  induction lit with
  | nil => rfl
  | cons l ls ih => simp [dropLit, ih]

theorem printElems_head (x : JVal) (xs : List JVal) (h : WF x) :
    ∃ d t, printElems (x :: xs) = d :: t ∧ d ≠ 93 := by
  obtain ⟨c, t, e, h1, _⟩ := print_head x h
  cases xs with
  | nil => exact ⟨c, t, by simp [printElems, e], h1⟩
  | cons y r => exact ⟨c, t ++ 44 :: printElems (y :: r), by simp [printElems, e], h1⟩

theorem noNum_93 (r : List Nat) : NoNum (93 :: r) := noNum_cons (by decide)
theorem noNum_44 (r : List Nat) : NoNum (44 :: r) := noNum_cons (by decide)
theorem noNum_125 (r : List Nat) : NoNum (125 :: r) := noNum_cons (by decide)

mutual
theorem readVal_print : ∀ (v : JVal) (fuel : Nat) (rest : List Nat), WF v → size v ≤ fuel → NoNum rest →
    readVal fuel (print v ++ rest) = some (v, rest)
  | .null, fuel, rest, _, hf, _ => by
    cases fuel with
    | zero => simp [size] at hf
    | succ f => simp [print, readVal, dropLit]
  | .bool true, fuel, rest, _, hf, _ => by
    cases fuel with
    | zero => simp [size] at hf
    | succ f => simp [print, readVal, dropLit]
  | .bool false, fuel, rest, _, hf, _ => by
    cases fuel with
    | zero => simp [size] at hf
    | succ f => simp [print, readVal, dropLit]
  | .num tok, fuel, rest, hw, hf, hn => by
    cases fuel with
    | zero => simp [size] at hf
    | succ f =>
      have hnum : isNumber tok = true := by simpa [WF] using hw
      obtain ⟨c, t, e, hh, hall⟩ := isNumber_spec hnum
      have hc : c = 45 ∨ (48 ≤ c ∧ c ≤ 57) := by simpa [numHead, isDigit] using hh
      have hsp := spanNum_append tok rest hall hn
      subst e
      simp only [print, List.cons_append] at hsp ⊢
      have h1 : ¬ c = 34 := by omega
      have h2 : ¬ c = 91 := by omega
      have h3 : ¬ c = 123 := by omega
      have h4 : ¬ c = 116 := by omega
      have h5 : ¬ c = 102 := by omega
      have h6 : ¬ c = 110 := by omega
      simp only [readVal, h1, h2, h3, h4, h5, h6, if_false, hsp, hnum, if_true]
  | .str s, fuel, rest, _, hf, _ => by
    cases fuel with
    | zero => simp [size] at hf
    | succ f =>
      have : print (.str s) ++ rest = 34 :: (escape s ++ 34 :: rest) := by simp [print, jstr]
      rw [this]
      simp only [readVal, if_true, readStr_jstr]
  | .arr [], fuel, rest, _, hf, _ => by
    cases fuel with
    | zero => simp [size] at hf
    | succ f => simp [print, printElems, readVal]
  | .arr (x :: xs), fuel, rest, hw, hf, hn => by
    cases fuel with
    | zero => simp [size] at hf
    | succ f =>
      have hw' : WFL (x :: xs) := by simpa [WF] using hw
      obtain ⟨d, t, e, hd⟩ := printElems_head x xs hw'.1
      have hs : sizeL (x :: xs) ≤ f := by simp only [size] at hf; omega
      have := readElems_print (x :: xs) f rest [] (by simp) hw' hs
      have e2 : print (.arr (x :: xs)) ++ rest = 91 :: (d :: (t ++ 93 :: rest)) := by
        simp [print, e]
      rw [e, List.cons_append] at this
      rw [e2]
      simp only [readVal, show ¬ (91 : Nat) = 34 by decide, if_false, if_true, hd]
      simpa using this
  | .obj [], fuel, rest, _, hf, _ => by
    cases fuel with
    | zero => simp [size] at hf
    | succ f => simp [print, printMembers, readVal]
  | .obj ((k, x) :: ms), fuel, rest, hw, hf, hn => by
    cases fuel with
    | zero => simp [size] at hf
    | succ f =>
      have hw' : WFM ((k, x) :: ms) := by simpa [WF] using hw
      have hs : sizeM ((k, x) :: ms) ≤ f := by simp only [size] at hf; omega
      have := readMembers_print ((k, x) :: ms) f rest [] (by simp) hw' hs
      have e : ∃ t, printMembers ((k, x) :: ms) = 34 :: t := by
        cases ms with
        | nil => exact ⟨escape k ++ 34 :: 58 :: print x, by simp [printMembers, jstr]⟩
        | cons m r =>
          exact ⟨escape k ++ 34 :: 58 :: (print x ++ 44 :: printMembers (m :: r)), by simp [printMembers, jstr]⟩
      obtain ⟨t, e⟩ := e
      have e2 : print (.obj ((k, x) :: ms)) ++ rest = 123 :: (34 :: (t ++ 125 :: rest)) := by
        simp [print, e]
      rw [e, List.cons_append] at this
      rw [e2]
      simp only [readVal, show ¬ (123 : Nat) = 34 by decide, show ¬ (123 : Nat) = 91 by decide,
        show ¬ (34 : Nat) = 125 by decide, if_false, if_true]
      simpa using this
theorem readElems_print : ∀ (xs : List JVal) (fuel : Nat) (rest : List Nat) (acc : List JVal), xs ≠ [] → WFL xs →
    sizeL xs ≤ fuel →
    readElems fuel (printElems xs ++ 93 :: rest) acc = some (.arr (acc.reverse ++ xs), rest)
  | [], _, _, _, h, _, _ => absurd rfl h
  | [x], fuel, rest, acc, _, hw, hf => by
    cases fuel with
    | zero => simp [sizeL] at hf
    | succ f =>
      have hx : size x ≤ f := by simp only [sizeL] at hf; omega
      have := readVal_print x f (93 :: rest) hw.1 hx (noNum_93 rest)
      simp only [printElems, readElems, this]
      simp
  | x :: y :: r, fuel, rest, acc, _, hw, hf => by
    cases fuel with
    | zero => simp [sizeL] at hf
    | succ f =>
      have hx : size x ≤ f := by simp only [sizeL] at hf ⊢; omega
      have hr : sizeL (y :: r) ≤ f := by simp only [sizeL] at hf ⊢; omega
      have h1 := readVal_print x f (44 :: (printElems (y :: r) ++ 93 :: rest)) hw.1 hx (noNum_44 _)
      have h2 := readElems_print (y :: r) f rest (x :: acc) (by simp) hw.2 hr
      have e : printElems (x :: y :: r) ++ 93 :: rest = print x ++ 44 :: (printElems (y :: r) ++ 93 :: rest) := by
        simp [printElems]
      rw [e]
      simp only [readElems, h1, if_true, h2]
      simp
theorem readMembers_print : ∀ (ms : List (List Nat × JVal)) (fuel : Nat) (rest : List Nat)
    (acc : List (List Nat × JVal)), ms ≠ [] → WFM ms → sizeM ms ≤ fuel →
    readMembers fuel (printMembers ms ++ 125 :: rest) acc = some (.obj (acc.reverse ++ ms), rest)
  | [], _, _, _, h, _, _ => absurd rfl h
  | [(k, x)], fuel, rest, acc, _, hw, hf => by
    cases fuel with
    | zero => simp [sizeM] at hf
    | succ f =>
      have hx : size x ≤ f := by simp only [sizeM] at hf; omega
      have h1 := readVal_print x f (125 :: rest) hw.1 hx (noNum_125 rest)
      have e : printMembers [(k, x)] ++ 125 :: rest = 34 :: (escape k ++ 34 :: (58 :: (print x ++ 125 :: rest))) := by
        simp [printMembers, jstr]
      rw [e]
      simp only [readMembers, if_true, readStr_jstr, h1]
      simp
  | (k, x) :: m :: r, fuel, rest, acc, _, hw, hf => by
    cases fuel with
    | zero => simp [sizeM] at hf
    | succ f =>
      have hx : size x ≤ f := by simp only [sizeM] at hf ⊢; omega
      have hr : sizeM (m :: r) ≤ f := by simp only [sizeM] at hf ⊢; omega
      have h1 := readVal_print x f (44 :: (printMembers (m :: r) ++ 125 :: rest)) hw.1 hx (noNum_44 _)
      have h2 := readMembers_print (m :: r) f rest ((k, x) :: acc) (by simp) hw.2 hr
      have e : printMembers ((k, x) :: m :: r) ++ 125 :: rest =
          34 :: (escape k ++ 34 :: (58 :: (print x ++ 44 :: (printMembers (m :: r) ++ 125 :: rest)))) := by
        simp [printMembers, jstr]
      rw [e]
      simp only [readMembers, if_true, readStr_jstr, h1, h2]
      simp
end


mutual
theorem size_le_print : ∀ (v : JVal), WF v → size v ≤ (print v).length
  | .null, _ => by simp [size, print]
  | .bool true, _ => by simp [size, print]
  | .bool false, _ => by simp [size, print]
  | .num tok, hw => by
    obtain ⟨c, t, e, _, _⟩ := isNumber_spec (by simpa [WF] using hw)
    simp [size, print, e]
  | .str s, _ => by simp [size, print, jstr]
  | .arr xs, hw => by
    have := sizeL_le_print xs (by simpa [WF] using hw)
    simp only [size, print, List.length_cons, List.length_append, List.length_nil]
    omega
  | .obj ms, hw => by
    have := sizeM_le_print ms (by simpa [WF] using hw)
    simp only [size, print, List.length_cons, List.length_append, List.length_nil]
    omega
theorem sizeL_le_print : ∀ (xs : List JVal), WFL xs → sizeL xs ≤ (printElems xs).length + 1
  | [], _ => by simp [sizeL]
  | [x], hw => by
    have := size_le_print x hw.1
    simp only [sizeL, printElems]; omega
  | x :: y :: r, hw => by
    have h1 := size_le_print x hw.1
    have h2 := sizeL_le_print (y :: r) hw.2
    simp only [sizeL, printElems, List.length_append, List.length_cons] at h2 ⊢
    omega
theorem sizeM_le_print : ∀ (ms : List (List Nat × JVal)), WFM ms → sizeM ms ≤ (printMembers ms).length + 1
  | [], _ => by simp [sizeM]
  | [(k, x)], hw => by
    have := size_le_print x hw.1
    simp only [sizeM, printMembers, List.length_append, List.length_cons]; omega
  | (k, x) :: m :: r, hw => by
    have h1 := size_le_print x hw.1
    have h2 := sizeM_le_print (m :: r) hw.2
    simp only [sizeM, printMembers, List.length_append, List.length_cons] at h2 ⊢
    omega
end

/-- **the reader inverts the printer** on every tree whose number tokens are JSON numbers -/
theorem read_print (v : JVal) (h : WF v) : read (print v) = some v := by
  have := readVal_print v ((print v).length + 1) [] h (by have := size_le_print v h; omega)
    (by intro c r e; cases e)
  simp only [List.append_nil] at this
  simp [read, this]

theorem readLine_print (v : JVal) (h : WF v) : readLine (print v ++ [10]) = some v := by
  simp [readLine, read_print v h]

end JsonTree

#print axioms JsonTree.read_print
#print axioms JsonTree.readLine_print
