import Props.C13XLemmas
import Props.C13
/-!
# C13 over the extended model (`Model/KeepAliveX.lean`)

Every schedule (`ReachableX`) of the model extended by slot guards whose drop panics in `close()` (`gSendFail`: the
sender goes away without sending — `guardDropPanicked`, ghost `Slot.failed`) and by slot fields replaced while their
guard is alive (`slotReplace`, orphan guards).  The theorems are per slot and make no assumption about the other
slots: a failed or replaced sibling changes nothing for a slot ("no partial, no lost sibling values").
-/
namespace KeepAlive

variable {cfg : List (Bool × Nat)} {x x' : StX}

theorem slotOkX_fresh' (l : Bool) (v : Nat) : SlotOkX ({ lazy := l, init := v } : Slot) := by
  constructor <;> simp

theorem sinvXx_init (cfg : List (Bool × Nat)) : SInvX (initX (cfg.map fresh)).b := sinvX_init cfg

theorem sinvXx_dropFG {s : St} (hs : SInvX s) : SInvX (dropFG s) := by
  refine sinvX_same_slots hs ?_ ?_ ?_ ?_ <;> simp [dropFG, relG_more, relG_frozen] <;> omega

theorem sinvXx_step {e : EvX} (hx : InvX x) (hs : SInvX x.b) (h : stepX x e = some x') : SInvX x'.b := by
  cases e
  case base e =>
    simp only [stepX] at h
    split at h
    · cases h
    · cases hst : step x.b e with
      | none => simp [hst] at h
      | some b' => simp [hst] at h; subst h; exact sinvX_step hx.inv hs hst
  case gSendFail i =>
    simp only [stepX] at h
    split at h
    · cases h
    · rename_i sl hsl
      split at h
      · rename_i hg
        cases h
        obtain ⟨a1, a2, a3, a4, a5, a6, a7, a8, a9⟩ := hs.ok sl (mem_of_getElem? hsl)
        have hns : sl.sentOk = false := by
          cases hso : sl.sentOk with
          | false => rfl
          | true => exact absurd hg (a3 hso).1
        refine sinvX_setSlot hs hsl ?_ rfl ?_
        · constructor <;> grind
        · intro _ _ _ _ hf; simp at hf
      · cases h
  case slotReplace i v =>
    simp only [stepX] at h
    split at h
    · cases h
    · rename_i sl hsl
      split at h
      · rename_i hu
        cases h
        have hcl := not_closed_of_usableX hs hu (mem_of_getElem? hsl)
        refine sinvX_setSlot hs hsl (slotOkX_fresh' _ _) (by simp [hcl]) ?_
        intro hc; simp at hc
      · cases h
  case oDelay j =>
    simp only [stepX] at h
    (repeat' split at h) <;> (try cases h) <;> first | exact hs | exact sinvXx_dropFG hs
  case oGmut j v =>
    simp only [stepX] at h
    (repeat' split at h) <;> (try cases h) <;> exact hs
  case oSend j =>
    simp only [stepX] at h
    (repeat' split at h) <;> (try cases h) <;> exact hs
  case oSendFail j =>
    simp only [stepX] at h
    (repeat' split at h) <;> (try cases h) <;> exact hs
  case oRelease j =>
    simp only [stepX] at h
    split at h
    · cases h
    · split at h
      · cases h
        split
        · exact sinvXx_dropFG hs
        · exact hs
      · cases h

theorem sinvX_reachableX (hr : ReachableX cfg x) : SInvX x.b := by
  induction hr with
  | init => exact sinvXx_init cfg
  | step e hr' h ih => exact sinvXx_step (invX_reachable hr') ih h

/-- **C13 (extended): present iff sent first, for every slot, whatever happened to its siblings.** The close result of
a field is `Some` of its guard's last value exactly when that guard's send preceded the field's close, `None`
otherwise. -/
theorem c13_x_closed_iff_sent (hr : ReachableX cfg x) {sl : Slot} (hm : sl ∈ x.b.slots) {r : Option Nat}
    (hc : sl.closedAs = some r) : r = if sl.sentOk then some sl.gval else none :=
  ((sinvX_reachableX hr).ok sl hm).closed r hc

/-- **C13 (extended): a guard whose drop panicked in `close()` contributes nothing — and the close still has a result.**
Its slot closes to `None` (the documented "its fields are dropped from your entry"). -/
theorem c13_x_failed_absent (hr : ReachableX cfg x) {sl : Slot} (hm : sl ∈ x.b.slots) (hf : sl.failed = true)
    {r : Option Nat} (hc : sl.closedAs = some r) : r = none := by
  have hok := (sinvX_reachableX hr).ok sl hm
  have := hok.closed r hc
  simpa [(hok.failedg hf).2.2] using this

/-- **C13 (extended): wait mode never loses the value.** For every opened slot whose (current) guard is in wait mode and
did not fail: if the field has been closed and no force-flush guard has begun to drop, the result is `Some` of the
guard's last value — with no hypothesis about the other slots: siblings that failed, or whose field was replaced, take
nothing away. -/
theorem c13_x_wait_never_lost (hr : ReachableX cfg x) {sl : Slot} (hm : sl ∈ x.b.slots) {r : Option Nat}
    (hc : sl.closedAs = some r) (ho : sl.opened = true) (hw : sl.mode = .wait) (hd : x.b.dgBegun = 0)
    (hf : sl.failed = false) : r = some sl.gval := by
  have hs := sinvX_reachableX hr
  have hsent := hs.g1 sl hm (by simp [hc]) ho hw hd hf
  have := (hs.ok sl hm).closed r hc
  simpa [hsent] using this

/-- the new events touch one slot field only (frame): every sibling is literally unchanged -/
theorem c13_x_siblings_untouched {i j : Nat} {v : Nat} {e : EvX} (he : e = .gSendFail i ∨ e = .slotReplace i v)
    (h : stepX x e = some x') (hij : i ≠ j) : x'.b.slots[j]? = x.b.slots[j]? := by
  rcases he with rfl | rfl <;> simp only [stepX] at h <;> (repeat' split at h) <;> (try cases h) <;>
    simp [setSlot, getElem?_modifyAt, hij]

/-- orphan operations never touch a slot field -/
theorem c13_x_orphans_touch_no_slot {e : EvX}
    (he : match e with
      | .oDelay _ | .oGmut .. | .oSend _ | .oSendFail _ | .oRelease _ => True
      | _ => False)
    (h : stepX x e = some x') : x'.b.slots = x.b.slots := by
  cases e <;> simp only at he <;> simp only [stepX] at h <;> (repeat' split at h) <;> (try cases h) <;>
    simp [(dropFG_fields _).2.1]

/-- **C13 (extended): `Slot::close` is total**, also for a slot whose sender went away without sending. -/
theorem c13_x_close_total (ha : anyApp x.b = true) :
    (stepX x (.base .closeSlot)).isSome = true ∨ (stepX x (.base .emit)).isSome = true := by
  cases hc : allClosed x.b.slots with
  | true => right; simp only [stepX, needsFree, step, ha, hc]; simp
  | false =>
    left
    obtain ⟨l', hl⟩ := closeFirst_some hc
    simp only [stepX, needsFree, step, ha, hl]; simp

/-! ## Non-vacuity -/

/-- the C13-j shape with a sibling: slot 0 in wait mode whose guard's `close()` panics, slot 1 in wait mode closing
normally; the owner is gone; the failing guard's unwind releases its flush guard, the sibling's drop the last one:
the entry is appended once, without slot 0, with slot 1's value. -/
example : (runX (initX [fresh (false, 3), fresh (false, 6)]) [.base .newFG, .base (.open 0 .wait 0), .base .newFG,
            .base (.open 1 .wait 0), .base (.gmut 1 5), .base .refDrop, .base .pDecV, .base .pDecG,
            .gSendFail 0, .base (.gRelease 0), .base (.gSend 1), .base (.gRelease 1), .base .innerDrop,
            .base .closeSlot, .base .closeSlot, .base .emit]).map (fun x => (x.b.appended, inFlightX x))
    = some ([⟨0, 0, [none, some 5]⟩], false) := by decide

/-- `wait_for_data` on a slot whose guard's drop panicked is ready with no data -/
example : (runX (initX [fresh (false, 3)]) [.base (.open 0 .discard 0), .gSendFail 0, .base (.gRelease 0),
            .base (.waitBegin 0)]).map (fun x => (x.b.borrowed, x.b.slots.map (·.data)))
    = some (none, [none]) := by decide

end KeepAlive

#print axioms KeepAlive.c13_x_closed_iff_sent
#print axioms KeepAlive.c13_x_failed_absent
#print axioms KeepAlive.c13_x_wait_never_lost
#print axioms KeepAlive.c13_x_siblings_untouched
#print axioms KeepAlive.c13_x_orphans_touch_no_slot
#print axioms KeepAlive.c13_x_close_total
